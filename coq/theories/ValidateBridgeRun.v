(* ValidateBridgeRun.v -- the end-to-end statements: a document tree whose rendering the repaired validator model
   reports without fatal issue, and which satisfies the side conditions vb_docb, vb_hidden_freshb, vb_sideb
   (ValidateBridge.v), flattens to tables that pass LegalHistWf.wf_histb with a compound root; hence every
   configuration of every run of the large-step and the fast engine models is legal.  The history-free stage
   (wf_initb), what validation says about the clauses of FlattenWf.core_treeb, witnesses for the side conditions
   (_refuted), non-vacuity examples. *)
From V Require Import Base NameMatch Chart Exec Large Fast LargeLemmas Interp Legal SetLemmas LegalAbstract LegalLarge LegalRun
     WfCore LegalOracle LegalHistBase LegalHistRun LegalHistWf LegalHistOracle LegalHistFast LegalHistFastRun
     FlattenWf FlattenWfTree FlattenWfStruct FlattenWfRun TreeLemmas Validate ValidateLemmas
     ValidateBridge ValidateBridgeDoc ValidateBridgePos ValidateBridgeIds ValidateBridgeClauses
     ValidateBridgeRows ValidateBridgeFlat ValidateBridgePseudo ValidateBridgeResort.
Local Open Scope nat_scope.

(* ------------------------------------------------------------------ unique numbers on the whole tree *)

Lemma countN_app s a b : countN s (a ++ b) = countN s a + countN s b.
Proof. induction a as [|x r IH]; [reflexivity|]. cbn [app countN]. rewrite IH. lia. Qed.

Lemma countN_zero s l : ~ In s l -> countN s l = 0.
Proof.
  induction l as [|x r IH]; intros H; [reflexivity|]. cbn [countN]. destruct (N.eqb_spec x s) as [->|_].
  - exfalso. apply H. now left.
  - rewrite IH; [reflexivity|]. intros Hin. apply H. now right.
Qed.

Lemma countN_NoDup s l : NoDup l -> In s l -> countN s l = 1.
Proof.
  induction 1 as [|x r Hx _ IH]; intros Hin; [destruct Hin|]. cbn [countN]. destruct (N.eqb_spec x s) as [->|Hne].
  - rewrite countN_zero by exact Hx. reflexivity.
  - destruct Hin as [E|Hin]; [congruence|]. now rewrite IH.
Qed.

Lemma NoDup_countN l : (forall s, In s l -> countN s l = 1) -> NoDup l.
Proof.
  induction l as [|x r IH]; intros H; [constructor|].
  assert (Hx : ~ In x r).
  { intros Hin. pose proof (H x (or_introl eq_refl)) as C. cbn [countN] in C. rewrite N.eqb_refl in C.
    assert (countN x r >= 1); [|lia]. clear - Hin. induction r as [|y r IH]; [destruct Hin|]. cbn [countN].
    destruct Hin as [->|Hin]; [rewrite N.eqb_refl; lia | specialize (IH Hin); lia]. }
  constructor; [exact Hx|]. apply IH. intros s Hs. pose proof (H s (or_intror Hs)) as C. cbn [countN] in C.
  destruct (N.eqb_spec x s) as [->|_]; [contradiction | exact C].
Qed.

Lemma countN_split (P : tree -> bool) s l :
  countN s (map t_sid l) = countN s (map t_sid (filter P l)) + countN s (map t_sid (filter (fun w => negb (P w)) l)).
Proof.
  induction l as [|x r IH]; [reflexivity|]. cbn [map filter countN]. destruct (P x); cbn [negb map countN]; rewrite IH; lia.
Qed.

Lemma sids_nodup t : vb_docb t = true -> vb_hidden_freshb t = true -> NoDup (vsids_below t) -> NoDup (sids t).
Proof.
  intros Hd Hf Hv. destruct (vb_docb_spec t Hd) as [Hr _]. apply NoDup_countN. intros s Hs. unfold sids in *.
  apply in_map_iff in Hs as (w & Es & Hw). destruct (tvis w) eqn:Ev.
  - rewrite (countN_split tvis).
    assert (E1 : filter tvis (subtrees t) = filter tvis (tbelow t)).
    { rewrite subtrees_unfold. cbn [filter]. unfold tvis at 1. rewrite Hr. reflexivity. }
    rewrite E1. fold (vsids_below t). rewrite (countN_NoDup s _ Hv).
    + rewrite countN_zero; [reflexivity|]. intros Hin. apply in_map_iff in Hin as (w' & Es' & Hw'). apply filter_In in Hw' as [Hw' Hh].
      apply negb_true_iff in Hh. assert (tvis w' = true); [|congruence].
      apply (same_sid_visible t w w' Hf Hw Hw'); [congruence | exact Ev].
    + unfold vsids_below. rewrite <- Es. apply in_map. apply filter_In. split; [|exact Ev].
      destruct (subtrees_cases t w Hw) as [->|H]; [|exact H]. unfold tvis in Ev. rewrite Hr in Ev. discriminate.
  - unfold vb_hidden_freshb in Hf. rewrite forallb_forall in Hf. specialize (Hf w Hw). unfold tvis in Ev. apply negb_false_iff in Ev.
    rewrite Ev in Hf. apply Nat.eqb_eq in Hf. unfold sids in Hf. now rewrite Es in Hf.
Qed.

(* ------------------------------------------------------------------ validated documents: tables pass wf_histb *)

Definition validated (t : tree) : Prop := exists l, validate vv_fixed (gdoc_of_tree t) = Ok l /\ no_fatal l = true.

Theorem validated_flat_hyp t : vb_docb t = true -> vb_hidden_freshb t = true -> validated t -> vb_sideb t = true ->
  FlatHyp (resort t).
Proof.
  intros Hd Hf (l & Hv & Hn) Hs. pose proof (validated_tree_lemma t l Hd Hf Hv Hn) as V.
  apply flat_hyp_resort; [exact V | apply sids_nodup; [exact Hd | exact Hf | exact (vt_unique t V)] | exact Hd | exact Hs].
Qed.

Theorem validated_wf_hist_lemma t : vb_docb t = true -> vb_hidden_freshb t = true -> validated t -> vb_sideb t = true ->
  forall late, wf_histb (flatten late t) = true /\ fs_type (st (flatten late t) 0) = FCompound.
Proof. intros Hd Hf Hv Hs late. apply flat_wf_hist. now apply validated_flat_hyp. Qed.

(* every configuration of every run is legal: large-step engine *)
Theorem validated_run_legal_lemma t : vb_docb t = true -> vb_hidden_freshb t = true -> validated t -> vb_sideb t = true ->
  forall late xv fuel evs,
    let c := flatten late t in
    CfgOK c (fst (run_loop c lstate (large_step lg_fixed xv c) l_cfg fuel l_pristine x_init evs)).
Proof.
  intros Hd Hf Hv Hs late xv fuel evs c. destruct (validated_wf_hist_lemma t Hd Hf Hv Hs late) as [W R]. now apply run_legal_history.
Qed.

Theorem validated_run_legal_strong_lemma t : vb_docb t = true -> vb_hidden_freshb t = true -> validated t -> vb_sideb t = true ->
  forall late xv fuel evs,
    let c := flatten late t in
    CfgOKH c (fst (run_loop c lstate (large_step lg_fixed xv c) l_cfg fuel l_pristine x_init evs)).
Proof.
  intros Hd Hf Hv Hs late xv fuel evs c. destruct (validated_wf_hist_lemma t Hd Hf Hv Hs late) as [W R]. now apply run_legal_history_strong.
Qed.

(* ... fast engine *)
Theorem validated_run_legal_fast_lemma t : vb_docb t = true -> vb_hidden_freshb t = true -> validated t -> vb_sideb t = true ->
  forall late xv fuel evs,
    let c := flatten late t in
    CfgOK c (fst (run_loop c lstate (fast_step xv c) l_cfg fuel l_pristine x_init evs)).
Proof.
  intros Hd Hf Hv Hs late xv fuel evs c. destruct (validated_wf_hist_lemma t Hd Hf Hv Hs late) as [W R]. now apply fast_run_legal_history.
Qed.

Theorem validated_run_legal_fast_strong_lemma t : vb_docb t = true -> vb_hidden_freshb t = true -> validated t -> vb_sideb t = true ->
  forall late xv fuel evs,
    let c := flatten late t in
    CfgOKH c (fst (run_loop c lstate (fast_step xv c) l_cfg fuel l_pristine x_init evs)).
Proof.
  intros Hd Hf Hv Hs late xv fuel evs c. destruct (validated_wf_hist_lemma t Hd Hf Hv Hs late) as [W R]. now apply fast_run_legal_history_strong.
Qed.

(* one step from any legal state *)
Theorem validated_step_legal_lemma t : vb_docb t = true -> vb_hidden_freshb t = true -> validated t -> vb_sideb t = true ->
  forall late xv, let c := flatten late t in
    (forall l x, CfgOKH c l -> CfgOKH c (fst (fst (large_step lg_fixed xv c l x)))) /\
    (forall l x, CfgOKH c l -> CfgOKH c (fst (fst (fast_step xv c l x)))).
Proof.
  intros Hd Hf Hv Hs late xv c. destruct (validated_wf_hist_lemma t Hd Hf Hv Hs late) as [W R].
  split; [now apply step_legal_history | now apply fast_step_legal_history].
Qed.

(* ------------------------------------------------------------------ stage (a): documents without pseudo-states *)

Lemma kinds_no_pseudo t u : ct_kindsb t = true -> In u (subtrees t) -> is_pseudo_kind (t_kind u) = false.
Proof. intros H Hu. apply (proj1 (ct_kindsb_spec t) H) in Hu. destruct (t_kind u); try discriminate; reflexivity. Qed.

Lemma kinds_kid t u k : ct_kindsb t = true -> In u (subtrees t) -> In k (t_kids u) -> is_pseudo_kind (t_kind k) = false.
Proof.
  intros H Hu Hk. apply (kinds_no_pseudo t k H). eapply subtrees_trans; [exact Hu|]. eapply subtrees_kid; [exact Hk | apply subtrees_self].
Qed.

(* without pseudo-states the only side condition left is "the root has a child state" *)
Lemma core_side t : ct_kindsb t = true -> ct_rootb t = true -> vb_sideb t = true.
Proof.
  intros K R. unfold vb_sideb. rewrite R. cbn [andb].
  assert (A : vb_hist_parentb t = true).
  { unfold vb_hist_parentb. apply forallb_forall. intros u Hu. destruct (t_kind u); try reflexivity. apply forallb_forall. intros k Hk.
    pose proof (kinds_kid t u k K Hu Hk) as E. destruct (t_kind k); try discriminate; reflexivity. }
  assert (B : forall sel, (forall k, sel k = true -> is_pseudo_kind k = true) -> vb_pseudo_properb sel t = true).
  { intros sel Hsel. unfold vb_pseudo_properb. apply forallb_forall. intros p Hp. apply forallb_forall. intros h Hh.
    destruct (sel (t_kind h)) eqn:E; [|reflexivity]. apply Hsel in E. rewrite (kinds_kid t p h K Hp Hh) in E. discriminate. }
  assert (C : vb_hist_disjointb t = true).
  { unfold vb_hist_disjointb. apply forallb_forall. intros q Hq.
    destruct (existsb _ (t_kids q)) eqn:E; [|reflexivity]. apply existsb_exists in E as (k & Hk & Hd).
    pose proof (kinds_kid t q k K Hq Hk) as E. destruct (t_kind k); discriminate. }
  rewrite A, C. unfold vb_initial_properb. rewrite B; [reflexivity|].
  intros k. destruct k; try discriminate; reflexivity.
Qed.

Theorem validated_core_wf_init_lemma t : ct_kindsb t = true -> vb_docb t = true -> vb_hidden_freshb t = true -> validated t ->
  ct_rootb t = true ->
  forall late, wf_initb (flatten late t) = true /\ fs_type (st (flatten late t) 0) = FCompound.
Proof.
  intros K Hd Hf Hv R late. pose proof (validated_flat_hyp t Hd Hf Hv (core_side t K R)) as FH.
  destruct (flat_wf_hist late t FH) as [W RC]. split; [|exact RC]. unfold wf_initb. rewrite W. cbn [andb].
  unfold no_histb. rewrite (g_nstates late t). apply fseq. intros i Hi. rewrite (f_kd late t i Hi), type_hist.
  pose proof (f_in t i Hi) as Hin. apply in_resort_subtrees in Hin as (u0 & Hu0 & E). rewrite E, resort_kind.
  pose proof (kinds_no_pseudo t u0 K Hu0) as P. destruct (t_kind u0); try discriminate; reflexivity.
Qed.

(* what a clean validation says about the clauses of FlattenWf.core_treeb *)
Theorem validated_core_clauses_lemma t : vb_docb t = true -> vb_hidden_freshb t = true -> validated t ->
  ct_uniqueb t = true /\ ct_no_root_targetb t = true /\ ct_target_setsb t = true /\
  (forall u l, In u (subtrees t) -> t_kind u <> KInitial -> t_initattr u = Some l ->
     l <> [] /\ (forall s, In s l -> In s (vsids_below u)) /\ target_set_okb t l = true).
Proof.
  intros Hd Hf (l & Hv & Hn). pose proof (validated_tree_lemma t l Hd Hf Hv Hn) as V.
  pose proof (sids_nodup t Hd Hf (vt_unique t V)) as U. split; [now apply nodupNb_NoDup|]. split; [|split].
  - unfold ct_no_root_targetb. apply forallb_forall. intros w Hw. apply forallb_forall. intros x Hx.
    destruct (tt_targets x) as [tl|] eqn:El; [|reflexivity]. apply negb_true_iff. destruct (memN (t_sid t) tl) eqn:E; [|reflexivity]. exfalso.
    apply memN_In in E. destruct (vt_targets t V w x tl Hw Hx El) as (_ & Hin & _). specialize (Hin _ E).
    unfold sids in U. rewrite subtrees_unfold in U. cbn [map] in U. inversion U as [|? ? Hnot _]; subst. apply Hnot.
    unfold vsids_below in Hin. apply in_map_iff in Hin as (w' & Es & Hw'). apply filter_In in Hw' as [Hw' _].
    rewrite <- Es. apply in_map. exact Hw'.
  - unfold ct_target_setsb. apply forallb_forall. intros w Hw. apply forallb_forall. intros x Hx.
    destruct (tt_targets x) as [tl|] eqn:El; [|reflexivity]. now destruct (vt_targets t V w x tl Hw Hx El) as (_ & _ & TS).
  - exact (vt_initattr t V).
Qed.

Theorem validated_core_treeb_lemma t : ct_kindsb t = true -> vb_docb t = true -> vb_hidden_freshb t = true -> validated t ->
  ct_rootb t = true -> ct_initialb t = true -> core_treeb t = true.
Proof.
  intros K Hd Hf Hv R I. destruct (validated_core_clauses_lemma t Hd Hf Hv) as (A & B & C & _). unfold core_treeb.
  now rewrite K, R, A, I, B, C.
Qed.

(* ------------------------------------------------------------------ witnesses and examples *)
Local Open Scope N_scope.

Definition vtr (v : N) (ev : option bytes) (tg : option (list N)) : ttrans :=
  {| tt_vid := v; tt_event := ev; tt_cond := None; tt_targets := tg; tt_internal := false; tt_body := [] |}.
Definition vnd (k : skind) (s : N) (ini : option (list N)) (trl : list ttrans) (kids : list tree) : tree :=
  TNode k s ini trl [] [] [] kids.

Definition validatedb_v (v : vvariant) (t : tree) : bool :=
  match validate v (gdoc_of_tree t) with Ok l => no_fatal l | _ => false end.
Definition validatedb : tree -> bool := validatedb_v vv_fixed.

Lemma validatedb_validated t : validatedb t = true -> validated t.
Proof. unfold validatedb, validatedb_v, validated. destruct (validate vv_fixed (gdoc_of_tree t)) as [l| |]; try discriminate. intros H. now exists l. Qed.

Definition side_clauses (t : tree) : list bool :=
  [vb_docb t; vb_hidden_freshb t; ct_rootb t; vb_hist_parentb t; vb_default_properb t; vb_initial_properb t; vb_hist_disjointb t].

Definition final_cfg_large (t : tree) (evs : list bytes) (fuel : nat) : list nat :=
  let c := flatten false t in l_cfg (fst (run_loop c lstate (large_step lg_fixed ex_fixed c) l_cfg fuel l_pristine x_init evs)).
Definition final_cfg_fast (t : tree) (evs : list bytes) (fuel : nat) : list nat :=
  let c := flatten false t in l_cfg (fst (run_loop c lstate (fast_step ex_fixed c) l_cfg fuel l_pristine x_init evs)).

(* a validated document that meets every side condition but the one marked false, and a run of both engine models
   that ends in an illegal configuration *)
Definition breaks_v (v : vvariant) (t : tree) (clauses : list bool) (evs : list bytes) : Prop :=
  validatedb_v v t = true /\ side_clauses t = clauses /\
  legal_configb (flatten false t) (final_cfg_large t evs 30) = false /\
  legal_configb (flatten false t) (final_cfg_fast t evs 30) = false.
Definition breaks : tree -> list bool -> list bytes -> Prop := breaks_v vv_fixed.

(* C02-K1 IS ACCEPTED BY THE VALIDATOR: the document kho_tree (a deep history above a state that owns a history)
   validates without fatal issue and fails only vb_hist_disjointb *)
Lemma hist_disjoint_needed_refuted : breaks kho_tree [true; true; true; true; true; true; false] [[101]].
Proof. vm_compute. repeat split; reflexivity. Qed.

(* <history id="s2"><transition target="s2"/></history>: the default transition of a history names the history itself.
   Accepted by the validator WITHOUT the check of patches/C19-history-default-pseudo-target.diff (vv_hist_unchecked:
   the scope check only asks for a child of the parent); on e the state s1 is left without an active child.  The
   repaired validator (vv_fixed) reports it. *)
Definition w_hist_self : tree :=
  vnd KScxml 0 None []
    [vnd KState 1 None [] [vnd KHistShallow 2 None [vtr 100 None (Some [2])] []; vnd KState 3 None [vtr 101 (Some [101]) (Some [2])] []]].
Lemma default_proper_needed_refuted :
  breaks_v vv_hist_unchecked w_hist_self [true; true; true; true; false; true; true] [[101]] /\ validatedb w_hist_self = false.
Proof. vm_compute. repeat split; reflexivity. Qed.

(* ... or another history whose default transition names the first one *)
Definition w_hist_cycle : tree :=
  vnd KScxml 0 None []
    [vnd KState 1 None [] [vnd KHistShallow 2 None [vtr 100 None (Some [4])] []; vnd KHistShallow 4 None [vtr 102 None (Some [2])] [];
                           vnd KState 3 None [vtr 101 (Some [101]) (Some [2])] []]].
Lemma default_proper_needed_cycle_refuted :
  breaks_v vv_hist_unchecked w_hist_cycle [true; true; true; true; false; true; true] [[101]] /\ validatedb w_hist_cycle = false.
Proof. vm_compute. repeat split; reflexivity. Qed.

(* <scxml/> without any state is accepted; the run is initialised with an empty configuration *)
Definition w_stateless : tree := vnd KScxml 0 None [] [].
Lemma root_child_needed_refuted : breaks w_stateless [true; true; false; true; true; true; true] [].
Proof. vm_compute. repeat split; reflexivity. Qed.

(* a nested <scxml> element: the validator does not look at its initial attribute *)
Definition w_nested_scxml : tree :=
  vnd KScxml 0 None [] [vnd KScxml 1 (Some [2; 3]) [] [vnd KState 2 None [] []; vnd KState 3 None [] []]].
Lemma doc_needed_refuted : breaks w_nested_scxml [false; true; true; true; true; true; true] [].
Proof. vm_compute. repeat split; reflexivity. Qed.

(* the tree gives the <initial> element of s1 the number 5, which is also the number of a state: the text has no such
   clash ("s5" is the state), Chart.flatten resolves the target 5 of the transition of s8 to the <initial> element *)
Definition w_hidden_clash : tree :=
  vnd KScxml 0 None []
    [vnd KState 8 None [vtr 100 (Some [101]) (Some [5; 7])] [];
     vnd KState 1 None [] [vnd KInitial 5 None [vtr 102 None (Some [2])] []; vnd KState 2 None [] []];
     vnd KParallel 3 None [] [vnd KState 4 None [] [vnd KState 5 None [] []]; vnd KState 6 None [] [vnd KState 7 None [] []]]].
Lemma hidden_fresh_needed_refuted : breaks w_hidden_clash [true; false; true; true; true; true; true] [[101]].
Proof. vm_compute. repeat split; reflexivity. Qed.

(* core_treeb's clause ct_initialb does not follow from validation: initial="s3" naming a grand-child is accepted *)
Lemma core_initial_not_validated_refuted :
  exists t, ct_kindsb t = true /\ side_clauses t = [true; true; true; true; true; true; true] /\ validatedb t = true /\
            ct_initialb t = false /\ core_treeb t = false /\ wf_initb (flatten false t) = true.
Proof. exists w_initial_deep. vm_compute. repeat split; reflexivity. Qed.

(* non-vacuity: documents with <initial>, deep and multiple initial attributes, parallel regions (hini_tree), with
   deep and shallow histories (hh_tree, h2_tree), the nested-parallel core document ex_tree2 and the document of the
   repaired fast-engine defect (fd_tree) are validated and meet every side condition *)
Example hypotheses_hold :
  forallb (fun t => validatedb t && forallb (fun b => b) (side_clauses t)) [hini_tree; hh_tree; h2_tree; ex_tree2; ex_tree; fd_tree] = true.
Proof. vm_compute. reflexivity. Qed.

(* the witnesses of the two limits of the legality theorem (no illegal run known): a history below <parallel>, an
   <initial> transition to a history.  Validated, every other side condition holds. *)
Definition w_hist_in_parallel : tree :=
  vnd KScxml 0 None []
    [vnd KParallel 1 None [vtr 103 (Some [102]) (Some [9])]
       [vnd KHistDeep 2 None [vtr 102 None (Some [3])] [];
        vnd KState 3 None [] [vnd KState 5 None [vtr 104 (Some [103]) (Some [6])] []; vnd KState 6 None [] []];
        vnd KState 4 None [] []];
     vnd KState 9 None [vtr 101 (Some [101]) (Some [2])] []].
Definition w_initial_to_hist : tree :=
  vnd KScxml 0 None []
    [vnd KState 1 None [vtr 105 (Some [102]) (Some [9])]
       [vnd KInitial 15 None [vtr 100 None (Some [2])] []; vnd KHistShallow 2 None [vtr 102 None (Some [3])] [];
        vnd KState 3 None [vtr 101 (Some [101]) (Some [4])] []; vnd KState 4 None [] []];
     vnd KState 9 None [vtr 106 (Some [103]) (Some [1])] []].
Example limits_outside_wf_hist :
  validatedb w_hist_in_parallel = true /\ side_clauses w_hist_in_parallel = [true; true; true; false; true; true; true] /\
  wf_histb (flatten false w_hist_in_parallel) = false /\
  legal_configb (flatten false w_hist_in_parallel) (final_cfg_large w_hist_in_parallel [[103]; [102]; [101]] 30) = true /\
  validatedb w_initial_to_hist = true /\ side_clauses w_initial_to_hist = [true; true; true; true; true; false; true] /\
  wf_histb (flatten false w_initial_to_hist) = false /\
  legal_configb (flatten false w_initial_to_hist) (final_cfg_large w_initial_to_hist [[101]; [102]; [103]] 30) = true.
Proof. vm_compute. repeat split; reflexivity. Qed.

(* the former side condition vb_default_properb follows from a clean validation (check IHistPseudoTarget) *)
Theorem validated_default_proper_lemma t : vb_docb t = true -> vb_hidden_freshb t = true -> validated t -> vb_default_properb t = true.
Proof.
  intros Hd Hf (l & Hv & Hn). pose proof (validated_tree_lemma t l Hd Hf Hv Hn) as V.
  unfold vb_default_properb, vb_pseudo_properb. apply forallb_forall. intros p Hp. apply forallb_forall. intros h Hh.
  destruct (is_hist_kind (t_kind h)) eqn:Eh; [|reflexivity].
  destruct (vt_history t V p h Hp Hh Eh) as (x & tl & Ex & El & _ & _ & _ & Hpr). rewrite Ex. cbn [forallb]. rewrite El, andb_true_r.
  apply forallb_forall. intros s Hs. apply memN_In. now apply Hpr.
Qed.
