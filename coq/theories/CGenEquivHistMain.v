(* CGenEquivHistMain.v -- C04 beyond the history-free core: the statements of props/Properties_C04.v about charts with
   pseudo-states (<initial>, deep / multiple initial attributes, shallow and deep <history>), in the form they are
   stated there.  hist_hyps collects the hypotheses: the repaired template, wf_histb, root compound, the transpiler's
   fragment (chart_c) and the chart conditions chart_h (CGenEquivHist.v; trans_lists is a theorem for every document:
   CGenEquivFlatten.v).  Proofs only. *)
From V Require Import Base NameMatch Chart Exec Large LargeLemmas Fast Interp Legal SetLemmas LegalAbstract LegalLarge LegalRun
                      WfCore CGen CGenLemmas SerializeCodecLemmas
                      LegalHistBase LegalHistEntry LegalHistStep LegalHistRun LegalHistWf LegalHistFastRun
                      CGenEquivContent CGenEquivStep CGenEquivMicro CGenEquivRun CGenEquivHist CGenEquivHistRun CGenEquivFlatten
                      CGenEquivMain.
Local Open Scope nat_scope.

Definition cv_repaired (cv : cg_variant) : Prop :=
  cg_tlf_first_byte cv = false /\ cg_hist_active_parent cv = false /\ cg_cover cv = CoverNone.

Lemma cg_repaired_is : cv_repaired cg_repaired.
Proof. repeat split. Qed.

Definition hist_hyps (c : fchart) : Prop :=
  wf_histb c = true /\ fs_type (st c 0) = FCompound /\ chart_c c = true /\ chart_h c = true.

(* a document needs no check of its transition lists *)
Definition doc_h (c : fchart) : bool := deep_alone c && cpl_plain c && sortedb (fs_completion (st c 0)).

Lemma chart_h_of_document late t : doc_h (flatten late t) = true -> chart_h (flatten late t) = true.
Proof.
  unfold doc_h, chart_h. intros E. apply andb_true_iff in E as [E S0]. apply andb_true_iff in E as [D P].
  now rewrite D, P, (trans_lists_flatten late t), S0.
Qed.

(* ---- the history and entry-set passes, statically ---- *)
Lemma cstep_equiv_entry_set_history_lemma cv c :
  cv_repaired cv -> hist_hyps c ->
  forall l evn, StOK c l ->
    let sel := cselect_all c (l_cfg l) evn in
    let ex := cexitset c (l_cfg l) sel in
    (forall hist, cremember cv c (l_cfg l) ex hist = fremember c (l_cfg l) ex hist) /\
    centry_set cv c (l_cfg l) ex (fremember c (l_cfg l) ex (l_hist l)) (ctargets c sel) sel =
    fentry_set c (l_cfg l) ex (fremember c (l_cfg l) ex (l_hist l)) (ctargets c sel) sel.
Proof.
  intros (Ht & Ha & Hco) (H & Hr & Hc & Hh) l evn Ok. cbv zeta. split.
  - intros hist. now apply hist_rem.
  - exact (hist_entry cv c Ha Hco H Hc Hh l evn Ok).
Qed.

Lemma cstep_equiv_entry_set_history_initial_lemma cv c :
  cv_repaired cv -> hist_hyps c ->
  forall hist, HistOK c hist ->
    centry_set cv c [] [] hist (fs_completion (st c 0)) [] = fentry_set c [] [] hist (fs_completion (st c 0)) [].
Proof. intros (Ht & Ha & Hco) (H & Hr & Hc & Hh) hist HH. exact (hist_entry0 cv c Ha Hco H Hr Hh hist HH). Qed.

(* ---- one call that takes transitions ---- *)
Lemma cstep_microstep_equiv_history_lemma cv xv c :
  cv_repaired cv -> hist_hyps c ->
  forall lc lf x y (ev : option event),
    same_machine_state lc lf -> csim x y -> StOK c lf ->
    cselect_all c (l_cfg lc) (option_map ev_name ev) <> [] ->
    let r1 := cfire cv c lc x (cselect_all c (l_cfg lc) (option_map ev_name ev)) in
    let r2 := fselect_and_step xv c lf y ev in
    same_machine_state (fst (fst r1)) (fst (fst r2)) /\ csim (snd (fst r1)) (snd (fst r2)) /\
    snd r1 = C_ERR_OK /\ snd r2 = RC_MICROSTEPPED.
Proof.
  intros (Ht & Ha & Hco) (H & Hr & Hc & Hh) lc lf x y ev L R Ok Hne.
  exact (cfire_hist cv xv c Ht Ha Hco H Hc Hh lc lf x y ev L R Ok Hne).
Qed.

(* ---- every call ---- *)
Lemma cstep_step_equiv_history_lemma cv xv c :
  cv_repaired cv -> hist_hyps c ->
  forall lc x lf y, sync c lc x lf y ->
    let r := cgen_step cv c lc x in step_rel xv c (fst (fst r)) (snd (fst r)) (snd r) lf y.
Proof. intros (Ht & Ha & Hco) (H & Hr & Hc & Hh). exact (step_sync_hist cv xv c Ht Ha Hco H Hr Hc Hh). Qed.

(* ---- whole runs against the fast engine ---- *)
Lemma cstep_run_equiv_history_lemma cv xv c :
  cv_repaired cv -> hist_hyps c ->
  forall n evs, Forall (fun e => e <> []) evs ->
  exists m,
    let rc := crun_loop cv c n l_pristine cx_init evs in
    let rf := run_loop c lstate (fast_step xv c) l_cfg m l_pristine x_init evs in
    same_machine_state (fst rc) (fst rf) /\ same_queues_and_events (snd rc) (snd rf).
Proof.
  intros (Ht & Ha & Hco) (H & Hr & Hc & Hh) n evs Hev.
  destruct (crun_hist cv xv c Ht Ha Hco H Hr Hc Hh n evs Hev) as (m & A & B).
  exists m. cbv zeta. split; [exact A|now apply csim_unfold].
Qed.
