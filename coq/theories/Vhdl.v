(* Vhdl.v -- the combinational next-state logic emitted by ChartToVHDL (src/uscxml/transform/ChartToVHDL.cpp:
   writeOptimalTransitionSetSelection, writeExitSet, writeCompleteEntrySet, writeEntrySet,
   writeActiveStateNplusOne, writeSystemSignalMapping/completed_sig) as a list of boolean equations over
   named signals, generated from the flat chart exactly as the C++ generates it from the tables ChartToC::prepare
   leaves on the DOM; a ternary evaluator for the (cyclic!) net; and the reference next configuration: the
   bit-array micro-step of Fast.v (selection in post-fix order under the transpilers' conflict relation, exit set,
   entry set with ancestor and descendant completion, new configuration), specialised to charts without
   history/<initial>/datamodel and with the transition conditions as boolean inputs.  Model only; proofs are in
   VhdlLemmas.v. *)
From V Require Import Base NameMatch Chart Exec Large Legal Fast.
Local Open Scope nat_scope.

(* ------------------------------------------------------------------ variants *)

(* Points at which the pinned generator deviates; the repaired generator has all switches off. *)
Record vh_variant := {
  (* writeCompleteEntrySet, ancestor completion: `children[documentOrder(state)]` tests the OUTER state's
     own bit in its own childBools (never set) instead of `children[documentOrder(tmp_state)]`:
     no in_complete_entry_set_up_<child> term is ever generated *)
  vh_anc_outer_index : bool;
  (* writeCompleteEntrySet, descendant completion: the default child of an entered compound state is
     entered unless a sibling stays active; a sibling that is itself being entered (it is, or contains, a
     transition target) is not looked at *)
  vh_default_ignores_targeted : bool;
  (* writeOptimalTransitionSetSelection hands the event descriptor to Trie::getWordsWithPrefix as written
     (only "*" is special); findEvents cuts a trailing "*" and "." before Trie::addWord: a descriptor
     "e.*" is looked up as the token list [e; *] and matches no event *)
  vh_desc_unstripped : bool
}.
Definition vh_fixed : vh_variant :=
  {| vh_anc_outer_index := false; vh_default_ignores_targeted := false; vh_desc_unstripped := false |}.
Definition vh_pinned : vh_variant :=
  {| vh_anc_outer_index := true; vh_default_ignores_targeted := true; vh_desc_unstripped := true |}.

(* ------------------------------------------------------------------ signals and terms *)

Inductive signal :=
| SActive (i : nat)        (* state_active_<i>_sig            register, input of the net *)
| SEvent (k : nat)         (* event_<name>_sig                register, input; k indexes doc_events *)
| SCond (t : nat)          (* transition_condition_fulfilled_<t>_i   port, input *)
| SSpontEn                 (* spontaneous_en                  register, input *)
| SOpt (t : nat)           (* in_optimal_transition_set_<t>_sig *)
| SCombined                (* optimal_transition_set_combined_sig *)
| SSpontActive             (* spontaneous_active *)
| SExit (i : nat)          (* in_exit_set_<i>_sig *)
| SUp (i : nat)            (* in_complete_entry_set_up_<i>_sig   (i > 0) *)
| SCes (i : nat)           (* in_complete_entry_set_<i>_sig   (i = 0: register, input) *)
| SEntry (i : nat)         (* in_entry_set_<i>_sig *)
| SNext (i : nat)          (* state_next_<i>_sig *)
| SCompleted.              (* completed_sig *)

Inductive vexpr :=
| VSig (s : signal)
| VConst (b : bool)
| VNot (a : vexpr)
| VAnd (a b : vexpr)
| VOr (a b : vexpr).

(* VAnd::print writes `( '1' and x1 and ... )`, VOr::print `( '0' or x1 or ... )` *)
Definition vands (l : list vexpr) : vexpr := fold_right VAnd (VConst true) l.
Definition vors (l : list vexpr) : vexpr := fold_right VOr (VConst false) l.

Definition signal_eqb (a b : signal) : bool :=
  match a, b with
  | SActive i, SActive j | SEvent i, SEvent j | SCond i, SCond j | SOpt i, SOpt j
  | SExit i, SExit j | SUp i, SUp j | SCes i, SCes j | SEntry i, SEntry j | SNext i, SNext j => i =? j
  | SSpontEn, SSpontEn | SCombined, SCombined | SSpontActive, SSpontActive | SCompleted, SCompleted => true
  | _, _ => false
  end.

(* ------------------------------------------------------------------ event names *)

Definition cut_last (ch : N) (d : bytes) : bytes :=
  match rev d with
  | c1 :: r => if (c1 =? ch)%N then rev r else d
  | [] => d
  end.
(* findEvents: boost::ends_with(name, "*") -> cut; then boost::ends_with(name, ".") -> cut *)
Definition ev_strip (d : bytes) : bytes := cut_last c_dot (cut_last c_star d).

(* Trie::getNextToken with separator ".": the non-empty pieces between dots *)
Fixpoint dot_tokens_aux (cur : bytes) (l : bytes) : list bytes :=
  match l with
  | [] => match cur with [] => [] | _ => [rev cur] end
  | ch :: r =>
    if (ch =? c_dot)%N then
      match cur with [] => dot_tokens_aux [] r | _ => rev cur :: dot_tokens_aux [] r end
    else dot_tokens_aux (ch :: cur) r
  end.
Definition dot_tokens (l : bytes) : list bytes := dot_tokens_aux [] l.

Fixpoint list_prefix (p l : list bytes) : bool :=
  match p, l with
  | [], _ => true
  | x :: p', y :: l' => beq_bytes x y && list_prefix p' l'
  | _ :: _, [] => false
  end.

(* Trie::getWordsWithPrefix on the trie of the words [evs]: indices of the words below the node reached by
   the token path of [prefix] *)
Definition trie_words (evs : list bytes) (prefix : bytes) : list nat :=
  filter (fun k => list_prefix (dot_tokens prefix) (dot_tokens (nth k evs []))) (seq 0 (length evs)).

Fixpoint instr_event_attrs (i : instr) : list bytes :=
  match i with
  | IRaise _ e | ISend _ e | ISendBadType _ e | ISendBadTarget _ e => [e]
  | IIf _ _ body =>
    (fix go (l : list ifitem) : list bytes :=
       match l with
       | [] => []
       | FInstr j :: r => instr_event_attrs j ++ go r
       | _ :: r => go r
       end) body
  | _ => []
  end.

Fixpoint mem_bytes (x : bytes) (l : list bytes) : bool :=
  match l with [] => false | y :: r => beq_bytes x y || mem_bytes x r end.
Fixpoint dedup (l : list bytes) : list bytes :=
  match l with [] => [] | x :: r => if mem_bytes x r then dedup r else x :: dedup r end.

Definition nonempty (b : bytes) : bool := match b with [] => false | _ => true end.

Section Vhdl.
Variable v : vh_variant.
Variable c : fchart.

Definition vn := nstates c.
Definition vt := ntrans c.

Definition is_par (t : ftype) := match t with FParallel => true | _ => false end.

(* every `event` attribute of <raise>, <send>, <transition> *)
Definition chart_event_attrs : list bytes :=
  flat_map (fun s => flat_map (flat_map instr_event_attrs) (fs_onentry s ++ fs_onexit s)) (fc_states c) ++
  flat_map (fun t => (if ft_spontaneous t then [] else [ft_event t]) ++ flat_map instr_event_attrs (ft_body t))
           (fc_trans c).

(* _eventNames: the words of the trie (a set; the order of the list is immaterial here) *)
Definition doc_events : list bytes :=
  dedup (filter nonempty (map ev_strip (flat_map tokens chart_event_attrs))).

(* ------------------------------------------------------------------ tables of ChartToC::prepare *)

(* exitSetBools: Predicates getExitSet = the <state>/<parallel>/<final> elements below the transition's
   domain (getTransitionDomain / findLCCA = Large.domain) *)
Definition vh_exit_tab (t : ftrans) : list nat :=
  match domain c t with
  | None => []
  | Some d => filter (fun i => proper_type (fs_type (st c i))) (desc c d)
  end.

(* conflictBools: exit sets intersect, same source, or sources in ancestor relation
   (for transitions of <initial> elements getSourceState is the grand-parent; not in the fragment) *)
Definition vh_conflict (t1 t2 : ftrans) : bool :=
  intersects (vh_exit_tab t1) (vh_exit_tab t2) ||
  (ft_source t1 =? ft_source t2) ||
  mem (ft_source t2) (fs_ancestors (st c (ft_source t1))) ||
  mem (ft_source t1) (fs_ancestors (st c (ft_source t2))).

(* ------------------------------------------------------------------ the generator *)

Definition sig_opt (ti : nat) : vexpr := VSig (SOpt ti).

(* nameMatchers: for every descriptor of the event attribute, the words below its prefix *)
Definition name_matchers (t : ftrans) : list vexpr :=
  flat_map (fun d =>
              let p := if beq_bytes d [c_star] then []
                       else if vh_desc_unstripped v then d else ev_strip d in
              map (fun k => VSig (SEvent k)) (trie_words doc_events p))
           (tokens (ft_event t)).

Definition eq_opt (ti : nat) : signal * vexpr :=
  let t := tr c ti in
  let evented := negb (ft_spontaneous t) in
  (SOpt ti,
   vands [ if evented then VNot (VSig SSpontActive) else VSig SSpontEn;
           match ft_cond t with Some _ => VSig (SCond ti) | None => VConst true end;
           VSig (SActive (ft_source t));
           vors (if evented then name_matchers t else [VConst true]);
           VNot (vors (map sig_opt (filter (fun j => vh_conflict t (tr c j)) (seq 0 ti)))) ]).

Definition eq_combined : signal * vexpr := (SCombined, vors (map sig_opt (seq 0 vt))).
Definition eq_spont_active : signal * vexpr :=
  (SSpontActive, vors (map sig_opt (filter (fun ti => ft_spontaneous (tr c ti)) (seq 0 vt)))).

Definition eq_exit (i : nat) : signal * vexpr :=
  (SExit i, vands [ VSig (SActive i);
                    vors (map sig_opt (filter (fun ti => mem i (vh_exit_tab (tr c ti))) (seq 0 vt))) ]).

(* in_complete_entry_set_up_<i>: transitions targeting i (targetBools; a transition without target
   attribute has no targetBools attribute: the C++ indexes an empty std::string there -- out of bounds, see
   the check; the model reads "no bit set"), plus the up-signals of the children *)
Definition eq_up (i : nat) : signal * vexpr :=
  let s := st c i in
  (SUp i,
   vors [ vors (map sig_opt (filter (fun ti => mem i (ft_targets (tr c ti))) (seq 0 vt)));
          vors (if is_comp (fs_type s) || is_par (fs_type s)
                then flat_map (fun j => if (if vh_anc_outer_index v then mem i (fs_children s)
                                            else mem j (fs_children s))
                                        then [VSig (SUp j)] else [])
                              (seq 0 vn)
                else []) ]).

(* "parent has an initial attribute equal to this state's id, or no initial attribute and this state is
   the first in document order": with the completion table (initial attribute resolved, else first child)
   and without <initial>/<history> children this is "the completion is exactly this child" *)
Definition is_default_child (p i : nat) : bool :=
  match fs_completion (st c p) with [j] => j =? i | _ => false end.

Definition eq_ces (i : nat) : signal * vexpr :=
  let dc :=
    match fs_parent (st c i) with
    | None => []
    | Some p =>
      let ps := st c p in
      if is_comp (fs_type ps) then
        if is_default_child p i then
          VSig (SEntry p) ::
          flat_map (fun j =>
                      if j =? i then []
                      else if mem j (fs_children ps) then
                        VNot (vands [VSig (SActive j); VNot (VSig (SExit j))]) ::
                        (if vh_default_ignores_targeted v then [] else [VNot (VSig (SUp j))])
                      else [])
                   (seq 0 vn)
        else [VConst false]
      else if is_par (fs_type ps) then [VSig (SCes p)]
      else []
    end in
  (SCes i, vors [VSig (SUp i); vands dc]).

Definition eq_entry (i : nat) : signal * vexpr :=
  (SEntry i, vands [VSig (SCes i); vors [VSig (SExit i); VNot (VSig (SActive i))]]).

Definition eq_next (i : nat) : signal * vexpr :=
  match i with
  | O => (SNext 0, VNot (VSig SCompleted))
  | _ => (SNext i, vors [VSig (SCes i); vands [VNot (VSig (SExit i)); VSig (SActive i)]])
  end.

(* completed_sig: the <final> children of <scxml> *)
Definition eq_completed : signal * vexpr :=
  (SCompleted, vors (map (fun i => VSig (SActive i))
                         (filter (fun i => match fs_type (st c i) with FFinal => true | _ => false end)
                                 (fs_children (st c 0))))).

(* in the order of the emitted text *)
Definition gen_eqs : list (signal * vexpr) :=
  map eq_opt (seq 0 vt) ++ [eq_combined; eq_spont_active] ++
  map eq_exit (seq 0 vn) ++
  map eq_up (seq 1 (vn - 1)) ++
  map eq_ces (seq 1 (vn - 1)) ++
  map eq_entry (seq 0 vn) ++
  map eq_next (seq 0 vn) ++
  [eq_completed].

End Vhdl.

(* ------------------------------------------------------------------ ternary evaluation *)

(* None = unknown.  The net is not acyclic: an eventful transition reads spontaneous_active, which reads
   every spontaneous transition, which reads the earlier transitions it conflicts with -- eventful ones
   included.  Kleene's strong connectives resolve the loop whenever one of the inputs decides:
   spontaneous_en = '0' forces every spontaneous transition to '0', and without a pending event signal every
   eventful transition is '0'. *)
Definition tnot (a : option bool) : option bool := option_map negb a.
Definition tand (a b : option bool) : option bool :=
  match a, b with
  | Some false, _ | _, Some false => Some false
  | Some true, Some true => Some true
  | _, _ => None
  end.
Definition tor (a b : option bool) : option bool :=
  match a, b with
  | Some true, _ | _, Some true => Some true
  | Some false, Some false => Some false
  | _, _ => None
  end.

Definition env := signal -> option bool.

Fixpoint teval (e : vexpr) (r : env) : option bool :=
  match e with
  | VSig s => r s
  | VConst b => Some b
  | VNot a => tnot (teval a r)
  | VAnd a b => tand (teval a r) (teval b r)
  | VOr a b => tor (teval a r) (teval b r)
  end.

(* two-valued evaluation under a total assignment *)
Fixpoint beval (e : vexpr) (r : signal -> bool) : bool :=
  match e with
  | VSig s => r s
  | VConst b => b
  | VNot a => negb (beval a r)
  | VAnd a b => beval a r && beval b r
  | VOr a b => beval a r || beval b r
  end.

Definition upd (r : env) (s : signal) (x : option bool) : env :=
  fun s' => if signal_eqb s s' then x else r s'.

Fixpoint eq_of (eqs : list (signal * vexpr)) (s : signal) : option vexpr :=
  match eqs with
  | [] => None
  | (s', e) :: r => if signal_eqb s' s then Some e else eq_of r s
  end.

(* evaluate the equations of the listed signals one after the other *)
Definition eval_step (eqs : list (signal * vexpr)) (r : env) (s : signal) : env :=
  match eq_of eqs s with Some e => upd r s (teval e r) | None => r end.
Definition eval_order (eqs : list (signal * vexpr)) (order : list signal) (r : env) : env :=
  fold_left (eval_step eqs) order r.

Section Eval.
Variable c : fchart.

(* the situation "configuration cfg, pending event ev (None: the spontaneous step), condition inputs val":
   spontaneous_en is '1' exactly in the spontaneous step, exactly the pending event's signal is '1',
   the reset pulse in_complete_entry_set_0_sig is over *)
Definition vh_inputs (cfg : list nat) (ev : option bytes) (val : nat -> bool) : env :=
  fun s =>
    match s with
    | SActive i => Some (mem i cfg)
    | SEvent k => Some (match ev with
                        | Some e => (k <? length (doc_events c)) && beq_bytes (nth k (doc_events c) []) e
                        | None => false end)
    | SCond t => Some (val t)
    | SSpontEn => Some (match ev with Some _ => false | None => true end)
    | SCes 0 => Some false
    | _ => None
    end.

(* an order in which every signal the next configuration depends on gets a definite value *)
Definition vh_order (ev : option bytes) : list signal :=
  let ts := seq 0 (ntrans c) in
  let sp := filter (fun ti => ft_spontaneous (tr c ti)) ts in
  let evd := filter (fun ti => negb (ft_spontaneous (tr c ti))) ts in
  let n := nstates c in
  (match ev with
   | Some _ => map SOpt sp ++ [SSpontActive] ++ map SOpt evd
   | None => map SOpt evd ++ map SOpt sp ++ [SSpontActive]
   end) ++
  [SCompleted] ++
  map SExit (seq 0 n) ++
  map SUp (rev (seq 1 (n - 1))) ++
  flat_map (fun i => match i with O => [SEntry 0] | _ => [SCes i; SEntry i] end) (seq 0 n) ++
  map SNext (seq 0 n).

Definition read_next (r : env) : option (list nat) :=
  let n := nstates c in
  if forallb (fun i => match r (SNext i) with Some _ => true | None => false end) (seq 0 n)
  then Some (filter (fun i => match r (SNext i) with Some true => true | _ => false end) (seq 0 n))
  else None.

Definition eval_eqs (eqs : list (signal * vexpr)) (cfg : list nat) (ev : option bytes) (val : nat -> bool)
  : option (list nat) :=
  read_next (eval_order eqs (vh_order ev) (vh_inputs cfg ev val)).

(* ------------------------------------------------------------------ the reference micro-step *)

(* FastMicroStep SELECT_TRANSITIONS (Fast.fselect) with the conflict matrix of ChartToC::prepare and the
   conditions as inputs *)
Definition vh_enabled (cfg : list nat) (ev : option bytes) (val : nat -> bool) (ti : nat) : bool :=
  let t := tr c ti in
  mem (ft_source t) cfg &&
  match ev with
  | Some e => negb (ft_spontaneous t) && name_match_impl nm_fixed (ft_event t) e
  | None => ft_spontaneous t
  end &&
  match ft_cond t with Some _ => val ti | None => true end.

Fixpoint vselect (cfg : list nat) (ev : option bytes) (val : nat -> bool) (ts : list nat) (selected : list nat)
  : list nat :=
  match ts with
  | [] => selected
  | ti :: r =>
    let t := tr c ti in
    if ft_history t || ft_initial t then vselect cfg ev val r selected
    else if negb (vh_enabled cfg ev val ti) then vselect cfg ev val r selected
    else if existsb (fun si => vh_conflict c (tr c si) t) selected then vselect cfg ev val r selected
    else vselect cfg ev val r (selected ++ [ti])
  end.

Definition vh_selected (cfg : list nat) (ev : option bytes) (val : nat -> bool) : list nat :=
  vselect cfg ev val (seq 0 (ntrans c)) [].

Definition vh_targets (sel : list nat) : list nat :=
  fold_left (fun a ti => set_union a (ft_targets (tr c ti))) sel [].
Definition vh_exitset (cfg : list nat) (sel : list nat) : list nat :=
  fold_left (fun a ti => set_union a (filter (fun i => mem i (vh_exit_tab c (tr c ti))) cfg)) sel [].

(* Fast.fdescend_one without the history / <initial> cases *)
Definition vdescend_one (cfg exitset : list nat) (es : list nat) (i : nat) : list nat :=
  if negb (mem i es) then es else
  let s := st c i in
  match fs_type s with
  | FParallel => set_union es (fs_completion s)
  | FCompound =>
    if negb (intersects es (desc c i)) && (negb (intersects cfg (desc c i)) || intersects exitset (desc c i)) then
      fold_left (fun a j => if i <? j then set_union a (fs_ancestors (st c j)) else a) (fs_completion s)
                (set_union es (fs_completion s))
    else es
  | _ => es
  end.

Definition vh_entryset (cfg exitset targets : list nat) : list nat :=
  fold_left (vdescend_one cfg exitset) (seq 0 (nstates c)) (add_ancestors c targets).

(* the configuration after the micro-step, as the ascending list of its members *)
Definition next_config (cfg : list nat) (ev : option bytes) (val : nat -> bool) : list nat :=
  let sel := vh_selected cfg ev val in
  let exitset := vh_exitset cfg sel in
  let es := vh_entryset cfg exitset (vh_targets sel) in
  filter (fun i => (mem i cfg && negb (mem i exitset)) || mem i es) (seq 0 (nstates c)).

(* the initial step (FastMicroStep: targets = completion of <scxml>, nothing exited, nothing active) *)
Definition init_config : list nat :=
  let es := vh_entryset [] [] (fs_completion (st c 0)) in
  filter (fun i => mem i es) (seq 0 (nstates c)).

(* ------------------------------------------------------------------ the fragment *)

Definition simple_char (ch : N) : bool :=
  negb (isspace ch) && negb (ch =? c_dot)%N && negb (ch =? c_star)%N.
Definition simple_name (b : bytes) : bool := nonempty b && forallb simple_char b.
(* descriptors: "*", name, name".", name".*" *)
Definition simple_desc (d : bytes) : bool :=
  beq_bytes d [c_star] ||
  simple_name d ||
  match rev d with
  | c1 :: c2 :: r => ((c1 =? c_star)%N && (c2 =? c_dot)%N && simple_name (rev r)) ||
                     ((c1 =? c_dot)%N && simple_name (rev (c2 :: r)))
  | _ => false
  end.

Definition same_set (a b : list nat) : bool :=
  forallb (fun x => mem x b) a && forallb (fun x => mem x a) b.

(* structural well-formedness of the flat chart (what `flatten` yields for a tree without pseudo-states;
   evaluated on every generated chart by the check) and the restrictions that make up the fragment *)
Definition vh_state_ok (i : nat) : bool :=
  let s := st c i in
  let n := nstates c in
  match fs_parent s with
  | None => (i =? 0) && match fs_ancestors s with [] => true | _ => false end
  | Some p => (p <? i) && mem i (fs_children (st c p)) &&
              same_set (fs_ancestors s) (p :: fs_ancestors (st c p))
  end &&
  forallb (fun j => (j <? n) && match fs_parent (st c j) with Some q => q =? i | None => false end) (fs_children s) &&
  (i + fs_size s <=? n) && (1 <=? fs_size s) &&
  forallb (fun j => Bool.eqb (mem i (fs_ancestors (st c j))) ((i <? j) && (j <? i + fs_size s))) (seq 0 n) &&
  match fs_type s with
  | FAtomic | FFinal => match fs_children s with [] => true | _ => false end
  | FCompound => match fs_children s with [] => false | _ => true end &&
                 match fs_completion s with [j] => mem j (fs_children s) | _ => false end
  | FParallel => same_set (fs_completion s) (fs_children s)
  | _ => false
  end.

Definition vh_trans_ok (ti : nat) : bool :=
  let t := tr c ti in
  let n := nstates c in
  (1 <=? ft_source t) && (ft_source t <? n) &&
  forallb (fun x => (1 <=? x) && (x <? n)) (ft_targets t) &&
  negb (ft_history t) && negb (ft_initial t) &&
  (ft_spontaneous t || forallb simple_desc (tokens (ft_event t))).

Definition vh_wfb : bool :=
  (1 <=? nstates c) &&
  match fs_type (st c 0) with FParallel => false | _ => true end &&
  forallb vh_state_ok (seq 0 (nstates c)) &&
  forallb vh_trans_ok (seq 0 (ntrans c)) &&
  forallb simple_name (doc_events c).

(* the machine is running: no <final> child of <scxml> is active (completed_sig = '0'); with such a state
   active the interpreter leaves its loop and the emitted design stalls *)
Definition vh_running (cfg : list nat) : bool :=
  negb (existsb (fun i => mem i cfg)
                (filter (fun i => match fs_type (st c i) with FFinal => true | _ => false end) (fs_children (st c 0)))).

(* the situations of the property: the spontaneous step, or an event of the document *)
Definition vh_event_ok (ev : option bytes) : bool :=
  match ev with Some e => mem_bytes e (doc_events c) | None => true end.

Definition all_subsets_legal : list (list nat) :=
  let n := nstates c in
  filter (legal_configb c)
         (fold_right (fun i acc => map (cons i) acc ++ acc) [[]] (seq 0 n)).

End Eval.

Definition vhdl_fragment (c : fchart) : Prop := vh_wfb c = true.
