(* DelayRaceLemmas.v -- C09: the race clauses of Delay.v (locks, freed timer objects, routing,
   dead-lock), for the repaired protocol variants, and the witnesses that refute them for the
   pinned code. *)
From V Require Import Base Delay DelayLemmas.
Local Open Scope N_scope.

(* ------------------------------------------------------------------------------------------ *)
(* the race clauses: locks, memory, routing *)

Definition lock_is (l : lock) (o : option tid) : Prop :=
  l = match o with Some t => Some (t, 1%nat) | None => None end.

(* the interpreter thread holds _delayMutex at this schedule point *)
Definition iholds (v : dvariant) (i : ipc_t) : bool :=
  match i with
  | IQBefore _ _ _ | IQLocked _ _ _ => true
  | ISendArmed _ _ _ => negb (dv_enqueue_arms_first v)
  | _ => false
  end.
Definition delay_owner (v : dvariant) (s : dstate) : option tid :=
  if iholds v (ipc s) then Some Interp
  else match tpc s with TReadyLocked _ => Some Timer | _ => None end.
Definition queue_owner (s : dstate) : option tid :=
  match ipc s with IQLocked _ _ _ | IAllLocked => Some Interp | _ => None end.

Record InvLock (v : dvariant) (s : dstate) : Prop := {
  k_delay : lock_is (delayM s) (delay_owner v s);
  k_excl : iholds v (ipc s) = true -> forall u, tpc s <> TReadyLocked u;
  k_queue : lock_is (queueM s) (queue_owner s);
  k_cur : current_cb s = tpc_on (tpc s)
}.

Lemma acquire_some l t l' : acquire l t = Some l' -> (l = None /\ l' = Some (t, 1%nat)) \/ (exists d, l = Some (t, d)).
Proof.
  unfold acquire. destruct l as [[o d]|]; [|intros [= <-]; now left].
  destruct (tid_eqb o t) eqn:E; [|discriminate]. intros _. right. exists d.
  destruct o, t; try discriminate; reflexivity.
Qed.

Section Races.
  Variable v : dvariant.
  Variable pick : list (N * N) -> N -> option N.

  Ltac lk := unfold lock_is, delay_owner, queue_owner in *; cbn in *.

  Lemma tpc_ready_dec t : (exists u, t = TReadyLocked u) \/ (forall u, t <> TReadyLocked u).
  Proof. destruct t; try (right; discriminate). left; eauto. Qed.

  (* the lock fields and the owners are unchanged (the interpreter's point may change within a class) *)
  Ltac same_owner H :=
    constructor; lk; rewrite ?H in *; cbn in *; auto;
    try (destruct (iholds v (ipc _)); auto; discriminate).

  (* the interpreter thread, not holding _delayMutex, gets it: it was free *)
  Lemma acquire_interp s dl : InvLock v s -> iholds v (ipc s) = false -> acquire (delayM s) Interp = Some dl ->
    dl = Some (Interp, 1%nat) /\ delayM s = None /\ forall u, tpc s <> TReadyLocked u.
  Proof.
    intros [Hd _ _ _] Hh Hacq. unfold lock_is, delay_owner in Hd. rewrite Hh in Hd.
    apply acquire_some in Hacq as [[H1 ->]|[d H1]].
    - repeat split; auto. intros u Ht. rewrite Ht, H1 in Hd. discriminate.
    - rewrite H1 in Hd. destruct (tpc s); discriminate.
  Qed.

  Lemma release_interp s : InvLock v s -> iholds v (ipc s) = true ->
    release (delayM s) = None /\ forall u, tpc s <> TReadyLocked u.
  Proof.
    intros [Hd He _ _] Hh. unfold lock_is, delay_owner in Hd. rewrite Hh in Hd. rewrite Hd. split; auto.
  Qed.

  Lemma not_ready_owner s : (forall u, tpc s <> TReadyLocked u) ->
    match tpc s with TReadyLocked _ => Some Timer | _ => None end = None.
  Proof. intros H. destruct (tpc s); try reflexivity. now destruct (H u). Qed.

  Lemma InvLock_step s s' : step_rel v pick s s' -> InvLock v s -> InvLock v s'.
  Proof.
    intros Hs HL. pose proof HL as [Hd He Hq Hc]. destruct Hs.
    - same_owner H.
    - (* send: arms the timer; as it is, under _delayMutex *)
      assert (Hh : iholds v (ipc s) = false) by (now rewrite H).
      destruct (dv_enqueue_arms_first v) eqn:Haf.
      + injection H3 as <-. constructor; lk; rewrite ?H, ?Haf in *; cbn in *; auto; try discriminate.
      + destruct (acquire_interp _ _ HL Hh H3) as (-> & _ & Hnr).
        constructor; lk; rewrite ?H, ?Haf in *; cbn in *; auto.
    - (* enqueue returns *)
      assert (Hh : iholds v (ipc s) = true) by (rewrite H; cbn; now rewrite H0).
      destruct (release_interp _ HL Hh) as [Hr Hnr].
      constructor; lk; rewrite ?H in *; cbn in *; auto; try discriminate.
      rewrite Hr, (not_ready_owner _ Hnr). reflexivity.
    - (* the target is recorded after arming *)
      unfold lock_is, delay_owner in Hd. rewrite H in Hd. cbn in Hd. rewrite H0 in Hd. cbn in Hd.
      unfold lock_is, queue_owner in Hq. rewrite H in Hq.
      constructor; lk; rewrite ?H; cbn; auto; try discriminate.
    - same_owner H.
    - (* cancel, nothing to do *)
      assert (Hh : iholds v (ipc s) = false) by (now rewrite H).
      destruct (acquire_interp _ _ HL Hh H1) as (-> & _ & Hnr).
      constructor; lk; rewrite ?H in *; cbn in *; auto; try discriminate.
      rewrite (not_ready_owner _ Hnr). reflexivity.
    - (* cancel starts *)
      assert (Hh : iholds v (ipc s) = false) by (now rewrite H).
      destruct (acquire_interp _ _ HL Hh H1) as (-> & _ & Hnr).
      constructor; lk; rewrite ?H in *; cbn in *; auto.
    - (* cancelAll takes the lock *)
      unfold lock_is, queue_owner in Hq; rewrite H in Hq. lk. apply acquire_some in H1 as [[H1 ->]|[d H1]].
      + constructor; lk; rewrite ?H in *; cbn in *; auto; try discriminate.
      + rewrite H1 in Hq. discriminate.
    - (* cancelAll done *)
      unfold lock_is, queue_owner in Hq; rewrite H in Hq. lk. constructor; lk; rewrite ?H in *; cbn in *; auto; try discriminate. now rewrite Hq.
    - same_owner H.
    - (* cancelDelayed takes the queue lock *)
      unfold lock_is, queue_owner in Hq; rewrite H in Hq. lk. apply acquire_some in H0 as [[H0 ->]|[d H0]].
      + constructor; lk; rewrite ?H in *; cbn in *; auto.
      + rewrite H0 in Hq. discriminate.
    - (* last cancel step *)
      assert (Hh : iholds v (ipc s) = true) by (now rewrite H).
      destruct (release_interp _ HL Hh) as [Hr Hnr].
      unfold lock_is, queue_owner in Hq; rewrite H in Hq. lk.
      constructor; lk; rewrite ?H in *; cbn in *; auto; try discriminate.
      + rewrite Hr, (not_ready_owner _ Hnr). reflexivity.
      + now rewrite Hq.
    - (* cancel step, more to do *)
      unfold lock_is, queue_owner in Hq; rewrite H in Hq. lk. constructor; lk; rewrite ?H in *; cbn in *; auto.
      now rewrite Hq.
    - same_owner H.
    - (* expire *) same_owner H.
    - same_owner H.
    - same_owner H.
    - same_owner H.
    - same_owner H.
    - (* eventReady takes the lock *)
      lk. destruct (iholds v (ipc s)) eqn:Hh.
      + apply acquire_some in H0 as [[H0 _]|[d H0]]; rewrite H0 in Hd; discriminate.
      + rewrite H in Hd. apply acquire_some in H0 as [[H0 ->]|[d H0]]; [|rewrite H0 in Hd; discriminate].
        constructor; lk; rewrite ?H, ?Hh; cbn; auto; [discriminate | rewrite Hc, H; reflexivity].
    - (* delivery *)
      lk. destruct (iholds v (ipc s)) eqn:Hh.
      + exfalso. eapply He; [reflexivity | exact H].
      + rewrite H in Hd. constructor; lk; rewrite ?H, ?Hh; cbn; auto; try congruence; [now rewrite Hd | rewrite Hc, H; reflexivity].
    - same_owner H.
    - same_owner H.
  Qed.

  (* --- memory: with the entry taken in section 1 no timer object is touched after it was freed --- *)
  Record InvAlloc (s : dstate) : Prop := {
    a_alloc : forall u p, lookup (pending s) u = Some p -> p_alloc p = true;
    a_enter : dv_cancel_noblock v = false -> forall u, tpc s = TCbEnter u -> lookup (pending s) u <> None
  }.

  Lemma cancel_all_blocked_key keys : forall u pd0 pd,
    dv_cancel_noblock v = false -> cancel_all v (Some u) keys pd0 = CDone pd -> In u keys -> lookup pd0 u = None.
  Proof.
    induction keys as [|k r IH]; cbn; intros u pd0 pd Hnb Hca Hin; [easy|].
    destruct (cancel_entry v (Some u) pd0 k) as [pd1| |f] eqn:Hce; try discriminate.
    destruct (cancel_entry_done _ _ _ _ _ Hce) as (Hlk & _ & H3).
    destruct (N.eq_dec k u) as [->|Hne].
    - destruct (lookup pd0 u) as [p|] eqn:Hl; [|reflexivity].
      destruct (H3 _ eq_refl) as [_ Hx]. specialize (Hx eq_refl). congruence.
    - destruct Hin as [->|Hin]; [congruence|].
      specialize (IH _ _ _ Hnb Hca Hin). rewrite Hlk in IH.
      destruct (k =? u) eqn:E; [apply N.eqb_eq in E; congruence | exact IH].
  Qed.

  Lemma cancel_all_no_fault keys : forall cur pd0 f,
    (forall u p, lookup pd0 u = Some p -> p_alloc p = true) -> cancel_all v cur keys pd0 <> CFault f.
  Proof.
    induction keys as [|k r IH]; cbn; intros cur pd0 f Ha; [discriminate|].
    destruct (cancel_entry v cur pd0 k) as [pd1| |f'] eqn:Hce; [|discriminate|].
    - apply IH. intros u p Hl. apply (cancel_entry_submap _ _ _ _ _ Hce) in Hl. eauto.
    - unfold cancel_entry in Hce. destruct (lookup pd0 k) as [p|] eqn:Hl; [|discriminate].
      rewrite (Ha _ _ Hl) in Hce. cbn in Hce. destruct cur as [c|]; [destruct (c =? k)|]; try discriminate.
      destruct (dv_cancel_noblock v); discriminate.
  Qed.

  Lemma cancel_entry_no_fault cur pd0 k f :
    (forall u p, lookup pd0 u = Some p -> p_alloc p = true) -> cancel_entry v cur pd0 k <> CFault f.
  Proof.
    intros Ha Hce. unfold cancel_entry in Hce. destruct (lookup pd0 k) as [p|] eqn:Hl; [|discriminate].
    rewrite (Ha _ _ Hl) in Hce. cbn in Hce. destruct cur as [c|]; [destruct (c =? k)|]; try discriminate.
    destruct (dv_cancel_noblock v); discriminate.
  Qed.

  Hypothesis Htakes : dv_cb_takes_entry v = true.

  Lemma InvAlloc_step s s' : step_rel v pick s s' -> InvLock v s -> InvAlloc s -> InvAlloc s' /\ (fault s = None -> fault s' = None).
  Proof.
    intros Hs HL [Ha He]. pose proof (k_cur _ _ HL) as Hcur.
    destruct Hs; cbn; (split; [|try reflexivity]).
    - constructor; cbn; auto.
    - (* send *)
      destruct (cancel_entry_done _ _ _ _ _ H4) as (Hlk & _ & H5).
      constructor; cbn.
      + intros u0 p. rewrite lookup_put. destruct (u =? u0); [now intros [= <-]|]. rewrite Hlk.
        destruct (u =? u0); [discriminate | apply Ha].
      + intros Hnb u0 Ht. rewrite lookup_put. destruct (u =? u0) eqn:E; [discriminate|].
        rewrite Hlk, E. auto.
    - constructor; cbn; auto.
    - constructor; cbn; auto.
    - constructor; cbn; auto.
    - intros _. exfalso. eapply cancel_entry_no_fault; eauto.
    - constructor; cbn; auto.
    - constructor; cbn; auto.
    - constructor; cbn; auto.
    - (* cancelAll done *)
      destruct (cancel_all_done _ _ _ _ _ H0) as (Hsub & _ & Hkeys).
      constructor; cbn.
      + intros u p Hl. apply Hsub in Hl. eauto.
      + intros Hnb u Ht Hl. specialize (He Hnb _ Ht).
        destruct (lookup (pending s) u) as [p|] eqn:Hp; [|congruence].
        rewrite Hcur, Ht in H0. cbn in H0.
        pose proof (cancel_all_blocked_key _ _ _ _ Hnb H0) as Hx.
        rewrite Hx in Hp; [discriminate|]. apply lookup_In in Hp.
        change u with (fst (u, p)). now apply in_map.
    - constructor; cbn; auto.
    - intros _. exfalso. eapply cancel_all_no_fault; eauto.
    - constructor; cbn; auto.
    - (* last cancel step *)
      destruct (cancel_entry_done _ _ _ _ _ H0) as (Hlk & _ & H3).
      constructor; cbn.
      + intros u0 p. rewrite Hlk. destruct (u =? u0); [discriminate | apply Ha].
      + intros Hnb u0 Ht. rewrite Hlk. destruct (u =? u0) eqn:E; [|auto].
        apply N.eqb_eq in E; subst u0. specialize (He Hnb _ Ht).
        destruct (lookup (pending s) u) as [p|] eqn:Hp; [|congruence].
        destruct (H3 _ eq_refl) as [_ Hx]. rewrite Hcur, Ht in Hx. specialize (Hx eq_refl). congruence.
    - destruct (cancel_entry_done _ _ _ _ _ H0) as (Hlk & _ & H3).
      constructor; cbn.
      + intros u0 p. rewrite Hlk. destruct (u =? u0); [discriminate | apply Ha].
      + intros Hnb u0 Ht. rewrite Hlk. destruct (u =? u0) eqn:E; [|auto].
        apply N.eqb_eq in E; subst u0. specialize (He Hnb _ Ht).
        destruct (lookup (pending s) u) as [p|] eqn:Hp; [|congruence].
        destruct (H3 _ eq_refl) as [_ Hx]. rewrite Hcur, Ht in Hx. specialize (Hx eq_refl). congruence.
    - constructor; cbn; auto.
    - intros _. exfalso. eapply cancel_entry_no_fault; eauto.
    - (* expire *)
      constructor; cbn.
      + intros u0 q. rewrite lookup_upd. destruct (u =? u0); [|apply Ha].
        destruct (lookup (pending s) u0) as [q0|] eqn:Hq; [|discriminate]. cbn. intros [= <-]. cbn. eauto.
      + intros Hnb u0 [= <-]. rewrite lookup_upd, N.eqb_refl, H1. discriminate.
    - constructor; cbn; auto. discriminate.
    - constructor; cbn; auto.
    - intros _. exfalso. destruct (dv_cancel_noblock v) eqn:Hnb; [discriminate|]. eapply He; eauto.
    - constructor; cbn; auto.
    - intros _. pose proof (Ha _ _ H1). congruence.
    - (* section 1 *)
      rewrite Htakes. constructor; cbn.
      + intros u0 q. rewrite lookup_remove. destruct (u =? u0); [discriminate | apply Ha].
      + discriminate.
    - constructor; cbn; auto. discriminate.
    - constructor; cbn; auto. discriminate.
    - rewrite Htakes. constructor; cbn; auto. discriminate.
    - constructor; cbn; auto.
  Qed.
End Races.

(* ------------------------------------------------------------------------------------------ *)
(* routing: with the check in eventReady every delivery goes to the target named in the send *)
Definition routed (tr : list obs) : Prop :=
  forall u t tgt b, In (EDeliver u t tgt b) tr -> exists sid enq d, In (ESend u sid tgt enq d) tr.

Section Routing.
  Variable v : dvariant.
  Variable pick : list (N * N) -> N -> option N.
  Hypothesis Hchecks : dv_ready_checks v = true.

  Lemma routed_cons o tr : routed tr -> (forall u t tgt b, o <> EDeliver u t tgt b) -> routed (o :: tr).
  Proof.
    intros Hr Hn u t tgt b [Heq|Hin]; [exfalso; eapply Hn; eauto|].
    destruct (Hr _ _ _ _ Hin) as (a & c & e & Hs). exists a, c, e. now right.
  Qed.

  Lemma routed_step s s' : step_rel v pick s s' -> Inv1 s -> routed (trace s) -> routed (trace s').
  Proof.
    intros Hs HI Hr. destruct Hs; cbn; auto; try (apply routed_cons; [exact Hr | discriminate]).
    - intros u0 t tgt0 b [Heq|[Heq|Hin]]; [|discriminate|].
      + inversion Heq; subst. exists sid, (now s), 0. right. now left.
      + destruct (Hr _ _ _ _ Hin) as (a & c & e & Hs). exists a, c, e. right. now right.
    - unfold ready_trace. destruct (lookup (targets s) u) as [[sid tgt]|] eqn:Hl.
      + intros u0 t tgt0 b [Heq|Hin].
        * inversion Heq; subst. destruct (i_tgt _ HI _ _ _ Hl) as (enq & d & Hs). exists sid, enq, d. now right.
        * destruct (Hr _ _ _ _ Hin) as (a & c & e & Hs). exists a, c, e. now right.
      + rewrite Hchecks. exact Hr.
  Qed.
End Routing.

(* ------------------------------------------------------------------------------------------ *)
(* no dead-lock when cancel never waits for a running callback *)
Section NoDeadlock.
  Variable v : dvariant.
  Variable pick : list (N * N) -> N -> option N.
  Hypothesis Hnb : dv_cancel_noblock v = true.

  Lemma cancel_entry_not_blocked cur pd u : cancel_entry v cur pd u <> CBlocked.
  Proof.
    unfold cancel_entry. destruct (lookup pd u) as [p|]; [|discriminate].
    destruct (negb (p_alloc p)); [discriminate|].
    destruct cur as [c|]; [|discriminate]. destruct (c =? u); [|discriminate]. now rewrite Hnb.
  Qed.

  Lemma cancel_all_not_blocked cur keys : forall pd, cancel_all v cur keys pd <> CBlocked.
  Proof.
    induction keys as [|k r IH]; cbn; intros pd; [discriminate|].
    destruct (cancel_entry v cur pd k) eqn:E; [apply IH | | discriminate].
    exfalso. eapply cancel_entry_not_blocked; eauto.
  Qed.

  Lemma acquire_free t : acquire None t = Some (Some (t, 1%nat)).
  Proof. reflexivity. Qed.

  Lemma no_deadlock_state s : InvLock v s -> deadlocked v pick s = false.
  Proof.
    intros [Hd He Hq Hc]. unfold deadlocked, dstep. destruct (fault s) eqn:Hf; [reflexivity|].
    unfold lock_is, delay_owner, queue_owner in *.
    destruct (istep v s) eqn:Hi; [reflexivity|].
    destruct (tstep v pick s) eqn:Ht; [reflexivity|].
    unfold quiescent. unfold istep in Hi. unfold tstep in Ht.
    destruct (ipc s) as [|u0 sid0 tgt0|sid u todo|sid u todo|] eqn:Hipc; cbn in *.
    - (* the interpreter is between operations *)
      rewrite Hq in *.
      destruct (tpc s) as [|u|u|u|u] eqn:Htpc; cbn in *; rewrite ?Hd in *; cbn in *; try discriminate.
      + (* timer idle: the next operation, if any, can start *)
        destruct (prog s) as [|[u sid tgt d|sid|] rest]; [reflexivity| | |]; cbn in *.
        * destruct (d =? 0); [discriminate|].
          destruct (dv_enqueue_arms_first v); cbn in *;
            (destruct (cancel_entry v (current_cb s) (pending s) u) eqn:E; try discriminate;
             exfalso; eapply cancel_entry_not_blocked; eauto).
        * destruct (map fst (filter (fun kv => fst (snd kv) =? sid) (targets s))); discriminate.
        * discriminate.
      + destruct (lookup (pending s) u) as [p|]; [destruct (negb (p_alloc p)); discriminate|].
        rewrite Hnb in Ht. discriminate.
    - (* in enqueue, the timer is armed *)
      destruct (dv_enqueue_arms_first v); cbn in *; [|discriminate].
      destruct (tpc s) as [|u|u|u|u] eqn:Htpc; cbn in *; rewrite ?Hd in *; cbn in *; try discriminate.
    - (* at delay.cancel.before: the queue lock is free *)
      rewrite Hq in Hi. cbn in Hi. discriminate.
    - destruct (cancel_entry v (current_cb s) (pending s) u) eqn:E.
      + destruct todo; discriminate.
      + exfalso. eapply cancel_entry_not_blocked; eauto.
      + discriminate.
    - destruct (cancel_all v (current_cb s) (map fst (pending s)) (pending s)) eqn:E; try discriminate.
      exfalso. eapply cancel_all_not_blocked; eauto.
  Qed.
End NoDeadlock.

(* ------------------------------------------------------------------------------------------ *)
(* all schedules *)
Section RaceTheorems.
  Variable v : dvariant.
  Variable pick : list (N * N) -> N -> option N.
  Hypothesis Hpick : pick_sound pick.

  Lemma InvLock_init p : InvLock v (init p).
  Proof. constructor; cbn; try reflexivity. intros H; now destruct H. Qed.

  Lemma InvLock_run sched : forall s, InvLock v s -> InvLock v (run v pick s sched).
  Proof.
    induction sched as [|t r IH]; cbn; intros s H; [exact H|]. apply IH.
    unfold step_or_stay. destruct (dstep v pick s t) eqn:E; [|exact H].
    apply dstep_rel in E as [_ Hr]. eapply InvLock_step; eauto.
  Qed.

  (* no dead-lock *)
  Lemma no_deadlock_lemma p sched :
    dv_cancel_noblock v = true -> deadlocked v pick (run v pick (init p) sched) = false.
  Proof. intros Hnb. apply no_deadlock_state; [exact Hnb|]. apply InvLock_run, InvLock_init. Qed.

  (* no use of a freed timer object, no double free *)
  Lemma alloc_run (Htakes : dv_cb_takes_entry v = true) sched : forall s,
    InvLock v s -> InvAlloc v s -> fault s = None ->
    InvAlloc v (run v pick s sched) /\ fault (run v pick s sched) = None.
  Proof.
    induction sched as [|t r IH]; cbn; intros s HL HA Hf; [now split|].
    unfold step_or_stay. destruct (dstep v pick s t) eqn:E; [|now apply IH].
    apply dstep_rel in E as [_ Hr].
    destruct (InvAlloc_step v pick Htakes _ _ Hr HL HA) as [HA' Hf'].
    apply IH; auto. eapply InvLock_step; eauto.
  Qed.

  Lemma no_use_after_free_lemma p sched :
    dv_cb_takes_entry v = true -> fault (run v pick (init p) sched) = None.
  Proof.
    intros Htakes. apply alloc_run; auto.
    - apply InvLock_init.
    - constructor; cbn; [discriminate | discriminate].
  Qed.

  Lemma routed_run (Hchecks : dv_ready_checks v = true) sched : forall s,
    Inv v s -> routed (trace s) -> routed (trace (run v pick s sched)).
  Proof.
    induction sched as [|t r IH]; cbn; intros s HI Hr; [exact Hr|].
    apply IH; [now apply Inv_step|].
    unfold step_or_stay. destruct (dstep v pick s t) eqn:E; [|exact Hr].
    apply dstep_rel in E as [_ Hs]. eapply routed_step; eauto. apply HI.
  Qed.

  (* a cancel racing with the delivery: delivered once to its target or not at all; never a
     fault, never a dead-lock *)
  Definition race_ok (s : dstate) : Prop :=
    fault s = None /\ deadlocked v pick s = false /\ NoDup (delivered (trace s)) /\ routed (trace s).

  Lemma race_two_outcomes_lemma p sched :
    dv_cb_takes_entry v = true -> dv_ready_checks v = true -> dv_cancel_noblock v = true ->
    wf_prog p = true -> race_ok (run v pick (init p) sched).
  Proof.
    intros H1 H2 H3 Hwf. split; [|split; [|split]].
    - now apply no_use_after_free_lemma.
    - now apply no_deadlock_lemma.
    - now apply fires_at_most_once_lemma.
    - apply routed_run; auto. now apply Inv_init. intros u t tgt b [].
  Qed.
End RaceTheorems.

(* ------------------------------------------------------------------------------------------ *)
(* the pinned code: witnesses *)
Definition w_prog : list iop := [OSend 1 1 0 1; OCancel 1].
(* send (arm, return); tick; the callback starts; section 1 frees the timer; <cancel>: lock, lock, event_del *)
Definition w_uaf : list tid := [Interp; Interp; Clock; Timer; Timer; Interp; Interp; Interp].
(* send; tick; the callback starts; <cancel> runs up to event_del *)
Definition w_deadlock : list tid := [Interp; Interp; Clock; Timer; Interp; Interp].

Lemma pinned_uaf_witness :
  wf_prog w_prog = true /\ fault (run dv_pinned pick_min (init w_prog) w_uaf) = Some (UseAfterFree 1).
Proof. vm_compute. split; reflexivity. Qed.

Lemma pinned_deadlock_witness :
  wf_prog w_prog = true /\ deadlocked dv_pinned pick_min (run dv_pinned pick_min (init w_prog) w_deadlock) = true.
Proof. vm_compute. split; reflexivity. Qed.

(* the window repair alone (entry taken in section 1, check in eventReady) removes the memory
   fault but not the dead-lock at callback entry *)
Lemma window_deadlock_witness :
  wf_prog w_prog = true /\ deadlocked dv_window pick_min (run dv_window pick_min (init w_prog) w_deadlock) = true.
Proof. vm_compute. split; reflexivity. Qed.

(* the entry taken in section 1 but no check in eventReady: the cancelled event is delivered to
   the wrong queue *)
Definition w_prog_int : list iop := [OSend 1 1 1 1; OCancel 1].
Definition w_misroute : list tid := [Interp; Interp; Clock; Timer; Timer; Interp; Interp; Interp; Timer; Timer].
Lemma misroute_witness :
  In (EDeliver 1 1 0 true)
     (trace (run {| dv_cb_takes_entry := true; dv_ready_checks := false; dv_cancel_noblock := false; dv_enqueue_arms_first := false |}
                 pick_min (init w_prog_int) w_misroute)).
Proof. vm_compute. auto. Qed.

(* hypotheses are satisfiable: the repaired protocol on the racing schedules *)
Example repaired_on_witnesses :
  race_ok dv_repaired pick_min (run dv_repaired pick_min (init w_prog) w_uaf) /\
  race_ok dv_repaired pick_min (run dv_repaired pick_min (init w_prog) w_deadlock).
Proof.
  split; apply race_two_outcomes_lemma; auto using pick_min_sound.
Qed.

(* two delayed sends under sendid 7, one under 8; <cancel sendid=7> one tick later: neither of the
   two fires, the third does, nothing is left in the maps *)
Example cancel_shared_sendid_example :
  let s := run dv_window pick_min (init [OSend 1 7 0 2; OSend 2 7 0 3; OSend 3 8 0 4; OCancel 7])
               [Interp; Interp; Interp; Interp; Interp; Interp; Clock; Interp; Interp; Interp; Interp; Interp; Clock; Clock; Clock;
                Timer; Timer; Timer; Timer; Timer] in
  delivered (trace s) = [3] /\ pending s = [] /\ targets s = [] /\ In (ECancelDone 7 1) (trace s).
Proof. vm_compute. repeat split. auto 10. Qed.
