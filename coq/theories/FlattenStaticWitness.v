(* FlattenStaticWitness.v -- non-vacuity of the document-level predicates of FlattenStaticTree.v and a witness for
   every clause of hist_treeb / eq_tree_histb: a document that fails exactly that clause and whose flat tables
   fail wf_histb (or have no compound root), with an illegal run of both engine models where one exists.
   Finite computations (vm_compute) only. *)
From V Require Import Base NameMatch Chart Exec Large LargeLemmas Fast Interp Legal LegalRun WfCore LegalOracle LegalHistWf LegalHistOracle
     LegalHistFastRun FlattenWf FlattenWfRun ValidateBridge ValidateBridgeRun
     EngineEquivDone EngineEquivSelect EngineEquivRun EngineEquivWitness EngineEquivHistRun EngineEquivHistWitness
     FlattenStaticTree.
Local Open Scope N_scope.

(* the clauses of hist_treeb, in the order of its definition *)
Definition ht_clauses (t : tree) : list bool :=
  [ht_rootb t; ht_nestb t; ct_uniqueb t; ht_targetsb t; ht_initattrb t; ht_initialb t; ht_historyb t; vb_hist_disjointb t].

Lemma hist_treeb_clauses t : hist_treeb t = forallb (fun b => b) (ht_clauses t).
Proof. unfold hist_treeb, ht_clauses. cbn [forallb]. rewrite andb_true_r. now rewrite !andb_assoc. Qed.

(* ------------------------------------------------------------------ non-vacuity *)

(* <scxml initial="s1"> with a compound s1 { s3, shallow <history> s2, compound s4 initial="s61 s71" { <parallel> s5 with
   regions s6 {s61, s62} and s7 {s71, s72}, deep <history> s8 }, <initial> -> s3 }, s9 with transitions to both
   histories, a top-level <final> *)
Definition fs_doc_tree : tree :=
  vnd KScxml 0 (Some [1]) []
    [vnd KState 1 None [vtr 100 (Some [101]) (Some [9])]
       [vnd KState 3 None [vtr 101 (Some [102]) (Some [4])] [];
        vnd KHistShallow 2 None [vtr 110 None (Some [3])] [];
        vnd KState 4 (Some [61; 71]) [vtr 102 (Some [103]) (Some [3])]
          [vnd KParallel 5 None []
             [vnd KState 6 None [] [vnd KState 61 None [vtr 103 (Some [104]) (Some [62])] []; vnd KState 62 None [] []];
              vnd KState 7 None [] [vnd KState 71 None [] []; vnd KState 72 None [] []]];
           vnd KHistDeep 8 None [vtr 111 None (Some [5])] []];
        vnd KInitial 15 None [vtr 112 None (Some [3])] []];
     vnd KState 9 None [vtr 104 (Some [105]) (Some [2]); vtr 105 (Some [106]) (Some [8])] [];
     vnd KFinal 10 None [] []].

Definition fs_doc_events : list bytes := [[102]; [104]; [101]; [106]; [101]; [105]].

(* the predicates hold of it; its run on e2 e4 e1 e6 (deep history restores s62) e1 e5 (shallow history restores s4)
   satisfies the dynamic guard of the equivalence theorem and visits the parallel state *)
Example document_hypotheses_hold :
  eq_tree_histb fs_doc_tree = true /\
  eq_guard_run_hist ex_fixed (flatten false fs_doc_tree) 40 l_pristine x_init fs_doc_events = true /\
  map (fun i => fs_sid (st (flatten false fs_doc_tree) i)) (final_cfg_large fs_doc_tree [[102]; [104]; [101]; [106]] 40) = [0; 1; 4; 5; 6; 62; 7; 71] /\
  map (fun i => fs_sid (st (flatten false fs_doc_tree) i)) (final_cfg_large fs_doc_tree fs_doc_events 40) = [0; 1; 4; 5; 6; 61; 7; 71] /\
  final_cfg_fast fs_doc_tree fs_doc_events 40 = final_cfg_large fs_doc_tree fs_doc_events 40.
Proof. vm_compute. repeat split; reflexivity. Qed.

(* the example documents of C02 / C03 with <initial>, deep and multiple initial attributes, histories, nested
   parallels are inside; the core documents also pass eq_tree_coreb *)
Example document_hypotheses_hold_on_examples :
  forallb eq_tree_histb [hini_tree; hh_tree; h2_tree; fd_tree; ex_tree; ex_tree2; k1_tree; k4_tree; nest_tree; eh_k4h_tree] = true /\
  forallb eq_tree_coreb [ex_tree; ex_tree2; k1_tree; k4_tree; nest_tree] = true.
Proof. vm_compute. split; reflexivity. Qed.

(* ------------------------------------------------------------------ one witness per clause *)

(* the conclusion of flatten_wf_hist fails for the document *)
Definition tables_bad (t : tree) : bool :=
  negb (wf_histb (flatten false t) && match fs_type (st (flatten false t) 0) with FCompound => true | _ => false end).
(* both engine models end a run in an illegal configuration *)
Definition run_illegal (t : tree) (evs : list bytes) : bool :=
  negb (legal_configb (flatten false t) (final_cfg_large t evs 30)) && negb (legal_configb (flatten false t) (final_cfg_fast t evs 30)).

(* a state that carries the number of the root, and a transition naming it *)
Definition w_dup_root : tree :=
  vnd KScxml 0 None [] [vnd KState 1 None [vtr 100 (Some [101]) (Some [0])] []; vnd KState 0 None [] []].
(* a transition to two children of the root *)
Definition w_two_children : tree :=
  vnd KScxml 0 None [] [vnd KState 1 None [vtr 100 (Some [101]) (Some [2; 3])] []; vnd KState 2 None [] []; vnd KState 3 None [] []].
(* initial="s1 s2" naming two children *)
Definition w_initattr_two : tree :=
  vnd KScxml 0 (Some [1; 2]) [] [vnd KState 1 None [] []; vnd KState 2 None [] []].
(* a state below a <history> *)
Definition w_below_history : tree :=
  vnd KScxml 0 None []
    [vnd KState 1 None [] [vnd KHistShallow 2 None [vtr 100 None (Some [3])] [vnd KState 4 None [] []]; vnd KState 3 None [] []]].

Lemma root_clause_needed_refuted :
  ht_clauses w_stateless = [false; true; true; true; true; true; true; true] /\ tables_bad w_stateless = true /\
  run_illegal w_stateless [] = true.
Proof. vm_compute. repeat split; reflexivity. Qed.

(* <history> directly below <parallel>, a state below a <history>: outside wf_histb (no illegal run is known) *)
Lemma nest_clause_needed_refuted :
  ht_clauses w_hist_in_parallel = [true; false; true; true; true; true; true; true] /\ tables_bad w_hist_in_parallel = true /\
  ht_clauses w_below_history = [true; false; true; true; true; true; true; true] /\ tables_bad w_below_history = true.
Proof. vm_compute. repeat split; reflexivity. Qed.

(* (no illegal run: the transition to the root's number is resolved to the root and changes nothing) *)
Lemma unique_clause_needed_refuted :
  ht_clauses w_dup_root = [true; true; false; true; true; true; true; true] /\ tables_bad w_dup_root = true.
Proof. vm_compute. repeat split; reflexivity. Qed.

Lemma targets_clause_needed_refuted :
  ht_clauses w_two_children = [true; true; true; false; true; true; true; true] /\ tables_bad w_two_children = true /\
  run_illegal w_two_children [[101]] = true.
Proof. vm_compute. repeat split; reflexivity. Qed.

Lemma initattr_clause_needed_refuted :
  ht_clauses w_initattr_two = [true; true; true; true; false; true; true; true] /\ tables_bad w_initattr_two = true /\
  run_illegal w_initattr_two [] = true.
Proof. vm_compute. repeat split; reflexivity. Qed.

(* the transition of an <initial> names a <history>: outside wf_histb (no illegal run is known) *)
Lemma initial_clause_needed_refuted :
  ht_clauses w_initial_to_hist = [true; true; true; true; true; false; true; true] /\ tables_bad w_initial_to_hist = true.
Proof. vm_compute. repeat split; reflexivity. Qed.

(* the default transition of a <history> names the history itself *)
Lemma history_clause_needed_refuted :
  ht_clauses w_hist_self = [true; true; true; true; true; true; false; true] /\ tables_bad w_hist_self = true /\
  run_illegal w_hist_self [[101]] = true.
Proof. vm_compute. repeat split; reflexivity. Qed.

(* C02-K1: a deep history above a state that owns a history *)
Lemma disjoint_clause_needed_refuted :
  ht_clauses kho_tree = [true; true; true; true; true; true; true; false] /\ tables_bad kho_tree = true /\
  run_illegal kho_tree [[101]] = true.
Proof. vm_compute. repeat split; reflexivity. Qed.

(* eq_tree_histb: a child-less <parallel> (inside hist_treeb): the guard holds and the traces of the two engines differ *)
Lemma par_nonempty_clause_needed_refuted :
  hist_treeb cp_tree = true /\ ct_par_nonemptyb cp_tree = false /\
  eq_guard_run_hist ex_fixed (flatten false cp_tree) 12 l_pristine x_init [[101]] = true /\
  run_fast ex_fixed false cp_tree [[101]] 12 <> run_large lg_fixed ex_fixed false cp_tree [[101]] 12.
Proof. vm_compute. repeat split; try reflexivity. discriminate. Qed.

(* the witnesses with an illegal run of both engine models *)
Lemma hist_tree_clauses_needed_runs_refuted :
  run_illegal w_stateless [] = true /\ run_illegal w_two_children [[101]] = true /\ run_illegal w_initattr_two [] = true /\
  run_illegal w_hist_self [[101]] = true /\ run_illegal kho_tree [[101]] = true.
Proof. vm_compute. repeat split; reflexivity. Qed.

(* all witnesses in one statement: for every clause k of hist_treeb there is a document that fails only clause k
   and whose tables are outside the conclusion of flatten_wf_hist *)
Theorem hist_tree_clauses_needed_refuted :
  forall k, (k < 8)%nat -> exists t,
    (forall j, (j < 8)%nat -> nth j (ht_clauses t) true = negb (j =? k)%nat) /\ tables_bad t = true.
Proof.
  intros k Hk.
  assert (Hsweep : forall t, (forallb (fun j => Bool.eqb (nth j (ht_clauses t) true) (negb (j =? k)%nat)) (seq 0 8) = true) ->
                   forall j, (j < 8)%nat -> nth j (ht_clauses t) true = negb (j =? k)%nat).
  { intros t H j Hj. rewrite forallb_forall in H. apply Bool.eqb_prop. apply H. apply in_seq. lia. }
  destruct k as [|[|[|[|[|[|[|[|k]]]]]]]]; try lia.
  - exists w_stateless. split; [apply Hsweep|]; vm_compute; reflexivity.
  - exists w_hist_in_parallel. split; [apply Hsweep|]; vm_compute; reflexivity.
  - exists w_dup_root. split; [apply Hsweep|]; vm_compute; reflexivity.
  - exists w_two_children. split; [apply Hsweep|]; vm_compute; reflexivity.
  - exists w_initattr_two. split; [apply Hsweep|]; vm_compute; reflexivity.
  - exists w_initial_to_hist. split; [apply Hsweep|]; vm_compute; reflexivity.
  - exists w_hist_self. split; [apply Hsweep|]; vm_compute; reflexivity.
  - exists kho_tree. split; [apply Hsweep|]; vm_compute; reflexivity.
Qed.
