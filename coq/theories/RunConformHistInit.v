(* RunConformHistInit.v -- C01 on charts with <history> (wf_histb): the initial microstep.  LargeMicroStep::step on a
   pristine interpreter (enter the completion of <scxml>) against the start of Appendix D's interpret() as Spec.spec_run
   has it.  The context is (<scxml>, its completion); no <history> element is touched (the completion of <scxml> and of
   every compound state consists of proper states or is the <initial> child: root_plainb, cpl_okb), so this is
   RunConformInitialInit.v over the invariants of RunConformHistSpec.v / RunConformHistEngine.v, which do not assume
   "no history state".  Proofs only. *)
From V Require Import Base NameMatch NameMatchLemmas Chart Exec Large LargeLemmas Spec Legal SetLemmas LegalAbstract LegalLarge
  Interp LegalRun WfCore LegalOracle LargeCacheLemmas SelectConform SelectConformLemmas SelectConformRoot
  MicroConform MicroConformLemmas MicroConformEntry MicroConformCompose MicroConformFlatten
  Serialize SerializeCongLemmas RunConformBase RunConformInit
  LegalHistBase LegalHistEntry LegalHistStep LegalHistRun
  RunConformInitialBase RunConformInitialSpec RunConformInitialEngine RunConformInitialMicro
  RunConformHistRel RunConformHistSpec RunConformHistEngine RunConformHistMicro.
Local Open Scope nat_scope.

Section IEntryH.
Variable c : fchart.
Let n := nstates c.
Let par (i : nat) := fs_parent (st c i).
Let kd (i : nat) := fs_type (st c i).
Let cpl (i : nat) := fs_completion (st c i).
Notation Anc := (LegalAbstract.Anc par).
Notation pseudo := (pseudoS c).
Notation IC := (LegalHistBase.IC c).

Hypothesis W : WFH c.
Hypothesis HcplOK : CplOK c.
Hypothesis HcplAnti : CplAnti c.
Hypothesis HtgAnti : TgAnti c.
Hypothesis root_compound : kd 0 = FCompound.
Hypothesis root_plain : forall g, In g (cpl 0) -> pseudo g = false.
Variable hist : list nat.
Hypothesis HH : HistOK c hist.

Definition B0h (r : nat) (G : list nat) : Prop := r = 0 /\ G = cpl 0.

Lemma itg_rooth : itg c 0 = cpl 0.
Proof. unfold itg. now rewrite (initial_of_plain c 0 root_plain). Qed.

Lemma HB10h r G : B0h r G -> GoodCtx c r G.
Proof. intros [-> ->]. rewrite <- itg_rooth. exact (itg_good c W HcplOK HcplAnti HtgAnti 0 root_compound). Qed.

Lemma HB20h r G r' G' : B0h r G -> B0h r' G' -> (r = r' /\ G = G') \/ (r <> r' /\ ~ Anc r r' /\ ~ Anc r' r).
Proof. intros [-> ->] [-> ->]. now left. Qed.

Lemma Low0h x : Low c B0h x <-> Anc 0 x.
Proof.
  split.
  - intros (r & G & [-> _] & Ha). exact Ha.
  - intros Ha. exists 0, (cpl 0). split; [split; reflexivity | exact Ha].
Qed.

Lemma HL0h x : Low c B0h x \/ ~ Low c B0h x.
Proof.
  destruct (Nat.eq_dec x 0) as [->|Hne]; [right; intros H; apply Low0h in H; exact (hanc_irrefl c W _ H)|].
  destruct (Nat.lt_ge_cases x n) as [Hlt|Hge]; [left; apply Low0h; apply (hanc_root c W); lia|].
  right. intros H. apply Low0h in H. destruct (hanc_lt c W _ _ H). unfold n in *. lia.
Qed.

Lemma n_pos0h : 0 < n.
Proof.
  destruct (Nat.lt_ge_cases 0 n) as [H|H]; [exact H|]. exfalso. unfold kd, st in root_compound.
  rewrite nth_overflow in root_compound by exact H. discriminate.
Qed.

Lemma eff_h0h hv0 tgl x : (forall g, In g tgl -> pseudo g = false) -> (In x (eff_targets c (Spec.n c) hv0 tgl) <-> In x tgl).
Proof.
  intros Hpl. unfold Spec.n. pose proof n_pos0h as Hn. unfold n in Hn. destruct (nstates c) as [|m]; [lia|]. cbn [eff_targets].
  assert (Hg : forall l acc, (forall g, In g l -> pseudo g = false) ->
     (In x (fold_left (fun acc0 s => if is_history_state c s
                                     then match hv_get hv0 s with
                                          | Some v => unionn acc0 v
                                          | None => match pseudo_trans c s with
                                                    | Some t => unionn acc0 (eff_targets c m hv0 (ft_targets t))
                                                    | None => acc0
                                                    end
                                          end
                                     else addn s acc0) l acc) <-> In x acc \/ In x l)).
  { induction l as [|y l IH]; intros acc Hl; cbn [fold_left]; [cbn; tauto|].
    rewrite (proper_not_hist c y (Hl y (or_introl eq_refl))), IH by (intros g Hg; apply Hl; now right). rewrite me_In_addn. cbn [In]. intuition. }
  rewrite (Hg tgl [] Hpl). cbn [In]. tauto.
Qed.

Notation E0 := (HE0 c (cpl 0)).

Lemma E10h r G y : B0h r G -> IC r G y ->
  In y E0 \/ exists H q, In H E0 /\ histS c H = true /\ par H = Some q /\ Anc q y.
Proof. intros [-> ->] [_ H]. left. now apply (In_HE0 c W). Qed.

Lemma E20h x : In x E0 -> pseudo x = false -> Low c B0h x -> exists r G, B0h r G /\ IC r G x.
Proof.
  intros Hx _ HL. exists 0, (cpl 0). split; [split; reflexivity|]. split; [now apply Low0h | now apply (In_HE0 c W)].
Qed.

Lemma E30p x : In x E0 -> pseudo x = false.
Proof.
  intros Hx. apply (In_HE0 c W) in Hx as (g & Hg & [->|Ha]); [now apply root_plain | exact (anc_not_pseudo c W x g Ha)].
Qed.

Lemma E30h x : In x E0 -> pseudo x = true -> histS c x = true.
Proof. intros Hx Hp. rewrite (E30p x Hx) in Hp. discriminate. Qed.

Lemma EH0h H : In H E0 -> histS c H = true ->
  exists q d G, par H = Some q /\ B0h d G /\ (d = q \/ Anc d q) /\
                (forall x, AddH c hist H x <-> Anc q x /\ IC d G x) /\ (exists x, AddH c hist H x).
Proof. intros H0 Hh. pose proof (E30p H H0) as Hp. rewrite (hist_pseudo c H Hh) in Hp. discriminate. Qed.

Lemma E40h k : surv [] [] k -> ~ Low c B0h k.
Proof. intros [[] _]. Qed.

Lemma E60h j : QT j -> kd j = FCompound -> ~ Low c B0h j -> hblocked c [] [] E0 j.
Proof.
  intros _ Hk Hnl.
  assert (j = 0).
  { destruct (Nat.eq_dec j 0) as [E|Hne]; [exact E|]. exfalso. apply Hnl. apply Low0h. apply (hanc_root c W); [lia|].
    destruct (Nat.lt_ge_cases j (nstates c)) as [H|H]; [exact H|]. unfold kd, st in Hk. rewrite nth_overflow in Hk by exact H. discriminate. }
  subst j. destruct (wh_compound c W 0 root_compound) as [Hne Hb]. fold (cpl 0) in *.
  destruct (cpl 0) as [|g gs] eqn:E; [congruence|].
  destruct (hanc_child_on_path c 0 g (Hb g (or_introl eq_refl))) as (k & Hpk & Hon).
  exists k. split; [now apply (wh_children c W)|]. left. apply (In_HE0 c W). exists g. split; [now left | exact Hon].
Qed.

Notation EF := (EfinH c [] [] hist (cpl 0) []).
Notation TF := (TfinH c [] [] hist (cpl 0) []).

Notation eng f := (f c W HcplOK HcplAnti HtgAnti B0h HB10h HB20h [] [] hist (cpl 0) [] (hinit_tg_bound c W root_compound) HH
  (hinit_E0_uniq c W root_compound) QT (fun x _ => I) (fun j x _ _ _ => I) (fun j x _ _ _ _ => I) (fun j q x _ _ _ _ => I)
  E10h E20h E30h E40h E60h HL0h EH0h).

(* Appendix D's side: any set with the invariant in which the context of the root has been entered *)
Variable e : eset.
Hypothesis HG : GIH c B0h (fun _ => False) e.
Hypothesis Hbase : forall y, IC 0 (cpl 0) y -> In y (e_enter e).

Lemma Hbaseh' r G y : B0h r G -> IC r G y -> In y (e_enter e).
Proof. intros [-> ->]. apply Hbase. Qed.

Theorem init_entry_seth x : In x (e_enter e) <-> In x EF /\ pseudo x = false /\ x <> 0.
Proof.
  rewrite (final_set_h c W B0h HB20h e HG Hbaseh' x). split.
  - intros (r & G & HD). split; [exact (eng engine_complete_h r G x HD)|].
    split; [exact (D_proper c W HcplOK HcplAnti HtgAnti B0h HB10h r G x HD)|].
    intros ->. pose proof (Low_D c B0h r G 0 HD) as H. apply Low0h in H. exact (hanc_irrefl c W _ H).
  - intros (Hx & Hp & Hne). apply (eng engine_sound_h x Hx Hp). apply Low0h. apply (hanc_root c W); [lia|].
    destruct (eng inv_fin_h) as [HF _]. exact (hi_bound _ _ _ _ _ _ _ HF x Hx).
Qed.

Lemma init_root_inh : In 0 EF.
Proof.
  destruct (eng inv_fin_h) as [HF _]. apply (hi_base _ _ _ _ _ _ _ HF); [|now apply compound_not_pseudo].
  apply (In_HE0 c W). destruct (wh_compound c W 0 root_compound) as [Hne Hb]. fold (cpl 0) in *.
  destruct (cpl 0) as [|g gs] eqn:E; [congruence|]. exists g. split; [now left|]. right. apply Hb. now left.
Qed.

Theorem init_trans_seth i x ti : (i = 0 \/ In i (e_enter e)) -> par x = Some i -> kd x = FInitial ->
  In ti (fs_trans (st c x)) -> (In ti TF <-> In i (e_default e) /\ cpl i = [x]).
Proof.
  intros Hi Hpx Hkx Hti.
  rewrite (eng engine_ts_h ti). split.
  - intros [[]|[(x' & Hx' & Hk' & Hin')|(H & r & H0 & Hh & _)]].
    + assert (x' = x) by (rewrite <- (wh_tr_src c W x' ti Hin'); exact (wh_tr_src c W x ti Hti)). subst x'.
      destruct (proj1 (eng engine_initial_h x) (conj Hx' Hkx)) as (q & r & G & A1 & A2 & _ & A4 & A5 & A6).
      fold (par x) in A1. rewrite Hpx in A1. injection A1 as <-. split; [|exact A2].
      apply (final_default_h c W B0h HB20h e HG Hbaseh'). split; [exact A6|]. exists r, G. auto.
    + exfalso. pose proof (E30p H H0) as Hp. rewrite (hist_pseudo c H Hh) in Hp. discriminate.
  - intros [Hd Hc]. right. left. exists x. split; [|auto].
    apply (final_default_h c W B0h HB20h e HG Hbaseh') in Hd as (Hk & r & G & HD & Hn).
    apply (proj2 (eng engine_initial_h x)). exists i, r, G. auto 8.
Qed.

(* no default transition of a <history> element is in the transition set *)
Theorem init_hist_transh H ti : histS c H = true -> In ti (fs_trans (st c H)) -> ~ In ti TF.
Proof.
  intros Hh Hti Hin. apply (eng engine_ts_h ti) in Hin as [[]|[(x' & Hx' & Hk' & Hin')|(H' & r & H0 & Hh' & _)]].
  - assert (x' = H) by (rewrite <- (wh_tr_src c W x' ti Hin'); exact (wh_tr_src c W H ti Hti)). subst x'.
    unfold histS in Hh. unfold kd in Hk'. rewrite Hk' in Hh. discriminate.
  - pose proof (E30p H' H0) as Hp. rewrite (hist_pseudo c H' Hh') in Hp. discriminate.
Qed.

Lemma init_default_kindh i : In i (e_default e) -> kd i = FCompound.
Proof. intros Hd. now apply (final_default_h c W B0h HB20h e HG Hbaseh') in Hd as (Hk & _). Qed.

Lemma init_root_not_defaulth : ~ In 0 (e_default e).
Proof.
  intros Hd. apply (final_default_h c W B0h HB20h e HG Hbaseh') in Hd as (_ & r & G & HD & _).
  pose proof (Low_D c B0h r G 0 HD) as H. apply Low0h in H. exact (hanc_irrefl c W _ H).
Qed.

Lemma init_posh x : In x (e_enter e) -> 0 < x /\ x < n.
Proof.
  intros Hx. apply init_entry_seth in Hx as (Hx & _ & Hne). split; [lia|].
  destruct (eng inv_fin_h) as [HF _]. exact (hi_bound _ _ _ _ _ _ _ HF x Hx).
Qed.

End IEntryH.

(* ------------------------------------------------------------------ the step *)

Section InitStepHH.
Variable c : fchart.
Hypothesis W : WFH c.
Hypothesis HcplOK : CplOK c.
Hypothesis HcplAnti : CplAnti c.
Hypothesis HtgAnti : TgAnti c.
Hypothesis Hnamed : chart_named c = true.
Hypothesis root_compound : fs_type (st c 0) = FCompound.
Hypothesis root_plain : forall g, In g (fs_completion (st c 0)) -> pseudoS c g = false.
Hypothesis root_sorted : ssorted (fs_completion (st c 0)).
Hypothesis Hroot_onentry : fs_onentry (st c 0) = [].
Hypothesis Hsilent : root_silentb c = true.
Hypothesis Hbody : forall ti, ft_has_body (tr c ti) = false -> ft_body (tr c ti) = [].
Hypothesis Hdata : fc_late c = false -> forall i, i <> 0 -> fs_data (st c i) = [].
Hypothesis HPAR : forall s, s < nstates c -> fs_type (st c s) = FParallel -> fs_children (st c s) <> [].
Notation Anc := (LegalAbstract.Anc (fun i => fs_parent (st c i))).
Hypothesis Hfin_par : forall i p, fs_type (st c i) = FFinal -> fs_parent (st c i) = Some p -> fs_type (st c p) <> FParallel.
Hypothesis Hfin_up : forall i p a, fs_type (st c i) = FFinal -> fs_parent (st c i) = Some p -> Anc a p ->
  fs_parent (st c p) = Some a \/ fs_type (st c a) <> FParallel.
Hypothesis Hflags : forall x ti, is_pseudo (fs_type (st c x)) = true -> In ti (fs_trans (st c x)) ->
  ft_history (tr c ti) || ft_initial (tr c ti) = true.

Let r := fs_sid (st c 0).
Let ds := fs_data (st c 0).

(* Appendix D's initial entry set: computeEntrySet's loop body for the document's initial transition *)
Lemma spec_init_eset_ctxh :
  spec_init_eset c [] = ctx_enter_h c [] 0 (fs_completion (st c 0)) (eff_targets c (Spec.n c) [] (fs_completion (st c 0)))
                                  {| e_enter := []; e_default := []; e_histcontent := [] |}.
Proof.
  unfold spec_init_eset. rewrite (entry_step_init c [] _ (wh_root_par c W)).
  change (fst (initial_of c 0)) with (itg c 0). rewrite (itg_rooth c root_plain). reflexivity.
Qed.

Lemma spec_init_GIh : GIH c (B0h c) (fun _ => False) (spec_init_eset c []) /\
  (forall y, LegalHistBase.IC c 0 (fs_completion (st c 0)) y -> In y (e_enter (spec_init_eset c []))) /\
  e_histcontent (spec_init_eset c []) = [].
Proof.
  rewrite spec_init_eset_ctxh.
  assert (Hb : B0h c 0 (fs_completion (st c 0))) by (split; reflexivity).
  destruct (ctx_enter_h_ok c W HcplOK HcplAnti HtgAnti (B0h c) (HB10h c W HcplOK HcplAnti HtgAnti root_compound root_plain) (HB20h c)
              [] 0 (fs_completion (st c 0)) Hb (fs_completion (st c 0)) (eff_targets c (Spec.n c) [] (fs_completion (st c 0)))
              {| e_enter := []; e_default := []; e_histcontent := [] |}) as (A & _ & C & D').
  - intros s Hs. left. split; [now apply root_plain | exact Hs].
  - intros g Hg. exists g. split; [exact Hg|]. unfold res. rewrite (proper_not_hist c g (root_plain g Hg)). now left.
  - intros x. apply (eff_h0h c root_compound). exact root_plain.
  - apply GIH_empty.
  - split; [exact A|]. split; [exact C|]. rewrite D'.
    assert (E : flat_map (hc_one c []) (fs_completion (st c 0)) = []).
    { assert (Hg : forall l, (forall g, In g l -> pseudoS c g = false) -> flat_map (hc_one c []) l = []).
      { induction l as [|g l IH]; intros Hl; cbn [flat_map]; [reflexivity|].
        rewrite IH by (intros z Hz; apply Hl; now right). unfold hc_one. now rewrite (proper_not_hist c g (Hl g (or_introl eq_refl))). }
      apply Hg. exact root_plain. }
    now rewrite E.
Qed.

(* interpret() up to the main event loop with a given entry set *)
Definition spec_init_eh (e : eset) (x0 : xstate) : sstate * xstate :=
  let x1 := fold_left (fun x d => init_data d x) (fs_data (st c 0)) x0 in
  let '(s1, x2) := enter_states_e c e spec_s0 (emit (TDiag (diag c [] [] None x1)) (emit TMsB x1)) in
  (s1, emit (spec_cfg_tok c s1) (emit TMsE x2)).

Lemma spec_init_is_eh x0 : spec_init c x0 = spec_init_eh (spec_init_eset c []) x0.
Proof. reflexivity. Qed.

(* entering the <scxml> element: none of its pseudo-state children has its transition in the set *)
Lemma enter_root_hh ts t x0 :
  (forall x ti, fs_parent (st c x) = Some 0 -> pseudoS c x = true -> In ti (fs_trans (st c x)) -> ~ In ti ts) ->
  enter_one ex_fixed c ts {| ea_cfg := []; ea_initd := []; ea_tlf := t; ea_x := x0 |} 0 =
  {| ea_cfg := [0]; ea_initd := initd_root c; ea_tlf := t;
     ea_x := emit (TEe r) (fold_left (fun x d => init_data d x) ds (emit (TEb r) x0)) |}.
Proof.
  intros Hno. rewrite enter_one_staged. rewrite root_compound. cbn [is_pseudo ea_initd ea_x ea_cfg ea_tlf].
  assert (Htail : forall initd1 x2, l_tail c ts (insert_sorted 0 []) initd1 t x2 0 =
                  {| ea_cfg := [0]; ea_initd := initd1; ea_tlf := t; ea_x := emit (TEe r) x2 |}).
  { intros initd1 x2. unfold l_tail. cbn zeta. rewrite Hroot_onentry. unfold exec_blocks at 1. cbn [fold_left].
    assert (Hx5 : forall cfg1 y, fold_left
      (fun x ch => if is_pseudo (fs_type (st c ch)) then
           fold_left (fun x ti =>
                        if (ft_history (tr c ti) || ft_initial (tr c ti)) && mem ti ts then
                          emit (TTe (ft_vid (tr c ti)))
                            (if ft_has_body (tr c ti) then exec_block ex_fixed (inst_of c cfg1) (ft_body (tr c ti)) (emit (TTb (ft_vid (tr c ti))) x)
                             else emit (TTb (ft_vid (tr c ti))) x)
                        else x) (fs_trans (st c ch)) x
         else x) (fs_children (st c 0)) y = y).
    { intros cfg1 y. apply fold_none. intros a ch Hch. destruct (is_pseudo (fs_type (st c ch))) eqn:Hps; [|reflexivity].
      apply (wh_children c W) in Hch. apply fold_none. intros a' ti Hti.
      replace (mem ti ts) with false; [now rewrite andb_false_r|]. symmetry. apply mem_false_In. exact (Hno ch ti Hch Hps Hti). }
    rewrite root_compound, Hx5. reflexivity. }
  unfold initd_root, ds. destruct (fs_data (st c 0)) as [|d0 dr]; cbn [mem]; rewrite Htail; reflexivity.
Qed.

Variable l : lstate.
Variables xl xs : xstate.
Hypothesis Hpr : is_pristine l = true.
Hypothesis Hcfg : l_cfg l = [].
Hypothesis Hinitd : l_initd l = [].
Hypothesis HH : HistOK c (l_hist l).
Hypothesis Hdyn : same_dyn xl xs.
Variable e : eset.
Hypothesis HG : GIH c (B0h c) (fun _ => False) e.
Hypothesis Hbase : forall y, LegalHistBase.IC c 0 (fs_completion (st c 0)) y -> In y (e_enter e).
Hypothesis Hhc0 : e_histcontent e = [].
Hypothesis Htrn : forall s, NoDup (fs_trans (st c s)).

Theorem initial_step_e_sech :
  let rl := microstep lg_fixed ex_fixed c l (emit TMsB xl) (fs_completion (st c 0)) [] [] true in
  let q := spec_init_eh e xs in
  corr c (fst rl) (fst q) /\ s_hv (fst q) = [] /\ same_dyn (snd rl) (snd q) /\
  l_spont (fst rl) = true /\ l_init (fst rl) = true /\ l_fin (fst rl) = false /\ l_stable (fst rl) = false /\
  l_cancelled (fst rl) = l_cancelled l /\
  exists d dg,
    x_out (snd rl) = TMsE :: d ++ TEe r :: TEb r :: TMsB :: x_out xl /\
    x_out (snd q) = spec_cfg_tok c (fst q) :: TMsE :: d ++ TDiag dg :: TMsB :: x_out xs.
Proof.
  destruct (pristine_flags l Hpr) as (F1 & F2 & F3 & F4 & F5).
  destruct (root_silent_parts c Hsilent) as (Sen & _ & Sbody).
  pose proof (init_entry_seth c W HcplOK HcplAnti HtgAnti root_compound root_plain (l_hist l) HH e HG Hbase) as Hset.
  pose proof (init_trans_seth c W HcplOK HcplAnti HtgAnti root_compound root_plain (l_hist l) HH e HG Hbase) as Htset.
  pose proof (init_hist_transh c W HcplOK HcplAnti HtgAnti root_compound root_plain (l_hist l) HH) as Hhset.
  pose proof (init_root_inh c W HcplOK HcplAnti HtgAnti root_compound root_plain (l_hist l) HH e Hbase) as Hroot.
  pose proof (init_posh c W HcplOK HcplAnti HtgAnti root_compound root_plain (l_hist l) HH e HG Hbase) as Hpos.
  pose proof (init_root_not_defaulth c W e HG Hbase) as Hrnd.
  pose proof (init_default_kindh c W e HG Hbase) as Hdk.
  cbn beta in Hset, Htset, Hroot.
  cbn zeta. rewrite microstep_initial_unfold. rewrite Hcfg, Hinitd, F3.
  destruct (entry_set_sets c [] [] (l_hist l) Hflags (fs_completion (st c 0)) []) as [Hes Hts].
  { exact root_sorted. }
  unfold EfinH, TfinH in Hset, Htset, Hroot, Hhset.
  destruct (entry_set lg_fixed c [] [] (l_hist l) (fs_completion (st c 0)) []) as [es ts] eqn:Ees.
  cbn [fst snd] in Hts, Hes, Hset, Htset, Hroot, Hhset.
  rewrite (take_fold_filter c [] ts), Hts. cbn [filter fold_left]. rewrite set_diff_nil.
  rewrite enter_fold_proper.
  set (L := sort_doc (e_enter e)).
  assert (HL : forall x, In x L <-> In x (e_enter e)) by (intros x; unfold L, sort_doc; apply In_set_of_list).
  assert (Hes0 : filter (fun i => negb (is_pseudo (fs_type (st c i)))) es = 0 :: L).
  { apply ssorted_ext; [now apply ssorted_filter| |].
    - cbn [ssorted]. split; [|apply ssorted_set_of_list]. intros y Hy. apply HL in Hy. destruct (Hpos y Hy). lia.
    - intros z. rewrite filter_In, negb_true_iff. cbn [In]. rewrite HL, Hset. unfold pseudoS. split.
      + intros [Hz Hp]. destruct (Nat.eq_dec z 0) as [->|Hne]; [now left | right; tauto].
      + intros [<-|(Hz & Hp & _)]; [split; [exact Hroot | now rewrite root_compound] | tauto]. }
  rewrite Hes0. cbn [fold_left]. rewrite enter_root_hh.
  2: { intros x ti Hpx Hps Hti Hin. destruct (pseudo_kind c x Hps) as [Hkx|Hhx]; [|exact (Hhset x ti Hhx Hti Hin)].
       apply (Htset 0 x ti (or_introl eq_refl) Hpx Hkx Hti) in Hin as [Hd _]. exact (Hrnd Hd). }
  unfold spec_init_eh. cbn zeta. rewrite enter_states_e_fold. fold L. fold ds.
  set (xa := emit (TEe r) (fold_left (fun x d => init_data d x) ds (emit (TEb r) (emit TMsB xl)))).
  set (x1s := fold_left (fun x d => init_data d x) ds xs).
  set (dg := diag c [] [] None x1s).
  set (xb := emit (TDiag dg) (emit TMsB x1s)).
  assert (Hab : same_dyn xa xb).
  { unfold xa, xb, x1s. destruct (init_datas_dyn ds (emit (TEb r) (emit TMsB xl)) xs Hdyn) as [H _]. exact H. }
  assert (Hoa : x_out xa = TEe r :: TEb r :: TMsB :: x_out xl).
  { unfold xa. cbn [emit x_out]. destruct (init_datas_dyn ds (emit (TEb r) (emit TMsB xl)) xs Hdyn) as [_ H]. now rewrite H. }
  assert (Hob : x_out xb = TDiag dg :: TMsB :: x_out xs).
  { unfold xb, x1s. cbn [emit x_out]. destruct (init_datas_dyn ds xs xs (same_dyn_refl xs)) as [_ H]. now rewrite H. }
  set (a1 := {| ea_cfg := [0]; ea_initd := initd_root c; ea_tlf := false; ea_x := xa |}).
  set (b1 := {| ea_cfg := [0]; ea_initd := initd_root c; ea_tlf := false; ea_x := xb |}).
  assert (HRa : Ra eq (fun _ => True) (x_out xa) (x_out xb) a1 b1).
  { unfold Ra, a1, b1. cbn [ea_cfg ea_initd ea_tlf ea_x].
    split; [reflexivity | split; [reflexivity | split; [reflexivity | now apply RxE_intro]]]. }
  pose proof (enter_fold_E c Hnamed _ _ ts L a1 b1 HRa) as (R1 & R2 & R3 & R4).
  apply RxE_elim in R4 as [R4 (d & R5 & R6)].
  set (CF := fun y => In y es /\ pseudoS c y = false).
  pose proof (initial_sets_legal_h c W (l_hist l) HH root_compound) as HLg.
  unfold HEinit, HEfin in HLg. rewrite Ees in HLg. cbn [fst] in HLg. fold CF in HLg.
  assert (HCFp : forall y, CF y -> pseudoS c y = false) by (intros y [_ Hy]; exact Hy).
  assert (Huniq : forall q k1 k2, fs_type (st c q) = FCompound -> In k1 (fs_children (st c q)) -> In k2 (fs_children (st c q)) ->
                  CF k1 -> CF k2 -> k1 = k2).
  { intros q k1 k2 Hq Hk1 Hk2 C1 C2. apply (wh_children c W) in Hk1, Hk2.
    pose proof (par_ppar c k1 q (HCFp k1 C1) Hk1) as P1. pose proof (par_ppar c k2 q (HCFp k2 C2) Hk2) as P2.
    apply (lg_compound_uniq _ _ _ _ HLg q k1 k2); try assumption.
    - exact (lg_parent _ _ _ _ HLg k1 q C1 P1).
    - now apply (pch_spec c W).
    - now apply (pch_spec c W). }
  pose proof (enter_fold_conforms_hh c W HcplOK ts e CF (fun i => In i (e_enter e)) Sen Sbody Hbody Hdata HPAR Hfin_par Hfin_up
                Huniq HCFp Hflags Htrn Hdk (fun i x ti Hi => Htset i x ti (or_intror Hi))) as HE.
  rewrite Hhc0 in HE. cbn [rev] in HE.
  specialize (HE (fun i H ti _ _ Hh Hti => conj (fun Hin => False_ind _ (Hhset H ti Hh Hti Hin)) (fun F : In (i, ti) [] => False_ind _ F))
                 (fun i _ => or_introl eq_refl) (fun i ti _ F => F) (fun i ti (F : In (i, ti) []) => False_ind _ F) L b1 (spec_s0, xb)).
  destruct HE as [(E1 & E2 & E3 & E4) _].
  { split; [|intros y []]. unfold erel, b1, spec_s0. cbn [fst snd ea_cfg ea_tlf ea_initd ea_x s_cfg s_running s_entered].
    repeat split. intros i Hi. unfold initd_root. destruct (fs_data (st c i)) eqn:Hdi; [congruence|].
    destruct i as [|i']; [rewrite Hdi; reflexivity|]. destruct (fs_data (st c 0)); reflexivity. }
  { intros i Hi. apply HL in Hi. destruct (Hpos i Hi) as [A B']. split; [exact A|]. split; [exact B'|]. split; [|exact Hi].
    apply Hset in Hi. unfold CF. tauto. }
  pose proof (spec_enter_fold_hv c e L (spec_s0, xb)) as Hhv.
  set (afin := fold_left (enter_one ex_fixed c ts) L a1) in *.
  set (bfin := fold_left (enter_one ex_fixed c ts) L b1) in *.
  destruct (fold_left (spec_enter_one c e) L (spec_s0, xb)) as [s1 x2] eqn:Esx.
  cbn [fst snd l_cfg l_tlf l_initd l_spont l_init l_fin l_stable l_cancelled] in *.
  split; [unfold corr; cbn [l_cfg l_tlf l_initd]; rewrite R1, R2, R3; auto|].
  split; [exact Hhv|].
  split; [unfold same_dyn; cbn [emit x_store x_iq x_eq]; rewrite <- E4; exact R4|].
  split; [reflexivity|]. split; [reflexivity|]. split; [exact F4|]. split; [exact F5|]. split; [reflexivity|].
  exists d, dg. cbn [emit x_out]. rewrite R5, Hoa, <- E4, R6, Hob. split; reflexivity.
Qed.

End InitStepHH.

(* against Spec.spec_run's start *)
Section InitStepCorH.
Variable c : fchart.
Hypothesis W : WFH c.
Hypothesis HcplOK : CplOK c.
Hypothesis HcplAnti : CplAnti c.
Hypothesis HtgAnti : TgAnti c.
Hypothesis Hnamed : chart_named c = true.
Hypothesis root_compound : fs_type (st c 0) = FCompound.
Hypothesis root_plain : forall g, In g (fs_completion (st c 0)) -> pseudoS c g = false.
Hypothesis Hroot_onentry : fs_onentry (st c 0) = [].
Hypothesis Hsilent : root_silentb c = true.
Hypothesis Hbody : forall ti, ft_has_body (tr c ti) = false -> ft_body (tr c ti) = [].
Hypothesis Hdata : fc_late c = false -> forall i, i <> 0 -> fs_data (st c i) = [].
Hypothesis HPAR : forall s, s < nstates c -> fs_type (st c s) = FParallel -> fs_children (st c s) <> [].
Notation Anc := (LegalAbstract.Anc (fun i => fs_parent (st c i))).
Hypothesis Hfin_par : forall i p, fs_type (st c i) = FFinal -> fs_parent (st c i) = Some p -> fs_type (st c p) <> FParallel.
Hypothesis Hfin_up : forall i p a, fs_type (st c i) = FFinal -> fs_parent (st c i) = Some p -> Anc a p ->
  fs_parent (st c p) = Some a \/ fs_type (st c a) <> FParallel.
Hypothesis Hflags : forall x ti, is_pseudo (fs_type (st c x)) = true -> In ti (fs_trans (st c x)) ->
  ft_history (tr c ti) || ft_initial (tr c ti) = true.
Variable l : lstate.
Variables xl xs : xstate.
Hypothesis Hpr : is_pristine l = true.
Hypothesis Hcfg : l_cfg l = [].
Hypothesis Hinitd : l_initd l = [].
Hypothesis HH : HistOK c (l_hist l).
Hypothesis Hdyn : same_dyn xl xs.
Hypothesis Htrn : forall s, NoDup (fs_trans (st c s)).
Let r := fs_sid (st c 0).

Theorem initial_step_initial_sech : ssorted (fs_completion (st c 0)) ->
  let rl := microstep lg_fixed ex_fixed c l (emit TMsB xl) (fs_completion (st c 0)) [] [] true in
  let q := spec_init c xs in
  corr c (fst rl) (fst q) /\ s_hv (fst q) = [] /\ same_dyn (snd rl) (snd q) /\
  l_spont (fst rl) = true /\ l_init (fst rl) = true /\ l_fin (fst rl) = false /\ l_stable (fst rl) = false /\
  l_cancelled (fst rl) = l_cancelled l /\
  exists d dg,
    x_out (snd rl) = TMsE :: d ++ TEe r :: TEb r :: TMsB :: x_out xl /\
    x_out (snd q) = spec_cfg_tok c (fst q) :: TMsE :: d ++ TDiag dg :: TMsB :: x_out xs.
Proof.
  intros Hsorted. rewrite (spec_init_is_eh c xs).
  destruct (spec_init_GIh c W HcplOK HcplAnti HtgAnti root_compound root_plain) as (HG & Hbase & Hhc0).
  exact (initial_step_e_sech c W HcplOK HcplAnti HtgAnti Hnamed root_compound root_plain Hsorted Hroot_onentry Hsilent Hbody Hdata
           HPAR Hfin_par Hfin_up Hflags l xl xs Hpr Hcfg Hinitd HH Hdyn _ HG Hbase Hhc0 Htrn).
Qed.

End InitStepCorH.
