(* PmlEquivHistBehaviour.v -- C06 beyond the history-free core: the property itself, PmlStepLemmas.behaviour_preserved
   and behaviour_prefix, for documents with <initial> elements, deep / multiple initial attributes and <history>
   (wf_histb, chart_ph0), the repaired template, every pair of bounds.  PmlEquivBehaviour.v with the state invariant
   and step theorems of PmlEquivHistRun.v / PmlEquivHistMicro.v / PmlEquivHistInit.v; the view machinery (VPl, VFl,
   token classification) is that file's and holds for every chart.  Proofs only. *)
From V Require Import Base NameMatch Chart Exec Large Interp Legal SetLemmas LegalAbstract LegalLarge WfCore Fast Trie PmlStep
                      Trace TraceLemmas PmlStepLemmas SerializeCodecLemmas SerializeLemmas SerializeFastLemmas
                      LegalHistBase LegalHistRun LegalHistWf
                      PmlEquivBase PmlEquivExit PmlEquivContent PmlEquivStep PmlEquivMicro
                      PmlEquivNames PmlEquivInit PmlEquivRun PmlEquivFastTok PmlEquivPmlTok PmlEquivView PmlEquivBehaviour
                      PmlEquivHistEntry PmlEquivHistMicro PmlEquivHistInit PmlEquivHistRun.
Local Open Scope nat_scope.

Section HBeh.
Variable pv : pml_variant.
Variable c : fchart.
Variable iq eq : nat.
Variable P : bytes -> Prop.
Hypothesis Hpv : pv_repaired pv.
Hypothesis H : wf_histb c = true.
Hypothesis Hroot : fs_type (st c 0) = FCompound.
Hypothesis Hch : chart_ph0 c = true.
Notation dom := (chart_dom c).
Hypothesis Hcontent : content_ok dom c = true.
Hypothesis Hdata : forall i, i <> 0 -> fs_data (st c i) = [].
Hypothesis Hdok : data_okb [] (fs_data (st c 0)) = true.
Hypothesis HPne : forall e, P e -> e <> [].
Hypothesis Hnames : chart_names P c.
Hypothesis Hdone : forall j,
  (is_par (ptype c j) = true \/
   exists i, is_fin (ptype c i) = true /\ fs_parent (st c i) = Some j /\ mem 1 (fs_children (st c j)) = false) ->
  P (done_name c j).
Hypothesis Hmatch : forall i name, P name -> i < ntrans c -> ft_spontaneous (tr c i) = false ->
  resolved_match (guard_literals pv c i) name = name_match_impl nm_fixed (ft_event (tr c i)) name.
Hypothesis Hnt : 0 < ntrans c.

Notation fstep := (fast_step ex_fixed c).
Notation frun := (run_loop c lstate (fast_step ex_fixed c) l_cfg).
Notation ctok := (cfg_tok c lstate l_cfg).
Notation Rx := (Rx c).
Notation sync := (PmlEquivHistRun.sync pv c P).

Notation vinv := (PmlEquivBehaviour.vinv c).
Notation vreaches := (PmlEquivBehaviour.vreaches c).
Notation sel_lines := (PmlEquivBehaviour.sel_lines pv c).
Local Notation vreaches_refl := (PmlEquivBehaviour.vreaches_refl c Hnt).
Local Notation vreaches_trans := (PmlEquivBehaviour.vreaches_trans c Hnt).
Local Notation vreaches_step := (PmlEquivBehaviour.vreaches_step c Hnt).
Local Notation step_then := (PmlEquivBehaviour.step_then c Hnt).
Local Notation dstep_lines := (PmlEquivBehaviour.dstep_lines pv c iq eq Hnt).
Local Notation dstep_lines_initial := (PmlEquivBehaviour.dstep_lines_initial pv c iq eq Hnt).
Local Notation sid_map := (PmlEquivBehaviour.sid_map c).
Local Notation frun_appends := (PmlEquivBehaviour.frun_appends c).

Lemma Hin : pv_in_reads_root pv = false.
Proof. now destruct Hpv. Qed.
Lemma Hch1 : chart_ph c = true.
Proof. unfold chart_ph0 in Hch. now apply andb_true_iff in Hch. Qed.
Lemma Hstale : pv_found_stale pv = false.
Proof. now destruct Hpv as (_ & _ & A & _). Qed.

(* ---- one d_step with both views ---- *)
Lemma select_vsync sd l xd evf s1 bp :
  corr c dom sd l xd -> hst_ok c l -> qinv P sd ->
  l_init l = true -> l_fin l = false -> l_cancelled l = false -> l_tlf l = false ->
  (forall e, evf = Some e -> P (ev_name e)) ->
  (evf <> None -> k_trans (selected pv c (l_cfg l) None (x_store xd)) = []) ->
  pml_dstep pv c iq eq (option_map ev_name evf) sd = (s1, PRunning) ->
  VPl c (p_out sd) (p_cfg sd) bp false -> VFl (x_out xd) (bp ++ ev_view evf) ->
  nocut (p_out sd) -> incomplete (x_out xd) ->
  let r := fselect_and_step ex_fixed c l xd evf in
  exists l1 x1, vreaches (fst (fst r)) (emit (ctok (fst (fst r))) (emit (TRet (snd r)) (snd (fst r)))) l1 x1 /\
                incomplete (x_out (emit (ctok (fst (fst r))) (emit (TRet (snd r)) (snd (fst r))))) /\
                sync s1 l1 x1 /\ vinv s1 x1.
Proof.
  intros Hco Hcf Hq Li Lf Lc Lt HevP Hquiet Hd Vp Vf Nc Ic. cbv zeta.
  assert (Hfull : p_full s1 = false).
  { unfold pml_dstep in Hd. destruct (p_select pv c (option_map ev_name evf) sd) as [a s2].
    match type of Hd with (let '(_, _) := ?t in _) = _ => destruct t as [tg s3] end.
    injection Hd as <- Hst. destruct (p_full _); [discriminate|reflexivity]. }
  assert (Es1 : s1 = fst (pml_dstep pv c iq eq (option_map ev_name evf) sd)) by now rewrite Hd.
  assert (Hm : forall i e, i < ntrans c -> evf = Some e -> ft_spontaneous (tr c i) = false ->
               resolved_match (guard_literals pv c i) (ev_name e) = name_match_impl nm_fixed (ft_event (tr c i)) (ev_name e)).
  { intros i e Hi He Hs. apply Hmatch; auto. }
  pose proof (pml_microstep_hist_lemma pv c iq eq dom Hpv H Hch1 Hcontent Hdata sd l xd evf Hco Hcf Li Hm) as MS.
  cbv zeta in MS. rewrite <- Es1 in MS. specialize (MS Hfull). destruct MS as (K1 & K2 & K3).
  pose proof (qinv_dstep P pv c iq eq Hnames Hdone (option_map ev_name evf) sd Hq) as Hq1. rewrite <- Es1 in Hq1.
  destruct (fselect_and_step_flags c l xd evf Li) as (G1 & G2 & G3).
  pose proof (fselect_and_step_rc ex_fixed c l xd evf) as Hrc.
  destruct (hselection pv c dom Hpv Hch1 Hcontent sd l xd evf Hco Hm) as [Sel Fnd].
  destruct (p_select_form pv c dom Hstale sd l xd evf Hco Hm) as (Ea & _).
  pose proof Hco as [C1 C2 C3 C4 C5 C6].
  assert (Hne : nonempty (p_cfg sd) = true) by (rewrite C1; exact (hcfg_nonempty pv c l xd evf Hcf)).
  pose proof (dstep_lines (option_map ev_name evf) sd Hne) as DL. cbv zeta in DL. rewrite <- Es1, Ea in DL. cbn [k_found] in DL.
  rewrite Fnd in DL.
  set (A := selected pv c (l_cfg l) (option_map ev_name evf) (x_store xd)) in *.
  (* the event line *)
  assert (Vp1 : VPl c (sel_lines (option_map ev_name evf) sd ++ p_out sd) (p_cfg sd) (bp ++ ev_view evf) false).
  { unfold sel_lines. cbn [app].
    do 4 (apply VPl_quiet; [reflexivity|reflexivity|]).
    pose proof (VPl_event c (match option_map ev_name evf with Some e => e | None => [] end) _ _ _ _ Vp) as Ve.
    destruct evf as [e|]; cbn [option_map ev_view] in *.
    - destruct (ev_name e) eqn:En; [exfalso; apply (HPne (ev_name e)); [now apply HevP|exact En]|exact Ve].
    - exact Ve. }
  assert (Nc1 : nocut (sel_lines (option_map ev_name evf) sd ++ p_out sd)) by (apply nocut_app; [reflexivity|exact Nc]).
  destruct (nonempty (k_trans A)) eqn:Ne.
  - (* a microstep *)
    destruct K3 as [K3 K4]. destruct (DL Hfull) as (seg & Eo & Qs & Cs).
    assert (Hsel : k_trans A <> []) by (destruct (k_trans A); [discriminate|discriminate]).
    destruct (select_step_tokens c l xd evf (k_trans A) xd Sel Hsel) as (new & En & Qn).
    set (l' := fst (fst (fselect_and_step ex_fixed c l xd evf))) in *.
    set (x' := snd (fst (fselect_and_step ex_fixed c l xd evf))) in *.
    exists l', (emit (ctok l') (emit (TRet (snd (fselect_and_step ex_fixed c l xd evf))) x')).
    assert (Inc : incomplete (x_out (emit (ctok l') (emit (TRet (snd (fselect_and_step ex_fixed c l xd evf))) x')))).
    { unfold incomplete. cbn [emit x_out existsb stop_tok cfg_tok]. rewrite Hrc, En. cbn [existsb stop_tok orb N.eqb].
      rewrite existsb_app. cbn [existsb stop_tok orb]. rewrite Ic, orb_false_r.
      destruct (existsb stop_tok new) eqn:X; [|reflexivity]. apply existsb_exists in X as (t & Ht & Hs).
      rewrite forallb_forall in Qn. specialize (Qn t Ht). destruct t; discriminate. }
    split; [apply vreaches_refl|]. split; [exact Inc|]. split.
    + apply (PmlEquivHistRun.sync_emit pv c P); [reflexivity|]. apply (PmlEquivHistRun.sync_emit pv c P); [reflexivity|].
      constructor; auto; try congruence.
    + (* both views *)
      assert (Eobs : pobs_list c seg = fobs_list new).
      { destruct K1 as [_ _ (_ & _ & _ & R4) _ _ _]. destruct C3 as (_ & _ & _ & R0).
        rewrite Eo, En in R4. rewrite pobs_list_app in R4. cbn [app] in R4. rewrite fobs_list_cons in R4. cbn [fobs] in R4.
        rewrite fobs_list_app, fobs_list_cons in R4. cbn [fobs] in R4.
        unfold sel_lines in R4. cbn [app] in R4. rewrite !pobs_list_cons in R4. cbn [pobs] in R4. rewrite R0 in R4.
        now apply app_inv_tail in R4. }
      exists ((bp ++ ev_view evf) ++ [VMsB] ++ rev (pobs_list c seg)), true.
      split; [|split; [|split; [|exact Inc]]].
      * rewrite Eo, <- Cs.
        replace ((bp ++ ev_view evf) ++ [VMsB] ++ rev (pobs_list c seg)) with (((bp ++ ev_view evf) ++ [VMsB]) ++ rev (pobs_list c seg))
          by (now rewrite <- app_assoc).
        apply VPl_seg; [exact Qs|]. apply (VPl_found c _ _ _ false). exact Vp1.
      * cbn [emit x_out cfg_tok]. rewrite En, Hrc.
        pose proof (VFl_microstep new RC_MICROSTEPPED (map (fun i => fs_sid (st c i)) (l_cfg l')) (x_out xd) (bp ++ ev_view evf) Qn Vf) as VM.
        rewrite Eobs. destruct K1 as [Kc _ _ _ _ _]. rewrite Kc, sid_map in *. unfold pclose.
        replace (((bp ++ ev_view evf) ++ [VMsB] ++ rev (fobs_list new)) ++ [VMsE; VCfg (map (sid_of c) (l_cfg l'))])
          with ((bp ++ ev_view evf) ++ VMsB :: rev (fobs_list new) ++ [VMsE; VCfg (map (sid_of c) (l_cfg l'))]); [exact VM|].
        cbn [app]. now rewrite <- !app_assoc.
      * rewrite Eo. apply nocut_app; [now apply inner_nocut|]. apply (nocut_app [PFound]); [reflexivity|exact Nc1].
  - (* nothing enabled *)
    destruct K3 as [K3 K4]. destruct DL as [Eo Ec].
    assert (Ek : k_trans A = []) by (destruct (k_trans A); [reflexivity|discriminate]).
    pose proof (hnotfound_step pv c dom Hpv Hch1 Hcontent sd l xd evf Hco Hm Ek) as NF.
    rewrite NF in *. cbn [fst snd] in *.
    set (l1 := upd_flags (upd_flags l (l_spont l) false) (match evf with Some _ => true | None => false end) false) in *.
    set (x1 := emit (ctok l1) (emit (TRet RC_MICROSTEPPED) xd)).
    assert (Inc1 : incomplete (x_out x1)) by (unfold incomplete, x1; cbn [emit x_out existsb stop_tok cfg_tok]; exact Ic).
    assert (Vp' : VPl c (p_out s1) (p_cfg s1) (bp ++ ev_view evf) false).
    { rewrite Eo, Ec. apply VPl_quiet; [reflexivity|reflexivity|exact Vp1]. }
    assert (Nc' : nocut (p_out s1)) by (rewrite Eo; apply (nocut_app [PNotFound]); [reflexivity|exact Nc1]).
    assert (Vf1 : VFl (x_out x1) ((bp ++ ev_view evf) ++ pclose c false (p_cfg s1))).
    { unfold x1. cbn [emit x_out pclose]. rewrite app_nil_r. apply VFl_skip; [reflexivity|]. apply VFl_skip; [reflexivity|exact Vf]. }
    destruct evf as [e|].
    + (* after an event: the engine's event-less selection *)
      assert (Hco1 : corr c dom s1 l1 x1) by (apply corr_emit; [reflexivity|]; apply corr_emit; [reflexivity|exact K1]).
      assert (Hq0 : k_trans (selected pv c (l_cfg l1) None (x_store x1)) = []) by (apply Hquiet; discriminate).
      assert (Hm0 : forall i e0, i < ntrans c -> @None event = Some e0 -> ft_spontaneous (tr c i) = false ->
                   resolved_match (guard_literals pv c i) (ev_name e0) = name_match_impl nm_fixed (ft_event (tr c i)) (ev_name e0))
        by (intros i e0 _ F; discriminate F).
      pose proof (hnotfound_step pv c dom Hpv Hch1 Hcontent s1 l1 x1 None Hco1 Hm0 Hq0) as NF2.
      assert (Est : fstep l1 x1 = (upd_flags (upd_flags l1 (l_spont l1) false) false false, x1, RC_MICROSTEPPED)).
      { rewrite (fstep_spont c); [exact NF2| | | |]; unfold l1; cbn [upd_flags l_fin l_tlf l_init l_spont]; auto. }
      set (l2 := upd_flags (upd_flags l1 (l_spont l1) false) false false) in *.
      destruct (vreaches_step l1 x1 l2 x1 RC_MICROSTEPPED Est (or_introl eq_refl) Inc1) as [VR Inc2].
      exists l2, (emit (ctok l2) (emit (TRet RC_MICROSTEPPED) x1)).
      split; [exact VR|]. split; [exact Inc1|]. split.
      * apply (PmlEquivHistRun.sync_emit pv c P); [reflexivity|]. apply (PmlEquivHistRun.sync_emit pv c P); [reflexivity|].
        assert (Hok2 : hst_ok c l2) by (unfold l2; apply (hst_ok_upd c); [apply (hst_ok_upd c); [exact K2|exact G1]|exact G1]).
        destruct Hco1 as [D1 D2 D3 D4 D5 D6].
        constructor; auto; try (intros _; exact Hq0). constructor; auto.
      * exists (bp ++ ev_view (Some e)), false. split; [exact Vp'|]. split; [|split; [exact Nc'|exact Inc2]].
        cbn [emit x_out]. apply VFl_skip; [reflexivity|]. apply VFl_skip; [reflexivity|exact Vf1].
    + exists l1, x1. split; [apply vreaches_refl|]. split; [exact Inc1|]. split.
      * apply (PmlEquivHistRun.sync_emit pv c P); [reflexivity|]. apply (PmlEquivHistRun.sync_emit pv c P); [reflexivity|].
        constructor; auto; try (intros _; exact Ek).
      * exists (bp ++ ev_view None), false. auto.
Qed.


Lemma iter_vsync s l x s1 : sync s l x -> vinv s x -> p_fin s = false -> pml_iter pv c iq eq s = (s1, PRunning) ->
  exists l1 x1, vreaches l x l1 x1 /\ sync s1 l1 x1 /\ vinv s1 x1.
Proof.
  intros [Sco Scf Ssp Sq Si Sf Sc Sfu Sn] (bp & o & Vp & Vf & Nc & Ic) Hfin Hit.
  pose proof Sco as [C1 C2 C3 C4 C5 C6].
  assert (Lt : l_tlf l = false) by congruence.
  set (bp0 := bp ++ pclose c o (p_cfg s)) in *.
  assert (Vp0 : VPl c (PStep :: p_out s) (p_cfg s) bp0 false) by now apply VPl_step.
  unfold pml_iter, pml_dequeue in Hit. cbn [out p_spont p_iq p_eq] in Hit.
  destruct (p_spont s) eqn:Esp.
  - (* the event-less selection *)
    set (sd := out PSpont (out PStep s)) in *.
    assert (Hcd : corr c dom sd l x) by (apply corr_out; [reflexivity|]; apply corr_out; [reflexivity|exact Sco]).
    assert (Vpd : VPl c (p_out sd) (p_cfg sd) bp0 false) by (apply VPl_quiet; [reflexivity|reflexivity|exact Vp0]).
    assert (Vfd : VFl (x_out x) (bp0 ++ ev_view None)) by (cbn [ev_view]; now rewrite app_nil_r).
    assert (Ncd : nocut (p_out sd)) by (apply (nocut_app [PSpont; PStep]); [reflexivity|exact Nc]).
    assert (HP1 : forall e0, @None event = Some e0 -> P (ev_name e0)) by (intros e0 F; discriminate F).
    assert (HQ1 : @None event <> None -> k_trans (selected pv c (l_cfg l) None (x_store x)) = []) by (intros F; now contradiction F).
    assert (Hqd : qinv P sd) by exact Sn.
    destruct (select_vsync sd l x None s1 bp0 Hcd Scf Hqd Si Sf Sc Lt HP1 HQ1 Hit Vpd Vfd Ncd Ic) as (l1 & x1 & R1 & _ & Y1 & V1).
    cbv zeta in R1.
    assert (Est : fstep l x = fselect_and_step ex_fixed c l x None) by (apply fstep_spont; auto; congruence).
    exists l1, x1. split; [|split; [exact Y1|exact V1]].
    destruct (fselect_and_step ex_fixed c l x None) as [[l' x'] rc] eqn:Efs.
    apply (step_then l x l' x' rc l1 x1 Est); [|exact Ic|exact R1]. left.
    pose proof (fselect_and_step_rc ex_fixed c l x None) as Hrc. now rewrite Efs in Hrc.
  - destruct (p_iq s) as [|e r] eqn:Eiq.
    + destruct (p_eq s) as [|e r] eqn:Eeq; [discriminate Hit|].
      (* an external event *)
      destruct C3 as (R1 & R2 & R3 & R4). rewrite Eiq in R2. rewrite Eeq in R3.
      assert (Xiq : x_iq x = []) by (destruct (x_iq x); [reflexivity|discriminate]).
      destruct (map_cons_inv _ _ _ (eq_sym R3)) as (ev & xr & Xeq & Hev & Hxr).
      assert (Pe : P e) by (destruct Sn as [_ Sn2]; rewrite Eeq in Sn2; now inversion Sn2).
      assert (Hne : ev_name ev <> []) by (rewrite Hev; now apply HPne).
      set (sd := out PDeqExt (set_eq r (out PStep s))) in *.
      assert (Vpd : VPl c (p_out sd) (p_cfg sd) bp0 false) by (apply VPl_quiet; [reflexivity|reflexivity|exact Vp0]).
      assert (Ncd : nocut (p_out sd)) by (apply (nocut_app [PDeqExt; PStep]); [reflexivity|exact Nc]).
      assert (Hsel : forall lb xb, hst_ok c lb -> l_cfg lb = l_cfg l -> l_hist lb = l_hist l -> l_tlf lb = l_tlf l -> l_init lb = true ->
                l_fin lb = false -> l_cancelled lb = false ->
                x_store xb = x_store x -> x_iq xb = [] -> x_eq xb = xr -> fobs_list (x_out xb) = fobs_list (x_out x) ->
                VFl (x_out xb) bp0 -> incomplete (x_out xb) ->
                let r := fselect_and_step ex_fixed c lb (emit (TEv (ev_name ev)) xb) (Some ev) in
                exists l1 x1, vreaches (fst (fst r)) (emit (ctok (fst (fst r))) (emit (TRet (snd r)) (snd (fst r)))) l1 x1 /\
                              sync s1 l1 x1 /\ vinv s1 x1).
      { intros lb xb Hcb B1 B2 B3 B4 B5 B6 B7 B8 B9 B10 B11 B12. cbv zeta.
        assert (Hcd : corr c dom sd lb (emit (TEv (ev_name ev)) xb)).
        { constructor; unfold sd; cbn [out set_eq emit p_cfg p_hist p_tlf p_fin x_store]; try congruence.
          - unfold PmlEquivContent.Rx. cbn [out set_eq emit p_store p_iq p_eq p_out x_store x_iq x_eq x_out].
            rewrite !pobs_cons, fobs_cons. cbn [pobs fobs]. rewrite B7, B8, B9, B10, Eiq. auto.
          - now rewrite B7. }
        assert (Hqd : qinv P sd).
        { destruct Sn as [Sn1 Sn2]. split; unfold sd; cbn [out set_eq p_iq p_eq]; [exact Sn1|]. rewrite Eeq in Sn2. now inversion Sn2. }
        assert (HPb : forall e0, Some ev = Some e0 -> P (ev_name e0)) by (intros e0 [= <-]; now rewrite Hev).
        assert (HQ1 : Some ev <> None -> k_trans (selected pv c (l_cfg lb) None (x_store (emit (TEv (ev_name ev)) xb))) = [])
          by (intros _; cbn [emit x_store]; rewrite B1, B7; now apply Sq).
        assert (HD1 : pml_dstep pv c iq eq (option_map ev_name (Some ev)) sd = (s1, PRunning)) by (cbn [option_map]; rewrite Hev; exact Hit).
        assert (VF1 : VFl (x_out (emit (TEv (ev_name ev)) xb)) (bp0 ++ ev_view (Some ev))) by (cbn [emit x_out ev_view]; now apply VFl_event).
        assert (Icd : incomplete (x_out (emit (TEv (ev_name ev)) xb))) by exact B12.
        assert (Ltb : l_tlf lb = false) by congruence.
        destruct (select_vsync sd lb (emit (TEv (ev_name ev)) xb) (Some ev) s1 bp0 Hcd Hcb Hqd B4 B5 B6 Ltb HPb HQ1 HD1 Vpd VF1 Ncd Icd)
          as (l1 & x1 & Q1 & _ & Y1 & V1).
        exists l1, x1. auto. }
      destruct (l_stable l) eqn:Estb.
      * set (x0 := {| x_store := x_store x; x_iq := x_iq x; x_eq := xr; x_out := x_out x |}).
        assert (Est : fstep l x = fselect_and_step ex_fixed c l (emit (TEv (ev_name ev)) x0) (Some ev))
          by (apply fstep_external; auto; congruence).
        destruct (Hsel l x0 Scf) as (l1 & x1 & Q1 & Y1 & V1); auto.
        exists l1, x1. split; [|split; [exact Y1|exact V1]].
        destruct (fselect_and_step ex_fixed c l (emit (TEv (ev_name ev)) x0) (Some ev)) as [[l' x'] rc] eqn:Efs.
        apply (step_then l x l' x' rc l1 x1 Est); [|exact Ic|exact Q1]. left.
        pose proof (fselect_and_step_rc ex_fixed c l (emit (TEv (ev_name ev)) x0) (Some ev)) as Hrc. now rewrite Efs in Hrc.
      * set (lb := upd_flags l (l_spont l) true).
        assert (Est1 : fstep l x = (lb, emit TStable x, RC_MACROSTEPPED)) by (apply fstep_stable; auto; congruence).
        destruct (vreaches_step l x lb (emit TStable x) RC_MACROSTEPPED Est1 (or_intror eq_refl) Ic) as [VR1 Inc1].
        set (xb := emit (ctok lb) (emit (TRet RC_MACROSTEPPED) (emit TStable x))) in *.
        set (xb0 := {| x_store := x_store xb; x_iq := x_iq xb; x_eq := xr; x_out := x_out xb |}).
        assert (Est2 : fstep lb xb = fselect_and_step ex_fixed c lb (emit (TEv (ev_name ev)) xb0) (Some ev)).
        { apply fstep_external; unfold lb, xb; cbn [upd_flags l_fin l_tlf l_init l_spont l_stable emit x_iq x_eq]; auto; congruence. }
        assert (Vfb : VFl (x_out xb0) bp0).
        { unfold xb0, xb. cbn [emit x_out]. do 3 (apply VFl_skip; [reflexivity|]). exact Vf. }
        destruct (Hsel lb xb0 (hst_ok_upd c l _ _ Scf Si)) as (l1 & x1 & Q1 & Y1 & V1); auto.
        exists l1, x1. split; [|split; [exact Y1|exact V1]].
        eapply vreaches_trans; [exact VR1|].
        destruct (fselect_and_step ex_fixed c lb (emit (TEv (ev_name ev)) xb0) (Some ev)) as [[l' x'] rc] eqn:Efs.
        apply (step_then lb xb l' x' rc l1 x1 Est2); [|exact Inc1|exact Q1]. left.
        pose proof (fselect_and_step_rc ex_fixed c lb (emit (TEv (ev_name ev)) xb0) (Some ev)) as Hrc. now rewrite Efs in Hrc.
    + (* an internal event *)
      destruct C3 as (R1 & R2 & R3 & R4). rewrite Eiq in R2.
      destruct (map_cons_inv _ _ _ (eq_sym R2)) as (ev & xr & Xiq & Hev & Hxr).
      assert (Pe : P e) by (destruct Sn as [Sn1 _]; rewrite Eiq in Sn1; now inversion Sn1).
      assert (Hne : ev_name ev <> []) by (rewrite Hev; now apply HPne).
      set (sd := out PDeqInt (set_iq r (out PStep s))) in *.
      set (x0 := {| x_store := x_store x; x_iq := xr; x_eq := x_eq x; x_out := x_out x |}).
      assert (Est : fstep l x = fselect_and_step ex_fixed c l (emit (TEv (ev_name ev)) x0) (Some ev))
        by (apply fstep_internal; auto; congruence).
      assert (Hcd : corr c dom sd l (emit (TEv (ev_name ev)) x0)).
      { constructor; unfold sd; cbn [out set_iq emit p_cfg p_hist p_tlf p_fin x_store]; try congruence.
        - unfold PmlEquivContent.Rx, x0. cbn [out set_iq emit p_store p_iq p_eq p_out x_store x_iq x_eq x_out].
          rewrite !pobs_cons, fobs_cons. cbn [pobs fobs]. auto.
        - exact C4. }
      assert (Hqd : qinv P sd).
      { destruct Sn as [Sn1 Sn2]. split; unfold sd; cbn [out set_iq p_iq p_eq]; [|exact Sn2]. rewrite Eiq in Sn1. now inversion Sn1. }
      assert (Vpd : VPl c (p_out sd) (p_cfg sd) bp0 false) by (apply VPl_quiet; [reflexivity|reflexivity|exact Vp0]).
      assert (Ncd : nocut (p_out sd)) by (apply (nocut_app [PDeqInt; PStep]); [reflexivity|exact Nc]).
      assert (HP1 : forall e0, Some ev = Some e0 -> P (ev_name e0)) by (intros e0 [= <-]; now rewrite Hev).
      assert (HQ1 : Some ev <> None -> k_trans (selected pv c (l_cfg l) None (x_store (emit (TEv (ev_name ev)) x0))) = [])
        by (intros _; cbn [emit x_store x0]; now apply Sq).
      assert (HD1 : pml_dstep pv c iq eq (option_map ev_name (Some ev)) sd = (s1, PRunning)) by (cbn [option_map]; rewrite Hev; exact Hit).
      assert (VF1 : VFl (x_out (emit (TEv (ev_name ev)) x0)) (bp0 ++ ev_view (Some ev))) by (cbn [emit x_out ev_view x0]; now apply VFl_event).
      assert (Icd : incomplete (x_out (emit (TEv (ev_name ev)) x0))) by exact Ic.
      destruct (select_vsync sd l (emit (TEv (ev_name ev)) x0) (Some ev) s1 bp0 Hcd Scf Hqd Si Sf Sc Lt HP1 HQ1 HD1 Vpd VF1 Ncd Icd)
        as (l1 & x1 & Q1 & _ & Y1 & V1).
      cbv zeta in Q1. exists l1, x1. split; [|split; [exact Y1|exact V1]].
      destruct (fselect_and_step ex_fixed c l (emit (TEv (ev_name ev)) x0) (Some ev)) as [[l' x'] rc] eqn:Efs.
      apply (step_then l x l' x' rc l1 x1 Est); [|exact Ic|exact Q1]. left.
      pose proof (fselect_and_step_rc ex_fixed c l (emit (TEv (ev_name ev)) x0) (Some ev)) as Hrc. now rewrite Efs in Hrc.
Qed.


(* ---- to the end of a complete observation ---- *)
Lemma run_from_vsync fuel : forall s l x, sync s l x -> vinv s x ->
  forall s' r, pml_loop pv c iq eq fuel s = (s', r) -> p_full s' = false -> pml_complete r = true ->
  exists m l' x', (forall k, frun (m + k) l x [] = (l', x')) /\
                  (forall j, j < m -> incomplete (x_out (snd (frun j l x [])))) /\
                  pview c (rev (p_out s')) = fview (rev (x_out x')) /\ nocut (p_out s').
Proof.
  assert (Term : forall s l x s', sync s l x -> vinv s x -> p_fin s = true -> s' = p_terminate pv c iq eq s -> p_full s' = false ->
            exists m l' x', (forall k, frun (m + k) l x [] = (l', x')) /\
                            (forall j, j < m -> incomplete (x_out (snd (frun j l x [])))) /\
                            pview c (rev (p_out s')) = fview (rev (x_out x')) /\ nocut (p_out s')).
  { intros s l x s' [[C1 C2 C3 C4 C5 C6] Scf Ssp Sq Si Sf Sc Sfu Sn] (bp & o & Vp & Vf & Nc & Ic) Fin -> Hfull.
    destruct (hst_ok_sorted c l Scf) as [Cs Cb].
    destruct (pml_terminate_lemma pv c iq eq dom Hin Hcontent s l x C1 C3 C4 ltac:(congruence) Fin ltac:(congruence) Sf Cs Cb Hfull)
      as (T1 & T2 & T3 & T4 & T5 & T6).
    destruct (completion_step_tokens c l x Sf ltac:(congruence)) as (new & En & Qn).
    destruct (fstep l x) as [[l1 x1] rc] eqn:Est. cbn [fst snd] in *. subst rc.
    (* the lines of TERMINATE_MACHINE *)
    unfold p_terminate in *. cbn [out p_full p_out] in *.
    destruct (qgood_terminate_fold pv c iq eq) as [_ G]. destruct (G (out PFinished s) Hfull) as (seg & Eo & Qs & Cc).
    cbn [out p_out p_cfg] in Eo, Cc.
    assert (Eobs : pobs_list c seg = fobs_list new).
    { destruct T1 as (_ & _ & _ & R4). destruct C3 as (_ & _ & _ & R0). cbn [out p_out] in R4.
      rewrite Eo, En in R4. rewrite pobs_list_cons in R4. cbn [pobs] in R4. rewrite pobs_list_app, pobs_list_cons in R4. cbn [pobs] in R4.
      rewrite fobs_list_cons in R4. cbn [fobs] in R4. rewrite fobs_list_app, fobs_list_cons in R4. cbn [fobs] in R4.
      rewrite R0 in R4. now apply app_inv_tail in R4. }
    exists 1, l1, (emit (ctok l1) (emit (TRet RC_FINISHED) x1)). split; [|split; [|split]].
    - intros k. cbn [Nat.add run_loop]. rewrite Est. reflexivity.
    - intros j Hj. assert (j = 0) by lia. subst j. exact Ic.
    - rewrite Eo.
      assert (V1 : VPl c (PDone :: seg ++ PFinished :: p_out s) (p_cfg s)
                     ((bp ++ pclose c o (p_cfg s) ++ [VFin]) ++ rev (pobs_list c seg)) false).
      { apply VPl_quiet; [reflexivity|reflexivity|].
        pose proof (VPl_seg c (PFinished :: p_out s) (p_cfg s) _ false seg (forallb_quiet_inner seg Qs) (VPl_finished c _ _ _ _ Vp)) as V.
        now rewrite (rcfg_quiet seg _ Qs) in V. }
      rewrite (VPl_final c _ _ _ _ V1).
      assert (V2 : VFl (x_out (emit (ctok l1) (emit (TRet RC_FINISHED) x1))) ((bp ++ pclose c o (p_cfg s)) ++ VFin :: rev (fobs_list new))).
      { cbn [emit x_out]. rewrite En. apply VFl_skip; [reflexivity|]. apply VFl_skip; [reflexivity|]. now apply VFl_completion. }
      rewrite (VFl_final _ _ V2), Eobs. cbn [pclose]. rewrite app_nil_r, <- !app_assoc. reflexivity.
    - rewrite Eo. apply (nocut_app [PDone]); [reflexivity|]. apply nocut_app; [now apply inner_nocut, forallb_quiet_inner|].
      apply (nocut_app [PFinished]); [reflexivity|exact Nc]. }
  induction fuel as [|f IH]; intros s l x Y V s' r Hl Hfull Hr.
  - cbn [pml_loop] in Hl. destruct (p_fin s) eqn:Fin.
    + injection Hl as <- <-. now apply (Term s l x).
    + injection Hl as <- <-. discriminate Hr.
  - cbn [pml_loop] in Hl. destruct (p_fin s) eqn:Fin.
    + injection Hl as <- <-. now apply (Term s l x).
    + destruct (pml_iter pv c iq eq s) as [s1 r1] eqn:Eit.
      destruct (pml_iter_status pv c iq eq s s1 r1 Eit) as [-> | [-> | ->]].
      * (* blocked *)
        injection Hl as <- <-.
        pose proof Y as [[C1 C2 C3 C4 C5 C6] Scf Ssp Sq Si Sf Sc Sfu Sn]. destruct V as (bp & o & Vp & Vf & Nc & Ic).
        unfold pml_iter, pml_dequeue in Eit. cbn [out p_spont p_iq p_eq] in Eit.
        destruct (p_spont s) eqn:Esp; [apply pml_dstep_status in Eit as [F|F]; discriminate F|].
        destruct (p_iq s) eqn:Eiq; [|apply pml_dstep_status in Eit as [F|F]; discriminate F].
        destruct (p_eq s) eqn:Eeq; [|apply pml_dstep_status in Eit as [F|F]; discriminate F].
        injection Eit as <-.
        destruct C3 as (R1 & R2 & R3 & R4). rewrite Eiq in R2. rewrite Eeq in R3.
        assert (Xiq : x_iq x = []) by (destruct (x_iq x); [reflexivity|discriminate]).
        assert (Xeq : x_eq x = []) by (destruct (x_eq x); [reflexivity|discriminate]).
        assert (Lt : l_tlf l = false) by congruence.
        assert (Vp' : pview c (rev (p_out (out PTimeout (out PStep s)))) = bp ++ pclose c o (p_cfg s)).
        { cbn [out p_out]. rewrite (VPl_final c _ _ _ _ (VPl_timeout c _ _ _ _ (VPl_step c _ _ _ _ Vp))). cbn [pclose]. now rewrite !app_nil_r. }
        assert (Nc' : nocut (p_out (out PTimeout (out PStep s)))) by (cbn [out p_out]; apply (nocut_app [PTimeout; PStep]); [reflexivity|exact Nc]).
        destruct (l_stable l) eqn:Estb.
        -- pose proof (fstep_idle c l x Sf Lt Si ltac:(congruence) Xiq Estb Xeq Sc) as Eidle.
           exists 1, l, (emit (ctok l) (emit (TRet RC_IDLE) x)). split; [|split; [|split; [|exact Nc']]].
           ++ intros k. cbn [Nat.add run_loop]. rewrite Eidle. reflexivity.
           ++ intros j Hj. assert (j = 0) by lia. subst j. exact Ic.
           ++ rewrite Vp'. symmetry. apply VFl_final. cbn [emit x_out]. apply VFl_skip; [reflexivity|]. apply VFl_skip; [reflexivity|exact Vf].
        -- set (lb := upd_flags l (l_spont l) true).
           assert (Est1 : fstep l x = (lb, emit TStable x, RC_MACROSTEPPED)) by (apply fstep_stable; auto; congruence).
           destruct (vreaches_step l x lb (emit TStable x) RC_MACROSTEPPED Est1 (or_intror eq_refl) Ic) as [_ Inc1].
           set (xb := emit (ctok lb) (emit (TRet RC_MACROSTEPPED) (emit TStable x))) in *.
           assert (Eidle : fstep lb xb = (lb, xb, RC_IDLE))
             by (apply fstep_idle; unfold lb, xb; cbn [upd_flags l_fin l_tlf l_init l_spont l_stable l_cancelled emit x_iq x_eq]; auto; congruence).
           exists 2, lb, (emit (ctok lb) (emit (TRet RC_IDLE) xb)). split; [|split; [|split; [|exact Nc']]].
           ++ intros k. cbn [Nat.add run_loop]. rewrite Est1. cbn [N.eqb RC_MACROSTEPPED RC_FINISHED RC_IDLE]. fold lb. fold xb.
              cbn [run_loop]. rewrite Eidle. reflexivity.
           ++ intros j Hj. destruct j as [|[|j]]; [exact Ic| |lia].
              cbn [run_loop]. rewrite Est1. cbn [N.eqb RC_MACROSTEPPED RC_FINISHED RC_IDLE snd]. exact Inc1.
           ++ rewrite Vp'. symmetry. apply VFl_final. unfold xb. cbn [emit x_out]. do 5 (apply VFl_skip; [reflexivity|]). exact Vf.
      * injection Hl as _ <-. discriminate Hr.
      * destruct (iter_vsync s l x s1 Y V Fin Eit) as (l1 & x1 & (k & Ak & Bk) & Y1 & V1).
        destruct (IH s1 l1 x1 Y1 V1 s' r Hl Hfull Hr) as (m & l' & x' & Am & Bm & Ev & Ncm).
        exists (k + m), l', x'. split; [|split; [|split; [exact Ev|exact Ncm]]].
        -- intros k'. now rewrite <- Nat.add_assoc, Ak, Am.
        -- intros j Hj. destruct (Nat.lt_ge_cases j k) as [L|L]; [now apply Bk|].
           replace j with (k + (j - k)) by lia. rewrite Ak. apply Bm. lia.
Qed.

Lemma initial_vsync s1 : pml_iter pv c iq eq (p_init c) = (s1, PRunning) ->
  let r := fstep l_pristine x_init in
  sync s1 (fst (fst r)) (emit (ctok (fst (fst r))) (emit (TRet (snd r)) (snd (fst r)))) /\
  vinv s1 (emit (ctok (fst (fst r))) (emit (TRet (snd r)) (snd (fst r)))) /\ snd r = RC_MICROSTEPPED.
Proof.
  intros Eit. cbv zeta.
  assert (Es1 : s1 = fst (pml_dstep pv c iq eq None (out PSpont (out PStep (p_init c)))))
    by (unfold pml_iter, pml_dequeue in Eit; cbn [out p_spont p_init] in Eit; now rewrite Eit).
  assert (Ef1 : p_full s1 = false).
  { unfold pml_iter, pml_dequeue in Eit. cbn [out p_spont p_init] in Eit.
    unfold pml_dstep in Eit. destruct (p_select pv c None _) as [a s2].
    match type of Eit with (let '(_, _) := ?t in _) = _ => destruct t as [tg s3] end.
    injection Eit as <- Hst. destruct (p_full _); [discriminate|reflexivity]. }
  pose proof (pml_initial_step_hist_lemma pv c iq eq Hpv H Hroot Hch Hcontent Hdata Hdok) as IS. cbv zeta in IS.
  rewrite Eit in IS. cbn [fst] in IS. specialize (IS Ef1).
  destruct (pristine_step_tokens c l_pristine x_init eq_refl eq_refl eq_refl) as (new & En & Qn).
  destruct (fstep l_pristine x_init) as [[l1 x1] rc] eqn:Est. cbn [fst snd] in *.
  destruct IS as (K1 & K2 & K3 & K4 & K5 & K6 & K7 & K8). subst rc.
  set (sa := out PSpont (out PStep (p_init c))) in *.
  destruct (dstep_lines_initial None sa eq_refl) as (seg & Eo & Qs & Cs); [now rewrite <- Es1|]. rewrite <- Es1 in Eo, Cs.
  assert (Eobs : pobs_list c seg = fobs_list new).
  { destruct K1 as [_ _ (_ & _ & _ & R4) _ _ _]. rewrite Eo, En in R4.
    rewrite pobs_list_app in R4. unfold sel_lines, sa in R4. cbn [app out p_out p_init] in R4.
    rewrite !pobs_list_cons in R4. cbn [pobs pobs_list filter_map] in R4.
    rewrite fobs_list_cons in R4. cbn [fobs x_init x_out] in R4. rewrite fobs_list_app in R4. cbn [fobs_list filter_map fobs] in R4.
    now rewrite !app_nil_r in R4. }
  split; [|split; [|reflexivity]].
  - apply (PmlEquivHistRun.sync_emit pv c P); [reflexivity|]. apply (PmlEquivHistRun.sync_emit pv c P); [reflexivity|].
    constructor; auto; try congruence.
    rewrite Es1. apply (qinv_dstep P pv c iq eq Hnames Hdone). split; constructor.
  - exists ([VMsB] ++ rev (pobs_list c seg)), true. split; [|split; [|split]].
    + rewrite Eo, <- Cs. apply VPl_seg; [exact Qs|].
      apply (VPl_initial c _ _ [] false). unfold sel_lines, sa. cbn [app out p_out p_init].
      do 4 (apply VPl_quiet; [reflexivity|reflexivity|]).
      apply (VPl_event c [] _ _ [] false). apply VPl_quiet; [reflexivity|reflexivity|].
      apply (VPl_step c [] [] [] false). apply VPl_nil.
    + cbn [emit x_out cfg_tok]. rewrite En.
      pose proof (VFl_microstep new RC_MICROSTEPPED (map (fun i => fs_sid (st c i)) (l_cfg l1)) [] [] Qn VFl_nil) as VM.
      cbn [x_init x_out]. destruct K1 as [Kc _ _ _ _ _]. rewrite Kc, Eobs. unfold pclose. rewrite sid_map in VM.
      cbn [app] in VM |- *. exact VM.
    + rewrite Eo. apply nocut_app; [now apply inner_nocut|]. reflexivity.
    + unfold incomplete. cbn [emit x_out existsb stop_tok cfg_tok]. rewrite En. cbn [x_init x_out existsb stop_tok orb N.eqb].
      rewrite existsb_app. cbn [existsb stop_tok orb]. rewrite orb_false_r.
      destruct (existsb stop_tok new) eqn:X; [|reflexivity]. apply existsb_exists in X as (t & Ht & Hs).
      rewrite forallb_forall in Qn. specialize (Qn t Ht). destruct t; discriminate.
Qed.

(* the property, for a flat chart: whatever the two bounds *)
Theorem behaviour_chart fp ff :
  p_full (fst (pml_loop pv c iq eq fp (p_init c))) = false ->
  pml_complete (snd (pml_loop pv c iq eq fp (p_init c))) = true ->
  fast_complete (rev (x_out (snd (frun ff l_pristine x_init [])))) = true ->
  vlist_eqb (pview c (cut_at_full (rev (p_out (fst (pml_loop pv c iq eq fp (p_init c)))))))
            (fview (rev (x_out (snd (frun ff l_pristine x_init []))))) = true.
Proof.
  intros Hfull Hcomp Hfc.
  destruct fp as [|fuel]; [cbn [pml_loop p_fin p_init snd] in Hcomp; discriminate|].
  destruct (pml_loop pv c iq eq (S fuel) (p_init c)) as [s' r] eqn:Hl. cbn [fst snd] in *.
  cbn [pml_loop] in Hl. change (p_fin (p_init c)) with false in Hl. cbv iota in Hl.
  destruct (pml_iter pv c iq eq (p_init c)) as [s1 r1] eqn:Eit.
  destruct (pml_iter_status pv c iq eq _ _ _ Eit) as [-> | [-> | ->]].
  - (* the first iteration cannot block: SPONTANEOUS is set *)
    unfold pml_iter, pml_dequeue in Eit. cbn [out p_spont p_init] in Eit. apply pml_dstep_status in Eit as [F|F]; discriminate F.
  - injection Hl as _ <-. discriminate Hcomp.
  - destruct (initial_vsync s1 Eit) as (Y1 & V1 & Hrc). cbv zeta in Y1, V1, Hrc.
    destruct (fstep l_pristine x_init) as [[l1 x1] rc] eqn:Est. cbn [fst snd] in *. subst rc.
    destruct (run_from_vsync fuel s1 l1 _ Y1 V1 s' r Hl Hfull Hcomp) as (m & l' & x' & Am & Bm & Ev & Ncm).
    (* the interpreter's bound: beyond the end of its run, or before it *)
    destruct (Nat.lt_ge_cases ff (1 + m)) as [L|L].
    + exfalso. destruct ff as [|j].
      * cbn [run_loop snd x_init x_out rev fast_complete existsb] in Hfc. discriminate.
      * assert (Hj : j < m) by lia. specialize (Bm j Hj).
        cbn [run_loop] in Hfc. rewrite Est in Hfc.
        change ((RC_MICROSTEPPED =? RC_FINISHED)%N) with false in Hfc. change ((RC_MICROSTEPPED =? RC_IDLE)%N) with false in Hfc. cbv iota in Hfc.
        rewrite fast_complete_rev in Hfc. unfold incomplete in Bm. congruence.
    + replace ff with (1 + (m + (ff - (1 + m)))) by lia. cbn [Nat.add run_loop]. rewrite Est.
      change ((RC_MICROSTEPPED =? RC_FINISHED)%N) with false. change ((RC_MICROSTEPPED =? RC_IDLE)%N) with false. cbv iota.
      rewrite Am. cbn [snd].
      rewrite (cut_at_full_nocut _ (nocut_rev _ Ncm)), Ev. apply vlist_eqb_refl.
Qed.


(* ---- observations cut by the step bound ---- *)
Lemma run_to_limit fuel : forall s l x, sync s l x -> vinv s x ->
  forall s', pml_loop pv c iq eq fuel s = (s', POutOfFuel) ->
  exists s0 l1 x1, s' = out PLimit s0 /\ vreaches l x l1 x1 /\ vinv s0 x1.
Proof.
  induction fuel as [|f IH]; intros s l x Y V s' Hl; cbn [pml_loop] in Hl.
  - destruct (p_fin s); [discriminate Hl|]. injection Hl as <-. exists s, l, x. split; [reflexivity|]. split; [apply vreaches_refl|exact V].
  - destruct (p_fin s) eqn:Fin; [discriminate Hl|].
    destruct (pml_iter pv c iq eq s) as [s1 r1] eqn:Eit.
    destruct (pml_iter_status pv c iq eq s s1 r1 Eit) as [-> | [-> | ->]]; try discriminate Hl.
    destruct (iter_vsync s l x s1 Y V Fin Eit) as (l1 & x1 & VR & Y1 & V1).
    destruct (IH s1 l1 x1 Y1 V1 s' Hl) as (s0 & l2 & x2 & E & VR2 & V2).
    exists s0, l2, x2. split; [exact E|]. split; [eapply vreaches_trans; eassumption|exact V2].
Qed.

Theorem prefix_chart fp ff :
  snd (pml_loop pv c iq eq fp (p_init c)) = POutOfFuel ->
  fast_complete (rev (x_out (snd (frun ff l_pristine x_init [])))) = true ->
  vlist_prefixb (pview c (cut_at_full (rev (p_out (fst (pml_loop pv c iq eq fp (p_init c)))))))
                (fview (rev (x_out (snd (frun ff l_pristine x_init []))))) = true.
Proof.
  intros Hst Hfc.
  destruct fp as [|fuel]; [reflexivity|].
  destruct (pml_loop pv c iq eq (S fuel) (p_init c)) as [s' r] eqn:Hl. cbn [fst snd] in *. subst r.
  cbn [pml_loop] in Hl. change (p_fin (p_init c)) with false in Hl. cbv iota in Hl.
  destruct (pml_iter pv c iq eq (p_init c)) as [s1 r1] eqn:Eit.
  destruct (pml_iter_status pv c iq eq _ _ _ Eit) as [-> | [-> | ->]]; try discriminate Hl.
  destruct (initial_vsync s1 Eit) as (Y1 & V1 & Hrc). cbv zeta in Y1, V1, Hrc.
  destruct (fstep l_pristine x_init) as [[l1 x1] rc] eqn:Est. cbn [fst snd] in *. subst rc.
  destruct (run_to_limit fuel s1 l1 _ Y1 V1 s' Hl) as (s0 & l2 & x2 & -> & (k & Ak & Bk) & (bp & o & Vp & Vf & Nc & Ic)).
  cbn [out p_out rev].
  rewrite (cut_at_full_limit _ (nocut_rev _ Nc)).
  assert (Ep : pview c (rev (p_out s0) ++ [PLimit]) = bp).
  { unfold pview. rewrite (Vp [PLimit]). cbn [pview_aux]. apply app_nil_r. }
  rewrite Ep.
  destruct (Nat.lt_ge_cases ff (1 + k)) as [L|L].
  - exfalso. destruct ff as [|j].
    + cbn [run_loop snd x_init x_out rev fast_complete existsb] in Hfc. discriminate.
    + assert (Hj : j < k) by lia. specialize (Bk j Hj).
      cbn [run_loop] in Hfc. rewrite Est in Hfc.
      change ((RC_MICROSTEPPED =? RC_FINISHED)%N) with false in Hfc. change ((RC_MICROSTEPPED =? RC_IDLE)%N) with false in Hfc. cbv iota in Hfc.
      rewrite fast_complete_rev in Hfc. unfold incomplete in Bk. congruence.
  - replace ff with (1 + (k + (ff - (1 + k)))) by lia. cbn [Nat.add run_loop]. rewrite Est.
    change ((RC_MICROSTEPPED =? RC_FINISHED)%N) with false. change ((RC_MICROSTEPPED =? RC_IDLE)%N) with false. cbv iota.
    rewrite Ak. destruct (frun_appends (ff - S k) l2 x2) as (new & En). rewrite En.
    unfold fview. rewrite rev_app_distr, (Vf (rev new)). rewrite <- app_assoc. apply vlist_prefixb_app.
Qed.

End HBeh.
