(* Properties_C17.v -- property theorems only.  C17: the Promela datamodel evaluates expressions with
   Promela's (C's) integer semantics.  Models: PmlParse.v (tokens, AST, printers, precedence-climbing parser
   over an operator table), Pml.v (evaluator and store of PromelaDataModel with a switch record for the points
   at which the pinned code deviates; reference semantics c_eval), gen/GenPmlPrec.v and gen/GenPmlEval.v
   (table and switch vector of the code as compiled, regenerated on every run). *)
From V Require Import Base PmlParse Pml GenPmlPrec GenPmlEval PmlLemmas.
Local Open Scope Z_scope.

(* ---- the parser ---- *)

(* the generated table reproduces all 324 + 36 probes of the compiled parser *)
Theorem gen_table_matches_probe :
  forallb (fun t => match t with (o1, o2, l) => Bool.eqb (pair_left gen_table o1 o2) l end) gen_pair_left = true
  /\ forallb (fun t => Bool.eqb (unary_absorbs (pt_neg gen_table) gen_table (fst t)) (snd t)) gen_neg_absorbs = true
  /\ forallb (fun t => Bool.eqb (unary_absorbs (pt_umin gen_table) gen_table (fst t)) (snd t)) gen_umin_absorbs = true
  /\ length gen_pair_left = 324%nat /\ length gen_neg_absorbs = 18%nat /\ length gen_umin_absorbs = 18%nat.
Proof. exact gen_table_matches_probe_lemma. Qed.
Print Assumptions gen_table_matches_probe.

(* U: the fuel of [parse] is sufficient for every table and every token list *)
Theorem parse_fuel_enough : forall T ts, parse T ts <> PFuel.
Proof. exact parse_fuel_enough_lemma. Qed.
Print Assumptions parse_fuel_enough.

(* U: for every expression (any depth, any names, any constants) the C table reads back the text printed with
   minimal parentheses, and every table reads back the fully parenthesised text *)
Theorem parse_print : forall e,
  parse c_table (print_min e) = POk e [] /\ (forall T, parse T (print_full e) = POk e []).
Proof. intros e. split; [apply parse_print_min_lemma|intros T; apply parse_print_full_lemma]. Qed.
Print Assumptions parse_print.

(* U: the finite check of a table (all 324 ordered operator pairs and the 36 unary forms ordered as in C)
   implies that it reads back every expression from either text *)
Theorem prec_table_is_C : forall T, table_is_C T = true ->
  forall e, parse T (print_min e) = POk e [] /\ parse T (print_full e) = POk e [].
Proof. exact prec_table_is_C_lemma. Qed.
Print Assumptions prec_table_is_C.

(* refuted for the table as pinned (`%left PML_OR PML_AND`, `%left PML_BITOR PML_BITXOR PML_BITAND`, unary minus
   with `%prec PML_MINUS`): `1 || 0 && 0` is read as `(1 || 0) && 0` *)
Theorem prec_table_is_C_pinned_refuted :
  table_is_C pinned_table = false /\ exists e, parse pinned_table (print_min e) <> POk e [].
Proof.
  split; [exact pinned_table_not_C|]. exists w_bitor_and. exact (proj1 (proj2 pinned_parse_refuted_lemma)).
Qed.
Print Assumptions prec_table_is_C_pinned_refuted.

(* the table of the code as compiled today: either a C-printed expression that it misreads (found among the
   probes), or the guarantee of prec_table_is_C.  Same statement and proof script before and after a repair. *)
Theorem gen_table_verdict :
  match find_misread gen_table with
  | Some e => parse gen_table (print_min e) <> POk e []
  | None => forall e, parse gen_table (print_min e) = POk e [] /\ parse gen_table (print_full e) = POk e []
  end.
Proof. exact gen_table_verdict_lemma. Qed.
Print Assumptions gen_table_verdict.

(* ---- the evaluator ---- *)

(* every operator of the property's set has a case in the repaired evaluator; NE has none in the pinned one *)
Theorem all_parsed_ops_evaluated : forall o, in_scope o = true -> pv_handles pml_fixed o = true.
Proof. exact all_ops_fixed_lemma. Qed.
Print Assumptions all_parsed_ops_evaluated.

Theorem all_parsed_ops_evaluated_pinned_refuted : exists o, in_scope o = true /\ pv_handles pml_pinned o = false.
Proof. exists PML_NE. split; reflexivity. Qed.
Print Assumptions all_parsed_ops_evaluated_pinned_refuted.

(* U: for every variant with the evaluation switches off (in particular pml_fixed), every store representing a
   reference state, every expression (any depth) that is well typed in it: the evaluator returns the value the
   reference semantics defines, raises error.execution where the reference faults (zero divisor, INT_MIN / -1,
   index out of range), and returns an int or an error where C leaves the result unspecified (shift counts) *)
Theorem eval_correct : forall v, eval_switches_off v ->
  forall s cs e, store_abs s cs -> wt cs e = true ->
  match c_eval cs e with
  | CVal z => eval_impl v s e = Ok (dint z) /\ in_int z = true
  | CFault => eval_impl v s e = ErrEvent
  | CUnspec => (exists z, eval_impl v s e = Ok (dint z) /\ in_int z = true) \/ eval_impl v s e = ErrEvent
  | CIll => False
  end.
Proof. intros v H s cs e HS W. exact (eval_correct_lemma v H s cs e HS W). Qed.
Print Assumptions eval_correct.

(* the hypotheses are satisfiable: a store built by the model's own declarations / assignment *)
Example eval_correct_hypotheses_satisfiable :
  eval_switches_off pml_fixed /\ store_abs ex_store ex_cstate /\
  wt ex_cstate (EBin PML_PLUS (EVar ka) (EIdx kx (EConst 1))) = true /\
  eval_impl pml_fixed ex_store (EBin PML_PLUS (EVar ka) (EIdx kx (EConst 1))) = Ok (dint 12).
Proof. split; [exact fixed_switches_off|]. split; [exact ex_store_abs|]. split; reflexivity. Qed.

(* refuted for the pinned code: `3 != 4`, `0 && 1 / 0`, an undeclared name *)
Theorem eval_correct_pinned_refuted :
  exists e, wt [] e = true /\ c_eval [] e = CVal 1 /\ eval_impl pml_pinned [] e = ErrEvent.
Proof. exists (EBin PML_NE (EConst 3) (EConst 4)). destruct pinned_eval_refuted_lemma as (A & B & C & _). auto. Qed.
Print Assumptions eval_correct_pinned_refuted.

Theorem short_circuit_pinned_refuted :
  exists e, wt [] e = true /\ c_eval [] e = CVal 0 /\ eval_impl pml_pinned [] e = Crash crash_fpe.
Proof.
  exists (EBin PML_AND (EConst 0) (EBin PML_DIVIDE (EConst 1) (EConst 0))).
  destruct pinned_eval_refuted_lemma as (_ & _ & _ & A & B & _). split; [reflexivity|]. auto.
Qed.
Print Assumptions short_circuit_pinned_refuted.

(* U: with the three crash switches off no expression, well typed or not, over any store, crashes; no statement
   or declaration does either (except that ++/-- of a variable holding no integer reads an uninitialised long) *)
Theorem eval_no_crash : forall v,
  pv_uminus_crash v = false -> pv_div_unguarded v = false -> pv_index_unguarded v = false ->
  (forall s e w, eval_impl v s e <> Crash w) /\
  (forall s st w, snd (exec_stmt v s st) = Crash w -> w = crash_uninit) /\
  (forall s d w, snd (exec_decl v s d) <> Crash w).
Proof.
  intros v H1 H2 H3. split; [apply eval_no_crash_lemma; assumption|].
  split; intros s; [apply (proj1 (exec_no_crash_lemma v H1 H2 H3 s))|apply (proj2 (exec_no_crash_lemma v H1 H2 H3 s))].
Qed.
Print Assumptions eval_no_crash.

(* refuted for the pinned code: 7 / 0, 7 % 0, INT_MIN / -1 (SIGFPE); - 5 (SIGSEGV); a[0 - 1] (unbounded allocation) *)
Theorem eval_no_crash_pinned_refuted :
  (exists e, c_eval [] e = CFault /\ eval_impl pml_pinned [] e = Crash crash_fpe) /\
  (exists e, c_eval [] e = CVal (-5) /\ eval_impl pml_pinned [] e = Crash crash_segv) /\
  (exists s e, eval_impl pml_pinned s e = Crash crash_alloc).
Proof.
  destruct pinned_crash_refuted_lemma as (A & B & C & D & E & F & G).
  split; [exists (EBin PML_DIVIDE (EConst 7) (EConst 0)); auto|].
  split; [exists (EUn UMinus (EConst 5)); auto|].
  exists s_arr2, (EIdx ka minus1). exact E.
Qed.
Print Assumptions eval_no_crash_pinned_refuted.

(* U: an array element and a struct field read back the value last written, other elements / fields / variables
   are unchanged (for fields of the same variable: in the variant that does not store "type"/"vis" among them) *)
Theorem store_read_after_write :
  (forall v s x p n k val i e,
     st_get s x = Some p -> v_size p = Some n ->
     eval_impl v s e = Ok val -> eval_impl v s i = Ok (dint k) -> in_int k = true ->
     0 <= k -> k < n -> k < Z.of_nat (length (d_arr (v_val p))) ->
     exists s', exec_stmt v s (SAsgn (LIdx x i) e) = (s', Ok tt) /\
       (forall j, get_idx v s' x j = if j =? k then Ok val else get_idx v s x j) /\
       (forall y j, beq_bytes y x = false -> get_idx v s' y j = get_idx v s y j)) /\
  (forall v s x p f fs val,
     st_get s x = Some p -> v_size p = None ->
     exists s', set_lval v s (LFld x f fs) val = (s', Ok tt) /\
       get_fld s' x (f :: fs) = Ok val /\
       (forall y q, beq_bytes y x = false -> get_fld s' y q = get_fld s y q) /\
       (pv_field_meta_clobber v = false -> forall q, diverge (f :: fs) q = true -> get_fld s' x q = get_fld s x q)).
Proof. split; [exact store_raw_array_lemma|exact store_raw_field_lemma]. Qed.
Print Assumptions store_read_after_write.

(* refuted for the pinned code: after `x.type = 3; x.f = 4` the field `x.type` reads "compound" *)
Theorem store_field_frame_pinned_refuted :
  let s0 := fst (exec_decl pml_pinned [] (DVar kx)) in
  let s1 := fst (exec_stmt pml_pinned s0 (SAsgn (LFld kx k_type []) (EConst 3))) in
  let s2 := fst (exec_stmt pml_pinned s1 (SAsgn (LFld kx kf []) (EConst 4))) in
  eval_impl pml_pinned s1 (EFld kx k_type []) = Ok (dint 3) /\
  eval_impl pml_pinned s2 (EFld kx k_type []) = Ok (Data ACompound [] []) /\
  diverge [kf] [k_type] = true.
Proof. exact field_clobber_refuted_lemma. Qed.
Print Assumptions store_field_frame_pinned_refuted.

(* the switch vector of the code as compiled today (gen/GenPmlEval.v): either a well-typed witness on which it
   contradicts the reference semantics, or eval_correct and crash-freedom for it.  Same statement and proof
   script before and after a repair. *)
Theorem gen_variant_verdict :
  match find_bad gen_variant with
  | Some (s, cs, e) => store_abs s cs /\ wt cs e = true /\ ~ agrees (c_eval cs e) (eval_impl gen_variant s e)
  | None => (forall s cs e, store_abs s cs -> wt cs e = true -> agrees (c_eval cs e) (eval_impl gen_variant s e)) /\
            (forall s e w, eval_impl gen_variant s e <> Crash w)
  end.
Proof. exact gen_variant_verdict_lemma. Qed.
Print Assumptions gen_variant_verdict.

(* U: declarations and assignments of the repaired code follow the reference store: from related stores, a
   statement the reference accepts is accepted and leaves related stores (so the relation is an invariant of
   every declaration/assignment sequence); one that faults in the reference (index out of range, zero divisor
   in the right-hand side) raises error.execution.  ++/-- are not covered: they are computed in `long`. *)
Theorem exec_correct : forall v, eval_switches_off v -> pv_field_meta_clobber v = false ->
  (forall s cs l e, store_abs s cs -> wt cs e = true -> wt_lval cs l = true ->
     match c_exec_stmt cs (SAsgn l e) with
     | (cs', COk) => exists s', exec_stmt v s (SAsgn l e) = (s', Ok tt) /\ store_abs s' cs'
     | (cs', CSFault) => exec_stmt v s (SAsgn l e) = (s, ErrEvent) /\ cs' = cs
     | (_, CSUnspec) => True
     | (_, CSIll) => False
     end) /\
  (forall s cs d, store_abs s cs -> match d with DInit _ e => wt cs e = true | _ => True end ->
     match c_exec_decl cs d with
     | (cs', COk) => exists s', exec_decl v s d = (s', Ok tt) /\ store_abs s' cs'
     | (cs', CSFault) => exists s', exec_decl v s d = (s', ErrEvent) /\ store_abs s' cs' /\ cs' = cs
     | (_, CSUnspec) => True
     | (_, CSIll) => False
     end).
Proof.
  intros v H1 H2. split; [apply exec_stmt_correct_lemma; assumption|apply exec_decl_correct_lemma; assumption].
Qed.
Print Assumptions exec_correct.

Example exec_correct_hypotheses_satisfiable :
  store_abs [] [] /\ wt_lval ex_cstate (LIdx kx (EVar ka)) = true /\ wt_lval ex_cstate (LFld ka kf []) = true /\
  snd (c_exec_stmt ex_cstate (SAsgn (LIdx kx (EConst 1)) (EVar ka))) = COk /\
  snd (c_exec_stmt ex_cstate (SAsgn (LIdx kx (EVar ka)) (EConst 1))) = CSFault.
Proof. split; [apply store_abs_nil|]. repeat split; reflexivity. Qed.
