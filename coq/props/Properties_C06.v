(* Properties_C06.v -- property theorems only.  C06: the Promela model emitted by ChartToPromela preserves the
   chart's behaviour.  Models: PmlStep.v (the emitted step process, as written, with one switch per confirmed
   deviation), Trie.v (static event-descriptor resolution), Fast.v (the interpreter's bit-array engine). *)
From V Require Import Base NameMatch Chart Exec Large Interp Fast Trie TrieLemmas PmlStep PmlStepLemmas.
From V Require Import LegalAbstract WfCore SerializeCodecLemmas PmlEquivBase PmlEquivExit PmlEquivCore PmlEquivEntry PmlEquivContent PmlEquivStep PmlEquivMicro PmlEquivExamples PmlEquivNames PmlEquivInit PmlEquivRun PmlEquivBehaviour PmlEquivRunEx.

(* ---- the event trie -------------------------------------------------------------------------------- *)

(* U (any set of names, any prefix; induction over the insertions and the token paths): for canonically
   spelled names, getWordsWithPrefix d over the '.'-separated trie returns exactly the inserted names whose
   token list is extended from d's. *)
Theorem trie_resolution_correct : forall ws d x,
  (forall w, In w ws -> canonical_name w = true) ->
  (In x (words_with_prefix (trie_of ws) d) <-> In x ws /\ list_prefixb (dot_tokens d) (dot_tokens x) = true).
Proof. exact words_with_prefix_spec. Qed.
Print Assumptions trie_resolution_correct.

(* U: on canonical names "token prefix" is the Recommendation's descriptor matching (3.12.1): equal, or a prefix
   followed by a dot *)
Theorem trie_token_prefix_is_descriptor_match : forall d w,
  canonical_name d = true -> canonical_name w = true ->
  list_prefixb (dot_tokens d) (dot_tokens w) = (beq_bytes d w || is_prefix (d ++ [c_dot]) w).
Proof. exact token_prefix_matches. Qed.
Print Assumptions trie_token_prefix_is_descriptor_match.

(* U: hence the literals OR-ed into a transition's guard (by the Promela and the VHDL back-end) are exactly the
   event names NameMatch.name_match_spec matches -- for an `event` attribute whose descriptors are no wildcard,
   lose their ".*"/"." suffix the same way under both readings and are canonically spelled ([resolvable_desc],
   a boolean the check evaluates on every generated descriptor) *)
Theorem trie_guard_literals_correct : forall v ws attr name,
  (forall w, In w ws -> canonical_name w = true) -> In name ws ->
  forallb resolvable_desc (tokens attr) = true ->
  resolved_match (resolve_attr v (trie_of ws) attr) name = name_match_spec attr name.
Proof. exact resolve_attr_correct. Qed.
Print Assumptions trie_guard_literals_correct.

(* ... and it is false without the restriction: a "*" among several descriptors is looked up as a name *)
Theorem trie_star_in_list_refuted :
  exists ws attr name,
    (forall w, In w ws -> canonical_name w = true) /\ In name ws /\ wf_descs attr = true /\
    resolved_match (resolve_attr tv_as_written (trie_of ws) attr) name <> name_match_spec attr name.
Proof. exact star_in_list_refuted. Qed.
Print Assumptions trie_star_in_list_refuted.

(* ---- one execution ---------------------------------------------------------------------------------- *)

(* U (every chart, every state, every number of iterations): under Promela's semantics of `if` outside d_step
   (any option whose guard holds) the emitted process has exactly one execution -- the external events being the
   ones in its own queue -- and it is the one PmlStep.pml_loop computes. *)
Theorem pml_deterministic : forall pv c iqcap eqcap fuel s r1 r2,
  exec_rel pv c iqcap eqcap fuel s r1 -> exec_rel pv c iqcap eqcap fuel s r2 -> r1 = r2.
Proof. exact pml_deterministic_lemma. Qed.
Print Assumptions pml_deterministic.

Theorem pml_execution_exists : forall pv c iqcap eqcap fuel s,
  exec_rel pv c iqcap eqcap fuel s (pml_loop pv c iqcap eqcap fuel s).
Proof. exact pml_exec_exists. Qed.
Print Assumptions pml_execution_exists.

(* U: the bound on the observed iterations: an observation that ended by itself is the same under every larger bound *)
Theorem pml_observation_bound_enough : forall pv c iqcap eqcap f1 f2 s,
  f1 <= f2 -> snd (pml_loop pv c iqcap eqcap f1 s) <> POutOfFuel ->
  pml_loop pv c iqcap eqcap f2 s = pml_loop pv c iqcap eqcap f1 s.
Proof. exact pml_fuel_enough. Qed.
Print Assumptions pml_observation_bound_enough.

(* ---- the emitted model against the interpreter ------------------------------------------------------ *)

(* U, partial (missing: REMEMBER_HISTORY, ESTABLISH_ENTRY_SET, EXIT/TAKE/ENTER and the executable content --
   for those the tie is the line-by-line correspondence and the refutations below): SELECT_TRANSITIONS of the
   emitted model selects exactly the transitions FastMicroStep selects, in the same order, for every chart,
   configuration, event and store, when In() is read correctly, conditions are parenthesised, the static conflict table is the engine's, the
   guard literals decide the name matching for the event (trie_guard_literals_correct) and no condition fails. *)
Theorem pml_step_equiv_select_partial : forall pv c cfg evf x,
  pv_in_reads_root pv = false -> pv_cond_bare pv = false ->
  (forall i j, i < ntrans c -> j < ntrans c -> conflict_static c (tr c i) (tr c j) = fconflicts c (tr c i) (tr c j)) ->
  (forall i e, i < ntrans c -> evf = Some e -> ft_spontaneous (tr c i) = false ->
     resolved_match (guard_literals pv c i) (ev_name e) = name_match_impl nm_fixed (ft_event (tr c i)) (ev_name e)) ->
  (forall i cnd, i < ntrans c -> ft_cond (tr c i) = Some cnd -> beval (inst_of c cfg) (x_store x) cnd <> None) ->
  let a := fold_left (psel_one pv c cfg (option_map ev_name evf) (x_store x)) (seq 0 (ntrans c))
                     {| k_found := false; k_conf := []; k_target := []; k_exit := []; k_trans := [] |} in
  fselect c cfg evf (seq 0 (ntrans c)) [] x = (k_trans a, x) /\ k_found a = nonempty (k_trans a).
Proof. exact pml_select_equiv_lemma. Qed.
Print Assumptions pml_step_equiv_select_partial.

(* The full statement -- [behaviour_preserved]: a completely observed run of the emitted model shows the events,
   exits, transitions, entries, log output and configurations of the interpreter -- is false of the template as
   written; one witness chart per deviation (corpus/c06.json, replayed on the real transpiler and spin): *)
Theorem pml_step_equiv_in_predicate_refuted : exists t fp ff, ~ behaviour_preserved pml_as_written t 7 13 fp ff.
Proof. exact in_predicate_refuted. Qed.
Print Assumptions pml_step_equiv_in_predicate_refuted.
Theorem pml_step_equiv_initial_element_refuted : exists t fp ff, ~ behaviour_preserved pml_as_written t 7 13 fp ff.
Proof. exact initial_deep_target_refuted. Qed.
Print Assumptions pml_step_equiv_initial_element_refuted.
Theorem pml_step_equiv_initial_attribute_refuted : exists t fp ff, ~ behaviour_preserved pml_as_written t 7 13 fp ff.
Proof. exact initial_attribute_deep_refuted. Qed.
Print Assumptions pml_step_equiv_initial_attribute_refuted.
Theorem pml_step_equiv_history_active_parent_refuted : exists t fp ff, ~ behaviour_preserved pml_as_written t 7 13 fp ff.
Proof. exact history_active_parent_refuted. Qed.
Print Assumptions pml_step_equiv_history_active_parent_refuted.
Theorem pml_step_equiv_shallow_history_refuted : exists t fp ff, ~ behaviour_preserved pml_as_written t 7 13 fp ff.
Proof. exact shallow_history_nested_refuted. Qed.
Print Assumptions pml_step_equiv_shallow_history_refuted.
Theorem pml_step_equiv_star_descriptor_refuted : exists t fp ff, ~ behaviour_preserved pml_as_written t 7 13 fp ff.
Proof. exact star_in_descriptor_list_refuted. Qed.
Print Assumptions pml_step_equiv_star_descriptor_refuted.
Theorem pml_step_equiv_nested_history_refuted : exists t fp ff, ~ behaviour_preserved pml_as_written t 7 13 fp ff.
Proof. exact history_below_deep_history_refuted. Qed.
Print Assumptions pml_step_equiv_nested_history_refuted.
Theorem pml_step_equiv_cond_parentheses_refuted : exists t fp ff, ~ behaviour_preserved pml_as_written t 7 13 fp ff.
Proof. exact cond_top_level_or_refuted. Qed.
Print Assumptions pml_step_equiv_cond_parentheses_refuted.
(* against the fast engine only (Fast.v is what behaviour_preserved compares with); the default large engine
   behaves as the emitted model on this chart, and both leave the configuration {scxml,s1,s3,s4} without s2 *)
Theorem pml_step_equiv_restored_ancestors_refuted : exists t fp ff, ~ behaviour_preserved pml_guarded_only t 7 13 fp ff.
Proof. exact restored_without_ancestors_refuted. Qed.
Print Assumptions pml_step_equiv_restored_ancestors_refuted.
Theorem pml_step_equiv_no_transitions_refuted : exists t fp ff, ~ behaviour_prefix pml_as_written t 7 13 fp ff.
Proof. exact no_transitions_refuted. Qed.
Print Assumptions pml_step_equiv_no_transitions_refuted.

(* each witness is repaired by its own switch alone (the template with the corresponding patch) *)
Theorem pml_step_equiv_witnesses_repaired :
  behaviour_preserved (with_switch_off 0) w_in_predicate 7 13 20 40 /\
  behaviour_preserved (with_switch_off 1) w_initial_deep_target 7 13 20 40 /\
  behaviour_preserved (with_switch_off 2) w_initial_attribute_deep 7 13 20 40 /\
  behaviour_preserved (with_switch_off 3) w_history_active_parent 7 13 20 40 /\
  behaviour_preserved (with_switch_off 4) w_shallow_history_nested 7 13 30 60 /\
  behaviour_preserved (with_switch_off 5) w_star_in_descriptor_list 7 13 20 40 /\
  behaviour_preserved (with_switch_off 6) w_history_below_deep_history 7 13 30 60 /\
  behaviour_preserved (with_switch_off 7) w_no_transitions 7 13 20 40 /\
  behaviour_preserved (with_switch_off 9) w_cond_top_level_or 7 13 20 40.
Proof. exact witnesses_repaired_by_their_switch. Qed.
Print Assumptions pml_step_equiv_witnesses_repaired.

(* ---- a candidate deviation discarded ---------------------------------------------------------------- *)

(* U (every chart, state, number of iterations): the <scxml> root, once active, stays active in the emitted
   model: "initial entry detected by an empty configuration" cannot fire again, it coincides with the engines'
   PRISTINE flag. *)
Theorem pml_root_never_exited : forall pv c iqcap eqcap fuel s,
  mem 0 (p_cfg s) = true -> mem 0 (p_cfg (fst (pml_loop pv c iqcap eqcap fuel s))) = true.
Proof. exact pml_root_never_exited_lemma. Qed.
Print Assumptions pml_root_never_exited.

(* ---- declared widths of the emitted model ----------------------------------------------------------- *)

(* U: n = BIT_WIDTH(number) bits hold the values below `number`; hence the widths the template declares for the
   event variable, the state/transition indices and the loop counters are sufficient for every document, also
   when a count is a power of two *)
Theorem pml_declared_widths_enough : forall n v, (v < n)%N -> (v < 2 ^ bit_width n)%N.
Proof. exact bit_width_holds. Qed.
Print Assumptions pml_declared_widths_enough.

(* declForRange(nativeOnly = false) writes BIT_WIDTH(maxValue): one bit short when maxValue is a power of two
   (latent: its only call site passes the range (0,0)); BIT_WIDTH(maxValue + 1) is right *)
Theorem pml_declforrange_width_refuted : exists maxValue, ~ (maxValue < 2 ^ bit_width maxValue)%N.
Proof. exact declforrange_width_refuted. Qed.
Print Assumptions pml_declforrange_width_refuted.
Theorem pml_declforrange_width_repaired : forall maxValue v, (v <= maxValue)%N -> (v < 2 ^ bit_width (maxValue + 1))%N.
Proof. exact declforrange_width_repaired. Qed.
Print Assumptions pml_declforrange_width_repaired.

(* ==== the emitted step process against FastMicroStep, phase by phase (work package pml) ================== *)
(* What is compared of the two traces inside a microstep is PmlEquivBase.pobs / fobs: the lines "Exiting",
   "Processing transition", "Entering" and the log output of the emitted model against beforeExitingState,
   beforeTakingTransition, beforeEnteringState and the log output of the interpreter -- the tokens pview and fview
   keep inside a microstep.  Configurations, history, datamodel and queues are compared as values. *)

(* U (every chart, every variant of the template, every event and store): the exit set the emitted
   SELECT_TRANSITIONS accumulates (`exit_set |= transitions[i].exit_set`, then `& config`) and its target set are
   the ones Fast.fselect_and_step computes from the selected transitions -- for a configuration without pseudo-states
   (cfg_proper; every configuration of a run).  Not covered: which transitions are selected (pml_step_equiv_select_partial). *)
Theorem pml_step_equiv_exit_set : forall pv c cfg ev sto,
  cfg_proper c cfg = true ->
  let a := fold_left (psel_one pv c cfg ev sto) (seq 0 (ntrans c))
                     {| k_found := false; k_conf := []; k_target := []; k_exit := []; k_trans := [] |} in
  set_inter (k_exit a) cfg =
    fold_left (fun acc ti => set_union acc (exit_states_of lg_fixed c cfg (tr c ti))) (k_trans a) [] /\
  k_target a = fold_left (fun acc ti => set_union acc (ft_targets (tr c ti))) (k_trans a) [].
Proof. exact pml_exit_set_lemma. Qed.
Print Assumptions pml_step_equiv_exit_set.

(* ... and the restriction on the configuration cannot be dropped: a <history> index in the "configuration" is kept
   by the engine's interval test, never by the static exit set of the emitted model *)
Theorem pml_step_equiv_exit_set_improper_refuted :
  exists pv c cfg ev sto,
    let a := selected pv c cfg ev sto in
    set_inter (k_exit a) cfg <>
    fold_left (fun acc ti => set_union acc (exit_states_of lg_fixed c cfg (tr c ti))) (k_trans a) [].
Proof. exact pml_exit_set_improper_refuted. Qed.
Print Assumptions pml_step_equiv_exit_set_improper_refuted.

(* U (every chart of the history-free core, wf_coreb): the static conflict table of the emitted model is
   FastMicroStep's conflict matrix -- this discharges the third premise of pml_step_equiv_select_partial *)
Theorem pml_step_equiv_conflict_table : forall c, wf_coreb c = true ->
  forall i j, conflict_static c (tr c i) (tr c j) = fconflicts c (tr c i) (tr c j).
Proof. exact conflict_static_core. Qed.
Print Assumptions pml_step_equiv_conflict_table.

(* U (every chart, with or without history; every configuration, exit set without the root, recorded history):
   REMEMBER_HISTORY of the emitted model is Fast.fremember when the template uses the plain completions
   (switch pv_hist_covered off); nothing else of the state changes, nothing visible is printed.  With an empty
   configuration (the initial step) the history is left alone, as the engine skips REMEMBER_HISTORY then. *)
Theorem pml_step_equiv_history : forall pv c, pv_hist_covered pv = false ->
  forall exitset, mem 0 exitset = false -> forall s,
  let s' := p_remember pv c exitset s in
  p_hist s' = (if nonempty (p_cfg s) then fremember c (p_cfg s) exitset (p_hist s) else p_hist s) /\
  pcore s' = pcore s /\ pobs_list c (p_out s') = pobs_list c (p_out s).
Proof. exact pml_history_lemma. Qed.
Print Assumptions pml_step_equiv_history.

(* U (every chart of the history-free core, EVERY variant of the template, every ascending bounded target set, every
   ancestor-closed configuration; the exit set lies below states of the closed target set all of whose active
   descendants are exited -- which holds for the sets of a microstep, see pml_microstep_equiv): ESTABLISH_ENTRY_SET of
   the emitted model (ancestor closure, descendant completion with direct children) is Fast.fentry_set (all
   descendants).  Not covered: charts with <history> / <initial> pseudo-states (refuted below for nested histories). *)
Theorem pml_step_equiv_entry_set : forall pv c, wf_coreb c = true ->
  forall cfg exitset hist targets,
  ssorted targets -> (forall g, In g targets -> g < nstates c) ->
  (forall x, In x cfg -> x < nstates c) ->
  (forall x a, In x cfg -> Anc (fun i => fs_parent (st c i)) a x -> In a cfg) ->
  (forall x, In x exitset ->
     In x cfg /\ exists d, In d (add_ancestors c targets) /\ Anc (fun i => fs_parent (st c i)) d x /\
                          forall y, In y cfg -> Anc (fun i => fs_parent (st c i)) d y -> In y exitset) ->
  forall ts s,
  p_entry_set pv c cfg exitset hist targets ts s =
    (fst (fentry_set c cfg exitset hist targets ts), snd (fentry_set c cfg exitset hist targets ts),
     out (PEntrySet (fst (fentry_set c cfg exitset hist targets ts))) s) /\
  es_inv c targets (fst (fentry_set c cfg exitset hist targets ts)).
Proof. exact pml_entry_set_lemma. Qed.
Print Assumptions pml_step_equiv_entry_set.

(* outside the core the entry sets differ even for the repaired template: a <history> below the parent of a deep
   <history> with a recorded value is added by the emitted model only (the branch is dead in FastMicroStep:
   USCXML_STATE_HAS_HISTORY is never set there).  Only pseudo-states differ; no state is entered differently. *)
Theorem pml_step_equiv_entry_set_history_refuted :
  exists c cfg exitset hist targets s,
    fst (fst (p_entry_set pml_repaired c cfg exitset hist targets [] s)) <> fst (fentry_set c cfg exitset hist targets []).
Proof. exact entry_set_nested_history_refuted. Qed.
Print Assumptions pml_step_equiv_entry_set_history_refuted.

(* U (every element of executable content, nested <if> included; every state): an element that cannot fail
   (instr_ok: declared variables only, no unsupported <send>, expressions inside the fragment) leaves datamodel,
   queues (events by name) and log output of the emitted model as BasicContentExecutor leaves the interpreter's,
   never touches configuration / history / flags -- unless a `chan` is full (p_full). *)
Theorem pml_step_equiv_content : forall pv c iq eq dom, pv_in_reads_root pv = false ->
  forall i s x, instr_ok dom i = true -> Rx c s x -> store_has dom (x_store x) -> guard_ok s ->
    p_full (pexec_instr pv c iq eq i s) = false ->
    exists x', exec_instr ex_fixed (inst_of c (p_cfg s)) i x = (true, x') /\ Rx c (pexec_instr pv c iq eq i s) x' /\
               store_has dom (x_store x').
Proof. exact sim_instr_all. Qed.
Print Assumptions pml_step_equiv_content.

(* the side conditions of the content theorem cannot be dropped *)
Theorem pml_step_equiv_content_unsupported_send_refuted :
  exists pv c iq eq i s x,
    pv_in_reads_root pv = false /\ Rx c s x /\ guard_ok s /\ p_full (pexec_instr pv c iq eq i s) = false /\
    ~ Rx c (pexec_instr pv c iq eq i s) (snd (exec_instr ex_fixed (inst_of c (p_cfg s)) i x)).
Proof. exact content_unsupported_send_refuted. Qed.
Print Assumptions pml_step_equiv_content_unsupported_send_refuted.
Theorem pml_step_equiv_content_undeclared_variable_refuted :
  exists pv c iq eq i s x,
    pv_in_reads_root pv = false /\ Rx c s x /\ guard_ok s /\ p_full (pexec_instr pv c iq eq i s) = false /\
    ~ Rx c (pexec_instr pv c iq eq i s) (snd (exec_instr ex_fixed (inst_of c (p_cfg s)) i x)).
Proof. exact content_undeclared_variable_refuted. Qed.
Print Assumptions pml_step_equiv_content_undeclared_variable_refuted.
Theorem pml_step_equiv_queue_full_refuted :
  exists pv c eq i s x,
    pv_in_reads_root pv = false /\ instr_ok [] i = true /\ Rx c s x /\ guard_ok s /\
    ~ Rx c (pexec_instr pv c 0 eq i s) (snd (exec_instr ex_fixed (inst_of c (p_cfg s)) i x)).
Proof. exact queue_full_refuted. Qed.
Print Assumptions pml_step_equiv_queue_full_refuted.

(* U (every chart of the history-free core whose content cannot fail and whose <data> sit at the root (early binding);
   every ascending bounded exit / transition / entry set, every ascending configuration with the root): EXIT_STATES,
   TAKE_TRANSITIONS and ENTER_STATES of the emitted model exit, take and enter what Fast.fmicrostep does after
   ESTABLISH_ENTRYSET, in the same order, with the same content, the same done.state events and the same
   top-level-final flag, and end in the same configuration -- provided no `chan` was full. *)
Theorem pml_step_equiv_exit_take_enter : forall pv c iq eq dom,
  pv_in_reads_root pv = false -> wf_coreb c = true -> content_ok dom c = true ->
  (forall i, i <> 0 -> fs_data (st c i) = []) ->
  forall ex ts es s x initd,
  ssorted ex -> bounded (nstates c) ex -> ssorted ts -> bounded (ntrans c) ts -> ssorted es -> bounded (nstates c) es ->
  ssorted (p_cfg s) -> bounded (nstates c) (p_cfg s) -> In 0 (p_cfg s) -> mem 0 ex = false ->
  (forall i, In i ex -> In i (p_cfg s)) ->
  Rx c s x -> store_has dom (x_store x) -> p_fin s = p_tlf s ->
  let s3 := fold_left (p_exit_one pv c iq eq ex) (rev (seq 0 (pn c))) s in
  let s4 := fold_left (p_take_one pv c iq eq ts) (seq 0 (pnt c)) s3 in
  let s5 := fold_left (p_enter_one pv c iq eq es ts) (seq 0 (pn c)) s4 in
  let cx1 := fold_left (exit_one ex_fixed c) (rev ex) (p_cfg s, x) in
  let x2 := fold_left (take_one ex_fixed c (fst cx1)) ts (snd cx1) in
  let a := fold_left (fenter_one ex_fixed c ts) es {| ea_cfg := fst cx1; ea_initd := initd; ea_tlf := p_tlf s; ea_x := x2 |} in
  p_full s5 = false ->
  p_cfg s5 = ea_cfg a /\ Rx c s5 (ea_x a) /\ store_has dom (x_store (ea_x a)) /\
  p_tlf s5 = ea_tlf a /\ p_fin s5 = ea_tlf a /\ p_hist s5 = p_hist s /\ p_spont s5 = p_spont s.
Proof. exact phases_sim. Qed.
Print Assumptions pml_step_equiv_exit_take_enter.

(* U (every chart of the history-free core with content that cannot fail and early binding; every ancestor-closed
   configuration with the root, every event or none, every datamodel state, history, queues): ONE d_step of the
   emitted step process (SELECT_TRANSITIONS ... ENTER_STATES) against ONE Fast.fselect_and_step on corresponding
   states [corr]: same configuration, history, datamodel, queues (by event name), top-level-final flag and visible
   trace afterwards, and the new configuration is again ancestor-closed -- for the template with In() read correctly,
   conditions parenthesised, plain history completions and the found-flag reset (four switches off; pml_repaired has
   them off), when the guard literals decide the name matching (trie_guard_literals_correct) and no `chan` was full.
   The SPONTANEOUS flags agree after a microstep; after a selection that found nothing the emitted model goes on to
   dequeue while the engine, after an event, first selects event-less transitions once more (fix 626150f1).
   Not covered: charts with <history>/<initial> pseudo-states, late binding, failing content, the initial step. *)
Theorem pml_microstep_equiv : forall pv c iq eq dom,
  pv_in_reads_root pv = false -> pv_cond_bare pv = false -> pv_hist_covered pv = false -> pv_found_stale pv = false ->
  wf_coreb c = true -> content_ok dom c = true -> (forall i, i <> 0 -> fs_data (st c i) = []) ->
  forall s l x evf,
  corr c dom s l x -> cfg_ok c (l_cfg l) ->
  (forall i e, i < ntrans c -> evf = Some e -> ft_spontaneous (tr c i) = false ->
     resolved_match (guard_literals pv c i) (ev_name e) = name_match_impl nm_fixed (ft_event (tr c i)) (ev_name e)) ->
  let s' := fst (pml_dstep pv c iq eq (option_map ev_name evf) s) in
  let r := fselect_and_step ex_fixed c l x evf in
  p_full s' = false ->
  corr c dom s' (fst (fst r)) (snd (fst r)) /\ cfg_ok c (l_cfg (fst (fst r))) /\
  (if nonempty (k_trans (selected pv c (l_cfg l) (option_map ev_name evf) (x_store x)))
   then p_spont s' = true /\ l_spont (fst (fst r)) = true
   else p_spont s' = false /\ l_spont (fst (fst r)) = match evf with Some _ => true | None => false end).
Proof. exact pml_microstep_lemma. Qed.
Print Assumptions pml_microstep_equiv.

(* the premises of pml_microstep_equiv are satisfiable by a non-trivial object: w_exit_interval (a <parallel> with two
   compound regions, a nested compound, two transitions, <raise> and <log>) after its initial step, event "go" *)
Theorem pml_microstep_equiv_nonvacuous :
  wf_coreb ex_chart = true /\ content_ok [] ex_chart = true /\ (forall i, i <> 0 -> fs_data (st ex_chart i) = []) /\
  corr ex_chart [] ex_pstate ex_lstate ex_xstate /\ cfg_ok ex_chart (l_cfg ex_lstate) /\
  (forall i e, i < ntrans ex_chart -> Some ex_event = Some e -> ft_spontaneous (tr ex_chart i) = false ->
     resolved_match (guard_literals pml_repaired ex_chart i) (ev_name e) = name_match_impl nm_fixed (ft_event (tr ex_chart i)) (ev_name e)) /\
  p_full (fst (pml_dstep pml_repaired ex_chart 7 13 (option_map ev_name (Some ex_event)) ex_pstate)) = false /\
  nonempty (k_trans (selected pml_repaired ex_chart (l_cfg ex_lstate) (Some (ev_name ex_event)) (x_store ex_xstate))) = true.
Proof. exact microstep_nonvacuous. Qed.
Print Assumptions pml_microstep_equiv_nonvacuous.

(* the whole-run statement behaviour_preserved is false also of the REPAIRED template: in a document without any
   transition SELECT_TRANSITIONS prints no "Establishing optimal transition set for event" line
   (`if (_transitions.size() > 0)`, ChartToPromela.cpp:1841), so a consumed event does not show in the trace of the
   emitted model; states, content and configurations agree *)
Theorem pml_step_equiv_repaired_no_transition_event_refuted : exists t fp ff, ~ behaviour_preserved pml_repaired t 7 13 fp ff.
Proof. exact repaired_no_transition_event_refuted. Qed.
Print Assumptions pml_step_equiv_repaired_no_transition_event_refuted.

(* U (every chart of the history-free core with a compound root, early binding, content that cannot fail, <data>
   expressions over ids declared before them): the FIRST iteration of the emitted step process (initial entry,
   detected by the empty configuration; the datamodel was initialised in `init`) against the first step of
   FastMicroStep (PRISTINE; the datamodel is initialised when <scxml> is entered): corresponding states afterwards,
   dom being the declared ids. *)
Theorem pml_initial_step_equiv : forall pv c iq eq,
  pv_in_reads_root pv = false -> wf_coreb c = true -> fs_type (st c 0) = FCompound ->
  content_ok (chart_dom c) c = true -> (forall i, i <> 0 -> fs_data (st c i) = []) ->
  data_okb [] (fs_data (st c 0)) = true ->
  let s' := fst (pml_iter pv c iq eq (p_init c)) in
  let r := fast_step ex_fixed c l_pristine x_init in
  p_full s' = false ->
  corr c (chart_dom c) s' (fst (fst r)) (snd (fst r)) /\ cfg_ok c (l_cfg (fst (fst r))) /\
  p_spont s' = true /\ l_spont (fst (fst r)) = true /\ l_init (fst (fst r)) = true /\
  l_fin (fst (fst r)) = false /\ l_cancelled (fst (fst r)) = false /\ snd r = RC_MICROSTEPPED.
Proof. exact pml_initial_step_lemma. Qed.
Print Assumptions pml_initial_step_equiv.

(* U (every chart whose content cannot fail; every ascending bounded configuration): TERMINATE_MACHINE of the emitted
   model (the <onexit> handlers of the active states in reverse document order) against the engine's step with
   TOP_LEVEL_FINAL set: same datamodel, queues and log output, the engine reports FINISHED. *)
Theorem pml_terminate_equiv : forall pv c iq eq dom,
  pv_in_reads_root pv = false -> content_ok dom c = true ->
  forall s l x,
  p_cfg s = l_cfg l -> Rx c s x -> store_has dom (x_store x) ->
  p_tlf s = true -> p_fin s = true -> l_tlf l = true -> l_fin l = false ->
  ssorted (l_cfg l) -> bounded (nstates c) (l_cfg l) ->
  let s' := p_terminate pv c iq eq s in
  let r := fast_step ex_fixed c l x in
  p_full s' = false ->
  Rx c s' (snd (fst r)) /\ p_cfg s' = l_cfg (fst (fst r)) /\ p_hist s' = p_hist s /\ l_hist (fst (fst r)) = l_hist l /\
  l_fin (fst (fst r)) = true /\ snd r = RC_FINISHED.
Proof. exact pml_terminate_lemma. Qed.
Print Assumptions pml_terminate_equiv.

(* U, partial (every document of the history-free core with early binding whose content cannot fail; EVERY bound on
   the observed iterations of the emitted model's `do` loop): whole runs.  However the observation of the emitted
   model ends -- bound reached, blocked on its empty queues, or terminated -- there is a bound for the interpreter's
   driver loop (Interp.run_loop around FastMicroStep, no event handed in from outside, as in behaviour_preserved)
   such that both end with the same configuration, history, datamodel, queues (by event name) and the same sequence
   of exits, transitions, entries and log output; if the emitted model terminated the interpreter has FINISHED, if
   it blocked the interpreter is IDLE.  One iteration of the emitted model is one to three steps of the engine (the
   engine announces a stable configuration in a step of its own, and after an event that enabled nothing selects
   event-less transitions once more).
   Premises: the four switches of pml_microstep_equiv off (pml_repaired has them off); no `chan` of the emitted model
   was full; P is a set of non-empty event names containing every name the content raises or sends and the done.state
   names the template raises, and for the names in P the guard literals decide the name matching
   (trie_guard_literals_correct supplies this for the names in the event trie).
   What "partial" leaves out: documents with <history>/<initial> pseudo-states, late binding, content that can fail,
   events handed in from outside, and the framing tokens of pview/fview (microstep brackets, event lines,
   configurations as tokens -- the configurations are compared as values at the end; event lines are where
   behaviour_preserved is false of the repaired template, see pml_step_equiv_repaired_no_transition_event_refuted). *)
Theorem pml_run_equiv_partial : forall pv t iq eq (P : bytes -> Prop),
  let c := flatten false t in
  pv_in_reads_root pv = false -> pv_cond_bare pv = false -> pv_hist_covered pv = false -> pv_found_stale pv = false ->
  wf_coreb c = true -> fs_type (st c 0) = FCompound -> content_ok (chart_dom c) c = true ->
  data_okb [] (fs_data (st c 0)) = true ->
  (forall e, P e -> e <> []) -> chart_names P c ->
  (forall j, (is_par (ptype c j) = true \/
              exists i, is_fin (ptype c i) = true /\ fs_parent (st c i) = Some j /\ mem 1 (fs_children (st c j)) = false) ->
             P (done_name c j)) ->
  (forall i name, P name -> i < ntrans c -> ft_spontaneous (tr c i) = false ->
     resolved_match (guard_literals pv c i) name = name_match_impl nm_fixed (ft_event (tr c i)) name) ->
  forall fuel s' r,
  pml_loop pv c iq eq (S fuel) (p_init c) = (s', r) -> p_full s' = false -> r <> PFull ->
  exists m l' x', run_loop c lstate (fast_step ex_fixed c) l_cfg m l_pristine x_init [] = (l', x') /\
                  p_cfg s' = l_cfg l' /\ p_hist s' = l_hist l' /\ Rx c s' x' /\
                  match r with
                  | PTerminated => l_fin l' = true
                  | PBlocked => fast_step ex_fixed c l' x' = (l', x', RC_IDLE)
                  | _ => True
                  end.
Proof. exact pml_run_tree_lemma. Qed.
Print Assumptions pml_run_equiv_partial.

(* the premises of pml_run_equiv_partial hold for a non-trivial document (w_exit_interval: a <parallel> with two
   compound regions, a nested compound, two transitions, <raise> and <log>), observed until it blocks *)
Theorem pml_run_equiv_nonvacuous :
  exists s' m l' x',
    pml_loop pml_repaired ex_chart 7 13 30 (p_init ex_chart) = (s', PBlocked) /\
    run_loop ex_chart lstate (fast_step ex_fixed ex_chart) l_cfg m l_pristine x_init [] = (l', x') /\
    final_rel ex_chart PBlocked s' l' x'.
Proof. exact run_instance. Qed.
Print Assumptions pml_run_equiv_nonvacuous.

(* U (every document of the history-free core with at least one transition, early binding, content that cannot fail;
   EVERY pair of bounds fp, ff): the property itself.  behaviour_preserved -- a completely observed run of the emitted
   model shows through pview exactly what the interpreter's run shows through fview: consumed events, microstep
   brackets, exits, transitions, entries, log output, the configuration after every microstep, the completion --
   holds for the repaired template (the four switches off), provided no `chan` of the emitted model was full at the end
   of the observation, and for the event names in P the guard literals decide the name matching (premises as in
   pml_run_equiv_partial).  "At least one transition" cannot be dropped
   (pml_step_equiv_repaired_no_transition_event_refuted); the `chan` premise cannot be dropped
   (pml_step_equiv_queue_full_refuted).
   Not covered: documents with <history>/<initial> pseudo-states or a deep initial attribute, late binding, content
   that can fail (the emitted Promela has no error events), events from outside, incomplete observations
   (behaviour_prefix). *)
Theorem pml_behaviour_preserved : forall pv t iq eq (P : bytes -> Prop) fp ff,
  let c := flatten false t in
  pv_in_reads_root pv = false -> pv_cond_bare pv = false -> pv_hist_covered pv = false -> pv_found_stale pv = false ->
  wf_coreb c = true -> fs_type (st c 0) = FCompound -> content_ok (chart_dom c) c = true ->
  data_okb [] (fs_data (st c 0)) = true ->
  (forall e, P e -> e <> []) -> chart_names P c ->
  (forall j, (is_par (ptype c j) = true \/
              exists i, is_fin (ptype c i) = true /\ fs_parent (st c i) = Some j /\ mem 1 (fs_children (st c j)) = false) ->
             P (done_name c j)) ->
  (forall i name, P name -> i < ntrans c -> ft_spontaneous (tr c i) = false ->
     resolved_match (guard_literals pv c i) name = name_match_impl nm_fixed (ft_event (tr c i)) name) ->
  0 < ntrans c ->
  p_full (fst (pml_loop pv c iq eq fp (p_init c))) = false ->
  behaviour_preserved pv t iq eq fp ff.
Proof. exact pml_behaviour_preserved_lemma. Qed.
Print Assumptions pml_behaviour_preserved.

(* an instance no computation gives: the document w_exit_interval, observed completely, against EVERY bound on the
   interpreter's driver loop *)
Theorem pml_behaviour_preserved_instance : forall ff, behaviour_preserved pml_repaired w_exit_interval 7 13 30 ff.
Proof. exact behaviour_instance. Qed.
Print Assumptions pml_behaviour_preserved_instance.

(* U (same documents and premises, but no premise about the `chan`s: an observation that ran into its bound saw no
   overflow; EVERY pair of bounds): behaviour_prefix -- what an observation of the emitted model cut by the step
   bound shows (the iteration in progress left out) is a prefix of what the interpreter's complete run shows. *)
Theorem pml_behaviour_prefix : forall pv t iq eq (P : bytes -> Prop) fp ff,
  let c := flatten false t in
  pv_in_reads_root pv = false -> pv_cond_bare pv = false -> pv_hist_covered pv = false -> pv_found_stale pv = false ->
  wf_coreb c = true -> fs_type (st c 0) = FCompound -> content_ok (chart_dom c) c = true ->
  data_okb [] (fs_data (st c 0)) = true ->
  (forall e, P e -> e <> []) -> chart_names P c ->
  (forall j, (is_par (ptype c j) = true \/
              exists i, is_fin (ptype c i) = true /\ fs_parent (st c i) = Some j /\ mem 1 (fs_children (st c j)) = false) ->
             P (done_name c j)) ->
  (forall i name, P name -> i < ntrans c -> ft_spontaneous (tr c i) = false ->
     resolved_match (guard_literals pv c i) name = name_match_impl nm_fixed (ft_event (tr c i)) name) ->
  0 < ntrans c ->
  behaviour_prefix pv t iq eq fp ff.
Proof. exact pml_behaviour_prefix_lemma. Qed.
Print Assumptions pml_behaviour_prefix.

(* instance: every pair of bounds *)
Theorem pml_behaviour_prefix_instance : forall fp ff, behaviour_prefix pml_repaired w_exit_interval 7 13 fp ff.
Proof. exact prefix_instance. Qed.
Print Assumptions pml_behaviour_prefix_instance.

From V Require Import LegalHistBase LegalHistEntry LegalHistStep LegalHistRun LegalHistWf LegalHistFast CGenEquivHist CGenEquivHistRun PmlEquivPmlTok PmlEquivHistEntry PmlEquivHistStep PmlEquivHistMicro PmlEquivHistExamples PmlEquivHistInit PmlEquivHistRun PmlEquivHistBehaviour PmlEquivHistRunEx.


(* ==== beyond the history-free core: <initial>, deep / multiple initial attributes, <history> (wf_histb) ========= *)

(* U (every chart with pseudo-states that passes wf_histb, trans_lists (a theorem for documents: trans_lists_flatten)
   and pml_deep_alone; the template with the six switches of ESTABLISH_ENTRY_SET off (entry_repaired; pml_repaired has
   them off); every target set, configuration, exit set and recorded history that satisfy the loop hypotheses of
   LegalHistFast.v -- they hold for the sets of a microstep on a legal state, see pml_microstep_equiv_history):
   ESTABLISH_ENTRY_SET of the emitted model computes the entry set AND the transition set (default history
   transitions, <initial> transitions) of Fast.fentry_set: recorded value against default transition, the ancestor
   closure of a deep history's default targets, <initial> elements, deep / multiple completions; the model's state
   only gets lines printed. *)
Theorem pml_step_equiv_entry_set_history : forall pv c, WFH c -> entry_repaired pv ->
  pml_deep_alone c = true -> trans_lists c = true ->
  forall cfg exitset hist tg,
  (forall g, In g tg -> 0 < g /\ g < nstates c) -> ssorted tg -> HistOK c hist ->
  (forall i k1 k2, fs_type (st c i) = FCompound -> fs_parent (st c k1) = Some i -> fs_parent (st c k2) = Some i ->
     In k1 (HE0 c tg) -> In k2 (HE0 c tg) -> k1 = k2) ->
  forall Q : nat -> Prop,
  (forall x, In x (HE0 c tg) -> Q x) ->
  (forall j x, Q j -> fs_type (st c j) = FParallel -> fs_parent (st c x) = Some j -> Q x) ->
  (forall j x, Q j -> fs_type (st c j) = FCompound -> (forall k, fs_parent (st c k) = Some j -> ~ surv cfg exitset k) ->
     Anc (fun i => fs_parent (st c i)) j x -> Q x) ->
  (forall j q x, Q j -> pseudoS c j = true -> fs_parent (st c j) = Some q -> Anc (fun i => fs_parent (st c i)) q x -> Q x) ->
  (forall x, In x cfg -> x < nstates c) -> closedS c (fun x => In x cfg) -> (forall x, In x exitset -> In x cfg) ->
  (forall x, In x exitset ->
     exists d, In d (HE0 c tg) /\ pseudoS c d = false /\ Anc (fun i => fs_parent (st c i)) d x /\
               forall y, In y cfg -> Anc (fun i => fs_parent (st c i)) d y -> In y exitset) ->
  forall ts s,
  fst (p_entry_set pv c cfg exitset hist tg ts s) = fentry_set c cfg exitset hist tg ts /\
  only_outs s (snd (p_entry_set pv c cfg exitset hist tg ts s)).
Proof. exact pentry_set_h. Qed.
Print Assumptions pml_step_equiv_entry_set_history.

(* where pml_deep_alone fails -- a history below the parent of a deep history that restores a recorded value -- the
   emitted model puts the nested history pseudo-state into the entry set, FastMicroStep does not (its branch is dead).
   The witness document is also outside wf_histb (its two histories record the same states); inside wf_histb no
   witness is known and the condition was not shown to be implied: it is kept as a computable side condition. *)
Theorem pml_step_equiv_entry_set_history_deep_alone_refuted :
  pml_deep_alone (flatten false w_history_below_deep_history) = false /\
  exists cfg exitset hist targets s,
    fst (fst (p_entry_set pml_repaired (flatten false w_history_below_deep_history) cfg exitset hist targets [] s)) <>
    fst (fentry_set (flatten false w_history_below_deep_history) cfg exitset hist targets []).
Proof. exact deep_alone_needed. Qed.
Print Assumptions pml_step_equiv_entry_set_history_deep_alone_refuted.

(* U (every chart, every state i other than the root): the content of the default history transitions and of the
   <initial> transitions in the transition set runs, in ENTER_STATES, after the <onentry> of the state i whose child
   the pseudo-state is -- the same transitions in the same order with the same effect as in FastMicroStep (content
   that cannot fail, no `chan` full). *)
Theorem pml_step_equiv_content_history : forall pv c iq eq dom,
  pv_in_reads_root pv = false -> content_ok dom c = true ->
  forall i l, i <> 0 -> forall s x, Rx c s x -> store_has dom (x_store x) -> guard_ok s ->
  let s' := fold_left (fun s j => if pseudo_guard c i s j then p_trans_body pv c iq eq s j else s) l s in
  p_full s' = false ->
  let x' := fold_left (fun x ti =>
                 let t := tr c ti in
                 if (ft_history t || ft_initial t) &&
                    match fs_parent (st c (ft_source t)) with Some p => p =? i | None => false end then
                   let y1 := emit (TTb (ft_vid t)) x in
                   let y2 := if ft_has_body t then exec_block ex_fixed (inst_of c (p_cfg s)) (ft_body t) y1 else y1 in
                   emit (TTe (ft_vid t)) y2
                 else x) l x in
  Rx c s' x' /\ store_has dom (x_store x') /\ pframe s' = pframe s.
Proof. exact pseudo_fold_sim. Qed.
Print Assumptions pml_step_equiv_content_history.

(* U (wf_histb): EXIT_STATES, TAKE_TRANSITIONS and ENTER_STATES as pml_step_equiv_exit_take_enter, on charts with
   pseudo-states: a <history> / <initial> member of the entry set is skipped by both sides, the transition set may
   hold default and <initial> transitions. *)
Theorem pml_step_equiv_exit_take_enter_history : forall pv c iq eq dom,
  pv_in_reads_root pv = false -> wf_histb c = true -> content_ok dom c = true ->
  (forall i, i <> 0 -> fs_data (st c i) = []) ->
  forall ex ts es s x initd,
  ssorted ex -> bounded (nstates c) ex -> ssorted ts -> bounded (ntrans c) ts -> ssorted es -> bounded (nstates c) es ->
  ssorted (p_cfg s) -> bounded (nstates c) (p_cfg s) -> In 0 (p_cfg s) -> mem 0 ex = false ->
  (forall i, In i ex -> In i (p_cfg s)) ->
  Rx c s x -> store_has dom (x_store x) -> p_fin s = p_tlf s ->
  let s3 := fold_left (p_exit_one pv c iq eq ex) (rev (seq 0 (pn c))) s in
  let s4 := fold_left (p_take_one pv c iq eq ts) (seq 0 (pnt c)) s3 in
  let s5 := fold_left (p_enter_one pv c iq eq es ts) (seq 0 (pn c)) s4 in
  let cx1 := fold_left (exit_one ex_fixed c) (rev ex) (p_cfg s, x) in
  let x2 := fold_left (take_one ex_fixed c (fst cx1)) ts (snd cx1) in
  let a := fold_left (fenter_one ex_fixed c ts) es {| ea_cfg := fst cx1; ea_initd := initd; ea_tlf := p_tlf s; ea_x := x2 |} in
  p_full s5 = false ->
  p_cfg s5 = ea_cfg a /\ Rx c s5 (ea_x a) /\ store_has dom (x_store (ea_x a)) /\
  p_tlf s5 = ea_tlf a /\ p_fin s5 = ea_tlf a /\ p_hist s5 = p_hist s /\ p_spont s5 = p_spont s.
Proof. exact hphases_sim. Qed.
Print Assumptions pml_step_equiv_exit_take_enter_history.

(* U (every chart with pseudo-states: wf_histb and the computable chart conditions chart_ph = pml_deep_alone, trans_lists,
   conflict_tableb (the static conflict table is the engine's matrix; a theorem on the core), ascending root
   completion; content that cannot fail, early binding; every LEGAL configuration with LEGAL recorded history
   (hst_ok = StOK of LegalHistRun.v and ascending sets; every state of a run: fast_run_legal_history), every event or
   none, every datamodel state): ONE d_step of the emitted step process against ONE Fast.fselect_and_step on
   corresponding states: same configuration, recorded history, datamodel, queues, top-level-final flag and visible
   trace afterwards, and the next state is legal again -- for the repaired template (pv_repaired: In() read correctly,
   conditions parenthesised, found-flag reset, the six entry-set switches off), guard literals deciding the name
   matching, no `chan` full.  Not covered: late binding, failing content. *)
Theorem pml_microstep_equiv_history : forall pv c iq eq dom,
  pv_repaired pv -> wf_histb c = true -> chart_ph c = true -> content_ok dom c = true ->
  (forall i, i <> 0 -> fs_data (st c i) = []) ->
  forall s l x evf,
  corr c dom s l x -> hst_ok c l -> l_init l = true ->
  (forall i e, i < ntrans c -> evf = Some e -> ft_spontaneous (tr c i) = false ->
     resolved_match (guard_literals pv c i) (ev_name e) = name_match_impl nm_fixed (ft_event (tr c i)) (ev_name e)) ->
  let s' := fst (pml_dstep pv c iq eq (option_map ev_name evf) s) in
  let r := fselect_and_step ex_fixed c l x evf in
  p_full s' = false ->
  corr c dom s' (fst (fst r)) (snd (fst r)) /\ hst_ok c (fst (fst r)) /\
  (if nonempty (k_trans (selected pv c (l_cfg l) (option_map ev_name evf) (x_store x)))
   then p_spont s' = true /\ l_spont (fst (fst r)) = true
   else p_spont s' = false /\ l_spont (fst (fst r)) = match evf with Some _ => true | None => false end).
Proof. exact pml_microstep_hist_lemma. Qed.
Print Assumptions pml_microstep_equiv_history.

(* the premises are satisfiable by a document with an <initial> element with content, a shallow and a deep <history>
   (w_hist_doc): after 8 iterations / steps both sides are in s6 with recorded history {s3, s5}; the event "d" targets
   the deep history of s3, both sides restore s3 and s5 *)
Theorem pml_microstep_equiv_history_nonvacuous :
  wf_histb hx_chart = true /\ chart_ph hx_chart = true /\ content_ok [] hx_chart = true /\
  corr hx_chart [] hx_pstate hx_lstate hx_xstate /\ hst_ok hx_chart hx_lstate /\ l_init hx_lstate = true /\
  p_full (fst (pml_dstep pml_repaired hx_chart 7 13 (option_map ev_name (Some hx_event)) hx_pstate)) = false /\
  l_cfg hx_lstate = [0; 9] /\ l_hist hx_lstate = [5; 8] /\
  l_cfg (fst (fst (fselect_and_step ex_fixed hx_chart hx_lstate hx_xstate (Some hx_event)))) = [0; 1; 5; 8].
Proof.
  pose proof hist_microstep_hypotheses_satisfiable as M. cbv zeta in M. destruct M as (M1 & _ & M3 & M4 & _ & M6).
  split; [exact hx_wf|]. split; [exact hx_chart_ph|]. split; [exact hx_content|]. split; [exact hx_corr|].
  split; [exact hx_ok|]. split; [exact hx_init|]. split; [exact M1|]. split; [exact M3|]. split; [exact M4|exact M6].
Qed.
Print Assumptions pml_microstep_equiv_history_nonvacuous.

(* U (wf_histb, root compound, chart_ph0 = chart_ph and trans_kindsb (the transitions flagged HISTORY / INITIAL are
   those of pseudo-states; flatten sets the flags so), content that cannot fail, early binding, <data> expressions
   over earlier ids): the FIRST iteration of the emitted model against the first step of FastMicroStep, on charts
   with pseudo-states: the root's completion may be deep, multiple or an <initial> element, whose transition and
   content enter the transition set and run after the <onentry> of the parent. *)
Theorem pml_initial_step_equiv_history : forall pv c iq eq,
  pv_repaired pv -> wf_histb c = true -> fs_type (st c 0) = FCompound -> chart_ph0 c = true ->
  content_ok (chart_dom c) c = true -> (forall i, i <> 0 -> fs_data (st c i) = []) ->
  data_okb [] (fs_data (st c 0)) = true ->
  let s' := fst (pml_iter pv c iq eq (p_init c)) in
  let r := fast_step ex_fixed c l_pristine x_init in
  p_full s' = false ->
  corr c (chart_dom c) s' (fst (fst r)) (snd (fst r)) /\ hst_ok c (fst (fst r)) /\
  p_spont s' = true /\ l_spont (fst (fst r)) = true /\ l_init (fst (fst r)) = true /\
  l_fin (fst (fst r)) = false /\ l_cancelled (fst (fst r)) = false /\ snd r = RC_MICROSTEPPED.
Proof. exact pml_initial_step_hist_lemma. Qed.
Print Assumptions pml_initial_step_equiv_history.

(* U, partial as pml_run_equiv_partial (state correspondence at the end of every observation; the framing tokens are
   in pml_behaviour_preserved_history): whole runs of DOCUMENTS with <initial> elements, deep / multiple initial
   attributes and <history>. *)
Theorem pml_run_equiv_history_partial : forall pv t iq eq (P : bytes -> Prop),
  let c := flatten false t in
  pv_repaired pv -> wf_histb c = true -> fs_type (st c 0) = FCompound -> chart_ph0 c = true ->
  content_ok (chart_dom c) c = true -> data_okb [] (fs_data (st c 0)) = true ->
  (forall e, P e -> e <> []) -> chart_names P c ->
  (forall j, (is_par (ptype c j) = true \/
              exists i, is_fin (ptype c i) = true /\ fs_parent (st c i) = Some j /\ mem 1 (fs_children (st c j)) = false) ->
             P (done_name c j)) ->
  (forall i name, P name -> i < ntrans c -> ft_spontaneous (tr c i) = false ->
     resolved_match (guard_literals pv c i) name = name_match_impl nm_fixed (ft_event (tr c i)) name) ->
  forall fuel s' r,
  pml_loop pv c iq eq (S fuel) (p_init c) = (s', r) -> p_full s' = false -> r <> PFull ->
  exists m l' x', run_loop c lstate (fast_step ex_fixed c) l_cfg m l_pristine x_init [] = (l', x') /\ final_rel c r s' l' x'.
Proof. exact pml_run_hist_tree_lemma. Qed.
Print Assumptions pml_run_equiv_history_partial.

(* U (every document with <initial> elements, deep / multiple initial attributes, shallow and deep <history> that
   passes wf_histb and chart_ph0, has a compound root, at least one transition, early binding, content that cannot
   fail; the repaired template; EVERY pair of bounds): the property itself -- behaviour_preserved, provided no `chan`
   of the emitted model was full at the end, and behaviour_prefix.  Side conditions beyond the core theorem
   (pml_behaviour_preserved): pml_deep_alone (refuted where it fails: ..._deep_alone_refuted), conflict_tableb
   (checked per chart; a theorem on the core), trans_lists (a theorem for documents), trans_kindsb, ascending root
   completion.  Not covered: late binding, failing content, events from outside. *)
Theorem pml_behaviour_preserved_history : forall pv t iq eq (P : bytes -> Prop),
  let c := flatten false t in
  pv_repaired pv -> wf_histb c = true -> fs_type (st c 0) = FCompound -> chart_ph0 c = true ->
  content_ok (chart_dom c) c = true -> data_okb [] (fs_data (st c 0)) = true ->
  (forall e, P e -> e <> []) -> chart_names P c ->
  (forall j, (is_par (ptype c j) = true \/
              exists i, is_fin (ptype c i) = true /\ fs_parent (st c i) = Some j /\ mem 1 (fs_children (st c j)) = false) ->
             P (done_name c j)) ->
  (forall i name, P name -> i < ntrans c -> ft_spontaneous (tr c i) = false ->
     resolved_match (guard_literals pv c i) name = name_match_impl nm_fixed (ft_event (tr c i)) name) ->
  0 < ntrans c ->
  forall fp ff, p_full (fst (pml_loop pv c iq eq fp (p_init c))) = false -> behaviour_preserved pv t iq eq fp ff.
Proof. exact pml_behaviour_preserved_hist_lemma. Qed.
Print Assumptions pml_behaviour_preserved_history.

Theorem pml_behaviour_prefix_history : forall pv t iq eq (P : bytes -> Prop),
  let c := flatten false t in
  pv_repaired pv -> wf_histb c = true -> fs_type (st c 0) = FCompound -> chart_ph0 c = true ->
  content_ok (chart_dom c) c = true -> data_okb [] (fs_data (st c 0)) = true ->
  (forall e, P e -> e <> []) -> chart_names P c ->
  (forall j, (is_par (ptype c j) = true \/
              exists i, is_fin (ptype c i) = true /\ fs_parent (st c i) = Some j /\ mem 1 (fs_children (st c j)) = false) ->
             P (done_name c j)) ->
  (forall i name, P name -> i < ntrans c -> ft_spontaneous (tr c i) = false ->
     resolved_match (guard_literals pv c i) name = name_match_impl nm_fixed (ft_event (tr c i)) name) ->
  0 < ntrans c ->
  forall fp ff, behaviour_prefix pv t iq eq fp ff.
Proof. exact pml_behaviour_prefix_hist_lemma. Qed.
Print Assumptions pml_behaviour_prefix_history.

(* non-vacuity: w_hist_doc -- an <initial> element with content, a shallow and a deep <history>; the run visits s2, s3/s4,
   s5, s6 and returns through the deep history of s3 -- observed completely, against EVERY bound on the interpreter *)
Theorem pml_behaviour_preserved_history_instance : forall ff, behaviour_preserved pml_repaired w_hist_doc 7 13 30 ff.
Proof. exact hist_behaviour_instance. Qed.
Print Assumptions pml_behaviour_preserved_history_instance.
Theorem pml_behaviour_prefix_history_instance : forall fp ff, behaviour_prefix pml_repaired w_hist_doc 7 13 fp ff.
Proof. exact hist_prefix_instance. Qed.
Print Assumptions pml_behaviour_prefix_history_instance.

From V Require Import EngineEquivRun EngineEquivMain EngineEquivHistRun EngineEquivHistMain FlattenStaticTree FlattenStaticMain PmlEquivDoc PmlEquivDocConflict.


(* ==== against the interpreter's default engine (LargeMicroStep), and for documents ============================== *)

(* U (every history-free chart that passes the engine-equivalence guard eq_chartb, the four template switches off,
   content / data / event-name conditions as in pml_run_equiv_partial; dynamic guard eq_guard_run on the
   interpreter run -- the queues' and the data model's conditions of the engine equivalence; every fuel): a run of
   the emitted Promela step process that does not overflow a queue is a run of the interpreter with its DEFAULT
   engine (Large.large_step): same configuration, same recorded history, same store, same queues (event names),
   same printed lines, and a terminated model means a finished interpreter (final_large). *)
Theorem pml_run_equals_default_engine_partial : forall pv c iq eq (P : bytes -> Prop),
  pv_in_reads_root pv = false -> pv_cond_bare pv = false -> pv_hist_covered pv = false -> pv_found_stale pv = false ->
  eq_chartb c = true -> content_ok (chart_dom c) c = true -> (forall i, i <> 0 -> fs_data (st c i) = []) ->
  data_okb [] (fs_data (st c 0)) = true ->
  (forall e, P e -> e <> []) -> chart_names P c ->
  (forall j, (is_par (ptype c j) = true \/
              exists i, is_fin (ptype c i) = true /\ fs_parent (st c i) = Some j /\ mem 1 (fs_children (st c j)) = false) ->
             P (done_name c j)) ->
  (forall i name, P name -> i < ntrans c -> ft_spontaneous (tr c i) = false ->
     resolved_match (guard_literals pv c i) name = name_match_impl nm_fixed (ft_event (tr c i)) name) ->
  (forall m, eq_guard_run ex_fixed c m l_pristine x_init [] = true) ->
  forall fuel s' r,
  pml_loop pv c iq eq (S fuel) (p_init c) = (s', r) -> p_full s' = false -> r <> PFull ->
  exists m l' x', run_loop c lstate (large_step lg_fixed ex_fixed c) l_cfg m l_pristine x_init [] = (l', x') /\
                  final_large c r s' l' x'.
Proof. exact pml_run_equals_default_engine_partial_lemma. Qed.
Print Assumptions pml_run_equals_default_engine_partial.

(* U (the same for charts with <initial>, deep / multiple initial attributes and <history>: eq_chartb_hist,
   eq_guard_run_hist, the repaired template, chart_ph0 -- a theorem for documents up to pml_deep_alone, see below). *)
Theorem pml_run_equals_default_engine_history_partial : forall pv c iq eq (P : bytes -> Prop),
  pv_repaired pv -> eq_chartb_hist c = true -> chart_ph0 c = true ->
  content_ok (chart_dom c) c = true -> (forall i, i <> 0 -> fs_data (st c i) = []) ->
  data_okb [] (fs_data (st c 0)) = true ->
  (forall e, P e -> e <> []) -> chart_names P c ->
  (forall j, (is_par (ptype c j) = true \/
              exists i, is_fin (ptype c i) = true /\ fs_parent (st c i) = Some j /\ mem 1 (fs_children (st c j)) = false) ->
             P (done_name c j)) ->
  (forall i name, P name -> i < ntrans c -> ft_spontaneous (tr c i) = false ->
     resolved_match (guard_literals pv c i) name = name_match_impl nm_fixed (ft_event (tr c i)) name) ->
  (forall m, eq_guard_run_hist ex_fixed c m l_pristine x_init [] = true) ->
  forall fuel s' r,
  pml_loop pv c iq eq (S fuel) (p_init c) = (s', r) -> p_full s' = false -> r <> PFull ->
  exists m l' x', run_loop c lstate (large_step lg_fixed ex_fixed c) l_cfg m l_pristine x_init [] = (l', x') /\
                  final_large c r s' l' x'.
Proof. exact pml_run_equals_default_engine_history_partial_lemma. Qed.
Print Assumptions pml_run_equals_default_engine_history_partial.

(* U (every document, both bindings): the flags of the transitions of a flat chart are the kinds of their sources
   (a transition of a <history> is flagged history, of an <initial> initial, of a proper state neither). *)
Theorem pml_trans_kinds_document : forall late t, trans_kindsb (flatten late t) = true.
Proof. exact trans_kinds_flatten. Qed.
Print Assumptions pml_trans_kinds_document.

(* U (every chart with pseudo-states that passes wf_histb, with a compound root and transition sources in range):
   the conflict table the emitted model is built from (exit sets of proper states intersect) is FastMicroStep's
   conflict matrix (exit intervals overlap): the domain of a transition is a compound state or the root, and a
   compound state has a proper descendant. *)
Theorem pml_conflict_table_history : forall c, LegalHistBase.WFH c -> fs_type (st c 0) = FCompound ->
  (forall ti, ti < ntrans c -> ft_source (tr c ti) < nstates c) -> conflict_tableb c = true.
Proof. exact conflict_table_hist. Qed.
Print Assumptions pml_conflict_table_history.

(* U (every document that passes hist_treeb, both bindings). *)
Theorem pml_conflict_table_document : forall late t, hist_treeb t = true -> conflict_tableb (flatten late t) = true.
Proof. exact conflict_table_document. Qed.
Print Assumptions pml_conflict_table_document.

(* U (every document that passes hist_treeb with at least one transition, early binding, the repaired template; of
   the chart conditions of pml_behaviour_preserved_history only pml_deep_alone remains -- wf_histb, compound root,
   trans_lists, trans_kindsb, conflict_tableb, the ascending root completion are theorems; content / data /
   event-name conditions as before; every pair of bounds, the model's run must not overflow a queue). *)
Theorem document_pml_behaviour_preserved : forall t iq eq (P : bytes -> Prop),
  pml_deep_alone (flatten false t) = true ->
  content_ok (chart_dom (flatten false t)) (flatten false t) = true ->
  data_okb [] (fs_data (st (flatten false t) 0)) = true ->
  (forall e, P e -> e <> []) -> chart_names P (flatten false t) ->
  (forall j, (is_par (ptype (flatten false t) j) = true \/
              exists i, is_fin (ptype (flatten false t) i) = true /\ fs_parent (st (flatten false t) i) = Some j /\
                        mem 1 (fs_children (st (flatten false t) j)) = false) ->
             P (done_name (flatten false t) j)) ->
  (forall i name, P name -> i < ntrans (flatten false t) -> ft_spontaneous (tr (flatten false t) i) = false ->
     resolved_match (guard_literals pml_repaired (flatten false t) i) name =
     name_match_impl nm_fixed (ft_event (tr (flatten false t) i)) name) ->
  hist_treeb t = true -> 0 < ntrans (flatten false t) ->
  forall fp ff, p_full (fst (pml_loop pml_repaired (flatten false t) iq eq fp (p_init (flatten false t)))) = false ->
  behaviour_preserved pml_repaired t iq eq fp ff.
Proof. exact document_behaviour_preserved. Qed.
Print Assumptions document_pml_behaviour_preserved.

(* U (the same without the overflow condition: the model's observations are a prefix). *)
Theorem document_pml_behaviour_prefix : forall t iq eq (P : bytes -> Prop),
  pml_deep_alone (flatten false t) = true ->
  content_ok (chart_dom (flatten false t)) (flatten false t) = true ->
  data_okb [] (fs_data (st (flatten false t) 0)) = true ->
  (forall e, P e -> e <> []) -> chart_names P (flatten false t) ->
  (forall j, (is_par (ptype (flatten false t) j) = true \/
              exists i, is_fin (ptype (flatten false t) i) = true /\ fs_parent (st (flatten false t) i) = Some j /\
                        mem 1 (fs_children (st (flatten false t) j)) = false) ->
             P (done_name (flatten false t) j)) ->
  (forall i name, P name -> i < ntrans (flatten false t) -> ft_spontaneous (tr (flatten false t) i) = false ->
     resolved_match (guard_literals pml_repaired (flatten false t) i) name =
     name_match_impl nm_fixed (ft_event (tr (flatten false t) i)) name) ->
  hist_treeb t = true -> 0 < ntrans (flatten false t) ->
  forall fp ff, behaviour_prefix pml_repaired t iq eq fp ff.
Proof. exact document_behaviour_prefix. Qed.
Print Assumptions document_pml_behaviour_prefix.

(* U (every document that passes eq_tree_histb = hist_treeb and every <parallel> has a child; dynamic guard
   eq_guard_run_hist on the interpreter run): the emitted model's run is the DEFAULT engine's run. *)
Theorem document_pml_run_equals_default_engine_partial : forall t iq eq (P : bytes -> Prop),
  pml_deep_alone (flatten false t) = true ->
  content_ok (chart_dom (flatten false t)) (flatten false t) = true ->
  data_okb [] (fs_data (st (flatten false t) 0)) = true ->
  (forall e, P e -> e <> []) -> chart_names P (flatten false t) ->
  (forall j, (is_par (ptype (flatten false t) j) = true \/
              exists i, is_fin (ptype (flatten false t) i) = true /\ fs_parent (st (flatten false t) i) = Some j /\
                        mem 1 (fs_children (st (flatten false t) j)) = false) ->
             P (done_name (flatten false t) j)) ->
  (forall i name, P name -> i < ntrans (flatten false t) -> ft_spontaneous (tr (flatten false t) i) = false ->
     resolved_match (guard_literals pml_repaired (flatten false t) i) name =
     name_match_impl nm_fixed (ft_event (tr (flatten false t) i)) name) ->
  eq_tree_histb t = true ->
  (forall m, eq_guard_run_hist ex_fixed (flatten false t) m l_pristine x_init [] = true) ->
  forall fuel s' r,
  pml_loop pml_repaired (flatten false t) iq eq (S fuel) (p_init (flatten false t)) = (s', r) ->
  p_full s' = false -> r <> PFull ->
  exists m l' x', run_loop (flatten false t) lstate (large_step lg_fixed ex_fixed (flatten false t)) l_cfg m
                    l_pristine x_init [] = (l', x') /\
                  final_large (flatten false t) r s' l' x'.
Proof. exact document_run_equals_default_engine. Qed.
Print Assumptions document_pml_run_equals_default_engine_partial.

(* non-vacuity: the document with an <initial> element with content, a shallow and a deep history passes the
   document guards, and the document theorem applies to it for every bound on the interpreter. *)
Theorem document_pml_guards_instance :
  hist_treeb w_hist_doc = true /\ eq_tree_histb w_hist_doc = true /\ pml_deep_alone (flatten false w_hist_doc) = true /\
  conflict_tableb (flatten false w_hist_doc) = true.
Proof. exact doc_guards_instance. Qed.
Print Assumptions document_pml_guards_instance.
Theorem document_pml_behaviour_preserved_instance : forall ff, behaviour_preserved pml_repaired w_hist_doc 7 13 30 ff.
Proof. exact document_behaviour_instance. Qed.
Print Assumptions document_pml_behaviour_preserved_instance.
