(* Properties_C06.v -- property theorems only.  C06: the Promela model emitted by ChartToPromela preserves the
   chart's behaviour.  Models: PmlStep.v (the emitted step process, as written, with one switch per confirmed
   deviation), Trie.v (static event-descriptor resolution), Fast.v (the interpreter's bit-array engine). *)
From V Require Import Base NameMatch Chart Exec Large Interp Fast Trie TrieLemmas PmlStep PmlStepLemmas.

(* ---- the event trie -------------------------------------------------------------------------------- *)

(* U (any set of names, any prefix; induction over the insertions and the token paths): for canonically
   spelled names, getWordsWithPrefix d over the '.'-separated trie returns exactly the inserted names whose
   token list is extended from d's. *)
Theorem trie_resolution_correct : forall ws d x,
  (forall w, In w ws -> canonical_name w = true) ->
  (In x (words_with_prefix (trie_of ws) d) <-> In x ws /\ list_prefixb (dot_tokens d) (dot_tokens x) = true).
Proof. exact words_with_prefix_spec. Qed.
Print Assumptions trie_resolution_correct.

(* U: on canonical names "token prefix" is the Recommendation's descriptor matching (3.12.1): equal, or a prefix
   followed by a dot *)
Theorem trie_token_prefix_is_descriptor_match : forall d w,
  canonical_name d = true -> canonical_name w = true ->
  list_prefixb (dot_tokens d) (dot_tokens w) = (beq_bytes d w || is_prefix (d ++ [c_dot]) w).
Proof. exact token_prefix_matches. Qed.
Print Assumptions trie_token_prefix_is_descriptor_match.

(* U: hence the literals OR-ed into a transition's guard (by the Promela and the VHDL back-end) are exactly the
   event names NameMatch.name_match_spec matches -- for an `event` attribute whose descriptors are no wildcard,
   lose their ".*"/"." suffix the same way under both readings and are canonically spelled ([resolvable_desc],
   a boolean the check evaluates on every generated descriptor) *)
Theorem trie_guard_literals_correct : forall v ws attr name,
  (forall w, In w ws -> canonical_name w = true) -> In name ws ->
  forallb resolvable_desc (tokens attr) = true ->
  resolved_match (resolve_attr v (trie_of ws) attr) name = name_match_spec attr name.
Proof. exact resolve_attr_correct. Qed.
Print Assumptions trie_guard_literals_correct.

(* ... and it is false without the restriction: a "*" among several descriptors is looked up as a name *)
Theorem trie_star_in_list_refuted :
  exists ws attr name,
    (forall w, In w ws -> canonical_name w = true) /\ In name ws /\ wf_descs attr = true /\
    resolved_match (resolve_attr tv_as_written (trie_of ws) attr) name <> name_match_spec attr name.
Proof. exact star_in_list_refuted. Qed.
Print Assumptions trie_star_in_list_refuted.

(* ---- one execution ---------------------------------------------------------------------------------- *)

(* U (every chart, every state, every number of iterations): under Promela's semantics of `if` outside d_step
   (any option whose guard holds) the emitted process has exactly one execution -- the external events being the
   ones in its own queue -- and it is the one PmlStep.pml_loop computes. *)
Theorem pml_deterministic : forall pv c iqcap eqcap fuel s r1 r2,
  exec_rel pv c iqcap eqcap fuel s r1 -> exec_rel pv c iqcap eqcap fuel s r2 -> r1 = r2.
Proof. exact pml_deterministic_lemma. Qed.
Print Assumptions pml_deterministic.

Theorem pml_execution_exists : forall pv c iqcap eqcap fuel s,
  exec_rel pv c iqcap eqcap fuel s (pml_loop pv c iqcap eqcap fuel s).
Proof. exact pml_exec_exists. Qed.
Print Assumptions pml_execution_exists.

(* U: the bound on the observed iterations: an observation that ended by itself is the same under every larger bound *)
Theorem pml_observation_bound_enough : forall pv c iqcap eqcap f1 f2 s,
  f1 <= f2 -> snd (pml_loop pv c iqcap eqcap f1 s) <> POutOfFuel ->
  pml_loop pv c iqcap eqcap f2 s = pml_loop pv c iqcap eqcap f1 s.
Proof. exact pml_fuel_enough. Qed.
Print Assumptions pml_observation_bound_enough.

(* ---- the emitted model against the interpreter ------------------------------------------------------ *)

(* U, partial (missing: REMEMBER_HISTORY, ESTABLISH_ENTRY_SET, EXIT/TAKE/ENTER and the executable content --
   for those the tie is the line-by-line correspondence and the refutations below): SELECT_TRANSITIONS of the
   emitted model selects exactly the transitions FastMicroStep selects, in the same order, for every chart,
   configuration, event and store, when In() is read correctly, conditions are parenthesised, the static conflict table is the engine's, the
   guard literals decide the name matching for the event (trie_guard_literals_correct) and no condition fails. *)
Theorem pml_step_equiv_select_partial : forall pv c cfg evf x,
  pv_in_reads_root pv = false -> pv_cond_bare pv = false ->
  (forall i j, i < ntrans c -> j < ntrans c -> conflict_static c (tr c i) (tr c j) = fconflicts c (tr c i) (tr c j)) ->
  (forall i e, i < ntrans c -> evf = Some e -> ft_spontaneous (tr c i) = false ->
     resolved_match (guard_literals pv c i) (ev_name e) = name_match_impl nm_fixed (ft_event (tr c i)) (ev_name e)) ->
  (forall i cnd, i < ntrans c -> ft_cond (tr c i) = Some cnd -> beval (inst_of c cfg) (x_store x) cnd <> None) ->
  let a := fold_left (psel_one pv c cfg (option_map ev_name evf) (x_store x)) (seq 0 (ntrans c))
                     {| k_found := false; k_conf := []; k_target := []; k_exit := []; k_trans := [] |} in
  fselect c cfg evf (seq 0 (ntrans c)) [] x = (k_trans a, x) /\ k_found a = nonempty (k_trans a).
Proof. exact pml_select_equiv_lemma. Qed.
Print Assumptions pml_step_equiv_select_partial.

(* The full statement -- [behaviour_preserved]: a completely observed run of the emitted model shows the events,
   exits, transitions, entries, log output and configurations of the interpreter -- is false of the template as
   written; one witness chart per deviation (corpus/c06.json, replayed on the real transpiler and spin): *)
Theorem pml_step_equiv_in_predicate_refuted : exists t fp ff, ~ behaviour_preserved pml_as_written t 7 13 fp ff.
Proof. exact in_predicate_refuted. Qed.
Print Assumptions pml_step_equiv_in_predicate_refuted.
Theorem pml_step_equiv_initial_element_refuted : exists t fp ff, ~ behaviour_preserved pml_as_written t 7 13 fp ff.
Proof. exact initial_deep_target_refuted. Qed.
Print Assumptions pml_step_equiv_initial_element_refuted.
Theorem pml_step_equiv_initial_attribute_refuted : exists t fp ff, ~ behaviour_preserved pml_as_written t 7 13 fp ff.
Proof. exact initial_attribute_deep_refuted. Qed.
Print Assumptions pml_step_equiv_initial_attribute_refuted.
Theorem pml_step_equiv_history_active_parent_refuted : exists t fp ff, ~ behaviour_preserved pml_as_written t 7 13 fp ff.
Proof. exact history_active_parent_refuted. Qed.
Print Assumptions pml_step_equiv_history_active_parent_refuted.
Theorem pml_step_equiv_shallow_history_refuted : exists t fp ff, ~ behaviour_preserved pml_as_written t 7 13 fp ff.
Proof. exact shallow_history_nested_refuted. Qed.
Print Assumptions pml_step_equiv_shallow_history_refuted.
Theorem pml_step_equiv_star_descriptor_refuted : exists t fp ff, ~ behaviour_preserved pml_as_written t 7 13 fp ff.
Proof. exact star_in_descriptor_list_refuted. Qed.
Print Assumptions pml_step_equiv_star_descriptor_refuted.
Theorem pml_step_equiv_nested_history_refuted : exists t fp ff, ~ behaviour_preserved pml_as_written t 7 13 fp ff.
Proof. exact history_below_deep_history_refuted. Qed.
Print Assumptions pml_step_equiv_nested_history_refuted.
Theorem pml_step_equiv_cond_parentheses_refuted : exists t fp ff, ~ behaviour_preserved pml_as_written t 7 13 fp ff.
Proof. exact cond_top_level_or_refuted. Qed.
Print Assumptions pml_step_equiv_cond_parentheses_refuted.
(* against the fast engine only (Fast.v is what behaviour_preserved compares with); the default large engine
   behaves as the emitted model on this chart, and both leave the configuration {scxml,s1,s3,s4} without s2 *)
Theorem pml_step_equiv_restored_ancestors_refuted : exists t fp ff, ~ behaviour_preserved pml_guarded_only t 7 13 fp ff.
Proof. exact restored_without_ancestors_refuted. Qed.
Print Assumptions pml_step_equiv_restored_ancestors_refuted.
Theorem pml_step_equiv_no_transitions_refuted : exists t fp ff, ~ behaviour_prefix pml_as_written t 7 13 fp ff.
Proof. exact no_transitions_refuted. Qed.
Print Assumptions pml_step_equiv_no_transitions_refuted.

(* each witness is repaired by its own switch alone (the template with the corresponding patch) *)
Theorem pml_step_equiv_witnesses_repaired :
  behaviour_preserved (with_switch_off 0) w_in_predicate 7 13 20 40 /\
  behaviour_preserved (with_switch_off 1) w_initial_deep_target 7 13 20 40 /\
  behaviour_preserved (with_switch_off 2) w_initial_attribute_deep 7 13 20 40 /\
  behaviour_preserved (with_switch_off 3) w_history_active_parent 7 13 20 40 /\
  behaviour_preserved (with_switch_off 4) w_shallow_history_nested 7 13 30 60 /\
  behaviour_preserved (with_switch_off 5) w_star_in_descriptor_list 7 13 20 40 /\
  behaviour_preserved (with_switch_off 6) w_history_below_deep_history 7 13 30 60 /\
  behaviour_preserved (with_switch_off 7) w_no_transitions 7 13 20 40 /\
  behaviour_preserved (with_switch_off 9) w_cond_top_level_or 7 13 20 40.
Proof. exact witnesses_repaired_by_their_switch. Qed.
Print Assumptions pml_step_equiv_witnesses_repaired.

(* ---- a candidate deviation discarded ---------------------------------------------------------------- *)

(* U (every chart, state, number of iterations): the <scxml> root, once active, stays active in the emitted
   model: "initial entry detected by an empty configuration" cannot fire again, it coincides with the engines'
   PRISTINE flag. *)
Theorem pml_root_never_exited : forall pv c iqcap eqcap fuel s,
  mem 0 (p_cfg s) = true -> mem 0 (p_cfg (fst (pml_loop pv c iqcap eqcap fuel s))) = true.
Proof. exact pml_root_never_exited_lemma. Qed.
Print Assumptions pml_root_never_exited.

(* ---- declared widths of the emitted model ----------------------------------------------------------- *)

(* U: n = BIT_WIDTH(number) bits hold the values below `number`; hence the widths the template declares for the
   event variable, the state/transition indices and the loop counters are sufficient for every document, also
   when a count is a power of two *)
Theorem pml_declared_widths_enough : forall n v, (v < n)%N -> (v < 2 ^ bit_width n)%N.
Proof. exact bit_width_holds. Qed.
Print Assumptions pml_declared_widths_enough.

(* declForRange(nativeOnly = false) writes BIT_WIDTH(maxValue): one bit short when maxValue is a power of two
   (latent: its only call site passes the range (0,0)); BIT_WIDTH(maxValue + 1) is right *)
Theorem pml_declforrange_width_refuted : exists maxValue, ~ (maxValue < 2 ^ bit_width maxValue)%N.
Proof. exact declforrange_width_refuted. Qed.
Print Assumptions pml_declforrange_width_refuted.
Theorem pml_declforrange_width_repaired : forall maxValue v, (v <= maxValue)%N -> (v < 2 ^ bit_width (maxValue + 1))%N.
Proof. exact declforrange_width_repaired. Qed.
Print Assumptions pml_declforrange_width_repaired.
