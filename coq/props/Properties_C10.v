(* Properties_C10.v -- property theorems only.  C10: the interpreter life-cycle is well defined
   and always terminates.

   Quantifiers: [C] and [ch : chart C] -- every chart (an arbitrary oracle for the initial
   micro-step, the selection of a transition set and the exit handlers of a configuration);
   [ops] -- every finite sequence of API calls (step, receive, cancel, reset, destroy), any length;
   [sched] -- every schedule of the thread systems, any length.  [lc_pinned]/[td_pinned] is the code
   as pinned, [lc_fixed]/[td_fixed] the code with patches/C10-*.diff applied; the check determines
   which variant the working tree is. *)
From V Require Import Base GenFlags Lifecycle LifecycleLemmas.

(* the generated flag values: all present, bits pairwise disjoint, same in both engines *)
Theorem ctx_flags_wellformed :
  (forallb (fun b => b) large_ctx_present = true /\ forallb (fun b => b) fast_ctx_present = true
   /\ forallb (fun b => b) ist_present = true)
  /\ (pairwise_disjoint large_ctx = true /\ pairwise_disjoint fast_ctx = true
      /\ forallb (fun x => negb (N.eqb x 0)) (tl large_ctx) = true /\ hd 1%N large_ctx = 0%N)
  /\ (large_ctx = fast_ctx /\ large_state_table = fast_state_table /\ large_trans_table = fast_trans_table).
Proof. exact (conj flags_all_present (conj ctx_flags_disjoint ctx_flags_same_in_both_engines)). Qed.
Print Assumptions ctx_flags_wellformed.

(* U, both variants.  What a caller observes of step() -- with getState() after construction and
   after every reset() -- is accepted by the life-cycle automaton, which restarts at reset(); and
   without reset() the bare sequence of results is a prefix of a word of
   INSTANTIATED? INITIALIZED (MICROSTEPPED|MACROSTEPPED|IDLE)* CANCELLED? FINISHED^omega. *)
Theorem step_results_regular : forall (C : Type) (ch : chart C) (v : lc_variant) (ops : list op),
  lifecycle_regexb (lc_observe v ch ops) = true
  /\ (~ In OpReset ops ->
      lifecycle_prefix (R_INSTANTIATED :: step_results (lc_run v ch (fresh v) ops))).
Proof.
  intros C ch v ops. split.
  - apply step_results_regular_lemma.
  - intro H. apply l_accepts_iff_language. apply step_results_word; exact H.
Qed.
Print Assumptions step_results_regular.

(* U, both variants.  Once a step returned FINISHED, every later step (until reset()) returns
   FINISHED and runs no executable content and no callback, whatever is received or cancelled in
   between. *)
Theorem finished_absorbing : forall (C : Type) (ch : chart C) (v : lc_variant) (ops : list op),
  finished_quietb false (lc_observe v ch ops) = true.
Proof. exact finished_absorbing_lemma. Qed.
Print Assumptions finished_absorbing.

(* U, both variants.
   (1) completion: in every run the step that first returns FINISHED -- and no other -- runs
       beforeCompletion, then exactly the exit handlers of the configuration the previous step left,
       each once, last in document order first, then afterCompletion;
   (2) after cancel() no step returns IDLE (a blocking step would not block) and CANCELLED is
       returned at most once; by step_results_regular it is followed by FINISHED at once;
   (3) liveness, for every chart: a cancelled, initialised interpreter that is stepped reaches
       FINISHED, unless the chart itself takes more than any number N of micro-steps. *)
Theorem cancel_leads_to_finished : forall (C : Type) (ch : chart C) (v : lc_variant),
  (forall ops, completion_okb false [] (lc_observe v ch ops) = true)
  /\ (forall ops, cancel_okb false false ops (lc_run v ch (fresh v) ops) = true)
  /\ (forall ops s s1, lc_exec v ch (fresh v) ops = Some s -> i_init s = true -> lc_cancel s = Ok s1 ->
        exists m q, i_stepper s1 = Some m /\ i_queues s1 = Some q /\
          forall N, exists n s2, lc_exec v ch s1 (repeat OpStep n) = Some s2
                      /\ (i_state s2 = R_FINISHED \/ (N <= ms_taken C ch n m q)%nat)).
Proof.
  intros C ch v. split; [|split].
  - apply completion_once_lemma.
  - apply cancel_never_idle_lemma.
  - intros ops s s1 _ Hi Hc.
    destruct (cancel_establishes C s s1 Hi Hc) as (Hi1 & m & q & Hm & Hq & Hcm & _).
    exists m, q. split; [exact Hm|]. split; [exact Hq|].
    intro N. apply cancel_leads_to_finished_lemma; assumption.
Qed.
Print Assumptions cancel_leads_to_finished.

(* U.  cancel() against a step() blocked in (or on its way to) dequeueExternal, other threads
   enqueueing at will: under every interleaving, once cancel() has returned the stepper is not
   waiting on an empty queue (the unblock event is enqueued after the flag is set), and without
   further enqueues it returns CANCELLED within 2|queue|+2 of its own steps.  With the two
   statements of cancel() swapped a schedule loses the cancellation. *)
Theorem cancel_unblocks :
  (forall q p sched, let s := cu_run cu_code (cu_init q p) sched in
     cu_lost s = false /\ (u_c s = CDone -> u_flag s = true))
  /\ (forall q p sched n, let s := cu_run cu_code (cu_init q p) sched in
        u_c s = CDone ->
        (2 * length (u_q s) + 2 < n)%nat -> u_p (cu_steps s n) = PDone)
  /\ (exists sched, cu_lost (cu_run {| cv_enqueue_first := true |} (cu_init [] PWait) sched) = true).
Proof.
  split; [exact cancel_unblocks_lemma|split; [|exact cancel_unblocks_order_matters]].
  intros q p sched n s Hc Hn. apply cu_reaches_done; auto.
  - apply cu_inv_run. split; simpl; [intro H; contradiction H; reflexivity | intro H; discriminate H].
  - destruct (u_p s); lia.
Qed.
Print Assumptions cancel_unblocks.

(* U, every chart, both variants.  From a successful cancel() on -- whatever is stepped, received or
   cancelled afterwards, until a reset() -- a step(forever) would not block: it never reaches
   dequeueExternal with an empty queue (the unblock event stays queued until it is consumed, and
   consuming it returns CANCELLED). *)
Theorem cancel_never_blocks : forall (C : Type) (ch : chart C) (v : lc_variant) s s1 ops s2,
  lc_cancel s = Ok s1 -> ~ In OpReset ops -> lc_exec v ch s1 ops = Some s2 ->
  exists m q, i_stepper s2 = Some m /\ i_queues s2 = Some q /\ would_block C m q = false.
Proof. exact cancel_never_blocks_lemma. Qed.
Print Assumptions cancel_never_blocks.

(* U, repaired variant (queues created with the interpreter, reset() clears them): reset() after any
   sequence of calls yields the state of a fresh interpreter, so every continuation is observed alike. *)
Theorem reset_like_fresh : forall (C : Type) (ch : chart C) (v : lc_variant),
  lv_lazy_queues v = false -> lv_reset_keeps_queue v = false ->
  forall ops s, lc_exec v ch (fresh v) ops = Some s ->
    lc_reset v s = fresh v /\ forall cont, lc_run v ch (lc_reset v s) cont = lc_run v ch (fresh v) cont.
Proof. exact reset_like_fresh_lemma. Qed.
Print Assumptions reset_like_fresh.

(* refuted for the code as pinned: an event queued before reset() is processed after it
   (witness: step x4, receive(e1), reset, step x6 on the corpus chart "flat") *)
Theorem reset_like_fresh_refuted :
  exists ops s cont,
    lc_exec lc_pinned demo_chart (fresh lc_pinned) ops = Some s
    /\ obs_eqb (lc_run lc_pinned demo_chart (lc_reset lc_pinned s) cont)
               (lc_run lc_pinned demo_chart (fresh lc_pinned) cont) = false.
Proof. exact reset_like_fresh_refuted_lemma. Qed.
Print Assumptions reset_like_fresh_refuted.

(* U, repaired variant: no call of any sequence crashes, and in every reachable state receive() and
   cancel() succeed -- including before the first step. *)
Theorem receive_safe_everywhere : forall (C : Type) (ch : chart C) (v : lc_variant),
  lv_lazy_queues v = false ->
  forall ops, no_crashb (lc_observe v ch ops) = true
    /\ (forall s, lc_exec v ch (fresh v) ops = Some s ->
          (forall e, exists s', lc_receive e s = Ok s') /\ (exists s', lc_cancel s = Ok s')).
Proof. exact receive_safe_everywhere_lemma. Qed.
Print Assumptions receive_safe_everywhere.

(* refuted for the code as pinned: receive() as the first call dereferences the null queue *)
Theorem receive_safe_everywhere_refuted :
  exists ops, no_crashb (lc_observe lc_pinned demo_chart ops) = false
  /\ exists s e, lc_exec lc_pinned demo_chart (fresh lc_pinned) [] = Some s /\ lc_receive e s = Crash crash_null_queue.
Proof. exact receive_safe_everywhere_refuted_lemma. Qed.
Print Assumptions receive_safe_everywhere_refuted.

(* U, all variants with the queues created at construction: every observed run satisfies the whole
   oracle the check applies to the implementation's output. *)
Theorem lifecycle_safe : forall (C : Type) (ch : chart C) (v : lc_variant), lv_lazy_queues v = false ->
  forall ops, lifecycle_okb ops (lc_observe v ch ops) = true.
Proof. exact lifecycle_safe_lemma. Qed.
Print Assumptions lifecycle_safe.

(* U, repaired stop(): with any number of pending timers, started by the interpreter's destructor
   (s0) or the queue's (s1), under EVERY interleaving of timer thread, stop() and timer expiry: an
   execution has at most td_measure(initial) steps, no reachable state is dead-locked, and when
   nobody can move the join has returned. *)
Theorem teardown_terminates : forall n sp sched s',
  sp = SP0 \/ sp = SP1 ->
  td_exec td_fixed (td_init n sp) sched = Some s' ->
  (length sched <= td_measure (td_init n sp))%nat
  /\ td_deadlocked td_fixed s' = false
  /\ (td_enabled td_fixed s' = false -> td_final s' = true).
Proof. exact teardown_terminates_lemma. Qed.
Print Assumptions teardown_terminates.

(* refuted for the code as pinned: stop() between the _isStarted test and event_base_loop
   (schedule r1 s1 s2 r2 s3): the loop clears the break flag and blocks, join never returns *)
Theorem teardown_terminates_refuted :
  exists sched s', td_exec td_pinned (td_init 0 SP1) sched = Some s'
    /\ td_deadlocked td_pinned s' = true /\ td_final s' = false /\ td_enabled td_pinned s' = false.
Proof. exact teardown_terminates_refuted_lemma. Qed.
Print Assumptions teardown_terminates_refuted.

From V Require Import Base NameMatch Chart Exec Large Fast Interp Trace TraceComplete TraceCompleteBase TraceCompleteStep
     EngineQueue EngineQueueSteps EngineQueueLemmas EngineQueueRun EngineLifecycle EngineLifecycleLemmas.

(* ---------------------------------------------------------------------------------------------------------------
   C10 about the ENGINE MODELS themselves (Large.large_step = LargeMicroStep::step, Fast.fast_step =
   FastMicroStep::step), not about the API automaton Lifecycle.v with its chart oracle.
   Runs: [elog c step acts l_pristine x_init] (EngineQueue.erun) -- from the pristine engine with empty queues, ANY
   finite list [acts] of EStep (step(0)), EExt e (enqueueExternal of any event at any point), ECancel (cancel():
   _isCancelled = true, then the unnamed wake-up event is enqueued) -- cancel() at an arbitrary point, any number of
   times.  Every flat chart [c] (no well-formedness hypothesis unless stated), every engine variant [lv], every executor
   variant [xv].
   What the models produce: USCXML_INITIALIZED is returned by the branch `if (!_isInitialized) { init(); return
   USCXML_INITIALIZED; }` at the top of both step() functions, which Large.v / Fast.v do not transcribe (they model
   step() "after initialisation"); USCXML_INSTANTIATED is never a result of step().  So the models' words start with the
   initial micro-step.  reset(), receive() before the first step and destruction are not part of these models
   (Lifecycle.v has them). *)

(* U, both engines, every chart, every run.  The results of step() are a word of the prefix-closed regular language
       MICROSTEPPED (MICROSTEPPED | MACROSTEPPED | IDLE)* CANCELLED? FINISHED*
   (rc_regularb: recogniser with the states START, RUN, CANCELLED, FINISHED; the first result is the initial micro-step;
   CANCELLED at most once, followed by nothing but FINISHED; after FINISHED nothing but FINISHED). *)
Theorem engine_step_results_regular :
  forall (lv : lg_variant) (xv : ex_variant) (c : fchart) (acts : list eact),
  rc_regularb (codes (elog c (large_step lv xv c) acts l_pristine x_init)) = true /\
  rc_regularb (codes (elog c (fast_step xv c) acts l_pristine x_init)) = true.
Proof. exact engine_step_results_regular_lemma. Qed.
Print Assumptions engine_step_results_regular.

(* U, both engines, every chart, every run.  (1) fin_absorbing: once a step returned FINISHED, every later step returns
   FINISHED and returns the engine state and the execution state (datamodel, both queues, trace) it was called with --
   no executable content, no callback --, whatever is enqueued or cancelled in between.  (2) finished_step_ok: a step
   returns FINISHED either like that, or it is THE completion step: TOP_LEVEL_FINAL was set and FINISHED was not; it sets
   FINISHED, and the execution state it returns is beforeCompletion, then [completion_exec]: the onexit blocks of the
   states of the configuration, folded over the REVERSED configuration (exec_blocks per state, errors swallowed per
   block), then afterCompletion; apart from the two callbacks only executable content is reported (no exit/entry
   brackets: known finding C13 completion_exits_unreported).  No other step returns FINISHED. *)
Theorem engine_finished_absorbing :
  forall (lv : lg_variant) (xv : ex_variant) (c : fchart) (acts : list eact),
  (fin_absorbing false (elog c (large_step lv xv c) acts l_pristine x_init) /\
   Forall (finished_step_ok xv c) (steps_of (elog c (large_step lv xv c) acts l_pristine x_init))) /\
  (fin_absorbing false (elog c (fast_step xv c) acts l_pristine x_init) /\
   Forall (finished_step_ok xv c) (steps_of (elog c (fast_step xv c) acts l_pristine x_init))).
Proof. exact engine_finished_absorbing_lemma. Qed.
Print Assumptions engine_finished_absorbing.

(* U, both engines; charts that raise no unnamed event (raise_names_okb; see engine_cancel_needs_named_raise_refuted).
   cancel_spec:
   (1) cancel_ok, every run: no step after a cancel() returns IDLE (a blocking step would not block); CANCELLED is
       returned only after a cancel(); the step after CANCELLED returns FINISHED (it is the completion step by
       engine_finished_absorbing: "exactly one finalising step").
   (2) bound, every run, every point [acts1] at which cancel() is called, every continuation [acts2] (steps, further
       enqueues and cancels): as long as no step of the continuation has returned FINISHED, at most
           3 + (number of named events in front of the first unnamed one in the external queue at the cancel())
         <= 3 + (length of the external queue at the cancel())
       of its steps are NOT micro-steps (i.e. do not return MICROSTEPPED).  So the engine returns FINISHED within
       3 + |external queue| + M steps, M = the micro-steps and selections the chart itself still takes; events enqueued
       after the cancel() are not processed.  A bound in the queue lengths alone does not exist
       (engine_cancel_bound_needs_micro_steps_refuted); the bound is attained (engine_lifecycle_example).
   (3) from ANY idling state (stable, queues empty, not finished): cancel() is followed by CANCELLED, then FINISHED. *)
Theorem engine_cancel_leads_to_finished :
  forall (lv : lg_variant) (xv : ex_variant) (c : fchart),
  raise_names_okb c = true ->
  cancel_spec c (large_step lv xv c) /\ cancel_spec c (fast_step xv c).
Proof. exact engine_cancel_leads_to_finished_lemma. Qed.
Print Assumptions engine_cancel_leads_to_finished.

(* U, both engines; flattened documents (report_okb) that raise no unnamed event.  Every step of every run -- in
   particular the completion step -- starts from a configuration that is strictly ascending in document order, so the
   reversed configuration the completion step folds over names every active state exactly once, last in document order
   first: each remaining exit handler runs once, in reverse document order. *)
Theorem engine_completion_each_exit_once :
  forall (lv : lg_variant) (xv : ex_variant) (c : fchart) (acts : list eact),
  report_okb c = true -> raise_names_okb c = true ->
  Forall (fun r => ssorted (l_cfg (r_l r)) /\ NoDup (rev (l_cfg (r_l r))))
         (steps_of (elog c (large_step lv xv c) acts l_pristine x_init)) /\
  Forall (fun r => ssorted (l_cfg (r_l r)) /\ NoDup (rev (l_cfg (r_l r))))
         (steps_of (elog c (fast_step xv c) acts l_pristine x_init)).
Proof. exact engine_completion_each_once_lemma. Qed.
Print Assumptions engine_completion_each_exit_once.

(* not vacuous: the chart of engine_queue_example (parallel state, nested compounds, onexit handlers everywhere), cancel()
   while two named events are queued externally: no IDLE afterwards, the FINISHED step is the (3+2)th step after the
   cancel() that is not a micro-step, FINISHED for good, and the completion step runs the onexit handlers of
   s6 s5 s3 s2 s1 (configuration 0 1 2 3 5 6) in this order, once each; both engines agree *)
Theorem engine_lifecycle_example :
  (codes qe_log = [2; 2; 3; 2; 2; 3; 2; 2; 2; 2; 2; 2; 2; 2; 2; 3; 2; 2; 3; 2; 2; 3; 5; 0; 0; 0]%N /\
   codes qe_flog = codes qe_log /\ rc_regularb (codes qe_log) = true) /\
  (let s1 := efinal qe_chart (large_step lg_fixed ex_fixed qe_chart) (firstn 11 qe_acts) l_pristine x_init in
   map ev_name (x_eq (snd s1)) = [[103]; [120]]%N /\
   n_other (elog qe_chart (large_step lg_fixed ex_fixed qe_chart) (ECancel :: repeat EStep 15) (fst s1) (snd s1)) = 4 /\
   has_finished (elog qe_chart (large_step lg_fixed ex_fixed qe_chart) (ECancel :: repeat EStep 15) (fst s1) (snd s1)) = false /\
   n_other (elog qe_chart (large_step lg_fixed ex_fixed qe_chart) (ECancel :: repeat EStep 16) (fst s1) (snd s1)) = 5 /\
   has_finished (elog qe_chart (large_step lg_fixed ex_fixed qe_chart) (ECancel :: repeat EStep 16) (fst s1) (snd s1)) = true) /\
  filter (fun t => match t with TLog _ | TComplB | TComplE | TXb _ => true | _ => false end)
         (skipn 100 (rev (x_out (snd (efinal qe_chart (large_step lg_fixed ex_fixed qe_chart) qe_acts l_pristine x_init))))) =
  [TComplB; TLog 6; TLog 5; TLog 3; TLog 2; TLog 1; TComplE].
Proof. exact (conj qe_codes (conj qe_cancel_bound_attained qe_completion)). Qed.
Print Assumptions engine_lifecycle_example.

(* refuted without raise_names_okb: <raise event=""/> -- the MODELS keep the unnamed event at the head of the internal
   queue and return IDLE for ever, also after cancel(), which then never leads to FINISHED.  (Model limitation, not the
   code: InterpreterImpl::enqueueInternal of /repo drops an event without a name, patches/C08-unnamed-internal-event.diff;
   Exec.exec_instr's IRaise does not.) *)
Theorem engine_cancel_needs_named_raise_refuted :
  exists t acts,
    let c := flatten false t in
    raise_names_okb c = false /\
    codes (elog c (large_step lg_fixed ex_fixed c) acts l_pristine x_init) = [2; 2; 4; 4; 4; 4; 4; 4]%N /\
    codes (elog c (fast_step ex_fixed c) acts l_pristine x_init) = [2; 2; 4; 4; 4; 4; 4; 4]%N /\
    ~ cancel_ok false false (elog c (large_step lg_fixed ex_fixed c) acts l_pristine x_init).
Proof. exact cancel_needs_named_raise_refuted_lemma. Qed.
Print Assumptions engine_cancel_needs_named_raise_refuted.

(* refuted: "cancel() leads to finished within a number of steps bounded by the queue lengths" -- a chart with an
   event-less self-loop micro-steps for ever, cancelled or not (checked for every number of steps up to 40); the
   micro-steps of the chart have to be counted, as engine_cancel_leads_to_finished (2) does *)
Theorem engine_cancel_bound_needs_micro_steps_refuted :
  exists t, let c := flatten false t in
    report_okb c = true /\ raise_names_okb c = true /\
    forall n, n <= 40 ->
      let log := elog c (large_step lg_fixed ex_fixed c) (EStep :: ECancel :: repeat EStep n) l_pristine x_init in
      has_finished log = false /\ n_micro log = S n.
Proof. exact cancel_bound_needs_micro_steps_refuted_lemma. Qed.
Print Assumptions engine_cancel_bound_needs_micro_steps_refuted.

(* refuted: "after cancel() the engine returns CANCELLED" -- a chart that reaches a top-level final state first returns
   FINISHED without CANCELLED (the word is still in the life-cycle language) *)
Theorem engine_cancelled_not_always_returned_refuted :
  exists t acts, let c := flatten false t in
    In ECancel acts /\
    codes (elog c (large_step lg_fixed ex_fixed c) acts l_pristine x_init) = [2; 0; 0]%N.
Proof. exact cancelled_not_always_returned_refuted_lemma. Qed.
Print Assumptions engine_cancelled_not_always_returned_refuted.

From V Require Import GenResetOrder ResetRace ResetRaceLemmas ResetRaceOrder.

(* ---- reset() against the timer thread (model ResetRace.v) -------------------------------------------
   Quantifiers: [order] -- every order of the sub-steps _delayQueue.reset() / _externalQueue.reset() /
   _internalQueue.reset() of InterpreterImpl::reset() (any list, repetitions and omissions included);
   [ext int pend targets cb] -- every state at the moment reset() is called: any events in both queues,
   ANY NUMBER of pending delayed sends (deliverable or not), the timer thread idle or anywhere inside a
   callback; [sched] -- every interleaving of the resetting thread, the timer thread (a pending timer
   may become due at any moment) and, after the return, step(); any length.  [v] -- the code with
   (rv_fixed) or without (rv_code) patches/C10-reset-inflight-callback.diff; the variant and the order of
   the working tree are regenerated from the source (GenResetOrder.v, rv_gen).
   Not covered: receive()/send by a third thread while reset() runs; step() concurrent with reset();
   delayed sends of the NEW life (the restarted machine sends nothing in this model); the micro-stepper
   and data-model side of reset() (Lifecycle.v, theorem reset_like_fresh above, has those, atomically). *)

(* U, every order with delay_firstb (somewhere the timers are cancelled and after that both queues are
   emptied), both variants, every state at the call, every schedule.  Once reset() has returned: both
   queues are empty, no timer is pending, the timer thread holds nothing it could still deliver, and
   nothing was processed.  For the code without the repair this needs that the run did not go through
   the window [r_raced] (a callback past its critical section 1 when the timers were cancelled); for the
   repaired variant there is no side condition. *)
Theorem reset_leaves_nothing_behind :
  forall v order ext int pend targets cb sched,
    delay_firstb order = true ->
    let s := rr_run v (rr_at_call order ext int pend targets cb) sched in
    returned s = true ->
    rv_locks_targets v = true \/ r_raced s = false ->
    nothing_leftb s = true /\ r_processed s = [].
Proof. exact reset_leaves_nothing_behind_lemma. Qed.
Print Assumptions reset_leaves_nothing_behind.

(* U, same hypotheses.  ... and it stays so under every continuation [sched2] (timer thread, step()):
   no event of the previous life is ever queued or processed afterwards, and queues, timers and
   processed events are those of a fresh interpreter under the same continuation. *)
Theorem reset_like_fresh_concurrent :
  forall v order ext int pend targets cb sched,
    delay_firstb order = true ->
    let s := rr_run v (rr_at_call order ext int pend targets cb) sched in
    returned s = true ->
    rv_locks_targets v = true \/ r_raced s = false ->
    forall sched2, let s' := rr_run v s sched2 in
      nothing_leftb s' = true /\ r_processed s' = []
      /\ rr_core s' = rr_core (rr_run v rr_fresh sched2).
Proof. exact reset_like_fresh_concurrent_lemma. Qed.
Print Assumptions reset_like_fresh_concurrent.

(* refuted: the order internal, external, delay (the reordering of seeded/C10-c).  One pending delayed
   send, timer thread idle at the call: the timer fires between _externalQueue.reset() and
   _delayQueue.reset(); reset() returns with the stale event in the external queue (never in the window
   r_raced) and the next step() processes it.  Both variants.  (witness by vm_compute) *)
Theorem reset_order_matters_refuted :
  forall v, exists pend targets sched,
    let s := rr_run v (rr_at_call bad_order [] [] pend targets CbIdle) sched in
    returned s = true /\ r_raced s = false /\ r_ext s = [EvTimer 7]
    /\ r_processed (rr_step v s AStep) = [EvTimer 7].
Proof. exact reset_order_matters_refuted_lemma. Qed.
Print Assumptions reset_order_matters_refuted.

(* refuted, same order, an undeliverable delayed send: its error event ends in the INTERNAL queue of the
   restarted machine (and the wake-up event in the external queue). *)
Theorem reset_order_matters_internal_refuted :
  forall v, exists sched,
    let s := rr_run v (rr_at_call bad_order [] [] [7%N] [(7%N, KError)] CbIdle) sched in
    returned s = true /\ r_raced s = false /\ r_int s = [EvError 7] /\ r_ext s = [EvUnblock].
Proof. exact reset_order_matters_internal_refuted_lemma. Qed.
Print Assumptions reset_order_matters_internal_refuted.

(* U: delay_firstb is exactly the boundary.  For EVERY order without it (both variants) there is a
   state at the call with the timer thread idle and a schedule, never in the window r_raced and never
   dead-locked, after which reset() has returned and something of the previous life is left. *)
Theorem delay_first_necessary :
  forall v order, delay_firstb order = false ->
    exists ext int pend targets sched,
      let s := rr_run v (rr_at_call order ext int pend targets CbIdle) sched in
      returned s = true /\ r_raced s = false /\ r_blocked s = false /\ nothing_leftb s = false.
Proof. exact delay_first_necessary_lemma. Qed.
Print Assumptions delay_first_necessary.

(* refuted for the code WITHOUT patches/C10-reset-inflight-callback.diff, with the right order: the timer
   fires just before reset() is called; its callback has left its critical section (the entry is out of
   _callbackData) when _delayQueue.reset() runs, which finds nothing to cancel; reset() returns with both
   queues empty; then the callback calls eventReady, finds its uuid in _delayedEventTargets (reset() did
   not clear it) and delivers; step() processes the event.  So the side condition on r_raced cannot be
   dropped for rv_code.  Replayed on the implementation: tools/props/c10.py, class reset-inflight-callback. *)
Theorem reset_inflight_refuted :
  exists sched sched2,
    let s := rr_run rv_code (rr_at_call [ResetDelay; ResetExternal; ResetInternal] [] [] [7%N] [(7%N, KDeliver)] CbIdle) sched in
    returned s = true /\ nothing_leftb s = false /\ r_ext s = [] /\ r_int s = []
    /\ r_processed (rr_run rv_code s sched2) = [EvTimer 7].
Proof. exact reset_inflight_refuted_lemma. Qed.
Print Assumptions reset_inflight_refuted.

(* refuted, both variants (bounded-time part of C10): reset() called while a callback has been entered
   but has not reached its critical section -- cancelAllDelayed holds _mutex inside event_del, which
   waits for the callback, which waits for _mutex: reset() never returns.  This is the known finding
   C09-deadlock (theorems no_deadlock_window_refuted in Properties_C09.v) seen from reset(). *)
Theorem reset_returns_refuted :
  forall v, exists sched, forall sched2,
    let s := rr_run v (rr_run v (rr_at_call [ResetDelay; ResetExternal; ResetInternal] [] [] [7%N] [(7%N, KDeliver)] CbIdle) sched) sched2 in
    r_blocked s = true /\ returned s = false.
Proof. exact reset_returns_refuted_lemma. Qed.
Print Assumptions reset_returns_refuted.

(* the hypotheses are satisfiable by a non-trivial run: two pending timers (one deliverable, one not),
   events in both queues, one timer fires and delivers while reset() is under way, the other is cancelled *)
Theorem reset_race_nonvacuous_example :
  let s0 := rr_at_call [ResetDelay; ResetExternal; ResetInternal] [EvOther 1] [EvOther 2] [7%N; 8%N]
                       [(7%N, KDeliver); (8%N, KError)] CbIdle in
  delay_firstb (r_todo s0) = true
  /\ (let mid := rr_run rv_fixed s0 [AFire 7; ATimer; ATimer] in r_ext mid = [EvOther 1; EvTimer 7] /\ r_pend mid = [8%N])
  /\ (let s := rr_run rv_fixed s0 [AFire 7; ATimer; ATimer; AReset; AFire 8; ATimer; AReset; ATimer; AReset; AReset; AStep] in
      returned s = true /\ nothing_leftb s = true /\ r_processed s = [] /\ r_blocked s = false)
  /\ (let s := rr_run rv_code s0 [AFire 7; ATimer; ATimer; AReset; AFire 8; AReset; AReset; AStep] in
      returned s = true /\ r_raced s = false /\ nothing_leftb s = true).
Proof. exact reset_race_nonvacuous. Qed.
Print Assumptions reset_race_nonvacuous_example.

(* VERDICT about the working tree: the repair is in place (reset() takes _delayMutex and clears
   _delayedEventTargets before it cancels the timers), so reset_leaves_nothing_behind applies to
   rv_gen without side condition.  Computed here: breaks when the lock or the clear() is removed. *)
Theorem gen_reset_locks_targets_ok : rv_locks_targets rv_gen = true.
Proof. exact (eq_refl true). Qed.
Print Assumptions gen_reset_locks_targets_ok.

(* VERDICT about the working tree: InterpreterImpl::reset() could be read by the translator and the order
   of its three calls (GenResetOrder.reset_order, regenerated from the source at every check) cancels the
   timers before it empties the queues.  Computed here (eq_refl): THIS is the obligation that breaks when
   the source is reordered; it is the last theorem of the file so that the failure names it. *)
Theorem gen_reset_order_ok : reset_order_source_ok = true /\ delay_firstb reset_order = true.
Proof. exact (reset_order_verdict reset_order_source_ok reset_order (eq_refl true)). Qed.
Print Assumptions gen_reset_order_ok.

From V Require Import GenDestroyOrder ResetRaceDestroy ResetRaceDestroyLemmas.

(* ---- destruction against the timer thread (model ResetRaceDestroy.v) --------------------------------
   Quantifiers: [v] -- what ~InterpreterImpl() does about the delayed queue (lock _delayMutex + clear the
   targets + cancel; give up _al's handle; give up the member's handle in the body), regenerated from the
   source as dv_gen; [members] -- any declaration order of the members the timer callback uses (regenerated:
   destroy_members); [pend targets cb] -- ANY NUMBER of pending delayed sends, the timer thread idle or anywhere
   inside a callback when the destructor starts; [alref] -- whether getActionLanguage() had been called (a
   second handle to the queue inside _al); [sched] -- every interleaving of the destroying thread and the timer
   thread, any length.  d_fault = a step of a timer callback used a member of the interpreter that was already
   destroyed (or the object after its memory was released).
   Not covered: a handle to the delayed queue held outside the interpreter (a user's copy of the ActionLanguage,
   a queue shared between interpreters): nobody joins the timer thread then, whatever the destructor does;
   subclasses of InterpreterImpl that override eventReady; invoker threads (C11). *)

(* U.  the repaired shape -- the body gives up the member's handle and it is the last one (dv_joins_in_body, and
   _al's handle given up before or never taken) --, ANY order of the members, every schedule: no callback step
   uses a destroyed member, and no callback works inside the object after the destructor's body has finished
   (that second part is what the replay on the implementation observes: point interp.destroy.done). *)
Theorem destroy_no_use_after_free :
  forall v members pend targets cb alref sched,
    destroy_safeb v alref = true ->
    let s := d_run (d_at_call (destroy_prog v members) pend targets cb alref) sched in
    d_fault s = false /\ d_after_done s = false.
Proof. exact destroy_no_use_after_free_lemma. Qed.
Print Assumptions destroy_no_use_after_free.

(* U.  the other safe shape (lock + clear + cancel, _al's handle given up or never taken, NO join in the body):
   safe as far as memory goes provided the member _delayQueue is destroyed before _delayMutex and
   _delayedEventTargets (queue_dies_firstb of the kill order).  A callback may then still run inside the object
   while its members are being destroyed (d_after_done is not claimed). *)
Theorem destroy_safe_by_member_order :
  forall v members pend targets cb alref sched,
    dv_joins_in_body v = false ->
    destroy_safe_by_orderb v alref members = true ->
    d_fault (d_run (d_at_call (destroy_prog v members) pend targets cb alref) sched) = false.
Proof. exact destroy_safe_by_member_order_lemma. Qed.
Print Assumptions destroy_safe_by_member_order.

(* refuted for the code as found (dv_found, the declaration order of the pinned header): a delayed send whose
   callback is past its critical section when the destructor starts.  cancelAllDelayed finds nothing, the body
   finishes, _ioProcs is destroyed, then the member's handle joins -- it waits for the callback, which meanwhile
   runs eventReady and dispatches through the destroyed _ioProcs.  (schedule: 4 steps of the destructor, then the
   callback; replayed on the implementation: `destroyrace default ext unlocked 0 15 60`, valgrind: invalid reads) *)
Theorem destroy_no_use_after_free_refuted :
  exists sched,
    let s := d_run (d_at_call (destroy_prog dv_found members_found) [] [(7%N, KDeliver)] (CbTaken 7) false) sched in
    d_fault s = true /\ d_after_done s = true /\ d_ioprocs s = false /\ d_delaym s = true.
Proof. exact destroy_no_use_after_free_refuted_lemma. Qed.
Print Assumptions destroy_no_use_after_free_refuted.

(* refuted: the condition on _al's handle cannot be dropped.  Lock, clear, cancel and the member's handle given up
   in the body, but _al still holds one (getActionLanguage() had been called): nobody joins until _al dies --
   after _delayMutex; the callback locks a destroyed mutex. *)
Theorem destroy_al_handle_refuted :
  exists sched,
    let v := {| dv_locks_targets := true; dv_drops_al := false; dv_joins_in_body := true |} in
    let s := d_run (d_at_call (destroy_prog v members_found) [] [(7%N, KDeliver)] (CbTaken 7) true) sched in
    d_fault s = true /\ d_delaym s = false.
Proof. exact destroy_al_handle_refuted_lemma. Qed.
Print Assumptions destroy_al_handle_refuted.

(* refuted: the member order in destroy_safe_by_member_order cannot be dropped (a header in which _delayQueue is
   declared before _delayMutex). *)
Theorem destroy_member_order_refuted :
  exists sched,
    let v := {| dv_locks_targets := true; dv_drops_al := true; dv_joins_in_body := false |} in
    let members := [MAl; MDelayQueue; MTargets; MDelayMutex; MInternalQueue; MExternalQueue; MIoProcs] in
    let s := d_run (d_at_call (destroy_prog v members) [] [(7%N, KDeliver)] (CbTaken 7) false) sched in
    queue_dies_firstb (map kill_of (rev members)) = false /\ d_fault s = true.
Proof. exact destroy_member_order_refuted_lemma. Qed.
Print Assumptions destroy_member_order_refuted.

(* the hypotheses are satisfiable by a non-trivial run: two pending timers, one under way while the repaired
   destructor runs (the join in the body waits for it), everything destroyed afterwards, no fault *)
Theorem destroy_nonvacuous_example :
  let s0 := d_at_call (destroy_prog dv_fixed members_found) [7%N; 8%N] [(7%N, KError); (8%N, KDeliver)] CbIdle true in
  destroy_safeb dv_fixed true = true
  /\ (let s := d_run s0 [DaFire 7; DaTimer; DaDestroy; DaDestroy; DaDestroy; DaDestroy; DaDestroy] in
      d_cb s = CbTaken 7 /\ d_joined s = false /\ d_body_done s = false)
  /\ (let s := d_run s0 ([DaFire 7; DaTimer; DaDestroy; DaDestroy; DaDestroy; DaDestroy; DaTimer] ++ repeat DaDestroy 12) in
      d_todo s = [] /\ d_joined s = true /\ d_obj s = false /\ d_fault s = false /\ d_after_done s = false).
Proof. exact destroy_nonvacuous. Qed.
Print Assumptions destroy_nonvacuous_example.

(* VERDICT about the working tree: the destructor could be read by the translator, and what it does satisfies
   destroy_safeb even when getActionLanguage() had been called (alref = true): destroy_no_use_after_free applies
   to dv_gen with any member order.  Computed here (eq_refl): breaks when the join in the body or the release of
   _al's handle is removed or moved. *)
Theorem gen_destroy_ok : destroy_source_ok = true /\ dv_joins_in_body dv_gen = true /\ dv_drops_al dv_gen = true.
Proof. exact (destroy_verdict destroy_source_ok (dv_joins_in_body dv_gen) (dv_drops_al dv_gen) (eq_refl true)). Qed.
Print Assumptions gen_destroy_ok.

(* VERDICT, second line of defence: also the declaration order of the members in InterpreterImpl.h and the lock +
   clear in the body are as destroy_safe_by_member_order needs them (so the destruction stays memory-safe if the
   join were moved out of the body again). *)
Theorem gen_destroy_member_order_ok :
  dv_locks_targets dv_gen = true /\ queue_dies_firstb (map kill_of (rev destroy_members)) = true.
Proof. exact (conj (eq_refl true) (eq_refl true)). Qed.
Print Assumptions gen_destroy_member_order_ok.
