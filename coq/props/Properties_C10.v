(* Properties_C10.v -- property theorems only.  C10: the interpreter life-cycle is well defined
   and always terminates.

   Quantifiers: [C] and [ch : chart C] -- every chart (an arbitrary oracle for the initial
   micro-step, the selection of a transition set and the exit handlers of a configuration);
   [ops] -- every finite sequence of API calls (step, receive, cancel, reset, destroy), any length;
   [sched] -- every schedule of the thread systems, any length.  [lc_pinned]/[td_pinned] is the code
   as pinned, [lc_fixed]/[td_fixed] the code with patches/C10-*.diff applied; the check determines
   which variant the working tree is. *)
From V Require Import Base GenFlags Lifecycle LifecycleLemmas.

(* the generated flag values: all present, bits pairwise disjoint, same in both engines *)
Theorem ctx_flags_wellformed :
  (forallb (fun b => b) large_ctx_present = true /\ forallb (fun b => b) fast_ctx_present = true
   /\ forallb (fun b => b) ist_present = true)
  /\ (pairwise_disjoint large_ctx = true /\ pairwise_disjoint fast_ctx = true
      /\ forallb (fun x => negb (N.eqb x 0)) (tl large_ctx) = true /\ hd 1%N large_ctx = 0%N)
  /\ (large_ctx = fast_ctx /\ large_state_table = fast_state_table /\ large_trans_table = fast_trans_table).
Proof. exact (conj flags_all_present (conj ctx_flags_disjoint ctx_flags_same_in_both_engines)). Qed.
Print Assumptions ctx_flags_wellformed.

(* U, both variants.  What a caller observes of step() -- with getState() after construction and
   after every reset() -- is accepted by the life-cycle automaton, which restarts at reset(); and
   without reset() the bare sequence of results is a prefix of a word of
   INSTANTIATED? INITIALIZED (MICROSTEPPED|MACROSTEPPED|IDLE)* CANCELLED? FINISHED^omega. *)
Theorem step_results_regular : forall (C : Type) (ch : chart C) (v : lc_variant) (ops : list op),
  lifecycle_regexb (lc_observe v ch ops) = true
  /\ (~ In OpReset ops ->
      lifecycle_prefix (R_INSTANTIATED :: step_results (lc_run v ch (fresh v) ops))).
Proof.
  intros C ch v ops. split.
  - apply step_results_regular_lemma.
  - intro H. apply l_accepts_iff_language. apply step_results_word; exact H.
Qed.
Print Assumptions step_results_regular.

(* U, both variants.  Once a step returned FINISHED, every later step (until reset()) returns
   FINISHED and runs no executable content and no callback, whatever is received or cancelled in
   between. *)
Theorem finished_absorbing : forall (C : Type) (ch : chart C) (v : lc_variant) (ops : list op),
  finished_quietb false (lc_observe v ch ops) = true.
Proof. exact finished_absorbing_lemma. Qed.
Print Assumptions finished_absorbing.

(* U, both variants.
   (1) completion: in every run the step that first returns FINISHED -- and no other -- runs
       beforeCompletion, then exactly the exit handlers of the configuration the previous step left,
       each once, last in document order first, then afterCompletion;
   (2) after cancel() no step returns IDLE (a blocking step would not block) and CANCELLED is
       returned at most once; by step_results_regular it is followed by FINISHED at once;
   (3) liveness, for every chart: a cancelled, initialised interpreter that is stepped reaches
       FINISHED, unless the chart itself takes more than any number N of micro-steps. *)
Theorem cancel_leads_to_finished : forall (C : Type) (ch : chart C) (v : lc_variant),
  (forall ops, completion_okb false [] (lc_observe v ch ops) = true)
  /\ (forall ops, cancel_okb false false ops (lc_run v ch (fresh v) ops) = true)
  /\ (forall ops s s1, lc_exec v ch (fresh v) ops = Some s -> i_init s = true -> lc_cancel s = Ok s1 ->
        exists m q, i_stepper s1 = Some m /\ i_queues s1 = Some q /\
          forall N, exists n s2, lc_exec v ch s1 (repeat OpStep n) = Some s2
                      /\ (i_state s2 = R_FINISHED \/ (N <= ms_taken C ch n m q)%nat)).
Proof.
  intros C ch v. split; [|split].
  - apply completion_once_lemma.
  - apply cancel_never_idle_lemma.
  - intros ops s s1 _ Hi Hc.
    destruct (cancel_establishes C s s1 Hi Hc) as (Hi1 & m & q & Hm & Hq & Hcm & _).
    exists m, q. split; [exact Hm|]. split; [exact Hq|].
    intro N. apply cancel_leads_to_finished_lemma; assumption.
Qed.
Print Assumptions cancel_leads_to_finished.

(* U.  cancel() against a step() blocked in (or on its way to) dequeueExternal, other threads
   enqueueing at will: under every interleaving, once cancel() has returned the stepper is not
   waiting on an empty queue (the unblock event is enqueued after the flag is set), and without
   further enqueues it returns CANCELLED within 2|queue|+2 of its own steps.  With the two
   statements of cancel() swapped a schedule loses the cancellation. *)
Theorem cancel_unblocks :
  (forall q p sched, let s := cu_run cu_code (cu_init q p) sched in
     cu_lost s = false /\ (u_c s = CDone -> u_flag s = true))
  /\ (forall q p sched n, let s := cu_run cu_code (cu_init q p) sched in
        u_c s = CDone ->
        (2 * length (u_q s) + 2 < n)%nat -> u_p (cu_steps s n) = PDone)
  /\ (exists sched, cu_lost (cu_run {| cv_enqueue_first := true |} (cu_init [] PWait) sched) = true).
Proof.
  split; [exact cancel_unblocks_lemma|split; [|exact cancel_unblocks_order_matters]].
  intros q p sched n s Hc Hn. apply cu_reaches_done; auto.
  - apply cu_inv_run. split; simpl; [intro H; contradiction H; reflexivity | intro H; discriminate H].
  - destruct (u_p s); lia.
Qed.
Print Assumptions cancel_unblocks.

(* U, every chart, both variants.  From a successful cancel() on -- whatever is stepped, received or
   cancelled afterwards, until a reset() -- a step(forever) would not block: it never reaches
   dequeueExternal with an empty queue (the unblock event stays queued until it is consumed, and
   consuming it returns CANCELLED). *)
Theorem cancel_never_blocks : forall (C : Type) (ch : chart C) (v : lc_variant) s s1 ops s2,
  lc_cancel s = Ok s1 -> ~ In OpReset ops -> lc_exec v ch s1 ops = Some s2 ->
  exists m q, i_stepper s2 = Some m /\ i_queues s2 = Some q /\ would_block C m q = false.
Proof. exact cancel_never_blocks_lemma. Qed.
Print Assumptions cancel_never_blocks.

(* U, repaired variant (queues created with the interpreter, reset() clears them): reset() after any
   sequence of calls yields the state of a fresh interpreter, so every continuation is observed alike. *)
Theorem reset_like_fresh : forall (C : Type) (ch : chart C) (v : lc_variant),
  lv_lazy_queues v = false -> lv_reset_keeps_queue v = false ->
  forall ops s, lc_exec v ch (fresh v) ops = Some s ->
    lc_reset v s = fresh v /\ forall cont, lc_run v ch (lc_reset v s) cont = lc_run v ch (fresh v) cont.
Proof. exact reset_like_fresh_lemma. Qed.
Print Assumptions reset_like_fresh.

(* refuted for the code as pinned: an event queued before reset() is processed after it
   (witness: step x4, receive(e1), reset, step x6 on the corpus chart "flat") *)
Theorem reset_like_fresh_refuted :
  exists ops s cont,
    lc_exec lc_pinned demo_chart (fresh lc_pinned) ops = Some s
    /\ obs_eqb (lc_run lc_pinned demo_chart (lc_reset lc_pinned s) cont)
               (lc_run lc_pinned demo_chart (fresh lc_pinned) cont) = false.
Proof. exact reset_like_fresh_refuted_lemma. Qed.
Print Assumptions reset_like_fresh_refuted.

(* U, repaired variant: no call of any sequence crashes, and in every reachable state receive() and
   cancel() succeed -- including before the first step. *)
Theorem receive_safe_everywhere : forall (C : Type) (ch : chart C) (v : lc_variant),
  lv_lazy_queues v = false ->
  forall ops, no_crashb (lc_observe v ch ops) = true
    /\ (forall s, lc_exec v ch (fresh v) ops = Some s ->
          (forall e, exists s', lc_receive e s = Ok s') /\ (exists s', lc_cancel s = Ok s')).
Proof. exact receive_safe_everywhere_lemma. Qed.
Print Assumptions receive_safe_everywhere.

(* refuted for the code as pinned: receive() as the first call dereferences the null queue *)
Theorem receive_safe_everywhere_refuted :
  exists ops, no_crashb (lc_observe lc_pinned demo_chart ops) = false
  /\ exists s e, lc_exec lc_pinned demo_chart (fresh lc_pinned) [] = Some s /\ lc_receive e s = Crash crash_null_queue.
Proof. exact receive_safe_everywhere_refuted_lemma. Qed.
Print Assumptions receive_safe_everywhere_refuted.

(* U, all variants with the queues created at construction: every observed run satisfies the whole
   oracle the check applies to the implementation's output. *)
Theorem lifecycle_safe : forall (C : Type) (ch : chart C) (v : lc_variant), lv_lazy_queues v = false ->
  forall ops, lifecycle_okb ops (lc_observe v ch ops) = true.
Proof. exact lifecycle_safe_lemma. Qed.
Print Assumptions lifecycle_safe.

(* U, repaired stop(): with any number of pending timers, started by the interpreter's destructor
   (s0) or the queue's (s1), under EVERY interleaving of timer thread, stop() and timer expiry: an
   execution has at most td_measure(initial) steps, no reachable state is dead-locked, and when
   nobody can move the join has returned. *)
Theorem teardown_terminates : forall n sp sched s',
  sp = SP0 \/ sp = SP1 ->
  td_exec td_fixed (td_init n sp) sched = Some s' ->
  (length sched <= td_measure (td_init n sp))%nat
  /\ td_deadlocked td_fixed s' = false
  /\ (td_enabled td_fixed s' = false -> td_final s' = true).
Proof. exact teardown_terminates_lemma. Qed.
Print Assumptions teardown_terminates.

(* refuted for the code as pinned: stop() between the _isStarted test and event_base_loop
   (schedule r1 s1 s2 r2 s3): the loop clears the break flag and blocks, join never returns *)
Theorem teardown_terminates_refuted :
  exists sched s', td_exec td_pinned (td_init 0 SP1) sched = Some s'
    /\ td_deadlocked td_pinned s' = true /\ td_final s' = false /\ td_enabled td_pinned s' = false.
Proof. exact teardown_terminates_refuted_lemma. Qed.
Print Assumptions teardown_terminates_refuted.
