(* Properties_C01.v -- property theorems only.  C01: the interpreter (default engine) follows the
   W3C SCXML step algorithm.  The whole-run equivalence Large = Spec is NOT proved here for all charts
   (it is false of the faithful model in the deviation classes listed as known findings, and beyond
   those it is carried by the correspondence and the Spec oracle); what is proved for all charts,
   configurations, events and datamodel states are the invariants below. *)
From V Require Import Base NameMatch Chart Exec Large LargeLemmas Interp LargeCache LargeCacheLemmas Spec ExitSetLemmas.
From V Require Import Legal WfCore SelectConform SelectConformLemmas SelectConformOrder SelectConformRoot SelectConformFlatten.

(* the transition set selected in one microstep is conflict-free: no two selected transitions have
   overlapping exit sets (Appendix D: removeConflictingTransitions) *)
Theorem selected_transitions_conflict_free :
  forall v c cfg ev order x,
    pairwise_ok v c (fst (select_loop v c cfg ev order None [] x)).
Proof. intros. apply select_loop_pairwise. apply nil_pairwise. Qed.
Print Assumptions selected_transitions_conflict_free.

Theorem conflict_relation_symmetric :
  forall v c t1 t2, conflicts v c t1 t2 = conflicts v c t2 t1.
Proof. exact conflicts_sym. Qed.
Print Assumptions conflict_relation_symmetric.

Theorem finished_is_absorbing :
  forall v xv c l x, l_fin l = true -> large_step v xv c l x = (l, x, RC_FINISHED).
Proof. exact large_step_finished_absorbing. Qed.
Print Assumptions finished_is_absorbing.

(* LargeMicroStep does not compare a candidate with every selected transition: it consults lazily
   filled per-transition sets `compatible`/`conflicting` that survive across steps and two bit arrays
   per selection (LargeCache.v models them as the code has them).  For every document, every event
   history and every number of steps the engine with these caches produces the trace, the engine
   state and the datamodel state of the engine without them (Large.v, the model the correspondence
   and the other theorems are about), and the caches only ever hold what `conflicts` computes. *)
Theorem conflict_caches_are_transparent :
  forall lv xv late t fuel evs,
    let c := flatten late t in
    let r := run_loop c cstate (large_step_c lv xv c) (fun s => l_cfg (fst s)) fuel (l_pristine, tc_empty) x_init evs in
    (fst (fst r), snd r) = run_loop c lstate (large_step lv xv c) l_cfg fuel l_pristine x_init evs /\ cache_sound lv c (snd (fst r)).
Proof.
  intros lv xv late t fuel evs. apply run_cached_eq;
    [apply flatten_tdisj | exact I | apply cache_sound_empty].
Qed.
Print Assumptions conflict_caches_are_transparent.

(* the same for one step from any engine state with an ascending configuration and any sound cache content *)
Theorem cached_step_is_direct_step :
  forall lv xv late t l k x,
    let c := flatten late t in
    ssorted (l_cfg l) -> cache_sound lv c k ->
    let r := large_step_c lv xv c (l, k) x in
    (fst (fst (fst r)), snd (fst r), snd r) = large_step lv xv c l x /\ cache_sound lv c (snd (fst (fst r))).
Proof. intros lv xv late t l k x c Hs Hk. apply large_step_c_eq; [apply flatten_tdisj | exact Hs | exact Hk]. Qed.
Print Assumptions cached_step_is_direct_step.

(* the cache is not idle in this statement: on the region chart with three transitions the second event
   finds entries written while the first was processed *)
Theorem caches_get_filled :
  exists t evs fuel,
    let c := flatten false t in
    tc_compat (snd (fst (run_loop c cstate (large_step_c lg_fixed ex_fixed c) (fun s => l_cfg (fst s)) fuel
                                  (l_pristine, tc_empty) x_init evs))) <> [].
Proof.
  exists (TNode KScxml 0 None [] [] [] []
            [TNode KParallel 1 None [] [] [] []
               [TNode KState 3 None [{| tt_vid := 101; tt_event := Some [101%N]; tt_cond := None; tt_targets := None; tt_internal := false; tt_body := [] |}] [] [] [] [];
                TNode KState 4 None [{| tt_vid := 102; tt_event := Some [101%N]; tt_cond := None; tt_targets := Some [4%N]; tt_internal := false; tt_body := [] |}] [] [] [] []]]),
         [[101%N]], 12%nat.
  vm_compute. discriminate.
Qed.
Print Assumptions caches_get_filled.

(* ---- the exit set is the one Appendix D prescribes ----
   For every document and every transition none of whose targets is a <history> state, the transition
   domain the engine computes (nearest compound ancestor containing all targets, found on index intervals)
   is Appendix D's getTransitionDomain, and the states the engine exits for it (the active states numbered
   in the domain's interval) are exactly Appendix D's computeExitSet.  With a history target both statements
   are false (known finding C01-K5): the engines measure the domain from the <history> element, Appendix D
   from its effective targets. *)
Theorem domain_agrees : forall late t0 ti h, let c := flatten late t0 in
  ti < ntrans c -> targets_plain c ti ->
  Large.domain c (tr c ti) = Spec.transition_domain c h (tr c ti).
Proof. exact domain_agrees_lemma. Qed.
Print Assumptions domain_agrees.

Theorem exit_set_agrees : forall late t0 ti cfg h, let c := flatten late t0 in
  ti < ntrans c -> (forall s, In s cfg -> s < nstates c) -> targets_plain c ti ->
  forall s, In s (Large.exit_states_of lg_fixed c cfg (tr c ti)) <-> In s (Spec.compute_exit_set c cfg h [tr c ti]).
Proof. exact exit_set_agrees_lemma. Qed.
Print Assumptions exit_set_agrees.

Theorem domain_agrees_history_refuted :
  exists late t0 ti h, let c := flatten late t0 in
    ti < ntrans c /\ Large.domain c (tr c ti) <> Spec.transition_domain c h (tr c ti).
Proof. exact ExitSetLemmas.domain_agrees_history_refuted. Qed.
Print Assumptions domain_agrees_history_refuted.

Theorem exit_set_agrees_history_refuted :
  exists late t0 ti cfg h, let c := flatten late t0 in
    ti < ntrans c /\ (forall s, In s cfg -> s < nstates c) /\
    exists s, In s (Large.exit_states_of lg_fixed c cfg (tr c ti)) /\ ~ In s (Spec.compute_exit_set c cfg h [tr c ti]).
Proof. exact ExitSetLemmas.exit_set_agrees_history_refuted. Qed.
Print Assumptions exit_set_agrees_history_refuted.


(* ---- transition selection is the one Appendix D prescribes, outside the recorded deviations ----
   For every document of the history-free core (wf_coreb) whose <scxml> has a child state and whose
   <parallel>s all have a child, every legal configuration (ascending), every event (or none) and every
   execution state such that
     (H1) no two transitions that are enabled (event matches, condition true) have sources in
          ancestor-or-equal relation (otherwise: the recorded deviations, Spec.diag flags 1 and 2),
     (H2) no condition of a transition of an active state fails to evaluate,
     (H3) the event descriptors of those transitions are grammar-conformant and the event name has no white
          space (the hypotheses of C12's name_match_correct),
   SELECT_TRANSITIONS of LargeMicroStep::step returns exactly the list that Appendix D's selectTransitions /
   selectEventlessTransitions (with removeConflictingTransitions) returns -- the same transitions in the
   same order -- and the same execution state (the one it started from). *)
Theorem selection_conforms : forall late t0 cfg ev x h,
  let c := flatten late t0 in
  wf_coreb c = true -> fs_type (st c 0) = FCompound -> par_nonemptyb c = true ->
  legal_configb c cfg = true -> ascb cfg = true ->
  unrelated_enabledb c cfg ev x = true -> conds_pureb c cfg x = true -> descs_okb c cfg ev = true ->
  select_loop lg_fixed c cfg ev (cfg_postfix c cfg) None [] x = Spec.select_transitions c cfg h ev x.
Proof. exact selection_conforms_flatten_lemma. Qed.
Print Assumptions selection_conforms.

(* Appendix D's configuration does not contain the <scxml> element, the engine's does (index 0) *)
Theorem selection_conforms_spec_cfg : forall late t0 cfg' ev x h,
  let c := flatten late t0 in
  let cfg := 0 :: cfg' in
  wf_coreb c = true -> fs_type (st c 0) = FCompound -> par_nonemptyb c = true -> root_unmentionedb c = true ->
  legal_configb c cfg = true -> ascb cfg = true ->
  unrelated_enabledb c cfg ev x = true -> conds_pureb c cfg x = true -> descs_okb c cfg ev = true ->
  select_loop lg_fixed c cfg ev (cfg_postfix c cfg) None [] x = Spec.select_transitions c cfg' h ev x.
Proof. exact selection_conforms_spec_cfg_lemma. Qed.
Print Assumptions selection_conforms_spec_cfg.

(* the same for any flat chart with these properties whose transitions are numbered in post-fix order of
   their sources, given that its exit sets agree (for flatten: exit_set_agrees and transitions_in_postfix_order) *)
Theorem selection_conforms_flat : forall c cfg ev x h,
  wf_coreb c = true -> fs_type (st c 0) = FCompound -> trans_orderb c = true -> par_nonemptyb c = true ->
  legal_configb c cfg = true -> ascb cfg = true ->
  unrelated_enabledb c cfg ev x = true -> conds_pureb c cfg x = true -> descs_okb c cfg ev = true ->
  (forall s ti, In s cfg -> In ti (fs_trans (st c s)) ->
     forall z, In z (exit_states_of lg_fixed c cfg (tr c ti)) <-> In z (Spec.compute_exit_set c cfg h [tr c ti])) ->
  select_loop lg_fixed c cfg ev (cfg_postfix c cfg) None [] x = Spec.select_transitions c cfg h ev x.
Proof. exact selection_conforms_lemma. Qed.
Print Assumptions selection_conforms_flat.

(* LargeMicroStep::init numbers transitions in post-fix order of their source states: if the block of s1
   lies before s2 in document order, every transition of s1 precedes every transition of s2 *)
Theorem transitions_in_postfix_order : forall late t0, trans_orderb (flatten late t0) = true.
Proof. exact trans_order_flatten. Qed.
Print Assumptions transitions_in_postfix_order.

(* the part before the conflict filter, with no premise on exit sets: Appendix D's list enabledTransitions
   (walk up from every active atomic state, first match wins, duplicates dropped) is the list of the first
   enabled transition of each candidate state in the engine's candidate order; it is ascending; computing
   it leaves the execution state alone; the engine's selection is the greedy conflict filter over it *)
Theorem enabled_transitions_conform : forall c cfg ev x,
  wf_coreb c = true -> trans_orderb c = true -> par_nonemptyb c = true ->
  legal_configb c cfg = true -> ascb cfg = true ->
  unrelated_enabledb c cfg ev x = true -> conds_pureb c cfg x = true -> descs_okb c cfg ev = true ->
  (exists cc',
    fold_left (fun (acc : list nat * Spec.cond_cache * xstate) s =>
                 let '(e, cc, x0) := acc in
                 let '(o, cc', x') := Spec.first_in_chain c cfg ev (s :: Spec.ancs c s None) cc x0 in
                 match o with Some ti => (Spec.addn ti e, cc', x') | None => (e, cc', x') end)
              (filter (Spec.is_atomic_state c) cfg) ([], [], x) = (filter_map (en_of c cfg ev x) (cfg_postfix c cfg), cc', x)) /\
  select_loop lg_fixed c cfg ev (cfg_postfix c cfg) None [] x =
    (greedy (fun a b => conflicts lg_fixed c (tr c a) (tr c b)) (filter_map (en_of c cfg ev x) (cfg_postfix c cfg)) [], x) /\
  ssorted (filter_map (en_of c cfg ev x) (cfg_postfix c cfg)) /\
  (forall t, In t (filter_map (en_of c cfg ev x) (cfg_postfix c cfg)) <-> exists s, In s cfg /\ en_of c cfg ev x s = Some t).
Proof. exact enabled_transitions_conform_lemma. Qed.
Print Assumptions enabled_transitions_conform.

(* a hypothesis that cannot be dropped: the transitions of a <parallel> without children are invisible to
   Appendix D (it only walks up from atomic states); the engine takes them *)
Theorem selection_childless_parallel_refuted :
  exists late t0 cfg ev x h,
    let c := flatten late t0 in
    wf_coreb c = true /\ fs_type (st c 0) = FCompound /\ par_nonemptyb c = false /\
    legal_configb c cfg = true /\ ascb cfg = true /\
    unrelated_enabledb c cfg ev x = true /\ conds_pureb c cfg x = true /\ descs_okb c cfg ev = true /\
    select_loop lg_fixed c cfg ev (cfg_postfix c cfg) None [] x <> Spec.select_transitions c cfg h ev x.
Proof. exact SelectConformFlatten.selection_childless_parallel_refuted. Qed.
Print Assumptions selection_childless_parallel_refuted.
