(* Properties_C01.v -- property theorems only.  C01: the interpreter (default engine) follows the
   W3C SCXML step algorithm.  The whole-run equivalence Large = Spec is NOT proved here for all charts
   (it is false of the faithful model in the deviation classes listed as known findings, and beyond
   those it is carried by the correspondence and the Spec oracle); what is proved for all charts,
   configurations, events and datamodel states are the invariants below. *)
From V Require Import Base NameMatch Chart Exec Large LargeLemmas Interp LargeCache LargeCacheLemmas Spec ExitSetLemmas.
From V Require Import FlattenWf FlattenWfLemmas FlattenWfRun FlattenWfSide FlattenWfSideLemmas FlattenWfConform.
From V Require Import Legal WfCore SelectConform SelectConformLemmas SelectConformOrder SelectConformRoot SelectConformFlatten.
From V Require Import MicroConform MicroConformLemmas MicroConformEntry MicroConformCompose MicroConformFlatten MicroConformWitness.

(* the transition set selected in one microstep is conflict-free: no two selected transitions have
   overlapping exit sets (Appendix D: removeConflictingTransitions) *)
Theorem selected_transitions_conflict_free :
  forall v c cfg ev order x,
    pairwise_ok v c (fst (select_loop v c cfg ev order None [] x)).
Proof. intros. apply select_loop_pairwise. apply nil_pairwise. Qed.
Print Assumptions selected_transitions_conflict_free.

Theorem conflict_relation_symmetric :
  forall v c t1 t2, conflicts v c t1 t2 = conflicts v c t2 t1.
Proof. exact conflicts_sym. Qed.
Print Assumptions conflict_relation_symmetric.

Theorem finished_is_absorbing :
  forall v xv c l x, l_fin l = true -> large_step v xv c l x = (l, x, RC_FINISHED).
Proof. exact large_step_finished_absorbing. Qed.
Print Assumptions finished_is_absorbing.

(* LargeMicroStep does not compare a candidate with every selected transition: it consults lazily
   filled per-transition sets `compatible`/`conflicting` that survive across steps and two bit arrays
   per selection (LargeCache.v models them as the code has them).  For every document, every event
   history and every number of steps the engine with these caches produces the trace, the engine
   state and the datamodel state of the engine without them (Large.v, the model the correspondence
   and the other theorems are about), and the caches only ever hold what `conflicts` computes. *)
Theorem conflict_caches_are_transparent :
  forall lv xv late t fuel evs,
    let c := flatten late t in
    let r := run_loop c cstate (large_step_c lv xv c) (fun s => l_cfg (fst s)) fuel (l_pristine, tc_empty) x_init evs in
    (fst (fst r), snd r) = run_loop c lstate (large_step lv xv c) l_cfg fuel l_pristine x_init evs /\ cache_sound lv c (snd (fst r)).
Proof.
  intros lv xv late t fuel evs. apply run_cached_eq;
    [apply flatten_tdisj | exact I | apply cache_sound_empty].
Qed.
Print Assumptions conflict_caches_are_transparent.

(* the same for one step from any engine state with an ascending configuration and any sound cache content *)
Theorem cached_step_is_direct_step :
  forall lv xv late t l k x,
    let c := flatten late t in
    ssorted (l_cfg l) -> cache_sound lv c k ->
    let r := large_step_c lv xv c (l, k) x in
    (fst (fst (fst r)), snd (fst r), snd r) = large_step lv xv c l x /\ cache_sound lv c (snd (fst (fst r))).
Proof. intros lv xv late t l k x c Hs Hk. apply large_step_c_eq; [apply flatten_tdisj | exact Hs | exact Hk]. Qed.
Print Assumptions cached_step_is_direct_step.

(* the cache is not idle in this statement: on the region chart with three transitions the second event
   finds entries written while the first was processed *)
Theorem caches_get_filled :
  exists t evs fuel,
    let c := flatten false t in
    tc_compat (snd (fst (run_loop c cstate (large_step_c lg_fixed ex_fixed c) (fun s => l_cfg (fst s)) fuel
                                  (l_pristine, tc_empty) x_init evs))) <> [].
Proof.
  exists (TNode KScxml 0 None [] [] [] []
            [TNode KParallel 1 None [] [] [] []
               [TNode KState 3 None [{| tt_vid := 101; tt_event := Some [101%N]; tt_cond := None; tt_targets := None; tt_internal := false; tt_body := [] |}] [] [] [] [];
                TNode KState 4 None [{| tt_vid := 102; tt_event := Some [101%N]; tt_cond := None; tt_targets := Some [4%N]; tt_internal := false; tt_body := [] |}] [] [] [] []]]),
         [[101%N]], 12%nat.
  vm_compute. discriminate.
Qed.
Print Assumptions caches_get_filled.

(* ---- the exit set is the one Appendix D prescribes ----
   For every document and every transition none of whose targets is a <history> state, the transition
   domain the engine computes (nearest compound ancestor containing all targets, found on index intervals)
   is Appendix D's getTransitionDomain, and the states the engine exits for it (the active states numbered
   in the domain's interval) are exactly Appendix D's computeExitSet.  With a history target both statements
   are false (known finding C01-K5): the engines measure the domain from the <history> element, Appendix D
   from its effective targets. *)
Theorem domain_agrees : forall late t0 ti h, let c := flatten late t0 in
  ti < ntrans c -> targets_plain c ti ->
  Large.domain c (tr c ti) = Spec.transition_domain c h (tr c ti).
Proof. exact domain_agrees_lemma. Qed.
Print Assumptions domain_agrees.

Theorem exit_set_agrees : forall late t0 ti cfg h, let c := flatten late t0 in
  ti < ntrans c -> (forall s, In s cfg -> s < nstates c) -> targets_plain c ti ->
  forall s, In s (Large.exit_states_of lg_fixed c cfg (tr c ti)) <-> In s (Spec.compute_exit_set c cfg h [tr c ti]).
Proof. exact exit_set_agrees_lemma. Qed.
Print Assumptions exit_set_agrees.

Theorem domain_agrees_history_refuted :
  exists late t0 ti h, let c := flatten late t0 in
    ti < ntrans c /\ Large.domain c (tr c ti) <> Spec.transition_domain c h (tr c ti).
Proof. exact ExitSetLemmas.domain_agrees_history_refuted. Qed.
Print Assumptions domain_agrees_history_refuted.

Theorem exit_set_agrees_history_refuted :
  exists late t0 ti cfg h, let c := flatten late t0 in
    ti < ntrans c /\ (forall s, In s cfg -> s < nstates c) /\
    exists s, In s (Large.exit_states_of lg_fixed c cfg (tr c ti)) /\ ~ In s (Spec.compute_exit_set c cfg h [tr c ti]).
Proof. exact ExitSetLemmas.exit_set_agrees_history_refuted. Qed.
Print Assumptions exit_set_agrees_history_refuted.


(* ---- transition selection is the one Appendix D prescribes, outside the recorded deviations ----
   For every document of the history-free core (wf_coreb) whose <scxml> has a child state and whose
   <parallel>s all have a child, every legal configuration (ascending), every event (or none) and every
   execution state such that
     (H1) no two transitions that are enabled (event matches, condition true) have sources in
          ancestor-or-equal relation (otherwise: the recorded deviations, Spec.diag flags 1 and 2),
     (H2) no condition of a transition of an active state fails to evaluate,
     (H3) the event descriptors of those transitions are grammar-conformant and the event name has no white
          space (the hypotheses of C12's name_match_correct),
   SELECT_TRANSITIONS of LargeMicroStep::step returns exactly the list that Appendix D's selectTransitions /
   selectEventlessTransitions (with removeConflictingTransitions) returns -- the same transitions in the
   same order -- and the same execution state (the one it started from). *)
Theorem selection_conforms : forall late t0 cfg ev x h,
  let c := flatten late t0 in
  wf_coreb c = true -> fs_type (st c 0) = FCompound -> par_nonemptyb c = true ->
  legal_configb c cfg = true -> ascb cfg = true ->
  unrelated_enabledb c cfg ev x = true -> conds_pureb c cfg x = true -> descs_okb c cfg ev = true ->
  select_loop lg_fixed c cfg ev (cfg_postfix c cfg) None [] x = Spec.select_transitions c cfg h ev x.
Proof. exact selection_conforms_flatten_lemma. Qed.
Print Assumptions selection_conforms.

(* Appendix D's configuration does not contain the <scxml> element, the engine's does (index 0) *)
Theorem selection_conforms_spec_cfg : forall late t0 cfg' ev x h,
  let c := flatten late t0 in
  let cfg := 0 :: cfg' in
  wf_coreb c = true -> fs_type (st c 0) = FCompound -> par_nonemptyb c = true -> root_unmentionedb c = true ->
  legal_configb c cfg = true -> ascb cfg = true ->
  unrelated_enabledb c cfg ev x = true -> conds_pureb c cfg x = true -> descs_okb c cfg ev = true ->
  select_loop lg_fixed c cfg ev (cfg_postfix c cfg) None [] x = Spec.select_transitions c cfg' h ev x.
Proof. exact selection_conforms_spec_cfg_lemma. Qed.
Print Assumptions selection_conforms_spec_cfg.

(* the same for any flat chart with these properties whose transitions are numbered in post-fix order of
   their sources, given that its exit sets agree (for flatten: exit_set_agrees and transitions_in_postfix_order) *)
Theorem selection_conforms_flat : forall c cfg ev x h,
  wf_coreb c = true -> fs_type (st c 0) = FCompound -> trans_orderb c = true -> par_nonemptyb c = true ->
  legal_configb c cfg = true -> ascb cfg = true ->
  unrelated_enabledb c cfg ev x = true -> conds_pureb c cfg x = true -> descs_okb c cfg ev = true ->
  (forall s ti, In s cfg -> In ti (fs_trans (st c s)) ->
     forall z, In z (exit_states_of lg_fixed c cfg (tr c ti)) <-> In z (Spec.compute_exit_set c cfg h [tr c ti])) ->
  select_loop lg_fixed c cfg ev (cfg_postfix c cfg) None [] x = Spec.select_transitions c cfg h ev x.
Proof. exact selection_conforms_lemma. Qed.
Print Assumptions selection_conforms_flat.

(* LargeMicroStep::init numbers transitions in post-fix order of their source states: if the block of s1
   lies before s2 in document order, every transition of s1 precedes every transition of s2 *)
Theorem transitions_in_postfix_order : forall late t0, trans_orderb (flatten late t0) = true.
Proof. exact trans_order_flatten. Qed.
Print Assumptions transitions_in_postfix_order.

(* the part before the conflict filter, with no premise on exit sets: Appendix D's list enabledTransitions
   (walk up from every active atomic state, first match wins, duplicates dropped) is the list of the first
   enabled transition of each candidate state in the engine's candidate order; it is ascending; computing
   it leaves the execution state alone; the engine's selection is the greedy conflict filter over it *)
Theorem enabled_transitions_conform : forall c cfg ev x,
  wf_coreb c = true -> trans_orderb c = true -> par_nonemptyb c = true ->
  legal_configb c cfg = true -> ascb cfg = true ->
  unrelated_enabledb c cfg ev x = true -> conds_pureb c cfg x = true -> descs_okb c cfg ev = true ->
  (exists cc',
    fold_left (fun (acc : list nat * Spec.cond_cache * xstate) s =>
                 let '(e, cc, x0) := acc in
                 let '(o, cc', x') := Spec.first_in_chain c cfg ev (s :: Spec.ancs c s None) cc x0 in
                 match o with Some ti => (Spec.addn ti e, cc', x') | None => (e, cc', x') end)
              (filter (Spec.is_atomic_state c) cfg) ([], [], x) = (filter_map (en_of c cfg ev x) (cfg_postfix c cfg), cc', x)) /\
  select_loop lg_fixed c cfg ev (cfg_postfix c cfg) None [] x =
    (greedy (fun a b => conflicts lg_fixed c (tr c a) (tr c b)) (filter_map (en_of c cfg ev x) (cfg_postfix c cfg)) [], x) /\
  ssorted (filter_map (en_of c cfg ev x) (cfg_postfix c cfg)) /\
  (forall t, In t (filter_map (en_of c cfg ev x) (cfg_postfix c cfg)) <-> exists s, In s cfg /\ en_of c cfg ev x s = Some t).
Proof. exact enabled_transitions_conform_lemma. Qed.
Print Assumptions enabled_transitions_conform.

(* a hypothesis that cannot be dropped: the transitions of a <parallel> without children are invisible to
   Appendix D (it only walks up from atomic states); the engine takes them *)
Theorem selection_childless_parallel_refuted :
  exists late t0 cfg ev x h,
    let c := flatten late t0 in
    wf_coreb c = true /\ fs_type (st c 0) = FCompound /\ par_nonemptyb c = false /\
    legal_configb c cfg = true /\ ascb cfg = true /\
    unrelated_enabledb c cfg ev x = true /\ conds_pureb c cfg x = true /\ descs_okb c cfg ev = true /\
    select_loop lg_fixed c cfg ev (cfg_postfix c cfg) None [] x <> Spec.select_transitions c cfg h ev x.
Proof. exact SelectConformFlatten.selection_childless_parallel_refuted. Qed.
Print Assumptions selection_childless_parallel_refuted.


(* ---- one microstep is the microstep Appendix D prescribes (history-free core) ----
   Corresponding states (MicroConform.corr): the engine's configuration is Appendix D's plus the <scxml>
   element (index 0); "top-level final reached" = not running; the same states count as data-initialised.
   For every document of the history-free core (wf_coreb) in which every <parallel> has a child
   (par_nonemptyb), no target of a transition is a proper ancestor of another target of the same transition
   (targets_antichainb), no <final> is the child of a <parallel> or has a <parallel> above its grand-parent
   (done_okb), and no executable content asks In(<sid of the root>) (root_silentb); for every legal
   configuration, every execution state and every list sel of transitions with active sources that are
   pairwise conflict-free and are not transitions of pseudo-states (what SELECT_TRANSITIONS returns):
   Large.microstep (exit set, history, entry set, exit, transition content, entry -- called as
   Large.select_and_step calls it, after TMsB) and Spec.spec_microstep from corresponding states end in
   corresponding states, with the same datamodel store, queues and trace; Appendix D's trace has the one
   extra token TCfg at the end (the projection is: drop that last token); the history value is untouched. *)
Theorem microstep_conforms : forall late t0 sel l s x,
  let c := flatten late t0 in
  wf_coreb c = true -> par_nonemptyb c = true -> targets_antichainb c = true -> done_okb c = true -> root_silentb c = true ->
  legal_configb c (l_cfg l) = true -> corr c l s ->
  (forall ti, In ti sel -> In (ft_source (tr c ti)) (l_cfg l)) ->
  pairwise_ok lg_fixed c sel ->
  (forall ti, In ti sel -> ft_history (tr c ti) || ft_initial (tr c ti) = false) ->
  let r := microstep lg_fixed ex_fixed c l (emit TMsB x) (sel_targets c sel) (sel_exitset c (l_cfg l) sel) sel false in
  let q := Spec.spec_microstep c sel s x in
  corr c (fst r) (fst q) /\ snd q = emit (Spec.spec_cfg_tok c (fst q)) (snd r) /\ Spec.s_hv (fst q) = Spec.s_hv s.
Proof. exact microstep_conforms_lemma. Qed.
Print Assumptions microstep_conforms.

(* the same with the transitions the engine selects itself (any event, any execution state at selection) *)
Theorem microstep_selected_conforms : forall late t0 l s ev x0 x,
  let c := flatten late t0 in
  wf_coreb c = true -> par_nonemptyb c = true -> targets_antichainb c = true -> done_okb c = true -> root_silentb c = true ->
  legal_configb c (l_cfg l) = true -> corr c l s ->
  let sel := fst (select_loop lg_fixed c (l_cfg l) ev (cfg_postfix c (l_cfg l)) None [] x0) in
  let r := microstep lg_fixed ex_fixed c l (emit TMsB x) (sel_targets c sel) (sel_exitset c (l_cfg l) sel) sel false in
  let q := Spec.spec_microstep c sel s x in
  corr c (fst r) (fst q) /\ snd q = emit (Spec.spec_cfg_tok c (fst q)) (snd r) /\ Spec.s_hv (fst q) = Spec.s_hv s.
Proof. exact microstep_selected_conforms_lemma. Qed.
Print Assumptions microstep_selected_conforms.

(* selection + microstep: Large.select_and_step against selectTransitions + microstep of Appendix D, under
   the hypotheses of selection_conforms and of microstep_conforms *)
Theorem step_conforms : forall late t0 l s ev x,
  let c := flatten late t0 in
  wf_coreb c = true -> fs_type (st c 0) = FCompound -> par_nonemptyb c = true -> root_unmentionedb c = true ->
  targets_antichainb c = true -> done_okb c = true -> root_silentb c = true ->
  legal_configb c (l_cfg l) = true -> ascb (l_cfg l) = true -> corr c l s ->
  unrelated_enabledb c (l_cfg l) ev x = true -> conds_pureb c (l_cfg l) x = true -> descs_okb c (l_cfg l) ev = true ->
  let r := select_and_step lg_fixed ex_fixed c l x ev in
  let en := fst (Spec.select_transitions c (Spec.s_cfg s) (Spec.s_hv s) ev x) in
  snd (Spec.select_transitions c (Spec.s_cfg s) (Spec.s_hv s) ev x) = x /\
  match en with
  | [] => l_cfg (fst (fst r)) = l_cfg l /\ snd (fst r) = x
  | _ => let q := Spec.spec_microstep c en s x in
         corr c (fst (fst r)) (fst q) /\ snd q = emit (Spec.spec_cfg_tok c (fst q)) (snd (fst r)) /\
         Spec.s_hv (fst q) = Spec.s_hv s
  end.
Proof. exact step_conforms_lemma. Qed.
Print Assumptions step_conforms.

(* the layers.  (c) the entry set *)
Theorem entry_set_conforms : forall late t0 cfg sel h hist,
  let c := flatten late t0 in
  wf_coreb c = true -> targets_antichainb c = true -> legal_configb c cfg = true ->
  (forall ti, In ti sel -> In (ft_source (tr c ti)) cfg) -> pairwise_ok lg_fixed c sel ->
  Spec.e_histcontent (Spec.compute_entry_set c h sel) = [] /\
  forall x, In x (Spec.e_enter (Spec.compute_entry_set c h sel)) <->
            In x (fst (entry_set lg_fixed c cfg (sel_exitset c cfg sel) hist (sel_targets c sel) sel)) /\
            ~ (In x cfg /\ ~ In x (sel_exitset c cfg sel)).
Proof. exact entry_set_conforms_lemma. Qed.
Print Assumptions entry_set_conforms.

(* (a) exiting: the same states in the same order with the same view of the configuration *)
Theorem exit_phase_conforms : forall c X cfg' x,
  (forall i, mentions_bs (fs_sid (st c 0)) (fs_onexit (st c i)) = false) -> ~ In 0 X ->
  fold_left (exit_one ex_fixed c) X (0 :: cfg', x) =
  (0 :: fst (fold_left (spec_exit_one c) X (cfg', x)), snd (fold_left (spec_exit_one c) X (cfg', x))).
Proof. exact exit_fold_conforms. Qed.
Print Assumptions exit_phase_conforms.

(* (b) the content of the transitions, in the order of the selected list *)
Theorem take_phase_conforms : forall c cfg' sel x,
  (forall ti, mentions_b (fs_sid (st c 0)) (ft_body (tr c ti)) = false) ->
  (forall ti, In ti sel -> ft_history (tr c ti) || ft_initial (tr c ti) = false) ->
  (forall ti, In ti sel -> ft_has_body (tr c ti) = false -> ft_body (tr c ti) = []) ->
  fold_left (take_one ex_fixed c (0 :: cfg')) sel x =
  fold_left (fun x ti => Spec.exec_trans_content c cfg' ti x) sel x.
Proof. exact take_fold_conforms. Qed.
Print Assumptions take_phase_conforms.

(* ---- outside the hypotheses: the models differ (witnesses by computation; MicroConformWitness.both runs both
   microsteps for the transitions the engine selects) ---- *)
(* a target that is a proper ancestor of another target: Appendix D enters two children of a compound state *)
Theorem microstep_target_ancestor_refuted :
  exists late t0 cfg ev,
    let c := flatten late t0 in
    let '(sel, r, q) := both c cfg [] [0] ev x_init in
    wf_coreb c = true /\ par_nonemptyb c = true /\ targets_antichainb c = false /\ done_okb c = true /\ root_silentb c = true /\
    legal_configb c cfg = true /\ l_cfg (fst r) <> 0 :: Spec.s_cfg (fst q) /\ legal_configb c (0 :: Spec.s_cfg (fst q)) = false.
Proof. exact MicroConformWitness.microstep_target_ancestor_refuted. Qed.
Print Assumptions microstep_target_ancestor_refuted.

(* a <final> child of a <parallel>: the engine raises done.state for the <parallel> twice *)
Theorem microstep_final_in_parallel_refuted :
  exists late t0 cfg ev,
    let c := flatten late t0 in
    let '(sel, r, q) := both c cfg [] [0] ev x_init in
    wf_coreb c = true /\ par_nonemptyb c = true /\ targets_antichainb c = true /\ done_okb c = false /\ root_silentb c = true /\
    legal_configb c cfg = true /\ l_cfg (fst r) = 0 :: Spec.s_cfg (fst q) /\
    length (x_iq (snd r)) = 2 /\ length (x_iq (snd q)) = 1.
Proof. exact MicroConformWitness.microstep_final_in_parallel_refuted. Qed.
Print Assumptions microstep_final_in_parallel_refuted.

(* a <final> three levels below a <parallel> (nested-parallel-done): the engine raises done.state for it *)
Theorem microstep_nested_parallel_done_refuted :
  exists late t0 cfg ev,
    let c := flatten late t0 in
    let '(sel, r, q) := both c cfg [] [0] ev x_init in
    wf_coreb c = true /\ par_nonemptyb c = true /\ targets_antichainb c = true /\ done_okb c = false /\ root_silentb c = true /\
    legal_configb c cfg = true /\ l_cfg (fst r) = 0 :: Spec.s_cfg (fst q) /\
    length (x_iq (snd r)) = 2 /\ length (x_iq (snd q)) = 1.
Proof. exact MicroConformWitness.microstep_nested_parallel_done_refuted. Qed.
Print Assumptions microstep_nested_parallel_done_refuted.

(* In(<sid of the root>) in content: the engine model's configuration contains the <scxml> element *)
Theorem microstep_root_in_refuted :
  exists late t0 cfg ev,
    let c := flatten late t0 in
    let '(sel, r, q) := both c cfg [] [0] ev x_init in
    wf_coreb c = true /\ par_nonemptyb c = true /\ targets_antichainb c = true /\ done_okb c = true /\ root_silentb c = false /\
    legal_configb c cfg = true /\ l_cfg (fst r) = 0 :: Spec.s_cfg (fst q) /\
    snd q <> emit (Spec.spec_cfg_tok c (fst q)) (snd r).
Proof. exact MicroConformWitness.microstep_root_in_refuted. Qed.
Print Assumptions microstep_root_in_refuted.

(* ---- the static hypotheses on the DOCUMENT ----
   c01_treeb t (FlattenWfSide.v) = core_treeb t (see Properties_C02.v: only state/parallel/final elements,
   a root with a child state, unique ids, 'initial' names one child, no transition to the root, legal
   target sets) and
     ct_par_nonemptyb       every <parallel> has a child;
     ct_root_unmentionedb   no transition condition asks In(<id of the root>);
     ct_targets_antichainb  no target of a transition lies properly below another target of the same transition;
     ct_done_okb            below a <parallel>, <final> elements occur only as grand-children;
     ct_root_silentb        no executable content asks In(<id of the root>).
   For every such document the flat tables satisfy ALL static hypotheses of the theorems above. *)
Theorem c01_side_conditions : forall late t, c01_treeb t = true ->
  let c := flatten late t in
  wf_coreb c = true /\ fs_type (st c 0) = FCompound /\ par_nonemptyb c = true /\ root_unmentionedb c = true /\
  targets_antichainb c = true /\ done_okb c = true /\ root_silentb c = true.
Proof. exact c01_side_conditions_lemma. Qed.
Print Assumptions c01_side_conditions.

(* selection_conforms with its static hypotheses on the document (the dynamic ones H1-H3 unchanged) *)
Theorem document_selection_conforms : forall late t0 cfg ev x h,
  let c := flatten late t0 in
  core_treeb t0 = true -> ct_par_nonemptyb t0 = true ->
  legal_configb c cfg = true -> ascb cfg = true ->
  unrelated_enabledb c cfg ev x = true -> conds_pureb c cfg x = true -> descs_okb c cfg ev = true ->
  select_loop lg_fixed c cfg ev (cfg_postfix c cfg) None [] x = Spec.select_transitions c cfg h ev x.
Proof. exact document_selection_conforms_lemma. Qed.
Print Assumptions document_selection_conforms.

Theorem document_selection_conforms_spec_cfg : forall late t0 cfg' ev x h,
  let c := flatten late t0 in
  let cfg := 0 :: cfg' in
  core_treeb t0 = true -> ct_par_nonemptyb t0 = true -> ct_root_unmentionedb t0 = true ->
  legal_configb c cfg = true -> ascb cfg = true ->
  unrelated_enabledb c cfg ev x = true -> conds_pureb c cfg x = true -> descs_okb c cfg ev = true ->
  select_loop lg_fixed c cfg ev (cfg_postfix c cfg) None [] x = Spec.select_transitions c cfg' h ev x.
Proof. exact document_selection_conforms_spec_cfg_lemma. Qed.
Print Assumptions document_selection_conforms_spec_cfg.

(* microstep_conforms / microstep_selected_conforms / step_conforms for every document that passes c01_treeb *)
Theorem document_microstep_conforms : forall late t0 sel l s x,
  let c := flatten late t0 in
  c01_treeb t0 = true ->
  legal_configb c (l_cfg l) = true -> corr c l s ->
  (forall ti, In ti sel -> In (ft_source (tr c ti)) (l_cfg l)) ->
  pairwise_ok lg_fixed c sel ->
  (forall ti, In ti sel -> ft_history (tr c ti) || ft_initial (tr c ti) = false) ->
  let r := microstep lg_fixed ex_fixed c l (emit TMsB x) (sel_targets c sel) (sel_exitset c (l_cfg l) sel) sel false in
  let q := Spec.spec_microstep c sel s x in
  corr c (fst r) (fst q) /\ snd q = emit (Spec.spec_cfg_tok c (fst q)) (snd r) /\ Spec.s_hv (fst q) = Spec.s_hv s.
Proof. exact document_microstep_conforms_lemma. Qed.
Print Assumptions document_microstep_conforms.

Theorem document_microstep_selected_conforms : forall late t0 l s ev x0 x,
  let c := flatten late t0 in
  c01_treeb t0 = true ->
  legal_configb c (l_cfg l) = true -> corr c l s ->
  let sel := fst (select_loop lg_fixed c (l_cfg l) ev (cfg_postfix c (l_cfg l)) None [] x0) in
  let r := microstep lg_fixed ex_fixed c l (emit TMsB x) (sel_targets c sel) (sel_exitset c (l_cfg l) sel) sel false in
  let q := Spec.spec_microstep c sel s x in
  corr c (fst r) (fst q) /\ snd q = emit (Spec.spec_cfg_tok c (fst q)) (snd r) /\ Spec.s_hv (fst q) = Spec.s_hv s.
Proof. exact document_microstep_selected_conforms_lemma. Qed.
Print Assumptions document_microstep_selected_conforms.

Theorem document_step_conforms : forall late t0 l s ev x,
  let c := flatten late t0 in
  c01_treeb t0 = true ->
  legal_configb c (l_cfg l) = true -> ascb (l_cfg l) = true -> corr c l s ->
  unrelated_enabledb c (l_cfg l) ev x = true -> conds_pureb c (l_cfg l) x = true -> descs_okb c (l_cfg l) ev = true ->
  let r := select_and_step lg_fixed ex_fixed c l x ev in
  let en := fst (Spec.select_transitions c (Spec.s_cfg s) (Spec.s_hv s) ev x) in
  snd (Spec.select_transitions c (Spec.s_cfg s) (Spec.s_hv s) ev x) = x /\
  match en with
  | [] => l_cfg (fst (fst r)) = l_cfg l /\ snd (fst r) = x
  | _ => let q := Spec.spec_microstep c en s x in
         corr c (fst (fst r)) (fst q) /\ snd q = emit (Spec.spec_cfg_tok c (fst q)) (snd (fst r)) /\
         Spec.s_hv (fst q) = Spec.s_hv s
  end.
Proof. exact document_step_conforms_lemma. Qed.
Print Assumptions document_step_conforms.

Theorem document_entry_set_conforms : forall late t0 cfg sel h hist,
  let c := flatten late t0 in
  core_treeb t0 = true -> ct_targets_antichainb t0 = true -> legal_configb c cfg = true ->
  (forall ti, In ti sel -> In (ft_source (tr c ti)) cfg) -> pairwise_ok lg_fixed c sel ->
  Spec.e_histcontent (Spec.compute_entry_set c h sel) = [] /\
  forall x, In x (Spec.e_enter (Spec.compute_entry_set c h sel)) <->
            In x (fst (entry_set lg_fixed c cfg (sel_exitset c cfg sel) hist (sel_targets c sel) sel)) /\
            ~ (In x cfg /\ ~ In x (sel_exitset c cfg sel)).
Proof. exact document_entry_set_conforms_lemma. Qed.
Print Assumptions document_entry_set_conforms.

(* non-vacuity: the example document of C02 and a document with nested <parallel>s, 'initial' attributes, a
   <final> as grand-child of a <parallel>, multi-target / internal / target-less transitions, a condition and
   executable content with In() pass c01_treeb *)
Theorem document_c01_hypotheses_satisfiable : c01_treeb LegalOracle.ex_tree = true /\ c01_treeb ex_tree3 = true.
Proof. split; [exact ex_tree_c01 | exact ex_tree3_c01]. Qed.
Print Assumptions document_c01_hypotheses_satisfiable.

From V Require Import RunConformBase RunConformTok RunConformMicro RunConformInit RunConformStep RunConformLoop RunConformWitness.

(* ==== the initial microstep, one call of step() with all its branches, and whole runs (history-free core) ====

   Static conditions (RunConformStep.static_okb, a boolean on the flat chart): wf_coreb, the <scxml> element has a
   child state (root_compoundb), par_nonemptyb, root_unmentionedb, targets_antichainb, done_okb, root_silentb (the
   conditions of selection_conforms / microstep_conforms above) and two new ones:
     chart_named           every <raise> names an event (LargeMicroStep never dequeues an unnamed internal event)
     root_onexit_emptyb    the <scxml> element has no <onexit> (the model's documents may have one; the engine would
                           run it at completion because its configuration contains the root)
   Projection (RunConformBase.spec_view r): THE function the correspondence check applies to a trace before it
   compares it with Appendix D (tools/chart_common.py spec_view, from_impl=True): keep EV, MS{ }MS, X{ }X, T{ }T,
   E{ }E, C{ }C, LOG, COMPL{ }COMPL; drop the entry of the root (id r; the check's canonical root id is 0); keep the
   first configuration token after each }MS with the root's id removed; drop everything else (return codes, the
   STABLE notification, other configuration tokens, Spec's diagnostic token).  On a trace of Spec.spec_run every
   configuration token directly follows a }MS, so this is also what the check computes for the Spec side
   (from_impl=False, after strip_diag). *)

(* The initial microstep.  For every document satisfying the static conditions, every pristine engine state (no
   flag set, empty configuration, no data initialised) and execution states that agree in store and queues:
   the first call of step() returns MICROSTEPPED and ends in a state that CORRESPONDS (MicroConform.corr) to the
   state of Appendix D's interpret() just before the main event loop (global data initialised,
   enterStates([doc.initial.transition]) -- RunConformInit.spec_init, which Spec.spec_run starts with:
   RunConformInit.spec_run_unfold); the configuration is legal; store and queues are equal; and the traces are
   the same tokens d between MS{ and }MS except that the engine reports the entry of the <scxml> element first
   and Appendix D's transliteration has its diagnostic token there and the configuration token at the end.
   Not covered: histories / <initial> elements (outside wf_coreb). *)
Theorem initial_step_conforms : forall late t0 l xl xs,
  let c := flatten late t0 in let r := fs_sid (st c 0) in
  static_okb c = true ->
  is_pristine l = true -> l_cfg l = [] -> l_initd l = [] -> same_dyn xl xs ->
  let rl := large_step lg_fixed ex_fixed c l xl in
  let q := spec_init c xs in
  snd rl = RC_MICROSTEPPED /\
  corr c (fst (fst rl)) (fst q) /\ Spec.s_hv (fst q) = [] /\ same_dyn (snd (fst rl)) (snd q) /\
  legal_configb c (l_cfg (fst (fst rl))) = true /\
  exists d dg,
    x_out (snd (fst rl)) = TMsE :: d ++ TEe r :: TEb r :: TMsB :: x_out xl /\
    x_out (snd q) = Spec.spec_cfg_tok c (fst q) :: TMsE :: d ++ TDiag dg :: TMsB :: x_out xs.
Proof. exact initial_step_conforms_lemma. Qed.
Print Assumptions initial_step_conforms.

(* One call of step(), ALL branches of LargeMicroStep::step, against the piece of Appendix D's loop that is due
   (RunConformStep.spec_step: Appendix D cut where step() returns; which piece is due is read off the engine's context
   flags): FINISHED is absorbing; TOP_LEVEL_FINAL runs exitInterpreter (onexit handlers in reverse document
   order); the pristine interpreter performs the initial step; SPONTANEOUS selects event-less transitions; then
   the internal queue before the external queue; the STABLE notification and IDLE have no counterpart; an event
   that enables nothing sets SPONTANEOUS again (event-less re-selection before the next dequeue); a cancelled
   interpreter with empty queues stops running.
   RunConformStep.rsim relates (engine state, its execution state) to (Appendix D's state, its execution state): equal
   store and queues; the two traces have the same projection; before the first step the engine is pristine,
   afterwards the states correspond (corr), the configuration is legal and ascending, and while SPONTANEOUS is
   clear Appendix D's event-less selection is known to be empty.
   Statement: from related states, if the boolean step_guardb holds (for a selection: unrelated_enabledb,
   conds_pureb, descs_okb of selection_conforms and the dequeued event has a name; for completion: no onexit
   handler of an active state asks In() about an active state later in document order), the state after step()
   -- with the return code and configuration tokens the driver loop records -- is related to the state after
   spec_step.  Legality and ascending order of the configuration are not hypotheses: they are part of rsim and
   are re-established (LegalRun.v, LargeCacheLemmas.v). *)
Theorem large_step_conforms : forall late t0,
  let c := flatten late t0 in
  static_okb c = true -> forall l xl s xs,
  rsim c l xl s xs -> step_guardb c l xl = true ->
  let rl := large_step lg_fixed ex_fixed c l xl in
  let q := spec_step c l s xs in
  rsim c (fst (fst rl)) (loop_toks c (fst (fst rl)) (snd rl) (snd (fst rl))) (fst q) (snd q).
Proof. exact large_step_conforms_lemma. Qed.
Print Assumptions large_step_conforms.

(* Whole runs.  For every document t0 (binding late or early), every list evs of external event names and every
   bound fuel on the number of calls of step(): if the static conditions hold, the run-level guard holds
   (RunConformLoop.run_guardb replays the run of the ENGINE MODEL -- Interp.run_loop from the pristine state -- and
   evaluates step_guardb before every call of step(); events handed in must have a name) and the run is complete
   within the bound (RunConformLoop.run_completeb: it ended with FINISHED, or with IDLE and no event left), then for
   EVERY spec fuel' >= fuel the projected trace of Interp.run_large is the projected trace of Spec.run_spec
   (Appendix D: same events consumed in the same order, same exits, transition contents, entries, executed
   content and log output in every microstep, same configuration after every microstep, same completion) and
   the final datamodel stores are equal.  Fuel: run_loop counts calls of step(), spec_loop iterations of Appendix
   D's loop; a call is one iteration or none, hence "every fuel' >= fuel".
   Not covered: histories and <initial> elements; runs in which a guard fails (the recorded deviation classes
   C01-K1..K3 and the corners below); invocations, delayed <send>, cancel() from outside (not in the model's driver). *)
Theorem run_conforms : forall late t0,
  let c := flatten late t0 in let r := fs_sid (st c 0) in
  static_okb c = true -> forall evs fuel, run_guardb c evs fuel = true -> run_completeb c evs fuel = true ->
  forall fuel', fuel <= fuel' ->
    spec_view r (fst (run_large lg_fixed ex_fixed late t0 evs fuel)) = spec_view r (fst (run_spec late t0 evs fuel')) /\
    snd (run_large lg_fixed ex_fixed late t0 evs fuel) = snd (run_spec late t0 evs fuel').
Proof. exact run_conforms_lemma. Qed.
Print Assumptions run_conforms.

(* Runs cut by the bound.  For every number fuel+1 of calls of step() for which the guard holds there is a number
   k <= fuel of iterations of Appendix D's loop such that the engine's state corresponds to Appendix D's state
   after interpret()'s start and k iterations, the stores are equal and the projected traces are equal, where
   Appendix D's exitInterpreter has been run iff the engine is FINISHED. *)
Theorem run_conforms_prefix : forall late t0,
  let c := flatten late t0 in let r := fs_sid (st c 0) in
  static_okb c = true -> forall evs fuel, run_guardb c evs (S fuel) = true ->
  exists k, k <= fuel /\
    let res := run_loop c lstate (large_step lg_fixed ex_fixed c) l_cfg (S fuel) l_pristine x_init evs in
    let sp := Spec.spec_loop c k (fst (spec_init c x_init)) (snd (spec_init c x_init)) evs in
    let xs' := if l_fin (fst res) then Spec.exit_interpreter c (fst sp) (snd sp) else snd sp in
    corr c (fst res) (fst sp) /\ x_store (snd res) = x_store xs' /\
    spec_view r (rev (x_out (snd res))) = spec_view r (rev (x_out xs')).
Proof. exact run_conforms_prefix_lemma. Qed.
Print Assumptions run_conforms_prefix.

(* the hypotheses are satisfiable by a whole non-trivial run: a <parallel> with two compound regions, a condition
   with In() and a data comparison, <raise>, <send> to the session itself, <assign>, <log>, a top-level <final>,
   three external events; five microsteps, completion, FINISHED *)
Theorem run_conforms_hypotheses_satisfiable :
  let c := flatten false rw_tree in
  static_okb c = true /\ run_guardb c rw_evs 40 = true /\ run_completeb c rw_evs 40 = true /\
  count_ms (fst (run_large lg_fixed ex_fixed false rw_tree rw_evs 40)) = 5 /\
  snd (run_large lg_fixed ex_fixed false rw_tree rw_evs 40) = [(1%N, 1%Z)].
Proof. exact run_conforms_nonvacuous. Qed.
Print Assumptions run_conforms_hypotheses_satisfiable.

(* ---- none of the new conditions can be dropped (witnesses by computation; views_differ = the two projected
   traces are different lists) ---- *)
(* <onexit> on <scxml>: all other static conditions, the guard and completeness hold *)
Theorem run_root_onexit_refuted :
  exists late t evs fuel, let c := flatten late t in
    static_parts_of c = (true, true, true, true, true, true, true, true, false) /\
    run_guardb c evs fuel = true /\ run_completeb c evs fuel = true /\ views_differ late t evs fuel.
Proof. exact RunConformWitness.run_root_onexit_refuted. Qed.
Print Assumptions run_root_onexit_refuted.

(* <raise event=""/>: the engine never dequeues it (IDLE for ever), Appendix D processes it *)
Theorem run_unnamed_raise_refuted :
  exists late t evs fuel, let c := flatten late t in
    static_parts_of c = (true, true, true, true, true, true, true, false, true) /\
    run_completeb c evs fuel = true /\ views_differ late t evs fuel.
Proof. exact RunConformWitness.run_unnamed_raise_refuted. Qed.
Print Assumptions run_unnamed_raise_refuted.

(* <send event=""/> to the session itself, and an unnamed event from outside: the unnamed external event is the
   engine's cancel marker and is dropped; only the guard's name test fails *)
Theorem run_unnamed_send_refuted :
  exists late t evs fuel, let c := flatten late t in
    static_okb c = true /\ run_guardb c evs fuel = false /\ run_completeb c evs fuel = true /\ views_differ late t evs fuel.
Proof. exact RunConformWitness.run_unnamed_send_refuted. Qed.
Print Assumptions run_unnamed_send_refuted.

Theorem run_unnamed_event_refuted :
  exists late t evs fuel, let c := flatten late t in
    static_okb c = true /\ run_guardb c evs fuel = false /\ run_completeb c evs fuel = true /\ views_differ late t evs fuel.
Proof. exact RunConformWitness.run_unnamed_event_refuted. Qed.
Print Assumptions run_unnamed_event_refuted.

(* completion: the engine evaluates In() in onexit handlers against the full configuration, exitInterpreter against
   the shrinking one (witness: a <final> with a child state entered through a transition to the child) *)
Theorem run_completion_in_refuted :
  exists late t evs fuel, let c := flatten late t in
    static_okb c = true /\ run_guardb c evs fuel = false /\ run_completeb c evs fuel = true /\ views_differ late t evs fuel /\
    compl_guardb c (l_cfg (fst (run_loop c lstate (large_step lg_fixed ex_fixed c) l_cfg fuel l_pristine x_init evs))) = false.
Proof. exact RunConformWitness.run_completion_in_refuted. Qed.
Print Assumptions run_completion_in_refuted.

(* the selection guard (known finding C01-K1 at run level), and completeness of the run *)
Theorem run_selection_guard_refuted :
  exists late t evs fuel, let c := flatten late t in
    static_okb c = true /\ run_guardb c evs fuel = false /\ run_completeb c evs fuel = true /\ views_differ late t evs fuel.
Proof. exact RunConformWitness.run_selection_guard_refuted. Qed.
Print Assumptions run_selection_guard_refuted.

Theorem run_incomplete_refuted :
  exists late t evs fuel, let c := flatten late t in
    static_okb c = true /\ run_guardb c evs fuel = true /\ run_completeb c evs fuel = false /\ views_differ late t evs fuel.
Proof. exact RunConformWitness.run_incomplete_refuted. Qed.
Print Assumptions run_incomplete_refuted.

From V Require Import Serialize LegalHistBase LegalHistEntry LegalHistStep LegalHistWf RunConformInitialBase RunConformInitialWf RunConformInitialFlags
  RunConformInitialSel RunConformInitialFlat RunConformInitialInit RunConformInitialStep RunConformInitialLoop RunConformInitialWitness RunConformInitialMain RunConformInitialCore.

(* ==== documents with <initial> elements and deep / multiple 'initial' attributes (wf_initb; no <history>) ====

   The theorems of the history-free core above, with LegalHistWf.wf_initb in place of wf_coreb: compound states may have
   an <initial> child element whose transition carries executable content and names one or several proper descendants,
   and 'initial' attributes may name deep descendants / several states in different regions of a <parallel>.

   Static conditions of the microstep theorems (RunConformInitialFlat.micro_static_ib, a boolean on the flat chart):
   wf_initb, root_compoundb, par_nonemptyb, targets_antichainb, done_okb, root_silentb (as for the core) and
     cpl_okb           the completion of a compound state is its <initial> CHILD or consists of proper states
     cpl_antib         no state named by an 'initial' attribute lies below another state named by the same attribute
     targets_properb   no transition (those of <initial> elements included) targets a pseudo-state.
   Static conditions of the run-level theorems (RunConformInitialStep.static_ib): micro_static_ib, root_unmentionedb,
   chart_named, root_onexit_emptyb (as for the core) and
     root_plainb       <scxml> has no <initial> child element
   (the 'initial' attribute of <scxml> may name several states at any depth: Spec.spec_run applies the body of
   computeEntrySet's loop, Spec.entry_step, to the document's initial transition Spec.init_trans -- the descendants of
   ALL its targets, then the ancestors of its effective targets up to its domain, as enterStates in Appendix D).
   Every new condition comes with a witness below that it cannot be dropped.  The dynamic guards (step_guardb,
   run_guardb, run_completeb, unrelated_enabledb, conds_pureb, descs_okb) are those of the core theorems, unchanged.
   Not covered: <history> (outside wf_initb); everything the core theorems do not cover either. *)

(* LargeMicroStep::init flags the transitions of <history> and <initial> elements -- for EVERY document *)
Theorem pseudo_state_transitions_are_flagged : forall late t x ti,
  is_pseudo (fs_type (st (flatten late t) x)) = true -> In ti (fs_trans (st (flatten late t) x)) ->
  ft_history (tr (flatten late t) ti) || ft_initial (tr (flatten late t) ti) = true.
Proof. exact flatten_init_flags. Qed.
Print Assumptions pseudo_state_transitions_are_flagged.

(* Transition selection.  selection_conforms / selection_conforms_spec_cfg for wf_initb documents: under the same
   guards SELECT_TRANSITIONS returns exactly Appendix D's list and leaves the execution state alone. *)
Theorem selection_conforms_initial : forall late t0 cfg ev x h,
  let c := flatten late t0 in
  wf_initb c = true -> fs_type (st c 0) = FCompound -> par_nonemptyb c = true ->
  legal_configb c cfg = true -> ascb cfg = true ->
  unrelated_enabledb c cfg ev x = true -> conds_pureb c cfg x = true -> descs_okb c cfg ev = true ->
  select_loop lg_fixed c cfg ev (cfg_postfix c cfg) None [] x = Spec.select_transitions c cfg h ev x.
Proof. exact selection_conforms_initial_lemma. Qed.
Print Assumptions selection_conforms_initial.

Theorem selection_conforms_spec_cfg_initial : forall late t0 cfg' ev x h,
  let c := flatten late t0 in let cfg := 0 :: cfg' in
  wf_initb c = true -> fs_type (st c 0) = FCompound -> par_nonemptyb c = true -> root_unmentionedb c = true ->
  legal_configb c cfg = true -> ascb cfg = true ->
  unrelated_enabledb c cfg ev x = true -> conds_pureb c cfg x = true -> descs_okb c cfg ev = true ->
  select_loop lg_fixed c cfg ev (cfg_postfix c cfg) None [] x = Spec.select_transitions c cfg' h ev x
  /\ snd (select_loop lg_fixed c cfg ev (cfg_postfix c cfg) None [] x) = x.
Proof. exact selection_conforms_spec_cfg_initial_lemma. Qed.
Print Assumptions selection_conforms_spec_cfg_initial.

(* (1) The entry set.  For every document satisfying micro_static_ib, every legal configuration cfg, every recorded
   history without pseudo-states and every list sel of pairwise conflict-free transitions with active sources:
   - Appendix D records no default history content;
   - the states of Appendix D's computeEntrySet (addDescendantStatesToEnter / addAncestorStatesToEnter, with the
     paths from a compound state to its deep initial targets) are exactly the PROPER states of the engine's entry set
     (the descendant loop of ESTABLISH_ENTRYSET, which also holds <initial> pseudo-states) that do not survive the exit;
   - for an entered state i and an <initial> child x of i: the transition of x is in the engine's transition set iff
     i is in Appendix D's statesForDefaultEntry and x is i's completion -- the engine executes the content of exactly
     the <initial> transitions Appendix D executes (s.initial.transition for s in statesForDefaultEntry);
   - statesForDefaultEntry holds entered states only. *)
Theorem entry_set_conforms_initial : forall late t0 cfg sel h hist,
  let c := flatten late t0 in
  micro_static_ib c = true -> legal_configb c cfg = true -> (forall x, In x hist -> pseudoS c x = false) ->
  (forall ti, In ti sel -> In (ft_source (tr c ti)) cfg) -> pairwise_ok lg_fixed c sel ->
  let e := Spec.compute_entry_set c h sel in
  let r := entry_set lg_fixed c cfg (sel_exitset c cfg sel) hist (sel_targets c sel) sel in
  Spec.e_histcontent e = [] /\
  (forall x, In x (Spec.e_enter e) <-> In x (fst r) /\ pseudoS c x = false /\ ~ (In x cfg /\ ~ In x (sel_exitset c cfg sel))) /\
  (forall i x ti, In i (Spec.e_enter e) -> fs_parent (st c x) = Some i -> pseudoS c x = true -> In ti (fs_trans (st c x)) ->
     (In ti (snd r) <-> In i (Spec.e_default e) /\ fs_completion (st c i) = [x])) /\
  (forall i, In i (Spec.e_default e) <-> In i (Spec.e_enter e) /\ In i (Spec.e_default e)).
Proof. exact entry_set_conforms_initial_main. Qed.
Print Assumptions entry_set_conforms_initial.

(* (2) One microstep.  microstep_conforms for wf_initb documents: exit set, exit handlers, transition content,
   entry set, entry in document order with -- per entered state -- data initialisation, onentry handlers, THEN the
   content of the state's <initial> transition if the state is entered by default (engine: the default transitions of
   its pseudo-state children that are in the transition set), done events.  From corresponding states the two
   microsteps end in corresponding states with the same store, queues and trace (Appendix D appends its TCfg token). *)
Theorem microstep_conforms_initial : forall late t0 sel l s x,
  let c := flatten late t0 in
  micro_static_ib c = true -> legal_configb c (l_cfg l) = true -> (forall y, In y (l_hist l) -> pseudoS c y = false) -> corr c l s ->
  (forall ti, In ti sel -> In (ft_source (tr c ti)) (l_cfg l)) ->
  pairwise_ok lg_fixed c sel ->
  (forall ti, In ti sel -> ft_history (tr c ti) || ft_initial (tr c ti) = false) ->
  let r := microstep lg_fixed ex_fixed c l (emit TMsB x) (sel_targets c sel) (sel_exitset c (l_cfg l) sel) sel false in
  let q := Spec.spec_microstep c sel s x in
  corr c (fst r) (fst q) /\ snd q = emit (Spec.spec_cfg_tok c (fst q)) (snd r) /\ Spec.s_hv (fst q) = Spec.s_hv s.
Proof. exact microstep_conforms_initial_main. Qed.
Print Assumptions microstep_conforms_initial.

Theorem microstep_selected_conforms_initial : forall late t0 l s ev x0 x,
  let c := flatten late t0 in
  micro_static_ib c = true -> legal_configb c (l_cfg l) = true -> (forall y, In y (l_hist l) -> pseudoS c y = false) -> corr c l s ->
  let sel := fst (select_loop lg_fixed c (l_cfg l) ev (cfg_postfix c (l_cfg l)) None [] x0) in
  let r := microstep lg_fixed ex_fixed c l (emit TMsB x) (sel_targets c sel) (sel_exitset c (l_cfg l) sel) sel false in
  let q := Spec.spec_microstep c sel s x in
  corr c (fst r) (fst q) /\ snd q = emit (Spec.spec_cfg_tok c (fst q)) (snd r) /\ Spec.s_hv (fst q) = Spec.s_hv s.
Proof. exact microstep_selected_conforms_initial_main. Qed.
Print Assumptions microstep_selected_conforms_initial.

(* selection + microstep (Large.select_and_step), under the hypotheses of selection_conforms_initial and of
   microstep_conforms_initial *)
Theorem step_conforms_initial : forall late t0 l s ev x,
  let c := flatten late t0 in
  micro_static_ib c = true -> root_unmentionedb c = true ->
  legal_configb c (l_cfg l) = true -> ascb (l_cfg l) = true -> (forall y, In y (l_hist l) -> pseudoS c y = false) -> corr c l s ->
  unrelated_enabledb c (l_cfg l) ev x = true -> conds_pureb c (l_cfg l) x = true -> descs_okb c (l_cfg l) ev = true ->
  let r := select_and_step lg_fixed ex_fixed c l x ev in
  let en := fst (Spec.select_transitions c (Spec.s_cfg s) (Spec.s_hv s) ev x) in
  snd (Spec.select_transitions c (Spec.s_cfg s) (Spec.s_hv s) ev x) = x /\
  match en with
  | [] => l_cfg (fst (fst r)) = l_cfg l /\ snd (fst r) = x
  | _ => let q := Spec.spec_microstep c en s x in
         corr c (fst (fst r)) (fst q) /\ snd q = emit (Spec.spec_cfg_tok c (fst q)) (snd (fst r)) /\
         Spec.s_hv (fst q) = Spec.s_hv s
  end.
Proof. exact step_conforms_initial_main. Qed.
Print Assumptions step_conforms_initial.

(* (3) The initial microstep (the 'initial' attribute of <scxml> may name one or several states at any depth: the
   states on the paths and the default descendants are entered), one call of step() with all its branches, and whole runs: the statements
   of initial_step_conforms, large_step_conforms, run_conforms, run_conforms_prefix with static_ib for static_okb.
   RunConformInitialStep.rsimH is RunConformStep.rsim with legality over the tree of proper states
   (LegalHistStep.LegalCfgH) and a well-formed recorded history. *)
Theorem initial_step_conforms_initial : forall late t0 l xl xs,
  let c := flatten late t0 in let r := fs_sid (st c 0) in
  static_ib c = true ->
  is_pristine l = true -> l_cfg l = [] -> l_initd l = [] -> (forall y, In y (l_hist l) -> pseudoS c y = false) -> same_dyn xl xs ->
  let rl := large_step lg_fixed ex_fixed c l xl in
  let q := spec_init c xs in
  snd rl = RC_MICROSTEPPED /\
  corr c (fst (fst rl)) (fst q) /\ Spec.s_hv (fst q) = [] /\ same_dyn (snd (fst rl)) (snd q) /\
  legal_configb c (l_cfg (fst (fst rl))) = true /\
  exists d dg,
    x_out (snd (fst rl)) = TMsE :: d ++ TEe r :: TEb r :: TMsB :: x_out xl /\
    x_out (snd q) = Spec.spec_cfg_tok c (fst q) :: TMsE :: d ++ TDiag dg :: TMsB :: x_out xs.
Proof. exact initial_step_conforms_initial_main. Qed.
Print Assumptions initial_step_conforms_initial.

Theorem large_step_conforms_initial : forall late t0,
  let c := flatten late t0 in
  static_ib c = true -> forall l xl s xs,
  rsimH c l xl s xs -> step_guardb c l xl = true ->
  let rl := large_step lg_fixed ex_fixed c l xl in
  let q := spec_step c l s xs in
  rsimH c (fst (fst rl)) (loop_toks c (fst (fst rl)) (snd rl) (snd (fst rl))) (fst q) (snd q).
Proof. exact large_step_conforms_initial_lemma. Qed.
Print Assumptions large_step_conforms_initial.

Theorem run_conforms_initial : forall late t0,
  let c := flatten late t0 in let r := fs_sid (st c 0) in
  static_ib c = true -> forall evs fuel, run_guardb c evs fuel = true -> run_completeb c evs fuel = true ->
  forall fuel', fuel <= fuel' ->
    spec_view r (fst (run_large lg_fixed ex_fixed late t0 evs fuel)) = spec_view r (fst (run_spec late t0 evs fuel')) /\
    snd (run_large lg_fixed ex_fixed late t0 evs fuel) = snd (run_spec late t0 evs fuel').
Proof. exact run_conforms_initial_lemma. Qed.
Print Assumptions run_conforms_initial.

Theorem run_conforms_prefix_initial : forall late t0,
  let c := flatten late t0 in let r := fs_sid (st c 0) in
  static_ib c = true -> forall evs fuel, run_guardb c evs (S fuel) = true ->
  exists k, k <= fuel /\
    let res := run_loop c lstate (large_step lg_fixed ex_fixed c) l_cfg (S fuel) l_pristine x_init evs in
    let sp := Spec.spec_loop c k (fst (spec_init c x_init)) (snd (spec_init c x_init)) evs in
    let xs' := if l_fin (fst res) then Spec.exit_interpreter c (fst sp) (snd sp) else snd sp in
    corr c (fst res) (fst sp) /\ x_store (snd res) = x_store xs' /\
    spec_view r (rev (x_out (snd res))) = spec_view r (rev (x_out xs')).
Proof. exact run_conforms_prefix_initial_lemma. Qed.
Print Assumptions run_conforms_prefix_initial.

(* (6) the hypotheses are satisfiable by a whole non-trivial run that is OUTSIDE the core (wf_coreb false): a deep
   two-state 'initial' attribute into the two regions of a <parallel>, two <initial> elements with content (log +
   assign; raise), one of them with a target two levels down, a condition with In(), a top-level <final>; events f, e
   and the raised g; four microsteps, completion *)
Theorem run_conforms_initial_hypotheses_satisfiable :
  let c := flatten false iw_tree in
  static_ib c = true /\ wf_coreb c = false /\ run_guardb c iw_evs 40 = true /\ run_completeb c iw_evs 40 = true /\
  count_ms (fst (run_large lg_fixed ex_fixed false iw_tree iw_evs 40)) = 4 /\
  snd (run_large lg_fixed ex_fixed false iw_tree iw_evs 40) = [(1%N, 1%Z)].
Proof. exact run_conforms_initial_nonvacuous. Qed.
Print Assumptions run_conforms_initial_hypotheses_satisfiable.

(* (4) none of the new conditions can be dropped (witnesses by computation; all other static conditions, the run
   guard and completeness hold; static_i_parts_of lists wf_initb, root_compoundb, par_nonemptyb, targets_antichainb,
   done_okb, root_silentb, (cpl_okb, cpl_antib, targets_properb), (root_unmentionedb, chart_named,
   root_onexit_emptyb), root_plainb) *)
(* an <initial> element below <scxml> (the schema has none there): the engine runs its transition, Appendix D does not *)
Theorem run_root_initial_element_refuted :
  exists late t evs fuel, let c := flatten late t in
    static_i_parts_of c = (true, true, true, true, true, true, (true, true, true), (true, true, true), false) /\
    run_guardb c evs fuel = true /\ run_completeb c evs fuel = true /\ views_differ late t evs fuel.
Proof. exact RunConformInitialWitness.run_root_initial_element_refuted. Qed.
Print Assumptions run_root_initial_element_refuted.

(* initial="s2 s5" with s5 below s2: Appendix D also enters the default descendants of s2 *)
Theorem run_initial_attribute_antichain_refuted :
  exists late t evs fuel, let c := flatten late t in
    static_i_parts_of c = (true, true, true, true, true, true, (true, false, true), (true, true, true), true) /\
    run_guardb c evs fuel = true /\ run_completeb c evs fuel = true /\ views_differ late t evs fuel.
Proof. exact RunConformInitialWitness.run_initial_attribute_antichain_refuted. Qed.
Print Assumptions run_initial_attribute_antichain_refuted.

(* an 'initial' attribute that names the <initial> element of a child state: the element's transition runs after the
   onentry of a different state in the two *)
Theorem run_initial_attribute_names_initial_refuted :
  exists late t evs fuel, let c := flatten late t in
    static_i_parts_of c = (true, true, true, true, true, true, (false, true, true), (true, true, true), true) /\
    run_guardb c evs fuel = true /\ run_completeb c evs fuel = true /\ views_differ late t evs fuel.
Proof. exact RunConformInitialWitness.run_initial_attribute_names_initial_refuted. Qed.
Print Assumptions run_initial_attribute_names_initial_refuted.

(* a transition whose target is an <initial> element *)
Theorem run_target_initial_element_refuted :
  exists late t evs fuel, let c := flatten late t in
    static_i_parts_of c = (true, true, true, true, true, true, (true, true, false), (true, true, true), true) /\
    run_guardb c evs fuel = true /\ run_completeb c evs fuel = true /\ views_differ late t evs fuel.
Proof. exact RunConformInitialWitness.run_target_initial_element_refuted. Qed.
Print Assumptions run_target_initial_element_refuted.

(* <scxml initial="s3 s6"> with s3, s6 two levels down in the two regions of a <parallel>, s6 not the default of its
   region: the document satisfies static_ib, the guards hold, the engine enters s1 s2 s3 s4 s6, and the run conforms for
   every spec fuel (an instance of run_conforms_initial).  With the earlier Spec.spec_run (targets of the document's
   initial transition entered one by one) this document was the witness that Spec.v was not Appendix D. *)
Theorem run_root_multi_target_conforms : forall fuel', 10 <= fuel' ->
  spec_view 0 (fst (run_large lg_fixed ex_fixed false iw_root_multi [] 10)) = spec_view 0 (fst (run_spec false iw_root_multi [] fuel')) /\
  snd (run_large lg_fixed ex_fixed false iw_root_multi [] 10) = snd (run_spec false iw_root_multi [] fuel').
Proof. exact RunConformInitialWitness.run_root_multi_target_conforms. Qed.
Print Assumptions run_root_multi_target_conforms.

Theorem run_root_multi_target_hypotheses :
  let c := flatten false iw_root_multi in
  static_ib c = true /\ run_guardb c [] 10 = true /\ run_completeb c [] 10 = true /\
  spec_view 0 (fst (run_large lg_fixed ex_fixed false iw_root_multi [] 10)) =
    [TMsB; TEb 1%N; TEe 1%N; TEb 2%N; TEe 2%N; TEb 3%N; TEe 3%N; TEb 4%N; TEe 4%N; TEb 6%N; TEe 6%N; TMsE; TCfg [1%N; 2%N; 3%N; 4%N; 6%N]].
Proof. exact RunConformInitialWitness.run_root_multi_target_hypotheses. Qed.
Print Assumptions run_root_multi_target_hypotheses.

(* the new static conditions hold for every chart that satisfies the conditions of the core theorems: the theorems
   for wf_initb subsume those for wf_coreb *)
Theorem core_static_conditions_imply_initial_ones : forall c, static_okb c = true -> static_ib c = true.
Proof. exact static_okb_static_ib. Qed.
Print Assumptions core_static_conditions_imply_initial_ones.

(* ===================== work package `tt`: the static conditions of C01 from the document ===================== *)
From V Require Import EngineEquivSelect Serialize RunConformStep RunConformLoop RunConformInitialStep RunConformWitness
     RunConformInitialWitness RunConformInitialSelWitness.
From V Require Import FlattenStaticTrans FlattenStaticTree FlattenStaticC01 FlattenStaticC01Lemmas FlattenStaticC01Main.

(* WHAT: strengthens transitions_in_postfix_order: for EVERY document (no side condition) the table
   LargeMicroStep::init builds lists for every state exactly the transitions it is the source of, ascending, and
   numbers the transitions in post-fix order of their source elements: for ti < tj the source of ti is the source
   of tj, lies entirely before it in document order, or is one of its descendants (EngineEquivSelect.trans_tableb). *)
Theorem transition_table_of_every_document : forall late t, trans_tableb (flatten late t) = true.
Proof. exact flatten_trans_table. Qed.
Print Assumptions transition_table_of_every_document.

(* WHAT: static_ib, the table-level static hypothesis of initial_step_conforms_initial, large_step_conforms_initial,
   run_conforms_initial and run_conforms_prefix_initial, holds for the tables of EVERY document that passes the
   boolean DOCUMENT predicate c01i_treeb (FlattenStaticC01.v), both bindings:
     hist_treeb t (FlattenStaticTree.v: root <scxml> with a child; schema nesting, <initial> below <state> only;
       unique numbers; non-empty, existing, legal target and initial-attribute sets, the latter of descendants;
       <initial> with exactly one transition without cond/event to proper states below the parent) and
     ct_no_histb (no <history> element: C01's run theorems do not cover history) and
     ct_par_nonemptyb, ct_targets_antichainb, ct_done_okb, ct_root_silentb, ct_root_unmentionedb (the side
       conditions of the core theorems, FlattenWfSide.v, unchanged) and
     ct_initattr_antichainb (no state named by an `initial` attribute lies below another one named by it) and
     ct_namedb (every <raise> names an event) and ct_root_onexit_emptyb (<scxml> has no onexit content).
   The table-level conditions cpl_okb, targets_properb, root_plainb need no clause of their own: they follow from
   hist_treeb and ct_no_histb.  This extends c01_side_conditions (core documents only) to documents with <initial>
   elements and deep / multiple initial attributes. *)
Theorem document_static_conditions_initial : forall late t, c01i_treeb t = true -> static_ib (flatten late t) = true.
Proof. exact document_static_initial_lemma. Qed.
Print Assumptions document_static_conditions_initial.

(* WHAT: run_conforms_initial with the document predicate: for every document of c01i_treeb, both bindings, every
   list of external events and every number of steps for which the dynamic run guard holds and the run is complete,
   the engine's projected trace and final datamodel are those of Appendix D (for every larger fuel of the
   specification).  The only hypotheses on the flat chart left are the dynamic ones (run_guardb, run_completeb).
   NOT COVERED: <history>, invocations, delayed sends; documents outside c01i_treeb. *)
Theorem document_run_conforms_initial : forall late t0,
  let c := flatten late t0 in let r := fs_sid (st c 0) in
  c01i_treeb t0 = true -> forall evs fuel, run_guardb c evs fuel = true -> run_completeb c evs fuel = true ->
  forall fuel', fuel <= fuel' ->
    spec_view r (fst (run_large lg_fixed ex_fixed late t0 evs fuel)) = spec_view r (fst (run_spec late t0 evs fuel')) /\
    snd (run_large lg_fixed ex_fixed late t0 evs fuel) = snd (run_spec late t0 evs fuel').
Proof. exact document_run_conforms_initial_lemma. Qed.
Print Assumptions document_run_conforms_initial.

(* ... every bound on the number of calls of step(), and one call of step() with all its branches *)
Theorem document_run_conforms_prefix_initial : forall late t0,
  let c := flatten late t0 in let r := fs_sid (st c 0) in
  c01i_treeb t0 = true -> forall evs fuel, run_guardb c evs (S fuel) = true ->
  exists k, k <= fuel /\
    let res := run_loop c lstate (large_step lg_fixed ex_fixed c) l_cfg (S fuel) l_pristine x_init evs in
    let sp := Spec.spec_loop c k (fst (spec_init c x_init)) (snd (spec_init c x_init)) evs in
    let xs' := if l_fin (fst res) then Spec.exit_interpreter c (fst sp) (snd sp) else snd sp in
    corr c (fst res) (fst sp) /\ x_store (snd res) = x_store xs' /\
    spec_view r (rev (x_out (snd res))) = spec_view r (rev (x_out xs')).
Proof. exact document_run_conforms_prefix_initial_lemma. Qed.
Print Assumptions document_run_conforms_prefix_initial.

Theorem document_large_step_conforms_initial : forall late t0,
  let c := flatten late t0 in
  c01i_treeb t0 = true -> forall l xl s xs,
  rsimH c l xl s xs -> step_guardb c l xl = true ->
  let rl := large_step lg_fixed ex_fixed c l xl in
  let q := spec_step c l s xs in
  rsimH c (fst (fst rl)) (loop_toks c (fst (fst rl)) (snd rl) (snd (fst rl))) (fst q) (snd q).
Proof. exact document_large_step_conforms_initial_lemma. Qed.
Print Assumptions document_large_step_conforms_initial.

(* WHAT: the same for the history-free core: c01_treeb (FlattenWfSide.v) together with ct_namedb and
   ct_root_onexit_emptyb gives ALL of static_okb (c01_side_conditions left chart_named and root_onexit_emptyb as
   per-chart booleans), hence run_conforms at document level. *)
Theorem document_static_conditions_core : forall late t, c01_full_treeb t = true -> static_okb (flatten late t) = true.
Proof. exact c01_tree_static. Qed.
Print Assumptions document_static_conditions_core.

Theorem document_run_conforms : forall late t0,
  let c := flatten late t0 in let r := fs_sid (st c 0) in
  c01_full_treeb t0 = true -> forall evs fuel, run_guardb c evs fuel = true -> run_completeb c evs fuel = true ->
  forall fuel', fuel <= fuel' ->
    spec_view r (fst (run_large lg_fixed ex_fixed late t0 evs fuel)) = spec_view r (fst (run_spec late t0 evs fuel')) /\
    snd (run_large lg_fixed ex_fixed late t0 evs fuel) = snd (run_spec late t0 evs fuel').
Proof. exact document_run_conforms_lemma. Qed.
Print Assumptions document_run_conforms.

(* non-vacuity: the example documents of run_conforms_initial (iw_tree: deep two-state initial attribute into a
   <parallel>, <initial> elements with content, In() conditions, a top-level <final>; iw_root_multi; isel_tree) pass
   c01i_treeb, iw_tree is outside the core and its run on f, e meets the dynamic hypotheses; rw_tree passes
   c01_full_treeb *)
Theorem document_initial_hypotheses_satisfiable :
  c01i_treeb iw_tree = true /\ c01i_treeb iw_root_multi = true /\ c01i_treeb isel_tree = true /\
  wf_coreb (flatten false iw_tree) = false /\
  run_guardb (flatten false iw_tree) iw_evs 40 = true /\ run_completeb (flatten false iw_tree) iw_evs 40 = true.
Proof. exact document_initial_hypotheses_hold. Qed.
Print Assumptions document_initial_hypotheses_satisfiable.
Theorem document_core_hypotheses_satisfiable : c01_full_treeb rw_tree = true.
Proof. exact document_core_hypotheses_hold. Qed.
Print Assumptions document_core_hypotheses_satisfiable.

(* the one clause of c01i_treeb that is neither a clause of hist_treeb nor a side condition of the core theorems
   cannot be dropped: initial="s2 s5" with s5 below s2 passes every other clause, the run guard and completeness
   hold, and the views of the engine and of Appendix D differ (witnesses for the other clauses: Properties_C03.v
   hist_tree_clauses_needed for hist_treeb, the *_refuted theorems above for the core side conditions) *)
Theorem document_initattr_antichain_clause_needed_refuted :
  c01i_clauses w_initattr_nested = [true; true; true; true; true; true; false; true; true; true] /\
  run_guardb (flatten false w_initattr_nested) [] 10 = true /\ run_completeb (flatten false w_initattr_nested) [] 10 = true /\
  views_differ false w_initattr_nested [] 10.
Proof. exact initattr_antichain_clause_needed_refuted. Qed.
Print Assumptions document_initattr_antichain_clause_needed_refuted.

From V Require Import EngineEquivDone RunConformHistRel RunConformHistSpec RunConformHistEntry RunConformHistDom RunConformHistWf RunConformHistDeep
  RunConformHistFlat RunConformHistStep RunConformHistRun RunConformHistWitness RunConformHistMain.

(* ==== documents with <history> (wf_histb: LegalHistWf.v; histories with different parents record disjoint sets) ====

   The theorems for wf_initb documents above, for documents that also have shallow and deep <history> elements, transitions
   that target them and default transitions with executable content.  "_partial": C01 is still not proved for ALL charts --
   the recorded deviation classes stay outside (C01-K4: overlapping histories, excluded by wf_histb; C01-K5: hist_target_localb).

   Corresponding states now have RELATED HISTORIES.  Appendix D keeps one value per history state (Spec.s_hv), LargeMicroStep
   ONE set of states for all histories (Large.l_hist).  RunConformHistRel.hv_rel hist h: for every history state H, the part
   of the set that H owns -- l_hist /\ completion(H), LegalHistEntry.Rh -- is empty iff H has no value, and otherwise the value
   of H is that part (shallow H: the recorded children of H's parent) resp. its atomic members (deep H: Appendix D records
   the active atomic descendants, the engine ALL active proper descendants).  HistOK (LegalHistEntry.v): what H owns is
   empty or a fragment below H's parent with one child per compound state; HistDown (RunConformHistRel.v): what a deep
   history owns is closed downwards like a configuration (so it can be rebuilt from its atomic members).

   Static conditions of the microstep theorems (RunConformHistFlat.micro_static_hb, a boolean on the flat chart):
   wf_histb, root_compoundb, par_nonemptyb, targets_antichainb, done_okb, root_silentb, cpl_okb, cpl_antib (as for wf_initb
   documents) and
     targets_noinitb      no transition targets an <initial> element (replaces targets_properb: a <history> may be targeted)
     hist_target_localb   no transition targets a DEEP history whose parent properly encloses the transition's source
                          (known finding C01-K5; for a shallow history the two transition domains coincide)
     leaf_okb             atomic and <final> states have no child states (EngineEquivDone.v; the SCXML schema)
   Static conditions of the run-level theorems (RunConformHistStep.static_hb): micro_static_hb, root_unmentionedb,
   chart_named, root_onexit_emptyb, root_plainb (as for wf_initb documents).  The dynamic guards (step_guardb, run_guardb,
   run_completeb, unrelated_enabledb, conds_pureb, descs_okb) are those of the core theorems, unchanged.
   Witnesses that a condition cannot be dropped: below, for all new ones except leaf_okb (used by the proof -- the atomic
   states a deep history records must not lie below one another; no deviation is known, see run_final_with_child_agrees).
   Not covered: everything the theorems for wf_initb documents do not cover either. *)

(* LargeMicroStep::init gives a deep history the completion "every proper state below the history's parent" -- for EVERY
   document (a premise of the recording theorem, discharged here) *)
Theorem deep_history_completion_is_full : forall late t, WFH (flatten late t) -> DeepFull (flatten late t).
Proof. exact flatten_deep_full. Qed.
Print Assumptions deep_history_completion_is_full.

(* (0) Appendix D's exitStates records history exactly as RunConformHistRel.record_hv says (for all states to exit, before any
   onexit handler runs), and then exits the states *)
Theorem exit_states_records_history : forall c ts s x,
  Spec.exit_states c ts s x =
  (let to_exit := rev (Spec.sort_doc (Spec.compute_exit_set c (Spec.s_cfg s) (Spec.s_hv s) (map (tr c) ts))) in
   let r := fold_left (spec_exit_one c) to_exit (Spec.s_cfg s, x) in
   ({| Spec.s_cfg := fst r; Spec.s_hv := record_hv c (Spec.s_cfg s) to_exit (Spec.s_hv s);
       Spec.s_running := Spec.s_running s; Spec.s_entered := Spec.s_entered s |}, snd r)).
Proof. exact exit_states_hv. Qed.
Print Assumptions exit_states_records_history.

(* (1) Recording keeps the histories related.  For every wf_histb document, every legal configuration (engine: 0 :: cfgS,
   Appendix D: cfgS), every set X of active states that is exited (L: the same states in any order -- Appendix D's list
   of states to exit), related histories stay related: REMEMBER_HISTORY of LargeMicroStep (for every history whose parent
   is exited, set the bits of its completion to "active now") against Appendix D's loop over the states to exit (deep:
   the active atomic descendants; shallow: the active children). *)
Theorem history_recording_conforms : forall late t0 cfgS X L hist h,
  let c := flatten late t0 in
  wf_histb c = true -> legal_configb c (0 :: cfgS) = true ->
  (forall x, In x X -> In x (0 :: cfgS)) -> (forall x, In x L <-> In x X) ->
  HistOK c hist -> HistDown c hist -> hv_rel c hist h ->
  HistOK c (remember_history c (0 :: cfgS) X hist) /\ HistDown c (remember_history c (0 :: cfgS) X hist) /\
  hv_rel c (remember_history c (0 :: cfgS) X hist) (record_hv c cfgS L h).
Proof. exact history_recording_conforms_main. Qed.
Print Assumptions history_recording_conforms.

(* what the relation gives for a history H (parent q) that has a value v: v is not empty, lies below q (children of q
   for a shallow H), names one child per compound state, no member below another, and the engine's part of H is
   exactly the states on the paths from q to the members of v *)
Theorem related_history_values : forall c hist h, WFH c -> HistOK c hist -> HistDown c hist -> hv_rel c hist h ->
  (forall s, s < nstates c -> fs_type (st c s) = FParallel -> fs_children (st c s) <> []) ->
  (forall x k, Spec.is_atomic_state c x = true -> fs_parent (st c k) <> Some x) ->
  forall H q v, histS c H = true -> fs_parent (st c H) = Some q -> Spec.hv_get h H = Some v ->
  v <> [] /\
  (forall x, In x v -> LegalAbstract.Anc (fun i => fs_parent (st c i)) q x /\ pseudoS c x = false /\ (deepS c H = false -> fs_parent (st c x) = Some q)) /\
  one_child_per_compound c v /\
  (forall g1 g2, In g1 v -> In g2 v -> ~ LegalAbstract.Anc (fun i => fs_parent (st c i)) g1 g2) /\
  (forall x, Rh c hist H x <-> IC c q v x).
Proof. intros c hist h W HH HD HR HP HL H q v. exact (hv_value_facts c W hist h HH HD HR HP HL H q v). Qed.
Print Assumptions related_history_values.

(* (1') The transition domain and the exit set with <history> targets.  For every document, every legal configuration,
   related histories and every transition t none of whose targets is a deep history with a parent that properly
   encloses t's source (RunConformHistDom.TLocal; boolean for all transitions: hist_target_localb), the domain Appendix D
   computes from the EFFECTIVE targets is the domain the engine computes from the targets as written, and the exit sets
   agree.  (Without TLocal: domain_agrees_history_refuted / exit_set_agrees_history_refuted above.) *)
Theorem domain_agrees_history_partial : forall late t0 cfg hist h t,
  let c := flatten late t0 in
  WFH c -> TgAnti c ->
  (forall s, s < nstates c -> fs_type (st c s) = FParallel -> fs_children (st c s) <> []) ->
  (forall x k, Spec.is_atomic_state c x = true -> fs_parent (st c k) <> Some x) ->
  LegalHistStep.LegalH c (fun x => In x cfg) -> (forall x, In x cfg -> x < nstates c) ->
  HistOK c hist -> HistDown c hist -> hv_rel c hist h -> TLocal c t ->
  Large.domain c t = Spec.transition_domain c h t /\
  forall cfg', (forall s, In s cfg' -> s < nstates c) ->
    forall s, In s (Large.exit_states_of lg_fixed c cfg' t) <-> In s (Spec.compute_exit_set c cfg' h [t]).
Proof.
  intros late t0 cfg hist h t c W HA HP HL Hleg Hb HH HD HR Hloc. split.
  - exact (domain_agrees_hist late t0 W HA HP HL cfg Hleg Hb hist h HH HD HR t Hloc).
  - exact (exit_set_agrees_hist late t0 W HA HP HL cfg Hleg Hb hist h HH HD HR t Hloc).
Qed.
Print Assumptions domain_agrees_history_partial.

(* (2) The entry set.  For every document satisfying micro_static_hb, every legal configuration cfg, related histories
   (hist: the engine's set, h: Appendix D's values -- both AFTER the recording of the microstep) and every list sel of
   pairwise conflict-free transitions with active sources, with e = computeEntrySet and (es, ts) = ESTABLISH_ENTRYSET:
   - the states Appendix D enters are exactly the PROPER states of the engine's entry set (which also holds the targeted
     <history> elements and <initial> pseudo-states) that do not survive the exit -- in both cases of a history target:
     a recorded value is restored (Appendix D: the value and its ancestors up to the history's parent; engine: all
     recorded states), no value: the targets of the default transition are entered;
   - <initial>: as for wf_initb documents (transition in ts iff the parent is in statesForDefaultEntry and the element is
     its completion);
   - <history>: a transition of a history element H is in ts iff H is a target of a selected transition, H has no value
     and it is H's first transition; Appendix D's defaultHistoryContent holds exactly these (parent of H, transition)
     pairs -- the content Appendix D runs for a state is the content of the default transitions the engine runs for it;
   - a state that is entered by default has no targeted history child (at most one child of a state fires). *)
Theorem entry_set_conforms_history_partial : forall late t0 cfg sel h hist,
  let c := flatten late t0 in
  micro_static_hb c = true -> legal_configb c cfg = true ->
  HistOK c hist -> HistDown c hist -> hv_rel c hist h ->
  (forall ti, In ti sel -> In (ft_source (tr c ti)) cfg) -> pairwise_ok lg_fixed c sel ->
  let e := Spec.compute_entry_set c h sel in
  let r := entry_set lg_fixed c cfg (sel_exitset c cfg sel) hist (sel_targets c sel) sel in
  (forall x, In x (Spec.e_enter e) <-> In x (fst r) /\ pseudoS c x = false /\ ~ (In x cfg /\ ~ In x (sel_exitset c cfg sel))) /\
  (forall i x ti, In i (Spec.e_enter e) -> fs_parent (st c x) = Some i -> fs_type (st c x) = FInitial -> In ti (fs_trans (st c x)) ->
     (In ti (snd r) <-> In i (Spec.e_default e) /\ fs_completion (st c i) = [x])) /\
  (forall H ti, histS c H = true -> In ti (fs_trans (st c H)) ->
     (In ti (snd r) <-> In H (sel_targets c sel) /\ Spec.hv_get h H = None /\ exists rest, fs_trans (st c H) = ti :: rest)) /\
  (forall p ti, In (p, ti) (Spec.e_histcontent e) <->
     exists tj H, In tj sel /\ In H (ft_targets (tr c tj)) /\ histS c H = true /\ Spec.hv_get h H = None /\
                  fs_parent (st c H) = Some p /\ exists rest, fs_trans (st c H) = ti :: rest) /\
  (forall i H, In i (Spec.e_default e) -> In H (sel_targets c sel) -> histS c H = true -> fs_parent (st c H) <> Some i).
Proof. exact entry_set_conforms_hist_main. Qed.
Print Assumptions entry_set_conforms_history_partial.

(* (3) One microstep.  microstep_conforms_initial for wf_histb documents: exit set, recording of history, exit handlers,
   transition content, entry set, entry in document order with -- per entered state -- data initialisation, onentry
   handlers, THEN the content of the state's <initial> transition (if entered by default) resp. of the default transition
   of a targeted history child without a value (Appendix D: defaultHistoryContent[s.id] after the onentry of the history's
   PARENT s; engine: the transitions of the pseudo-state children of s that are in the transition set -- the same place),
   done events.  From corresponding states with related histories the two microsteps end in corresponding states with
   related histories, the same store, queues and trace (Appendix D appends its TCfg token). *)
Theorem microstep_conforms_history_partial : forall late t0 sel l s x,
  let c := flatten late t0 in
  micro_static_hb c = true -> legal_configb c (l_cfg l) = true ->
  HistOK c (l_hist l) -> HistDown c (l_hist l) -> hv_rel c (l_hist l) (Spec.s_hv s) -> corr c l s ->
  (forall ti, In ti sel -> In (ft_source (tr c ti)) (l_cfg l)) ->
  pairwise_ok lg_fixed c sel ->
  (forall ti, In ti sel -> ft_history (tr c ti) || ft_initial (tr c ti) = false) ->
  let r := microstep lg_fixed ex_fixed c l (emit TMsB x) (sel_targets c sel) (sel_exitset c (l_cfg l) sel) sel false in
  let q := Spec.spec_microstep c sel s x in
  corr c (fst r) (fst q) /\ snd q = emit (Spec.spec_cfg_tok c (fst q)) (snd r) /\
  HistOK c (l_hist (fst r)) /\ HistDown c (l_hist (fst r)) /\ hv_rel c (l_hist (fst r)) (Spec.s_hv (fst q)).
Proof. exact microstep_conforms_hist_main. Qed.
Print Assumptions microstep_conforms_history_partial.

Theorem microstep_selected_conforms_history_partial : forall late t0 l s ev x0 x,
  let c := flatten late t0 in
  micro_static_hb c = true -> legal_configb c (l_cfg l) = true ->
  HistOK c (l_hist l) -> HistDown c (l_hist l) -> hv_rel c (l_hist l) (Spec.s_hv s) -> corr c l s ->
  let sel := fst (select_loop lg_fixed c (l_cfg l) ev (cfg_postfix c (l_cfg l)) None [] x0) in
  let r := microstep lg_fixed ex_fixed c l (emit TMsB x) (sel_targets c sel) (sel_exitset c (l_cfg l) sel) sel false in
  let q := Spec.spec_microstep c sel s x in
  corr c (fst r) (fst q) /\ snd q = emit (Spec.spec_cfg_tok c (fst q)) (snd r) /\
  HistOK c (l_hist (fst r)) /\ HistDown c (l_hist (fst r)) /\ hv_rel c (l_hist (fst r)) (Spec.s_hv (fst q)).
Proof. exact microstep_selected_conforms_hist_main. Qed.
Print Assumptions microstep_selected_conforms_history_partial.

(* Transition selection with <history> targets (Appendix D's removeConflictingTransitions uses exit sets, hence the
   transition domains under the current history value), and selection + microstep *)
Theorem selection_conforms_history_partial : forall late t0 cfg' ev x hist h,
  let c := flatten late t0 in let cfg := 0 :: cfg' in
  micro_static_hb c = true -> root_unmentionedb c = true ->
  legal_configb c cfg = true -> ascb cfg = true ->
  HistOK c hist -> HistDown c hist -> hv_rel c hist h ->
  unrelated_enabledb c cfg ev x = true -> conds_pureb c cfg x = true -> descs_okb c cfg ev = true ->
  select_loop lg_fixed c cfg ev (cfg_postfix c cfg) None [] x = Spec.select_transitions c cfg' h ev x
  /\ snd (select_loop lg_fixed c cfg ev (cfg_postfix c cfg) None [] x) = x.
Proof. exact selection_conforms_spec_cfg_hist_main. Qed.
Print Assumptions selection_conforms_history_partial.

Theorem step_conforms_history_partial : forall late t0 l s ev x,
  let c := flatten late t0 in
  micro_static_hb c = true -> root_unmentionedb c = true ->
  legal_configb c (l_cfg l) = true -> ascb (l_cfg l) = true ->
  HistOK c (l_hist l) -> HistDown c (l_hist l) -> hv_rel c (l_hist l) (Spec.s_hv s) -> corr c l s ->
  unrelated_enabledb c (l_cfg l) ev x = true -> conds_pureb c (l_cfg l) x = true -> descs_okb c (l_cfg l) ev = true ->
  let r := select_and_step lg_fixed ex_fixed c l x ev in
  let en := fst (Spec.select_transitions c (Spec.s_cfg s) (Spec.s_hv s) ev x) in
  snd (Spec.select_transitions c (Spec.s_cfg s) (Spec.s_hv s) ev x) = x /\
  match en with
  | [] => l_cfg (fst (fst r)) = l_cfg l /\ snd (fst r) = x
  | _ => let q := Spec.spec_microstep c en s x in
         corr c (fst (fst r)) (fst q) /\ snd q = emit (Spec.spec_cfg_tok c (fst q)) (snd (fst r)) /\
         HistOK c (l_hist (fst (fst r))) /\ HistDown c (l_hist (fst (fst r))) /\ hv_rel c (l_hist (fst (fst r))) (Spec.s_hv (fst q))
  end.
Proof. exact step_conforms_hist_main. Qed.
Print Assumptions step_conforms_history_partial.

(* (4) The initial microstep (it touches no <history> element: the completion of <scxml> and of every compound state
   consists of proper states or is the <initial> child), one call of step() with all its branches, and whole runs: the
   statements of initial_step_conforms_initial, large_step_conforms_initial, run_conforms_initial, run_conforms_prefix_initial
   with static_hb for static_ib.  RunConformHistStep.rsimHH is rsimH with related histories (the pristine interpreter has
   an empty history). *)
Theorem initial_step_conforms_history_partial : forall late t0 l xl xs,
  let c := flatten late t0 in let r := fs_sid (st c 0) in
  static_hb c = true ->
  is_pristine l = true -> l_cfg l = [] -> l_initd l = [] -> HistOK c (l_hist l) -> same_dyn xl xs ->
  let rl := large_step lg_fixed ex_fixed c l xl in
  let q := spec_init c xs in
  snd rl = RC_MICROSTEPPED /\
  corr c (fst (fst rl)) (fst q) /\ Spec.s_hv (fst q) = [] /\ same_dyn (snd (fst rl)) (snd q) /\
  legal_configb c (l_cfg (fst (fst rl))) = true /\
  exists d dg,
    x_out (snd (fst rl)) = TMsE :: d ++ TEe r :: TEb r :: TMsB :: x_out xl /\
    x_out (snd q) = Spec.spec_cfg_tok c (fst q) :: TMsE :: d ++ TDiag dg :: TMsB :: x_out xs.
Proof. exact initial_step_conforms_hist_main. Qed.
Print Assumptions initial_step_conforms_history_partial.

Theorem large_step_conforms_history_partial : forall late t0,
  let c := flatten late t0 in
  static_hb c = true -> forall l xl s xs,
  rsimHH c l xl s xs -> step_guardb c l xl = true ->
  let rl := large_step lg_fixed ex_fixed c l xl in
  let q := spec_step c l s xs in
  rsimHH c (fst (fst rl)) (loop_toks c (fst (fst rl)) (snd rl) (snd (fst rl))) (fst q) (snd q).
Proof. exact large_step_conforms_hist_lemma. Qed.
Print Assumptions large_step_conforms_history_partial.

(* Whole runs of documents with <history>: if the static conditions hold, the run guard holds and the run is complete
   within the bound, the projected trace of Interp.run_large is the projected trace of Spec.run_spec (Appendix D: same
   events, exits, transition contents -- those of default history transitions included --, entries, executed content, same
   configuration after every microstep, same completion) and the final datamodel stores are equal, for every spec fuel
   >= the number of calls of step(). *)
Theorem run_conforms_history_partial : forall late t0,
  let c := flatten late t0 in let r := fs_sid (st c 0) in
  static_hb c = true -> forall evs fuel, run_guardb c evs fuel = true -> run_completeb c evs fuel = true ->
  forall fuel', fuel <= fuel' ->
    spec_view r (fst (run_large lg_fixed ex_fixed late t0 evs fuel)) = spec_view r (fst (run_spec late t0 evs fuel')) /\
    snd (run_large lg_fixed ex_fixed late t0 evs fuel) = snd (run_spec late t0 evs fuel').
Proof. exact run_conforms_hist_lemma. Qed.
Print Assumptions run_conforms_history_partial.

Theorem run_conforms_prefix_history_partial : forall late t0,
  let c := flatten late t0 in let r := fs_sid (st c 0) in
  static_hb c = true -> forall evs fuel, run_guardb c evs (S fuel) = true ->
  exists k, k <= fuel /\
    let res := run_loop c lstate (large_step lg_fixed ex_fixed c) l_cfg (S fuel) l_pristine x_init evs in
    let sp := Spec.spec_loop c k (fst (spec_init c x_init)) (snd (spec_init c x_init)) evs in
    let xs' := if l_fin (fst res) then Spec.exit_interpreter c (fst sp) (snd sp) else snd sp in
    corr c (fst res) (fst sp) /\ x_store (snd res) = x_store xs' /\
    spec_view r (rev (x_out (snd res))) = spec_view r (rev (x_out xs')).
Proof. exact run_conforms_prefix_hist_lemma. Qed.
Print Assumptions run_conforms_prefix_history_partial.

(* (5) the hypotheses are satisfiable by a whole run of a document with a deep and a shallow history in different
   sub-trees (RunConformHistWitness.hw_tree; outside wf_initb): default transitions with content (log, assign), seven
   events: enter through the deep history without a value (default transition, its content after the onentry of the
   history's parent), move inside, leave (the deep history records) and enter through the shallow history without a value,
   move, go back through the deep history WITH a value (restored, no default content; the shallow history records), back
   through the shallow history with a value, top-level final.  Eight microsteps; the configurations are listed. *)
Theorem run_conforms_history_hypotheses_satisfiable :
  let c := flatten false hw_tree in
  static_hb c = true /\ wf_initb c = false /\ run_guardb c hw_evs 60 = true /\ run_completeb c hw_evs 60 = true /\
  count_ms (fst (run_large lg_fixed ex_fixed false hw_tree hw_evs 60)) = 8 /\
  snd (run_large lg_fixed ex_fixed false hw_tree hw_evs 60) = [(1%N, 1%Z)] /\
  filter (fun t => match t with TCfg _ => true | _ => false end) (spec_view 0 (fst (run_large lg_fixed ex_fixed false hw_tree hw_evs 60))) =
    [TCfg [11%N]; TCfg [1%N; 3%N; 5%N]; TCfg [1%N; 3%N; 4%N]; TCfg [7%N; 10%N]; TCfg [7%N; 9%N]; TCfg [1%N; 3%N; 4%N]; TCfg [7%N; 9%N]; TCfg [12%N]].
Proof. exact run_conforms_history_nonvacuous. Qed.
Print Assumptions run_conforms_history_hypotheses_satisfiable.

(* (6) witnesses (by computation; static_h_parts_of lists wf_histb, root_compoundb, par_nonemptyb, targets_antichainb, done_okb,
   root_silentb, (cpl_okb, cpl_antib, targets_noinitb), (hist_target_localb, leaf_okb),
   (root_unmentionedb, chart_named, root_onexit_emptyb), root_plainb; all other conditions, the run guard and completeness hold) *)
(* C01-K5 at run level: <state id=s1><history id=s2 type=deep><transition target=s4/></history>
                         <state id=s3><state id=s4><transition event=e target=s2/></state><state id=s5/></state></state>, event e.
   The engines exit and re-enter s4 and s3 (domain s1, from the <history> element).  Appendix D's getTransitionDomain uses the
   effective target s4: only s4 is exited, and computeEntrySet then adds the ancestor s3 of the target -- an ACTIVE state
   is entered again.  The corner is in the Recommendation's algorithm; the engines' run is the sensible one. *)
Theorem run_hist_target_enclosing_refuted :
  exists late t evs fuel, let c := flatten late t in
    static_h_parts_of c = (true, true, true, true, true, true, (true, true, true), (false, true), (true, true, true), true) /\
    run_guardb c evs fuel = true /\ run_completeb c evs fuel = true /\ views_differ late t evs fuel.
Proof. exact RunConformHistWitness.run_hist_target_enclosing_refuted. Qed.
Print Assumptions run_hist_target_enclosing_refuted.

(* target="s3 s3", s3 a history without a value and with default content (RunConformHistWitness.hw_twice):
     <state id=s1><transition event=e target="s3 s3"/></state>
     <state id=s2><history id=s3><transition target=s4> log </transition></history><state id=s4/></state>
   Appendix D assigns defaultHistoryContent[s2] twice -- a table: the second assignment replaces the first (Spec.v:
   e_histcontent keeps one entry per parent) -- and runs the content once after the onentry of s2, as the engine does.
   The document satisfies static_hb, the guards hold, and the run conforms for every spec fuel (an instance of
   run_conforms_history_partial).  With defaultHistoryContent as a list of pairs, as Spec.v once had it, this document
   was the witness that Spec.v was not Appendix D. *)
Theorem run_hist_target_twice_hypotheses :
  let c := flatten false hw_twice in
  static_hb c = true /\ run_guardb c [[101%N]] 20 = true /\ run_completeb c [[101%N]] 20 = true /\
  spec_view 0 (fst (run_large lg_fixed ex_fixed false hw_twice [[101%N]] 20)) =
    [TMsB; TEb 1%N; TEe 1%N; TMsE; TCfg [1%N]; TEv [101%N]; TMsB; TXb 1%N; TXe 1%N; TTb 101%N; TTe 101%N; TEb 2%N; TEe 2%N;
     TTb 120%N; TCb 301%N; TLog 1%Z; TCe 301%N; TTe 120%N; TEb 4%N; TEe 4%N; TMsE; TCfg [2%N; 4%N]].
Proof. exact RunConformHistWitness.run_hist_target_twice_hypotheses. Qed.
Print Assumptions run_hist_target_twice_hypotheses.

Theorem run_hist_target_twice_conforms : forall fuel', 20 <= fuel' ->
  spec_view 0 (fst (run_large lg_fixed ex_fixed false hw_twice [[101%N]] 20)) = spec_view 0 (fst (run_spec false hw_twice [[101%N]] fuel')) /\
  snd (run_large lg_fixed ex_fixed false hw_twice [[101%N]] 20) = snd (run_spec false hw_twice [[101%N]] fuel').
Proof. exact RunConformHistWitness.run_hist_target_twice_conforms. Qed.
Print Assumptions run_hist_target_twice_conforms.

(* a transition whose target is an <initial> element *)
Theorem run_target_initial_element_history_refuted :
  exists late t evs fuel, let c := flatten late t in
    static_h_parts_of c = (true, true, true, true, true, true, (true, true, false), (true, true), (true, true, true), true) /\
    run_guardb c evs fuel = true /\ run_completeb c evs fuel = true /\ views_differ late t evs fuel.
Proof. exact RunConformHistWitness.run_target_initial_element_hist_refuted. Qed.
Print Assumptions run_target_initial_element_history_refuted.

(* leaf_okb is not known to be necessary: a <final> with a child state below the parent of a deep history, left and
   re-entered through the history; the document violates leaf_okb only, and the two runs agree *)
Theorem run_final_with_child_agrees :
  let c := flatten false hw_final_child in let evs := [[101%N]; [102%N]; [103%N]] in
  static_h_parts_of c = (true, true, true, true, true, true, (true, true, true), (true, false), (true, true, true), true) /\
  run_guardb c evs 30 = true /\ run_completeb c evs 30 = true /\
  spec_view 0 (fst (run_large lg_fixed ex_fixed false hw_final_child evs 30)) = spec_view 0 (fst (run_spec false hw_final_child evs 30)).
Proof. exact RunConformHistWitness.run_final_with_child_agrees. Qed.
Print Assumptions run_final_with_child_agrees.
