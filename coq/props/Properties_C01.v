(* Properties_C01.v -- property theorems only.  C01: the interpreter (default engine) follows the
   W3C SCXML step algorithm.  The whole-run equivalence Large = Spec is NOT proved here for all charts
   (it is false of the faithful model in the deviation classes listed as known findings, and beyond
   those it is carried by the correspondence and the Spec oracle); what is proved for all charts,
   configurations, events and datamodel states are the invariants below. *)
From V Require Import Base NameMatch Chart Exec Large LargeLemmas Interp LargeCache LargeCacheLemmas Spec ExitSetLemmas.

(* the transition set selected in one microstep is conflict-free: no two selected transitions have
   overlapping exit sets (Appendix D: removeConflictingTransitions) *)
Theorem selected_transitions_conflict_free :
  forall v c cfg ev order x,
    pairwise_ok v c (fst (select_loop v c cfg ev order None [] x)).
Proof. intros. apply select_loop_pairwise. apply nil_pairwise. Qed.
Print Assumptions selected_transitions_conflict_free.

Theorem conflict_relation_symmetric :
  forall v c t1 t2, conflicts v c t1 t2 = conflicts v c t2 t1.
Proof. exact conflicts_sym. Qed.
Print Assumptions conflict_relation_symmetric.

Theorem finished_is_absorbing :
  forall v xv c l x, l_fin l = true -> large_step v xv c l x = (l, x, RC_FINISHED).
Proof. exact large_step_finished_absorbing. Qed.
Print Assumptions finished_is_absorbing.

(* LargeMicroStep does not compare a candidate with every selected transition: it consults lazily
   filled per-transition sets `compatible`/`conflicting` that survive across steps and two bit arrays
   per selection (LargeCache.v models them as the code has them).  For every document, every event
   history and every number of steps the engine with these caches produces the trace, the engine
   state and the datamodel state of the engine without them (Large.v, the model the correspondence
   and the other theorems are about), and the caches only ever hold what `conflicts` computes. *)
Theorem conflict_caches_are_transparent :
  forall lv xv late t fuel evs,
    let c := flatten late t in
    let r := run_loop c cstate (large_step_c lv xv c) (fun s => l_cfg (fst s)) fuel (l_pristine, tc_empty) x_init evs in
    (fst (fst r), snd r) = run_loop c lstate (large_step lv xv c) l_cfg fuel l_pristine x_init evs /\ cache_sound lv c (snd (fst r)).
Proof.
  intros lv xv late t fuel evs. apply run_cached_eq;
    [apply flatten_tdisj | exact I | apply cache_sound_empty].
Qed.
Print Assumptions conflict_caches_are_transparent.

(* the same for one step from any engine state with an ascending configuration and any sound cache content *)
Theorem cached_step_is_direct_step :
  forall lv xv late t l k x,
    let c := flatten late t in
    ssorted (l_cfg l) -> cache_sound lv c k ->
    let r := large_step_c lv xv c (l, k) x in
    (fst (fst (fst r)), snd (fst r), snd r) = large_step lv xv c l x /\ cache_sound lv c (snd (fst (fst r))).
Proof. intros lv xv late t l k x c Hs Hk. apply large_step_c_eq; [apply flatten_tdisj | exact Hs | exact Hk]. Qed.
Print Assumptions cached_step_is_direct_step.

(* the cache is not idle in this statement: on the region chart with three transitions the second event
   finds entries written while the first was processed *)
Theorem caches_get_filled :
  exists t evs fuel,
    let c := flatten false t in
    tc_compat (snd (fst (run_loop c cstate (large_step_c lg_fixed ex_fixed c) (fun s => l_cfg (fst s)) fuel
                                  (l_pristine, tc_empty) x_init evs))) <> [].
Proof.
  exists (TNode KScxml 0 None [] [] [] []
            [TNode KParallel 1 None [] [] [] []
               [TNode KState 3 None [{| tt_vid := 101; tt_event := Some [101%N]; tt_cond := None; tt_targets := None; tt_internal := false; tt_body := [] |}] [] [] [] [];
                TNode KState 4 None [{| tt_vid := 102; tt_event := Some [101%N]; tt_cond := None; tt_targets := Some [4%N]; tt_internal := false; tt_body := [] |}] [] [] [] []]]),
         [[101%N]], 12%nat.
  vm_compute. discriminate.
Qed.
Print Assumptions caches_get_filled.

(* ---- the exit set is the one Appendix D prescribes ----
   For every document and every transition none of whose targets is a <history> state, the transition
   domain the engine computes (nearest compound ancestor containing all targets, found on index intervals)
   is Appendix D's getTransitionDomain, and the states the engine exits for it (the active states numbered
   in the domain's interval) are exactly Appendix D's computeExitSet.  With a history target both statements
   are false (known finding C01-K5): the engines measure the domain from the <history> element, Appendix D
   from its effective targets. *)
Theorem domain_agrees : forall late t0 ti h, let c := flatten late t0 in
  ti < ntrans c -> targets_plain c ti ->
  Large.domain c (tr c ti) = Spec.transition_domain c h (tr c ti).
Proof. exact domain_agrees_lemma. Qed.
Print Assumptions domain_agrees.

Theorem exit_set_agrees : forall late t0 ti cfg h, let c := flatten late t0 in
  ti < ntrans c -> (forall s, In s cfg -> s < nstates c) -> targets_plain c ti ->
  forall s, In s (Large.exit_states_of lg_fixed c cfg (tr c ti)) <-> In s (Spec.compute_exit_set c cfg h [tr c ti]).
Proof. exact exit_set_agrees_lemma. Qed.
Print Assumptions exit_set_agrees.

Theorem domain_agrees_history_refuted :
  exists late t0 ti h, let c := flatten late t0 in
    ti < ntrans c /\ Large.domain c (tr c ti) <> Spec.transition_domain c h (tr c ti).
Proof. exact ExitSetLemmas.domain_agrees_history_refuted. Qed.
Print Assumptions domain_agrees_history_refuted.

Theorem exit_set_agrees_history_refuted :
  exists late t0 ti cfg h, let c := flatten late t0 in
    ti < ntrans c /\ (forall s, In s cfg -> s < nstates c) /\
    exists s, In s (Large.exit_states_of lg_fixed c cfg (tr c ti)) /\ ~ In s (Spec.compute_exit_set c cfg h [tr c ti]).
Proof. exact ExitSetLemmas.exit_set_agrees_history_refuted. Qed.
Print Assumptions exit_set_agrees_history_refuted.
