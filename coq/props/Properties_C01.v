(* Properties_C01.v -- property theorems only.  C01: the interpreter (default engine) follows the
   W3C SCXML step algorithm.  The whole-run equivalence Large = Spec is NOT proved here for all charts
   (it is false of the faithful model in the deviation classes listed as known findings, and beyond
   those it is carried by the correspondence and the Spec oracle); what is proved for all charts,
   configurations, events and datamodel states are the invariants below. *)
From V Require Import Base NameMatch Chart Exec Large LargeLemmas.

(* the transition set selected in one microstep is conflict-free: no two selected transitions have
   overlapping exit sets (Appendix D: removeConflictingTransitions) *)
Theorem selected_transitions_conflict_free :
  forall v c cfg ev order x,
    pairwise_ok v c (fst (select_loop v c cfg ev order None [] x)).
Proof. intros. apply select_loop_pairwise. apply nil_pairwise. Qed.
Print Assumptions selected_transitions_conflict_free.

Theorem conflict_relation_symmetric :
  forall v c t1 t2, conflicts v c t1 t2 = conflicts v c t2 t1.
Proof. exact conflicts_sym. Qed.
Print Assumptions conflict_relation_symmetric.

Theorem finished_is_absorbing :
  forall v xv c l x, l_fin l = true -> large_step v xv c l x = (l, x, RC_FINISHED).
Proof. exact large_step_finished_absorbing. Qed.
Print Assumptions finished_is_absorbing.
