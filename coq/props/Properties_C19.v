(* Properties_C19.v -- property theorems only.  C19: validation verdicts are sound and do not reject
   valid charts; validation is total.  [validate v d] is the structural part of
   InterpreterIssue::forInterpreter (Validate.v) for the variant [v] of the code: [vv_pinned] is the
   code as found, [vv_fixed] the code with patches/C19-*.diff applied; the check reads the variant of the
   implementation under test off witness documents. *)
From V Require Import Base Validate ValidateLemmas ValidateLegal.

(* ---- totality.  U: for every element tree, the validator without the NULL of getStates() returns a list
   of issues: it neither dereferences a missing state nor runs out of the fuel of its two loops
   (getState's queue, getReachableStates' closure). *)
Theorem validate_total : forall v d, vv_getstates_null v = false -> exists l, validate v d = Ok l.
Proof. exact validate_total_lemma. Qed.
Print Assumptions validate_total.

(* no variant ever exhausts the fuel; the only other outcome is the crash of getReachableStates *)
Theorem validate_outcomes : forall v d,
  (exists l, validate v d = Ok l) \/ (validate v d = Crash 1 /\ vv_getstates_null v = true).
Proof. exact validate_outcome. Qed.
Print Assumptions validate_outcomes.

(* the code as found crashes: <scxml initial="s1"><state/></scxml> *)
Theorem validate_total_pinned_refuted : exists d w, validate vv_pinned d = Crash w.
Proof. exact validate_total_pinned_refuted_lemma. Qed.
Print Assumptions validate_total_pinned_refuted.

(* ---- soundness.  U: a single-machine document in which only states carry ids and for which the repaired
   validator reports no FATAL issue satisfies wf_chartb: unique non-empty ids, existing targets, initial
   attributes and <initial> transitions into descendants, one unconditional default transition per history
   into its scope, pairwise compatible target sets, structural elements below legal parents. *)
Theorem validate_sound : forall d l,
  single_machine d = true -> plain_ids d = true ->
  validate vv_fixed d = Ok l -> no_fatal l = true -> wf_chartb d = true.
Proof. intros d l. apply validate_sound_lemma. exact vv_fixed_repaired. Qed.
Print Assumptions validate_sound.

(* the same for any variant with the five structural repairs, whatever getStates() and the id rule do *)
Theorem validate_sound_variants : forall v d l,
  repaired_structure v -> single_machine d = true -> plain_ids d = true ->
  validate v d = Ok l -> no_fatal l = true -> wf_chartb d = true.
Proof. exact validate_sound_lemma. Qed.
Print Assumptions validate_sound_variants.

(* refuted for the code as found, once per defect: a common <parallel> ancestor anywhere above two targets,
   the target set of <scxml initial>, <initial><transition/> without target, a state below <datamodel>,
   initial="" *)
Theorem validate_sound_pinned_refuted :
  accepted_not_wf vv_pinned wit_any_parallel /\ accepted_not_wf vv_pinned wit_root_initial /\
  accepted_not_wf vv_pinned wit_initial_no_target /\ accepted_not_wf vv_pinned wit_nesting /\
  accepted_not_wf vv_pinned wit_empty_initial.
Proof.
  repeat split; first [apply pinned_sound_refuted_any_parallel | apply pinned_sound_refuted_root_initial
                      | apply pinned_sound_refuted_initial_no_target | apply pinned_sound_refuted_nesting
                      | apply pinned_sound_refuted_empty_initial].
Qed.
Print Assumptions validate_sound_pinned_refuted.

(* ... and each of the five defects alone loses soundness *)
Theorem validate_sound_each_switch_refuted :
  accepted_not_wf {| vv_getstates_null := false; vv_any_parallel_ancestor := true; vv_root_initial_unchecked := false;
                     vv_initial_target_optional := false; vv_id_required := false; vv_nesting_warning_only := false;
                     vv_empty_initial_unchecked := false |} wit_any_parallel /\
  accepted_not_wf {| vv_getstates_null := false; vv_any_parallel_ancestor := false; vv_root_initial_unchecked := true;
                     vv_initial_target_optional := false; vv_id_required := false; vv_nesting_warning_only := false;
                     vv_empty_initial_unchecked := false |} wit_root_initial /\
  accepted_not_wf {| vv_getstates_null := false; vv_any_parallel_ancestor := false; vv_root_initial_unchecked := false;
                     vv_initial_target_optional := true; vv_id_required := false; vv_nesting_warning_only := false;
                     vv_empty_initial_unchecked := false |} wit_initial_no_target /\
  accepted_not_wf {| vv_getstates_null := false; vv_any_parallel_ancestor := false; vv_root_initial_unchecked := false;
                     vv_initial_target_optional := false; vv_id_required := false; vv_nesting_warning_only := true;
                     vv_empty_initial_unchecked := false |} wit_nesting /\
  accepted_not_wf {| vv_getstates_null := false; vv_any_parallel_ancestor := false; vv_root_initial_unchecked := false;
                     vv_initial_target_optional := false; vv_id_required := false; vv_nesting_warning_only := false;
                     vv_empty_initial_unchecked := true |} wit_empty_initial.
Proof. exact each_switch_matters. Qed.
Print Assumptions validate_sound_each_switch_refuted.

(* not part of wf_chartb and checked by neither variant: a document without any state is accepted *)
Theorem validate_accepts_stateless_document : validate vv_fixed (scxml_ []) = Ok [] /\ wf_root (scxml_ []) = false.
Proof. exact stateless_accepted. Qed.
Print Assumptions validate_accepts_stateless_document.

(* ---- completeness.  U: a document that satisfies the Recommendation's structural constraints on the
   modelled vocabulary (conformantb) is reported without FATAL issue by the repaired validator -- in fact
   wf_chartb, one machine and ids on states only suffice. *)
Theorem validate_complete : forall d, conformantb d = true -> exists l, validate vv_fixed d = Ok l /\ no_fatal l = true.
Proof. intros d. apply validate_complete_conformant; [exact vv_fixed_repaired|reflexivity|reflexivity]. Qed.
Print Assumptions validate_complete.

Theorem validate_complete_wf : forall d,
  single_machine d = true -> plain_ids d = true -> wf_chartb d = true ->
  exists l, validate vv_fixed d = Ok l /\ no_fatal l = true.
Proof. intros d. apply validate_complete_lemma; [exact vv_fixed_repaired|reflexivity|reflexivity]. Qed.
Print Assumptions validate_complete_wf.

(* refuted for the code as found: <scxml><state/></scxml> is conformant (ids are optional) and FATAL *)
Theorem validate_complete_pinned_refuted :
  conformantb wit_no_id = true /\ exists l, validate vv_pinned wit_no_id = Ok l /\ no_fatal l = false.
Proof. exact pinned_complete_refuted. Qed.
Print Assumptions validate_complete_pinned_refuted.

(* outside conformantb's single-machine restriction, refuted for either variant: an embedded document
   (<invoke><content><scxml>) shares the id space of its parent *)
Theorem validate_complete_embedded_refuted :
  conformantb (scxml_ [state_ s1 []]) = true /\
  conformantb (scxml_ [state_ s1 [GNode GOther no_attrs [GNode GOther no_attrs []]]]) = true /\
  exists l, validate vv_fixed wit_nested = Ok l /\ no_fatal l = false.
Proof. exact nested_machine_false_fatal. Qed.
Print Assumptions validate_complete_embedded_refuted.

(* the hypotheses are satisfiable by a document with parallel regions, both kinds of history, <initial>,
   an initial attribute naming a grand-child and an orthogonal multi-target *)
Theorem hypotheses_satisfiable :
  conformantb example_doc = true /\ exists l, validate vv_fixed example_doc = Ok l /\ no_fatal l = true.
Proof. split; [exact example_conformant|exact example_validates]. Qed.
Print Assumptions hypotheses_satisfiable.

(* ---- hasLegalCompletion.  U: in a single-machine document whose structural elements sit below legal
   parents, for every duplicate-free list of proper states (<state>, <parallel>, <final>, <scxml>) the
   repaired pairwise test accepts exactly when some legal configuration of the document (SCXML 1.0, 3.11:
   legal_cfg, the reading of Legal.legal_configb on the element tree) contains all of them.
   The witness configuration is the targets' ancestor closure completed by first children. *)
Theorem legal_completion_correct : forall d ts,
  wf_nesting d = true -> single_machine d = true -> g_tag d = GScxml ->
  nodup_el ts = true ->
  (forall t, In t ts -> In t (universe d) /\ is_proper_tag (e_tag t) = true) ->
  (has_legal_completion vv_fixed ts = true <->
   exists cfg, legal_cfg d cfg = true /\ forall t, In t ts -> in_cfg cfg (e_path t) = true).
Proof. exact legal_completion_correct_lemma. Qed.
Print Assumptions legal_completion_correct.

(* the repaired test is the pairwise "in ancestor relation, or the nearest common ancestor is a <parallel>" *)
Theorem legal_completion_is_pairwise_lca : forall l,
  has_legal_completion vv_fixed l = (length l <? 2) || pairwise_compatible l.
Proof. exact legal_completion_fixed_spec. Qed.
Print Assumptions legal_completion_is_pairwise_lca.

(* refuted for the code as found: target="s3 s4", two children of a compound state somewhere below a
   <parallel>, is accepted although no legal configuration contains both *)
Theorem legal_completion_pinned_refuted :
  has_legal_completion vv_pinned wit_ap_targets = true /\
  ~ exists cfg, legal_cfg wit_any_parallel cfg = true /\ forall t, In t wit_ap_targets -> in_cfg cfg (e_path t) = true.
Proof. exact legal_completion_pinned_refuted_lemma. Qed.
Print Assumptions legal_completion_pinned_refuted.

(* ---- syntax clause, relative to the datamodel: valid_stmt is DataModel::isValidSyntax (the text parses as
   statements), valid_expr "the datamodel accepts the text as an expression".  U for the repaired check
   (an expression is also tried as "return e"), for any datamodel in which "return e" and "foo = e" are
   statements whenever e is an expression. *)
Theorem no_syntax_warning_on_valid_expr : forall (valid_stmt valid_expr : bytes -> bool),
  (forall e, valid_expr e = true -> valid_stmt (return_sp ++ e) = true) ->
  (forall e, valid_expr e = true -> valid_stmt (foo_eq ++ e) = true) ->
  forall l, forallb (item_valid valid_stmt valid_expr) l = true -> syntax_warnings valid_stmt true l = [].
Proof. exact no_syntax_warning_on_valid_expr_lemma. Qed.
Print Assumptions no_syntax_warning_on_valid_expr.

(* refuted for the code as found under the recorded assumption "some expression is no statement"
   (Lua: the bare comparison x < 3): every such cond attribute is reported *)
Theorem no_syntax_warning_pinned_refuted : forall (valid_stmt valid_expr : bytes -> bool) e,
  valid_expr e = true -> valid_stmt e = false ->
  forallb (item_valid valid_stmt valid_expr) [SCond e] = true /\ syntax_warnings valid_stmt false [SCond e] <> [].
Proof. exact no_syntax_warning_pinned_refuted_lemma. Qed.
Print Assumptions no_syntax_warning_pinned_refuted.

(* wf_chartb's <initial> clause counts the transitions anywhere below the <initial> element, as the code does;
   in a document with wf_nesting these are its child transitions (U) *)
Theorem wf_initial_transitions_are_children : forall d i,
  wf_nesting d = true -> single_machine d = true -> In i (universe d) -> e_tag i = GInitial ->
  forall t, In t (with_tag GTransition (descendants i)) -> In t (kids_el i).
Proof. exact wf_initial_transitions_are_children_lemma. Qed.
Print Assumptions wf_initial_transitions_are_children.

(* validate_sound's side condition plain_ids cannot be dropped (either variant): an <initial id="s3"> shadows the
   state s3 in getState() and so in the scope check of a history's default transition *)
Theorem validate_sound_needs_plain_ids :
  single_machine wit_initial_id = true /\ plain_ids wit_initial_id = false /\
  exists l, validate vv_fixed wit_initial_id = Ok l /\ no_fatal l = true /\ wf_chartb wit_initial_id = false.
Proof. exact sound_needs_plain_ids. Qed.
Print Assumptions validate_sound_needs_plain_ids.
