(* Properties_C19.v -- property theorems only.  C19: validation verdicts are sound and do not reject
   valid charts; validation is total.  [validate v d] is the structural part of
   InterpreterIssue::forInterpreter (Validate.v) for the variant [v] of the code: [vv_pinned] is the
   code as found, [vv_fixed] the code with patches/C19-*.diff applied; the check reads the variant of the
   implementation under test off witness documents. *)
From V Require Import Base Validate ValidateLemmas ValidateLegal.

(* ---- totality.  U: for every element tree, the validator without the NULL of getStates() returns a list
   of issues: it neither dereferences a missing state nor runs out of the fuel of its two loops
   (getState's queue, getReachableStates' closure). *)
Theorem validate_total : forall v d, vv_getstates_null v = false -> exists l, validate v d = Ok l.
Proof. exact validate_total_lemma. Qed.
Print Assumptions validate_total.

(* no variant ever exhausts the fuel; the only other outcome is the crash of getReachableStates *)
Theorem validate_outcomes : forall v d,
  (exists l, validate v d = Ok l) \/ (validate v d = Crash 1 /\ vv_getstates_null v = true).
Proof. exact validate_outcome. Qed.
Print Assumptions validate_outcomes.

(* the code as found crashes: <scxml initial="s1"><state/></scxml> *)
Theorem validate_total_pinned_refuted : exists d w, validate vv_pinned d = Crash w.
Proof. exact validate_total_pinned_refuted_lemma. Qed.
Print Assumptions validate_total_pinned_refuted.

(* ---- soundness.  U: a single-machine document in which only states carry ids and for which the repaired
   validator reports no FATAL issue satisfies wf_chartb: unique non-empty ids, existing targets, initial
   attributes and <initial> transitions into descendants, one unconditional default transition per history
   to proper states (no <history>/<initial> element) in its scope, pairwise compatible target sets, structural
   elements below legal parents. *)
Theorem validate_sound : forall d l,
  single_machine d = true -> plain_ids d = true ->
  validate vv_fixed d = Ok l -> no_fatal l = true -> wf_chartb d = true.
Proof. intros d l. apply validate_sound_lemma. exact vv_fixed_repaired. Qed.
Print Assumptions validate_sound.

(* the same for any variant with the six structural repairs, whatever getStates() and the id rule do *)
Theorem validate_sound_variants : forall v d l,
  repaired_structure v -> single_machine d = true -> plain_ids d = true ->
  validate v d = Ok l -> no_fatal l = true -> wf_chartb d = true.
Proof. exact validate_sound_lemma. Qed.
Print Assumptions validate_sound_variants.

(* refuted for the code as found, once per defect: a common <parallel> ancestor anywhere above two targets,
   the target set of <scxml initial>, <initial><transition/> without target, a state below <datamodel>,
   initial="", a history whose default transition names the history itself *)
Theorem validate_sound_pinned_refuted :
  accepted_not_wf vv_pinned wit_any_parallel /\ accepted_not_wf vv_pinned wit_root_initial /\
  accepted_not_wf vv_pinned wit_initial_no_target /\ accepted_not_wf vv_pinned wit_nesting /\
  accepted_not_wf vv_pinned wit_empty_initial /\ accepted_not_wf vv_pinned wit_hist_self.
Proof.
  repeat split; first [apply pinned_sound_refuted_any_parallel | apply pinned_sound_refuted_root_initial
                      | apply pinned_sound_refuted_initial_no_target | apply pinned_sound_refuted_nesting
                      | apply pinned_sound_refuted_empty_initial | apply pinned_sound_refuted_hist_self].
Qed.
Print Assumptions validate_sound_pinned_refuted.

(* ... and each of the six defects alone loses soundness (vv_hist_unchecked: the repaired code without
   patches/C19-history-default-pseudo-target.diff) *)
Theorem validate_sound_each_switch_refuted :
  accepted_not_wf {| vv_getstates_null := false; vv_any_parallel_ancestor := true; vv_root_initial_unchecked := false;
                     vv_initial_target_optional := false; vv_id_required := false; vv_nesting_warning_only := false;
                     vv_empty_initial_unchecked := false; vv_hist_pseudo_target_unchecked := false |} wit_any_parallel /\
  accepted_not_wf {| vv_getstates_null := false; vv_any_parallel_ancestor := false; vv_root_initial_unchecked := true;
                     vv_initial_target_optional := false; vv_id_required := false; vv_nesting_warning_only := false;
                     vv_empty_initial_unchecked := false; vv_hist_pseudo_target_unchecked := false |} wit_root_initial /\
  accepted_not_wf {| vv_getstates_null := false; vv_any_parallel_ancestor := false; vv_root_initial_unchecked := false;
                     vv_initial_target_optional := true; vv_id_required := false; vv_nesting_warning_only := false;
                     vv_empty_initial_unchecked := false; vv_hist_pseudo_target_unchecked := false |} wit_initial_no_target /\
  accepted_not_wf {| vv_getstates_null := false; vv_any_parallel_ancestor := false; vv_root_initial_unchecked := false;
                     vv_initial_target_optional := false; vv_id_required := false; vv_nesting_warning_only := true;
                     vv_empty_initial_unchecked := false; vv_hist_pseudo_target_unchecked := false |} wit_nesting /\
  accepted_not_wf {| vv_getstates_null := false; vv_any_parallel_ancestor := false; vv_root_initial_unchecked := false;
                     vv_initial_target_optional := false; vv_id_required := false; vv_nesting_warning_only := false;
                     vv_empty_initial_unchecked := true; vv_hist_pseudo_target_unchecked := false |} wit_empty_initial /\
  accepted_not_wf vv_hist_unchecked wit_hist_self.
Proof. exact each_switch_matters. Qed.
Print Assumptions validate_sound_each_switch_refuted.

(* not part of wf_chartb and checked by neither variant: a document without any state is accepted *)
Theorem validate_accepts_stateless_document : validate vv_fixed (scxml_ []) = Ok [] /\ wf_root (scxml_ []) = false.
Proof. exact stateless_accepted. Qed.
Print Assumptions validate_accepts_stateless_document.

(* ---- completeness.  U: a document that satisfies the Recommendation's structural constraints on the
   modelled vocabulary (conformantb) is reported without FATAL issue by the repaired validator -- in fact
   wf_chartb, one machine and ids on states only suffice. *)
Theorem validate_complete : forall d, conformantb d = true -> exists l, validate vv_fixed d = Ok l /\ no_fatal l = true.
Proof. intros d. apply validate_complete_conformant; [exact vv_fixed_repaired|reflexivity|reflexivity]. Qed.
Print Assumptions validate_complete.

Theorem validate_complete_wf : forall d,
  single_machine d = true -> plain_ids d = true -> wf_chartb d = true ->
  exists l, validate vv_fixed d = Ok l /\ no_fatal l = true.
Proof. intros d. apply validate_complete_lemma; [exact vv_fixed_repaired|reflexivity|reflexivity]. Qed.
Print Assumptions validate_complete_wf.

(* refuted for the code as found: <scxml><state/></scxml> is conformant (ids are optional) and FATAL *)
Theorem validate_complete_pinned_refuted :
  conformantb wit_no_id = true /\ exists l, validate vv_pinned wit_no_id = Ok l /\ no_fatal l = false.
Proof. exact pinned_complete_refuted. Qed.
Print Assumptions validate_complete_pinned_refuted.

(* outside conformantb's single-machine restriction, refuted for either variant: an embedded document
   (<invoke><content><scxml>) shares the id space of its parent *)
Theorem validate_complete_embedded_refuted :
  conformantb (scxml_ [state_ s1 []]) = true /\
  conformantb (scxml_ [state_ s1 [GNode GOther no_attrs [GNode GOther no_attrs []]]]) = true /\
  exists l, validate vv_fixed wit_nested = Ok l /\ no_fatal l = false.
Proof. exact nested_machine_false_fatal. Qed.
Print Assumptions validate_complete_embedded_refuted.

(* the hypotheses are satisfiable by a document with parallel regions, both kinds of history, <initial>,
   an initial attribute naming a grand-child and an orthogonal multi-target *)
Theorem hypotheses_satisfiable :
  conformantb example_doc = true /\ exists l, validate vv_fixed example_doc = Ok l /\ no_fatal l = true.
Proof. split; [exact example_conformant|exact example_validates]. Qed.
Print Assumptions hypotheses_satisfiable.

(* ---- hasLegalCompletion.  U: in a single-machine document whose structural elements sit below legal
   parents, for every duplicate-free list of proper states (<state>, <parallel>, <final>, <scxml>) the
   repaired pairwise test accepts exactly when some legal configuration of the document (SCXML 1.0, 3.11:
   legal_cfg, the reading of Legal.legal_configb on the element tree) contains all of them.
   The witness configuration is the targets' ancestor closure completed by first children. *)
Theorem legal_completion_correct : forall d ts,
  wf_nesting d = true -> single_machine d = true -> g_tag d = GScxml ->
  nodup_el ts = true ->
  (forall t, In t ts -> In t (universe d) /\ is_proper_tag (e_tag t) = true) ->
  (has_legal_completion vv_fixed ts = true <->
   exists cfg, legal_cfg d cfg = true /\ forall t, In t ts -> in_cfg cfg (e_path t) = true).
Proof. exact legal_completion_correct_lemma. Qed.
Print Assumptions legal_completion_correct.

(* the repaired test is the pairwise "in ancestor relation, or the nearest common ancestor is a <parallel>" *)
Theorem legal_completion_is_pairwise_lca : forall l,
  has_legal_completion vv_fixed l = (length l <? 2) || pairwise_compatible l.
Proof. exact legal_completion_fixed_spec. Qed.
Print Assumptions legal_completion_is_pairwise_lca.

(* refuted for the code as found: target="s3 s4", two children of a compound state somewhere below a
   <parallel>, is accepted although no legal configuration contains both *)
Theorem legal_completion_pinned_refuted :
  has_legal_completion vv_pinned wit_ap_targets = true /\
  ~ exists cfg, legal_cfg wit_any_parallel cfg = true /\ forall t, In t wit_ap_targets -> in_cfg cfg (e_path t) = true.
Proof. exact legal_completion_pinned_refuted_lemma. Qed.
Print Assumptions legal_completion_pinned_refuted.

(* ---- syntax clause, relative to the datamodel: valid_stmt is DataModel::isValidSyntax (the text parses as
   statements), valid_expr "the datamodel accepts the text as an expression".  U for the repaired check
   (an expression is also tried as "return e"), for any datamodel in which "return e" and "foo = e" are
   statements whenever e is an expression. *)
Theorem no_syntax_warning_on_valid_expr : forall (valid_stmt valid_expr : bytes -> bool),
  (forall e, valid_expr e = true -> valid_stmt (return_sp ++ e) = true) ->
  (forall e, valid_expr e = true -> valid_stmt (foo_eq ++ e) = true) ->
  forall l, forallb (item_valid valid_stmt valid_expr) l = true -> syntax_warnings valid_stmt true l = [].
Proof. exact no_syntax_warning_on_valid_expr_lemma. Qed.
Print Assumptions no_syntax_warning_on_valid_expr.

(* refuted for the code as found under the recorded assumption "some expression is no statement"
   (Lua: the bare comparison x < 3): every such cond attribute is reported *)
Theorem no_syntax_warning_pinned_refuted : forall (valid_stmt valid_expr : bytes -> bool) e,
  valid_expr e = true -> valid_stmt e = false ->
  forallb (item_valid valid_stmt valid_expr) [SCond e] = true /\ syntax_warnings valid_stmt false [SCond e] <> [].
Proof. exact no_syntax_warning_pinned_refuted_lemma. Qed.
Print Assumptions no_syntax_warning_pinned_refuted.

(* wf_chartb's <initial> clause counts the transitions anywhere below the <initial> element, as the code does;
   in a document with wf_nesting these are its child transitions (U) *)
Theorem wf_initial_transitions_are_children : forall d i,
  wf_nesting d = true -> single_machine d = true -> In i (universe d) -> e_tag i = GInitial ->
  forall t, In t (with_tag GTransition (descendants i)) -> In t (kids_el i).
Proof. exact wf_initial_transitions_are_children_lemma. Qed.
Print Assumptions wf_initial_transitions_are_children.

(* validate_sound's side condition plain_ids cannot be dropped as long as pseudo-state targets of a history's default
   transition are not reported (vv_pinned, vv_hist_unchecked): an <initial id="s3"> shadows the state s3 in getState()
   and so in the scope check of a history's default transition.  With the check IHistPseudoTarget (vv_fixed) this
   witness is reported; whether plain_ids is still necessary there is open (the proof of validate_sound uses it). *)
Theorem validate_sound_needs_plain_ids :
  single_machine wit_initial_id = true /\ plain_ids wit_initial_id = false /\
  exists l, validate vv_hist_unchecked wit_initial_id = Ok l /\ no_fatal l = true /\ wf_chartb wit_initial_id = false.
Proof. exact sound_needs_plain_ids. Qed.
Print Assumptions validate_sound_needs_plain_ids.
Theorem validate_reports_initial_id_witness : exists l, validate vv_fixed wit_initial_id = Ok l /\ no_fatal l = false.
Proof. exact initial_id_rejected. Qed.
Print Assumptions validate_reports_initial_id_witness.

(* the repaired validator reports a history whose default transition names the history itself *)
Theorem validate_reports_history_default_to_history : exists l, validate vv_fixed wit_hist_self = Ok l /\ no_fatal l = false.
Proof. exact hist_self_rejected. Qed.
Print Assumptions validate_reports_history_default_to_history.

(* ===================== work package `val`: from the validator's verdict to legal runs ===================== *)
From V Require Import Chart Exec Large Fast Interp Legal LegalRun LegalHistRun LegalHistWf LegalHistFastRun FlattenWf FlattenWfRun LegalOracle LegalHistOracle.
From V Require Import ValidateBridge ValidateBridgeClauses ValidateBridgeRun.

(* THE BRIDGE.  gdoc_of_tree (ValidateBridge.v) renders a document of the reference fragment (Chart.tree, the input of
   Chart.flatten, i.e. of LargeMicroStep::init, and so of both engine models) as the generic element tree the
   validator model reads -- the rendering of tools/chartgen.py to_scxml followed by the reading of
   tools/props/c19.py (ids "s<n>", <scxml>/<initial> without id, initial/target attributes as written, children in
   the order datamodel, onentry, onexit, transition, states).  Until here nothing connected `validate` with the
   legality theorems of C02.

   WHAT: validated_tree_facts.  For EVERY document tree t whose root is the only <scxml> element (vb_docb) and in
   which the numbers of the elements rendered without id do not clash with other numbers (vb_hidden_freshb; a
   condition on the tree type, the text has no such ids): if the repaired validator reports no FATAL issue for the
   rendering of t, then t satisfies the record VTree (ValidateBridge.v), each field from one group of checks:
     vt_nest      (INesting)  every child element sits below a parent the schema allows;
     vt_unique    (IDuplicate)  the ids are pairwise different;
     vt_targets   (ITransEmptyTargets, ITransNoSuchTarget, IIllegalTargets)  a target attribute lists >= 1 ids of
                  elements, no two of them in different children of a <state>/<scxml> (FlattenWf.target_set_okb);
     vt_initattr  (IInitAttrEmpty, IInitAttrInvalid, IInitAttrNonChild, IIllegalTargets)  the same for `initial`
                  attributes, the ids being ids of descendants;
     vt_initial   (IInitialNotOneTrans, IInitTransCond/Event/NoTarget/NonChild)  <initial> has one transition, no
                  cond, no event, targets below the parent;
     vt_history   (IHistMulti/None/Cond/Event/NoTarget/DeepIllegal/ShallowIllegal)  <history> has one default
                  transition, no cond, no event, targets children (shallow) / descendants (deep) of the parent.
   NOT COVERED: the code as found (vv_pinned), where validate_sound is refuted. *)
Theorem validated_tree_facts : forall t l,
  vb_docb t = true -> vb_hidden_freshb t = true ->
  validate vv_fixed (gdoc_of_tree t) = Ok l -> no_fatal l = true -> VTree t.
Proof. exact validated_tree_lemma. Qed.
Print Assumptions validated_tree_facts.

(* WHAT: the flat tables of a validated document pass the check wf_histb of the C02 legality theorems, and the root is
   a compound state -- for every document tree with <initial> elements, deep/multiple initial attributes and
   shallow/deep histories, early and late binding.
   SIDE CONDITIONS (boolean, on the tree; vb_sideb is their conjunction), NONE of which follows from a clean
   validation -- for each a validated document without it that reaches an illegal configuration, or (last two)
   the limit of wf_histb:
     ct_rootb            the root has a child state                       (root_child_needed_refuted)
     vb_hist_disjointb   no state below the parent of a deep history owns a history: known finding C02-K1
                                                                          (validation_accepts_C02_K1_refuted)
     vb_hist_parentb     no <history> directly below <parallel>           (outside wf_histb, no illegal run known)
     vb_initial_properb  the transition of <initial> names proper states  (outside wf_histb, no illegal run known)
   and vb_docb / vb_hidden_freshb as above (document_conditions_needed_refuted).
   NO LONGER a side condition: "the default transition of a <history> names proper states" (vb_default_properb) --
   it follows from validation since the check IHistPseudoTarget of patches/C19-history-default-pseudo-target.diff
   (validated_default_transitions_proper); without that check it was needed
   (validation_accepts_history_default_to_history_refuted). *)
Theorem validated_document_tables_wf : forall t l,
  vb_docb t = true -> vb_hidden_freshb t = true ->
  validate vv_fixed (gdoc_of_tree t) = Ok l -> no_fatal l = true -> vb_sideb t = true ->
  forall late, wf_histb (flatten late t) = true /\ fs_type (st (flatten late t) 0) = FCompound.
Proof. intros t l Hd Hf Hv Hn. apply validated_wf_hist_lemma; [exact Hd | exact Hf | now exists l]. Qed.
Print Assumptions validated_document_tables_wf.

(* WHAT (C19, "no fatal issue => never an illegal configuration", large-step engine): after initialisation and after
   every microstep of EVERY run -- all event histories, all datamodel variants xv, any number of steps, early and late
   binding -- of the model of LargeMicroStep::step on a validated document the configuration is legal.
   FOR WHICH DOCUMENTS: as validated_document_tables_wf.  NOT COVERED: documents outside the side conditions (where the
   statement is false, see the _refuted theorems, or unknown: history below <parallel>, <initial> to a history);
   the generated C; invoked sessions. *)
Theorem validated_document_run_always_legal : forall t l,
  vb_docb t = true -> vb_hidden_freshb t = true ->
  validate vv_fixed (gdoc_of_tree t) = Ok l -> no_fatal l = true -> vb_sideb t = true ->
  forall late xv fuel evs,
    let c := flatten late t in
    CfgOK c (fst (run_loop c lstate (large_step lg_fixed xv c) l_cfg fuel l_pristine x_init evs)).
Proof. intros t l Hd Hf Hv Hn. apply validated_run_legal_lemma; [exact Hd | exact Hf | now exists l]. Qed.
Print Assumptions validated_document_run_always_legal.

(* WHAT: the same for the model Fast.v of FastMicroStep::step (repaired code). *)
Theorem validated_document_run_always_legal_fast : forall t l,
  vb_docb t = true -> vb_hidden_freshb t = true ->
  validate vv_fixed (gdoc_of_tree t) = Ok l -> no_fatal l = true -> vb_sideb t = true ->
  forall late xv fuel evs,
    let c := flatten late t in
    CfgOK c (fst (run_loop c lstate (fast_step xv c) l_cfg fuel l_pristine x_init evs)).
Proof. intros t l Hd Hf Hv Hn. apply validated_run_legal_fast_lemma; [exact Hd | exact Hf | now exists l]. Qed.
Print Assumptions validated_document_run_always_legal_fast.

(* WHAT: the invariant form, both engines: legal configuration of proper states AND usable history record (CfgOKH),
   preserved by one step() from any such state. *)
Theorem validated_document_microstep_preserves_legal : forall t l,
  vb_docb t = true -> vb_hidden_freshb t = true ->
  validate vv_fixed (gdoc_of_tree t) = Ok l -> no_fatal l = true -> vb_sideb t = true ->
  forall late xv, let c := flatten late t in
    (forall s x, CfgOKH c s -> CfgOKH c (fst (fst (large_step lg_fixed xv c s x)))) /\
    (forall s x, CfgOKH c s -> CfgOKH c (fst (fst (fast_step xv c s x)))).
Proof. intros t l Hd Hf Hv Hn. apply validated_step_legal_lemma; [exact Hd | exact Hf | now exists l]. Qed.
Print Assumptions validated_document_microstep_preserves_legal.

(* WHAT: the stage without pseudo-states (ct_kindsb: only <scxml>/<state>/<parallel>/<final>): the only side condition
   left is "the root has a child state"; the tables pass wf_initb (the reach of run_always_legal_initial). *)
Theorem validated_core_document_tables_wf : forall t l,
  ct_kindsb t = true -> vb_docb t = true -> vb_hidden_freshb t = true ->
  validate vv_fixed (gdoc_of_tree t) = Ok l -> no_fatal l = true -> ct_rootb t = true ->
  forall late, wf_initb (flatten late t) = true /\ fs_type (st (flatten late t) 0) = FCompound.
Proof. intros t l K Hd Hf Hv Hn. apply validated_core_wf_init_lemma; [exact K | exact Hd | exact Hf | now exists l]. Qed.
Print Assumptions validated_core_document_tables_wf.

(* WHAT: validation against the document-level core predicate core_treeb of C02 (FlattenWf.v).  A clean validation gives
   the clauses ct_uniqueb, ct_no_root_targetb, ct_target_setsb, and for `initial` attributes: non-empty, ids of
   descendants, legal target set.  It does NOT give ct_initialb ("names ONE CHILD"): the validator accepts deep and
   multiple initial attributes (validation_does_not_give_core_initial_refuted), which are outside the core and inside
   wf_initb.  With ct_rootb and ct_initialb added, core_treeb holds. *)
Theorem validated_core_document_is_wf_partial : forall t l,
  vb_docb t = true -> vb_hidden_freshb t = true ->
  validate vv_fixed (gdoc_of_tree t) = Ok l -> no_fatal l = true ->
  ct_uniqueb t = true /\ ct_no_root_targetb t = true /\ ct_target_setsb t = true /\
  (forall u ids, In u (subtrees t) -> t_kind u <> KInitial -> t_initattr u = Some ids ->
     ids <> [] /\ (forall s, In s ids -> In s (vsids_below u)) /\ target_set_okb t ids = true) /\
  (ct_kindsb t = true -> ct_rootb t = true -> ct_initialb t = true -> core_treeb t = true).
Proof.
  intros t l Hd Hf Hv Hn. assert (V : validated t) by (now exists l).
  destruct (validated_core_clauses_lemma t Hd Hf V) as (A & B & C & D).
  split; [exact A|]. split; [exact B|]. split; [exact C|]. split; [exact D|].
  intros K R I. now apply validated_core_treeb_lemma.
Qed.
Print Assumptions validated_core_document_is_wf_partial.

Theorem validation_does_not_give_core_initial_refuted :
  exists t, ct_kindsb t = true /\ side_clauses t = [true; true; true; true; true; true; true] /\ validatedb t = true /\
            ct_initialb t = false /\ core_treeb t = false /\ wf_initb (flatten false t) = true.
Proof. exact core_initial_not_validated_refuted. Qed.
Print Assumptions validation_does_not_give_core_initial_refuted.

(* ---- the side conditions cannot be dropped: `breaks_v v t clauses evs` = the validator variant v reports no fatal
   issue for t, the conditions [vb_docb; vb_hidden_freshb; ct_rootb; vb_hist_parentb; vb_default_properb;
   vb_initial_properb; vb_hist_disjointb] have the listed values, and the run of BOTH engine models on evs ends in a
   configuration the oracle legal_configb rejects; `breaks` = `breaks_v vv_fixed`. *)

(* THE CONNECTION C02-K1 / C19: the document of known finding C02-K1 (kho_tree: s6{deep history h10, s7{shallow
   history h11, s8}}) IS ACCEPTED by the validator, meets every other side condition, and on event e both engines
   end in {scxml, s6, s8} -- s8 active without its parent s7.  So "no fatal issue => no illegal configuration" is false
   of the implementation as long as C02-K1 stands; the validator has no check on overlapping histories. *)
Theorem validation_accepts_C02_K1_refuted : breaks kho_tree [true; true; true; true; true; true; false] [[101%N]].
Proof. exact hist_disjoint_needed_refuted. Qed.
Print Assumptions validation_accepts_C02_K1_refuted.

(* FINDING against the validator WITHOUT patches/C19-history-default-pseudo-target.diff (variant vv_hist_unchecked):
   <state id="s1"><history id="s2"><transition target="s2"/></history><state id="s3"><transition event="e" target="s2"/>
   </state></state> is accepted (the scope check of a history's default transition only asks for a child of the
   parent, a <history> qualifies); on e both engines end in {scxml, s1}: the compound state s1 without an active
   child.  Likewise two histories naming each other.  The repaired validator (vv_fixed) reports both documents. *)
Theorem validation_accepts_history_default_to_history_refuted :
  (breaks_v vv_hist_unchecked w_hist_self [true; true; true; true; false; true; true] [[101%N]] /\ validatedb w_hist_self = false) /\
  (breaks_v vv_hist_unchecked w_hist_cycle [true; true; true; true; false; true; true] [[101%N]] /\ validatedb w_hist_cycle = false).
Proof. split; [exact default_proper_needed_refuted | exact default_proper_needed_cycle_refuted]. Qed.
Print Assumptions validation_accepts_history_default_to_history_refuted.

(* WHAT: the former side condition follows from a clean validation by the repaired validator: in every validated
   document the default transition of every <history> names proper states below the history's parent. *)
Theorem validated_default_transitions_proper : forall t l,
  vb_docb t = true -> vb_hidden_freshb t = true ->
  validate vv_fixed (gdoc_of_tree t) = Ok l -> no_fatal l = true -> vb_default_properb t = true.
Proof. intros t l Hd Hf Hv Hn. apply validated_default_proper_lemma; [exact Hd | exact Hf | now exists l]. Qed.
Print Assumptions validated_default_transitions_proper.

(* a document without any state is accepted (validate_accepts_stateless_document); its run is initialised with an
   empty configuration *)
Theorem root_child_needed_refuted : breaks w_stateless [true; true; false; true; true; true; true] [].
Proof. exact ValidateBridgeRun.root_child_needed_refuted. Qed.
Print Assumptions root_child_needed_refuted.

(* the two conditions on the tree as a model of the text: a nested <scxml> element (its initial attribute is not
   checked); an <initial> element whose number in the tree equals the number of a state (flatten resolves a target to
   the <initial> element, the text has no such id) *)
Theorem document_conditions_needed_refuted :
  breaks w_nested_scxml [false; true; true; true; true; true; true] [] /\
  breaks w_hidden_clash [true; false; true; true; true; true; true] [[101%N]].
Proof. split; [exact doc_needed_refuted | exact hidden_fresh_needed_refuted]. Qed.
Print Assumptions document_conditions_needed_refuted.

(* the two side conditions that are limits of wf_histb, not of the engines as far as known: the witnesses are validated,
   fail only that condition and wf_histb, and the sample runs end in legal configurations *)
Theorem limits_of_the_legality_theorem :
  validatedb w_hist_in_parallel = true /\ side_clauses w_hist_in_parallel = [true; true; true; false; true; true; true] /\
  wf_histb (flatten false w_hist_in_parallel) = false /\
  legal_configb (flatten false w_hist_in_parallel) (final_cfg_large w_hist_in_parallel [[103%N]; [102%N]; [101%N]] 30) = true /\
  validatedb w_initial_to_hist = true /\ side_clauses w_initial_to_hist = [true; true; true; true; true; false; true] /\
  wf_histb (flatten false w_initial_to_hist) = false /\
  legal_configb (flatten false w_initial_to_hist) (final_cfg_large w_initial_to_hist [[101%N]; [102%N]; [103%N]] 30) = true.
Proof. exact limits_outside_wf_hist. Qed.
Print Assumptions limits_of_the_legality_theorem.

(* non-vacuity: documents with <initial>, deep and multiple initial attributes, nested parallel regions (hini_tree,
   ex_tree2, ex_tree), with deep and shallow histories (hh_tree, h2_tree, fd_tree) are reported without fatal issue
   and meet every side condition *)
Theorem validated_hypotheses_satisfiable :
  forallb (fun t => validatedb t && forallb (fun b => b) (side_clauses t))
          [hini_tree; hh_tree; h2_tree; ex_tree2; ex_tree; fd_tree] = true.
Proof. exact hypotheses_hold. Qed.
Print Assumptions validated_hypotheses_satisfiable.
