(* Properties_C07.v -- property theorems only.  C07: errors become error events, never crashes.
   The theorems are about Exec.v (the model of BasicContentExecutor::process / processIf and
   InterpreterImpl::isTrue, repaired variant) for every element tree, every datamodel state and every
   queue content.  That the implementation follows this model is the correspondence of the check;
   memory safety of the C++ is outside the model. *)
From V Require Import Base NameMatch Chart Exec Large LargeLemmas TraceLemmas ExecLemmas ExecFaults ExecFaultsLemmas.

(* an element without children (raise, send, log, assign) that fails enqueues exactly one platform error
   event; one that succeeds enqueues none *)
Theorem one_error_per_failure : forall inst i x,
  leaf i = true ->
  let '(ok, x') := exec_instr ex_fixed inst i x in
  n_plat x' = (n_plat x + if ok then 0 else 1)%nat.
Proof. exact leaf_one_error_lemma. Qed.
Print Assumptions one_error_per_failure.

(* any element, including nested <if>: if it does not complete, at least one more platform error event is
   in the internal queue than before *)
Theorem failure_raises_error : forall inst i y,
  fst (exec_instr ex_fixed inst i y) = false ->
  (n_plat y < n_plat (snd (exec_instr ex_fixed inst i y)))%nat.
Proof. exact exec_instr_fail_raises. Qed.
Print Assumptions failure_raises_error.

(* a failing element ends its block: the remainder of that block is skipped ... *)
Theorem rest_of_block_skipped : forall inst a b x,
  fst (exec_block_ok inst a x) = false ->
  exec_block ex_fixed inst (a ++ b) x = exec_block ex_fixed inst a x.
Proof. exact rest_of_block_skipped_lemma. Qed.
Print Assumptions rest_of_block_skipped.

(* ... and only that: without a failure the remainder runs from the state the prefix left, and the next
   block of the same handler runs in either case (exec_blocks is a fold over the blocks) *)
Theorem block_continues : forall inst a b x,
  fst (exec_block_ok inst a x) = true ->
  exec_block ex_fixed inst (a ++ b) x = exec_block ex_fixed inst b (exec_block ex_fixed inst a x).
Proof. exact block_continues_lemma. Qed.
Print Assumptions block_continues.

Theorem next_block_runs : forall inst b bs x,
  exec_blocks ex_fixed inst (b :: bs) x = exec_blocks ex_fixed inst bs (exec_block ex_fixed inst b x).
Proof. reflexivity. Qed.
Print Assumptions next_block_runs.

(* error order: events already in the internal queue keep their place; whatever a block enqueues (error
   events and raised events alike) is appended behind them in the order of occurrence *)
Theorem error_order : forall inst b x, iq_extends x (exec_block ex_fixed inst b x).
Proof. exact exec_block_iq. Qed.
Print Assumptions error_order.

(* the interpreter keeps running: FINISHED is only reached through the completion step *)
Theorem finished_is_absorbing :
  forall v xv c l x, l_fin l = true -> large_step v xv c l x = (l, x, RC_FINISHED).
Proof. exact large_step_finished_absorbing. Qed.
Print Assumptions finished_is_absorbing.

(* C07, evaluation sites outside Exec.v -- text to append to coq/props/Properties_C07.v.
   1. extend the import line of Properties_C07.v to
        From V Require Import Base NameMatch Chart Exec Large LargeLemmas TraceLemmas ExecLemmas ExecFaults ExecFaultsLemmas.
   2. append everything below.  All twelve theorems print "Closed under the global context"
      (checked with coqc -R /verif/coq V on a copy, Coq 8.16.1). *)

(* ---- evaluation sites outside Exec.v (ExecFaults.v): <finalize>, <donedata>, <param>/<content expr> of <send>,
   undeliverable events (immediately and from the timer thread), <invoke> arguments, setEvent at the dequeues.
   [fx_fixed] is the code with the C07 repairs, [fx_pinned] the code before them. *)

(* no action of the repaired interpreter lets an exception out of step() or out of the timer thread: for every
   environment, every block / expression result / target, every state whose queues hold no unevaluated expression *)
Theorem fault_sites_never_escape : forall env inst a st,
  no_lazy st -> fst (do_action fx_fixed env inst a st) <> Escaped.
Proof. exact do_action_never_escapes. Qed.
Print Assumptions fault_sites_never_escape.

(* ... the invariant holds initially and is kept, so it holds for every sequence of actions of any length *)
Theorem fault_runs_never_escape : forall env inst l,
  fst (run fx_fixed env inst l fstate0) <> Escaped /\ no_lazy (snd (run fx_fixed env inst l fstate0)).
Proof. exact runs_from_start. Qed.
Print Assumptions fault_runs_never_escape.

(* every failing evaluation / undeliverable event / failing block ends as (at least) one more platform error event
   in the internal queue, and the action reports it *)
Theorem fault_site_failure_raises_error : forall env inst a st,
  no_lazy st -> fails env inst a st = true ->
  fst (do_action fx_fixed env inst a st) = ErrRaised /\
  (n_err st < n_err (snd (do_action fx_fixed env inst a st)))%nat.
Proof. exact do_action_failure_raises. Qed.
Print Assumptions fault_site_failure_raises_error.

(* per site *)
Theorem finalize_never_escapes : forall env inst b st,
  no_lazy st -> fst (do_action fx_fixed env inst (ADequeueExt (Some b)) st) <> Escaped.
Proof. exact finalize_fixed. Qed.
Print Assumptions finalize_never_escapes.

Theorem send_content_never_escapes : forall env inst name t params content fin st,
  no_lazy st ->
  fst (run fx_fixed env inst [ASend name t params content; ADequeueExt fin] st) <> Escaped /\
  fst (run fx_fixed env inst [ASend name t params content; ADequeueInt] st) <> Escaped.
Proof. exact send_content_fixed. Qed.
Print Assumptions send_content_never_escapes.

Theorem donedata_never_escapes : forall env inst sid params content st,
  no_lazy st -> fst (run fx_fixed env inst [ADone sid params content; ADequeueInt] st) <> Escaped.
Proof. exact donedata_fixed. Qed.
Print Assumptions donedata_never_escapes.

Theorem timer_never_escapes : forall env inst k st,
  no_lazy st -> fst (do_action fx_fixed env inst (ATimer k) st) <> Escaped.
Proof. exact timer_fixed. Qed.
Print Assumptions timer_never_escapes.

(* the pinned behaviour, one witness per confirmed defect *)
Theorem finalize_never_escapes_refuted : exists env inst l, fst (run fx_pinned env inst l fstate0) = Escaped /\
  l = [ASend ev_x TSelf [] None; ADequeueExt (Some bad_assign)].
Proof. exact finalize_pinned_escapes. Qed.
Print Assumptions finalize_never_escapes_refuted.

Theorem send_content_never_escapes_refuted : exists env inst c,
  fst (do_action fx_pinned env inst (ASend ev_x TSelf [] (Some c)) fstate0) = Ok /\
  n_err (snd (do_action fx_pinned env inst (ASend ev_x TSelf [] (Some c)) fstate0)) = O /\
  fst (run fx_pinned env inst [ASend ev_x TSelf [] (Some c); ADequeueExt None] fstate0) = Escaped.
Proof. exact send_content_pinned_escapes. Qed.
Print Assumptions send_content_never_escapes_refuted.

Theorem donedata_never_escapes_refuted : exists env inst sid c,
  fst (run fx_pinned env inst [ADone sid [] (Some c); ADequeueInt] fstate0) = Escaped.
Proof. exact donedata_pinned_escapes. Qed.
Print Assumptions donedata_never_escapes_refuted.

Theorem timer_never_escapes_refuted : exists env inst t,
  fst (run fx_pinned env inst [ADelayedSend ev_x t [] None; ATimer 0] fstate0) = Escaped.
Proof. exact timer_pinned_escapes. Qed.
Print Assumptions timer_never_escapes_refuted.

Theorem invoke_failure_raises_error_refuted : exists env inst a st,
  no_lazy st /\ fails env inst a st = true /\ do_action fx_pinned env inst a st = (Ok, st).
Proof. exact invoke_pinned_loses_error. Qed.
Print Assumptions invoke_failure_raises_error_refuted.
