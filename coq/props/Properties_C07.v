(* Properties_C07.v -- property theorems only.  C07: errors become error events, never crashes.
   The theorems are about Exec.v (the model of BasicContentExecutor::process / processIf and
   InterpreterImpl::isTrue, repaired variant) for every element tree, every datamodel state and every
   queue content.  That the implementation follows this model is the correspondence of the check;
   memory safety of the C++ is outside the model. *)
From V Require Import Base NameMatch Chart Exec Large LargeLemmas TraceLemmas ExecLemmas.

(* an element without children (raise, send, log, assign) that fails enqueues exactly one platform error
   event; one that succeeds enqueues none *)
Theorem one_error_per_failure : forall inst i x,
  leaf i = true ->
  let '(ok, x') := exec_instr ex_fixed inst i x in
  n_plat x' = (n_plat x + if ok then 0 else 1)%nat.
Proof. exact leaf_one_error_lemma. Qed.
Print Assumptions one_error_per_failure.

(* any element, including nested <if>: if it does not complete, at least one more platform error event is
   in the internal queue than before *)
Theorem failure_raises_error : forall inst i y,
  fst (exec_instr ex_fixed inst i y) = false ->
  (n_plat y < n_plat (snd (exec_instr ex_fixed inst i y)))%nat.
Proof. exact exec_instr_fail_raises. Qed.
Print Assumptions failure_raises_error.

(* a failing element ends its block: the remainder of that block is skipped ... *)
Theorem rest_of_block_skipped : forall inst a b x,
  fst (exec_block_ok inst a x) = false ->
  exec_block ex_fixed inst (a ++ b) x = exec_block ex_fixed inst a x.
Proof. exact rest_of_block_skipped_lemma. Qed.
Print Assumptions rest_of_block_skipped.

(* ... and only that: without a failure the remainder runs from the state the prefix left, and the next
   block of the same handler runs in either case (exec_blocks is a fold over the blocks) *)
Theorem block_continues : forall inst a b x,
  fst (exec_block_ok inst a x) = true ->
  exec_block ex_fixed inst (a ++ b) x = exec_block ex_fixed inst b (exec_block ex_fixed inst a x).
Proof. exact block_continues_lemma. Qed.
Print Assumptions block_continues.

Theorem next_block_runs : forall inst b bs x,
  exec_blocks ex_fixed inst (b :: bs) x = exec_blocks ex_fixed inst bs (exec_block ex_fixed inst b x).
Proof. reflexivity. Qed.
Print Assumptions next_block_runs.

(* error order: events already in the internal queue keep their place; whatever a block enqueues (error
   events and raised events alike) is appended behind them in the order of occurrence *)
Theorem error_order : forall inst b x, iq_extends x (exec_block ex_fixed inst b x).
Proof. exact exec_block_iq. Qed.
Print Assumptions error_order.

(* the interpreter keeps running: FINISHED is only reached through the completion step *)
Theorem finished_is_absorbing :
  forall v xv c l x, l_fin l = true -> large_step v xv c l x = (l, x, RC_FINISHED).
Proof. exact large_step_finished_absorbing. Qed.
Print Assumptions finished_is_absorbing.
