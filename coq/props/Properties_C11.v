(* Properties_C11.v -- property theorems only.  C11: invoked sessions start, communicate and stop as
   specified.  All statements are about the model of Invoke.v; [reachable W s] ranges over every
   interleaving, of any length, of the parent's and the invoked session's threads. *)
From V Require Import Base Invoke InvokeLemmas.

(* U: done.invoke is enqueued at the parent at most once per invocation *)
Theorem done_invoke_at_most_once : forall W s, reachable W s -> count_done (pq s) <= 1.
Proof. exact done_at_most_once_lemma. Qed.
Print Assumptions done_invoke_at_most_once.

(* U: ... only if the child reached a top-level final state on its own (never for a cancelled child);
   once the child's thread has ended: exactly once iff it finished on its own and its read of
   _isActive (c2) preceded uninvoke's write (u1); always when the parent had not begun to cancel. *)
Theorem done_invoke_iff_finished_alone : forall W s, reachable W s ->
  (count_done (pq s) = 1 -> fin_alone s = true /\ c2_saw s = Some true) /\
  (fin_alone s = false -> count_done (pq s) = 0) /\
  (cp s = CEnd -> (count_done (pq s) = 1 <-> (fin_alone s = true /\ c2_saw s <> Some false))) /\
  (cp s = CEnd -> pp s = PRun -> count_done (pq s) = 1 /\ fin_alone s = true).
Proof.
  intros W s R. split; [|split; [|split]].
  - apply (done_only_if_finished_alone_lemma W); auto.
  - apply (cancelled_child_never_done_lemma W); auto.
  - apply (done_iff_lemma W); auto.
  - apply (done_if_not_cancelled_lemma W); auto.
Qed.
Print Assumptions done_invoke_iff_finished_alone.

(* the literal reading "finished on its own => done.invoke" is false of the code: witness schedule
   invoke; child's last step; u1; c2 (reads false); c4 *)
Theorem done_invoke_iff_finished_alone_strict_refuted : forall W,
  exists s, reachable W s /\ cp s = CEnd /\ fin_alone s = true /\ count_done (pq s) = 0.
Proof. exact done_iff_strict_refuted_lemma. Qed.
Print Assumptions done_invoke_iff_finished_alone_strict_refuted.

(* U (join-based): after uninvoke returned the child performs no step and nothing reaches the parent *)
Theorem no_send_after_cancel_returns : forall W s, reachable W s -> pp s = PRet ->
  cp s = CEnd /\ (forall l, istep W s l = None) /\ pq_at_ret s = Some (length (pq s)).
Proof. exact no_step_after_return_lemma. Qed.
Print Assumptions no_send_after_cancel_returns.

(* ... but between the begin and the return of uninvoke an event of the cancelled child can still be
   inserted into the parent's external queue (the Recommendation, 6.4, forbids that) *)
Theorem no_event_after_uninvoke_begins_refuted : forall W,
  exists s s', reachable W s /\ past_unblock (pp s) = true /\ istep W s LEnqDone = Some s' /\
               length (pq s') = S (length (pq s)).
Proof. exact event_after_uninvoke_begun_refuted_lemma. Qed.
Print Assumptions no_event_after_uninvoke_begins_refuted.

(* U: no reachable state has an unfinished thread and no enabled step; while the parent waits in join
   the child can move, and each such move decreases a measure (macrosteps of the child have at most W
   microsteps) -- the join returns *)
Theorem invoke_no_deadlock : forall W s, reachable W s ->
  ((pp s = PRet /\ cp s = CEnd) \/ exists l s', istep W s l = Some s') /\
  (pp s = PU4 -> cp s <> CEnd -> child_can_move W s) /\
  (pp s = PU4 -> forall l s', istep W s l = Some s' -> pp s' = PRet \/ (pp s' = PU4 /\ mu W s' < mu W s)).
Proof.
  intros W s R. split; [|split].
  - apply (no_deadlock_lemma W); auto.
  - apply (join_never_blocks_forever_lemma W); auto.
  - intros Hp l s' H. eapply join_wait_decreases_lemma; eauto.
Qed.
Print Assumptions invoke_no_deadlock.

(* U: the child's events arrive at the parent in send order, each once; done.invoke is the last *)
Theorem child_events_in_send_order : forall W s, reachable W s ->
  msgs (pq s) = seq 0 (nsent s) /\ (forall a b, pq s = a ++ PDone :: b -> b = []).
Proof. exact child_sends_in_order_lemma. Qed.
Print Assumptions child_events_in_send_order.

(* ---------------------------------------------------------------------------------------------- *)
(* U: bookkeeping.  For every sequence of macrostep-end configurations (any length, any sets of states)
   and either engine: at the k-th macrostep end invoke is called exactly once for each state with
   <invoke> children that is active and was not active at the previous macrostep end (= is not in
   _invocations), uninvoke exactly once for each that was and is no longer, and for no other state. *)
Theorem invoke_bookkeeping : forall has_invoke cfgs, Forall (@NoDup nat) cfgs ->
  (let tr := fst (bk_run (large_macro_end has_invoke) cfgs []) in
   length tr = length cfgs /\
   forall k, k < length cfgs -> step_exact has_invoke (nth k cfgs []) (prev_cfg cfgs k) (nth k tr [])) /\
  (let tr := fst (bk_run (fast_macro_end has_invoke) cfgs []) in
   length tr = length cfgs /\
   forall k, k < length cfgs -> step_exact has_invoke (nth k cfgs []) (prev_cfg cfgs k) (nth k tr [])).
Proof. exact invoke_bookkeeping_lemma. Qed.
Print Assumptions invoke_bookkeeping.

(* U: hence, over the whole life of an interpreter (macrosteps, then completion) every invocation that
   was started is cancelled exactly once -- for the fast engine and for the large engine with the
   completion loop repaired *)
Theorem invoke_started_once_cancelled_once : forall has_invoke cfgs, Forall (@NoDup nat) cfgs -> forall s,
  (let '(tr, inv) := bk_run (fast_macro_end has_invoke) cfgs [] in
   cnt (BInvoke s) (concat tr) =
   cnt (BUninvoke s) (concat tr ++ fst (fast_completion has_invoke (last cfgs []) inv))) /\
  (let '(tr, inv) := bk_run (large_macro_end has_invoke) cfgs [] in
   cnt (BInvoke s) (concat tr) =
   cnt (BUninvoke s) (concat tr ++ fst (large_completion has_invoke iv_fixed (last cfgs []) inv))).
Proof. exact lifetime_balance_lemma. Qed.
Print Assumptions invoke_started_once_cancelled_once.

(* the large engine as pinned does not: LargeMicroStep.cpp:568 clears _invocations at the first state it
   meets; a running invocation of a compound state is never cancelled when the interpreter completes *)
Theorem invoke_cancelled_on_completion_large_refuted :
  exists has_invoke cfgs s,
    Forall (@NoDup nat) cfgs /\ has_invoke s = true /\ mem s (last cfgs []) = true /\
    let '(tr, inv) := bk_run (large_macro_end has_invoke) cfgs [] in
    cnt (BInvoke s) (concat tr) = 1 /\
    cnt (BUninvoke s) (concat tr ++ fst (large_completion has_invoke iv_pinned (last cfgs []) inv)) = 0.
Proof. exact large_completion_pinned_refuted_lemma. Qed.
Print Assumptions invoke_cancelled_on_completion_large_refuted.

(* U: routing (special targets compared exactly): every target form of the Recommendation reaches
   exactly the intended queue, and nothing else reaches a queue *)
Theorem routing_correct : forall tb t,
  (forall d, routes_to tb t d -> route iv_fixed t tb = d /\ is_valid_target t = true) /\
  (forall d, route iv_fixed t tb = d -> match d with DError _ => True | _ => routes_to tb t d end) /\
  (forall v sends q d, deliver_seq v tb sends q d = q d ++ deliver_all v tb sends d).
Proof.
  intros tb t. split; [|split].
  - intros d. apply route_sound_lemma.
  - intros d. apply route_complete_lemma.
  - intros. apply deliver_order_lemma.
Qed.
Print Assumptions routing_correct.

(* the code as pinned compares the special targets case-insensitively *)
Theorem routing_correct_pinned_refuted : exists tb t d, routes_to tb t d /\ route iv_pinned t tb <> d.
Proof. exact route_pinned_refuted_lemma. Qed.
Print Assumptions routing_correct_pinned_refuted.

(* U: finalize runs only for an event of that invocation, once, before autoforwarding and before the
   event is matched; autoforward reaches exactly the invocations that asked for it *)
Theorem finalize_before_match : forall ev fins afw invs,
  (forall i, In (AFinalize i) (dequeue_external ev fins afw invs) ->
     i = ev /\ ev <> [] /\ mem_bytes ev fins = true /\
     exists a b, dequeue_external ev fins afw invs = a ++ AFinalize i :: b /\
                 In AMatch b /\ ~ In AMatch a /\ ~ In (AFinalize i) a /\ ~ In (AFinalize i) b /\
                 (forall j, ~ In (AForward j) a)) /\
  (forall i, In (AForward i) (dequeue_external ev fins afw invs) <-> (In i invs /\ mem_bytes i afw = true)).
Proof.
  intros. split.
  - intros i. apply finalize_before_match_lemma.
  - intros i. apply autoforward_exact_lemma.
Qed.
Print Assumptions finalize_before_match.

(* U: the oracle that judges the implementation accepts every completed run of the model *)
Theorem model_satisfies_oracle : forall W s, reachable W s -> pp s = PRet ->
  invoke_protocolb (obs_of_state s) = true.
Proof. exact model_satisfies_oracle_lemma. Qed.
Print Assumptions model_satisfies_oracle.

(* partial: measured against the Recommendation's own bookkeeping inside a macrostep (exitStates cancels,
   statesToInvoke starts at the end), the engines' comparison of the configuration at macrostep end with
   _invocations makes exactly the same calls -- unless a state with a running invocation is left and
   re-entered within the macrostep (missing: that case, refuted below) *)
Theorem macro_end_bookkeeping_is_w3c_partial : forall has_invoke cfg0 inv ms,
  NoDup cfg0 -> NoDup inv -> NoDup (cfg_after ms cfg0) ->
  Forall (fun m : microstep => NoDup (snd m)) ms ->
  (forall s, mem s inv = mem s cfg0) ->
  no_reentry has_invoke cfg0 ms ->
  forall s,
    cnt (BUninvoke s) (fst (large_macro_end has_invoke (cfg_after ms cfg0) inv)) =
    cnt (BUninvoke s) (fst (w3c_macro has_invoke ms (filter has_invoke cfg0))) /\
    cnt (BInvoke s) (fst (large_macro_end has_invoke (cfg_after ms cfg0) inv)) =
    cnt (BInvoke s) (fst (w3c_macro has_invoke ms (filter has_invoke cfg0))).
Proof. exact macro_end_vs_w3c_lemma. Qed.
Print Assumptions macro_end_bookkeeping_is_w3c_partial.

Theorem invoke_restarted_on_reentry_refuted :
  exists has_invoke cfg0 ms s,
    cfg_after ms cfg0 = cfg0 /\
    cnt (BUninvoke s) (fst (w3c_macro has_invoke ms (filter has_invoke cfg0))) = 1 /\
    cnt (BInvoke s) (fst (w3c_macro has_invoke ms (filter has_invoke cfg0))) = 1 /\
    fst (large_macro_end has_invoke (cfg_after ms cfg0) cfg0) = [] /\
    fst (fast_macro_end has_invoke (cfg_after ms cfg0) (filter has_invoke cfg0)) = [].
Proof. exact macro_end_vs_w3c_reentry_refuted_lemma. Qed.
Print Assumptions invoke_restarted_on_reentry_refuted.

(* ---------------------------------------------------------------------------------------------- *)
(* the USCXMLInvoker protocol proper is dead-lock free (invoke_no_deadlock), but uninvoke goes on to
   destroy the invoked session, and stopping its delayed-event thread is not: when stop() begins while
   that thread is between its test of _isStarted and event_base_loop, the break is lost, the thread
   blocks in the loop and the join -- hence uninvoke -- never returns (same root cause as C10's
   teardown_terminates) *)
Theorem invoke_teardown_no_deadlock_refuted :
  exists s, treachable false DRead s /\ tp s = TJoin /\ dp s = DLoop /\ tstuck false s = true /\
            (forall l, tstep false s l = None).
Proof. exact teardown_deadlock_refuted_lemma. Qed.
Print Assumptions invoke_teardown_no_deadlock_refuted.

(* partial (the state space is finite: 64 states, explored exhaustively): if the thread already sits in
   event_base_loop when stop() begins, no reachable state is stuck.  Missing: the window above. *)
Theorem invoke_teardown_no_deadlock_partial : forall s, treachable false DLoop s -> tstuck false s = false.
Proof. exact teardown_from_loop_never_stuck_lemma. Qed.
Print Assumptions invoke_teardown_no_deadlock_partial.

(* with stop() repaired as in patches/C10-teardown-sticky-wakeup.diff (the wake-up survives the entry
   into the loop): no reachable state is stuck, wherever the thread is when stop() begins *)
Theorem invoke_teardown_no_deadlock_repaired : forall d s, treachable true d s -> tstuck true s = false.
Proof. exact teardown_sticky_never_stuck_lemma. Qed.
Print Assumptions invoke_teardown_no_deadlock_repaired.
