(* Properties_C02.v -- property theorems only.  C02: the active configuration is legal after every
   microstep.

   Reach of the theorems: the model Large.v of LargeMicroStep::step (repaired code) on the history-free
   core -- charts whose flat tables satisfy the boolean check wf_coreb (states, compounds with one default
   child, parallels, finals; transitions external/internal/target-less/multi-target with legal target
   sets; any executable content, conditions, events).  For those charts legality holds for EVERY run:
   all event histories, all datamodel states, any number of steps.  History and <initial> pseudo-states,
   deep initial attributes, the fast engine and the generated C are covered by the oracle legal_configb
   on every configuration the implementation reports (see the check), not by these theorems. *)
From V Require Import Base NameMatch Chart Exec Large LargeLemmas Interp Legal SetLemmas
     LegalAbstract LegalLarge LegalRun WfCore LegalOracle.

(* the set-level reason: (C - X) + E is legal whenever C is and X, E are what a microstep computes *)
Theorem microstep_sets_preserve_legality :
  forall c (W : WF c) cfg sel,
    Legal (fun i => fs_parent (st c i)) (fun i => fs_children (st c i)) (fun i => fs_type (st c i)) (fun x => In x cfg) ->
    (forall x, In x cfg -> x < nstates c) ->
    (forall ti, In ti sel -> In (ft_source (tr c ti)) cfg) ->
    pairwise_ok lg_fixed c sel ->
    forall hist,
    Legal (fun i => fs_parent (st c i)) (fun i => fs_children (st c i)) (fun i => fs_type (st c i))
          (fun x => (In x cfg /\ ~ In x (exitset c cfg sel)) \/ In x (Efs c cfg sel hist)).
Proof. exact microstep_sets_legal. Qed.
Print Assumptions microstep_sets_preserve_legality.

(* one step() of the engine model keeps the configuration legal (or still empty before initialisation) *)
Theorem microstep_preserves_legal :
  forall c xv, wf_coreb c = true -> fs_type (st c 0) = FCompound ->
  forall l x, CfgOK c l -> CfgOK c (fst (fst (large_step lg_fixed xv c l x))).
Proof. intros c xv H R. apply large_step_legal; [now apply wf_coreb_sound | exact R]. Qed.
Print Assumptions microstep_preserves_legal.

(* after initialisation and after every microstep of every run: all event histories, any number of steps *)
Theorem run_always_legal :
  forall c xv, wf_coreb c = true -> fs_type (st c 0) = FCompound ->
  forall fuel evs,
    CfgOK c (fst (run_loop c lstate (large_step lg_fixed xv c) l_cfg fuel l_pristine x_init evs)).
Proof.
  intros c xv H R fuel evs. apply run_states_legal; [now apply wf_coreb_sound | exact R | apply pristine_ok].
Qed.
Print Assumptions run_always_legal.

(* the oracle applied to the implementation's configurations implies the legality notion of the theorems *)
Theorem oracle_implies_legal :
  forall c, wf_coreb c = true -> forall cfg, legal_configb c cfg = true -> LegalCfg c cfg.
Proof. intros c H cfg. apply legal_configb_sound. now apply wf_coreb_sound. Qed.
Print Assumptions oracle_implies_legal.

(* the selected transitions of a microstep are pairwise free of exit-set overlap, for every chart *)
Theorem selected_transitions_conflict_free :
  forall v c cfg ev order x,
    pairwise_ok v c (fst (select_loop v c cfg ev order None [] x)).
Proof. intros. apply select_loop_pairwise. apply nil_pairwise. Qed.
Print Assumptions selected_transitions_conflict_free.

(* non-vacuity: a chart with a parallel state, nested compounds, a legal multi-target transition, target-less
   and internal transitions passes wf_coreb, and a run of it reaches a configuration with both regions active *)
Theorem hypotheses_satisfiable :
  wf_coreb (flatten false ex_tree) = true /\ fs_type (st (flatten false ex_tree) 0) = FCompound.
Proof. exact ex_tree_wf. Qed.
Print Assumptions hypotheses_satisfiable.

(* the property at full strength (every document) is refuted for the engine model, hence -- the check
   replays the witness -- for the implementation: with a deep history above a state that owns a history
   the run on event e ends in {scxml, s6, s8}, s8 active without its parent s7 (known finding C02-K1) *)
Theorem legality_with_shared_history_bits_refuted :
  exists t evs fuel,
    let c := flatten false t in
    legal_configb c (l_cfg (fst (run_loop c lstate (large_step lg_fixed ex_fixed c) l_cfg fuel l_pristine x_init evs))) = false.
Proof. exists kho_tree, [[101%N]], 12%nat. exact kho_illegal. Qed.
Print Assumptions legality_with_shared_history_bits_refuted.
