(* Properties_C02.v -- property theorems only.  C02: the active configuration is legal after every
   microstep.

   Reach of the theorems: the model Large.v of LargeMicroStep::step (repaired code) on the history-free
   core -- charts whose flat tables satisfy the boolean check wf_coreb (states, compounds with one default
   child, parallels, finals; transitions external/internal/target-less/multi-target with legal target
   sets; any executable content, conditions, events).  For those charts legality holds for EVERY run:
   all event histories, all datamodel states, any number of steps.  History and <initial> pseudo-states,
   deep initial attributes, the fast engine and the generated C are covered by the oracle legal_configb
   on every configuration the implementation reports (see the check), not by these theorems. *)
From V Require Import Base NameMatch Chart Exec Large LargeLemmas Interp Legal SetLemmas
     LegalAbstract LegalLarge LegalRun WfCore LegalOracle.
From V Require Import FlattenWf FlattenWfLemmas FlattenWfNecessary FlattenWfRun.
From V Require Import Fast LegalHistBase LegalHistEntry LegalHistStep LegalHistRun LegalHistWf LegalHistCore LegalHistOracle LegalHistFast LegalHistFastRun.

(* the set-level reason: (C - X) + E is legal whenever C is and X, E are what a microstep computes *)
Theorem microstep_sets_preserve_legality :
  forall c (W : WF c) cfg sel,
    Legal (fun i => fs_parent (st c i)) (fun i => fs_children (st c i)) (fun i => fs_type (st c i)) (fun x => In x cfg) ->
    (forall x, In x cfg -> x < nstates c) ->
    (forall ti, In ti sel -> In (ft_source (tr c ti)) cfg) ->
    pairwise_ok lg_fixed c sel ->
    forall hist,
    Legal (fun i => fs_parent (st c i)) (fun i => fs_children (st c i)) (fun i => fs_type (st c i))
          (fun x => (In x cfg /\ ~ In x (exitset c cfg sel)) \/ In x (Efs c cfg sel hist)).
Proof. exact microstep_sets_legal. Qed.
Print Assumptions microstep_sets_preserve_legality.

(* one step() of the engine model keeps the configuration legal (or still empty before initialisation) *)
Theorem microstep_preserves_legal :
  forall c xv, wf_coreb c = true -> fs_type (st c 0) = FCompound ->
  forall l x, CfgOK c l -> CfgOK c (fst (fst (large_step lg_fixed xv c l x))).
Proof. intros c xv H R. apply large_step_legal; [now apply wf_coreb_sound | exact R]. Qed.
Print Assumptions microstep_preserves_legal.

(* after initialisation and after every microstep of every run: all event histories, any number of steps *)
Theorem run_always_legal :
  forall c xv, wf_coreb c = true -> fs_type (st c 0) = FCompound ->
  forall fuel evs,
    CfgOK c (fst (run_loop c lstate (large_step lg_fixed xv c) l_cfg fuel l_pristine x_init evs)).
Proof.
  intros c xv H R fuel evs. apply run_states_legal; [now apply wf_coreb_sound | exact R | apply pristine_ok].
Qed.
Print Assumptions run_always_legal.

(* the oracle applied to the implementation's configurations implies the legality notion of the theorems *)
Theorem oracle_implies_legal :
  forall c, wf_coreb c = true -> forall cfg, legal_configb c cfg = true -> LegalCfg c cfg.
Proof. intros c H cfg. apply legal_configb_sound. now apply wf_coreb_sound. Qed.
Print Assumptions oracle_implies_legal.

(* the selected transitions of a microstep are pairwise free of exit-set overlap, for every chart *)
Theorem selected_transitions_conflict_free :
  forall v c cfg ev order x,
    pairwise_ok v c (fst (select_loop v c cfg ev order None [] x)).
Proof. intros. apply select_loop_pairwise. apply nil_pairwise. Qed.
Print Assumptions selected_transitions_conflict_free.

(* non-vacuity: a chart with a parallel state, nested compounds, a legal multi-target transition, target-less
   and internal transitions passes wf_coreb, and a run of it reaches a configuration with both regions active *)
Theorem hypotheses_satisfiable :
  wf_coreb (flatten false ex_tree) = true /\ fs_type (st (flatten false ex_tree) 0) = FCompound.
Proof. exact ex_tree_wf. Qed.
Print Assumptions hypotheses_satisfiable.

(* the property at full strength (every document) is refuted for the engine model, hence -- the check
   replays the witness -- for the implementation: with a deep history above a state that owns a history
   the run on event e ends in {scxml, s6, s8}, s8 active without its parent s7 (known finding C02-K1) *)
Theorem legality_with_shared_history_bits_refuted :
  exists t evs fuel,
    let c := flatten false t in
    legal_configb c (l_cfg (fst (run_loop c lstate (large_step lg_fixed ex_fixed c) l_cfg fuel l_pristine x_init evs))) = false.
Proof. exists kho_tree, [[101%N]], 12%nat. exact kho_illegal. Qed.
Print Assumptions legality_with_shared_history_bits_refuted.

(* ---- the hypotheses on the DOCUMENT ----
   core_treeb t (FlattenWf.v) is a boolean predicate on the document tree t, the conjunction of:
     ct_kindsb          only <scxml>/<state>, <parallel>, <final> elements (no <history>, no <initial>);
     ct_rootb           the root is an <scxml> (or <state>) with at least one child state;
     ct_uniqueb         the ids of the elements are pairwise different;
     ct_initialb        an 'initial' attribute of a state with children names ONE CHILD of that state
                        (absent: the first child is the default);
     ct_no_root_targetb no transition targets the root element;
     ct_target_setsb    the targets of one transition never lie in two different children of the same
                        compound state (targets in ancestor/descendant relation and in different regions
                        of a <parallel> are allowed).
   Nothing is demanded of <final> (may have children), of event descriptors, conditions, executable
   content, <data>; targets that name no element are allowed (LargeMicroStep::init drops them).

   flatten_wf_core: for EVERY such document (early and late binding) the tables LargeMicroStep::init
   (Chart.flatten) builds pass the check wf_coreb, and the root is a compound state -- the two hypotheses
   of microstep_preserves_legal / run_always_legal / oracle_implies_legal above.  Not covered: documents
   with <history>/<initial> elements or deep/multiple 'initial' attributes (outside the chart core). *)
Theorem flatten_wf_core : forall late t, core_treeb t = true ->
  wf_coreb (flatten late t) = true /\ fs_type (st (flatten late t) 0) = FCompound.
Proof. exact flatten_wf_core_lemma. Qed.
Print Assumptions flatten_wf_core.

(* C02 at document level: for every well-formed core document, every execution-content variant xv, every
   event history evs and every number of steps, the configuration after initialisation and after every
   microstep of the engine model is legal (or still empty before initialisation).  Same reach as
   run_always_legal, with the hypothesis on the document instead of on the flat tables. *)
Theorem document_run_always_legal : forall late t xv, core_treeb t = true ->
  forall fuel evs,
    let c := flatten late t in
    CfgOK c (fst (run_loop c lstate (large_step lg_fixed xv c) l_cfg fuel l_pristine x_init evs)).
Proof. exact document_run_always_legal_lemma. Qed.
Print Assumptions document_run_always_legal.

(* one step() keeps the configuration legal, for every well-formed core document *)
Theorem document_microstep_preserves_legal : forall late t xv, core_treeb t = true ->
  let c := flatten late t in
  forall l x, CfgOK c l -> CfgOK c (fst (fst (large_step lg_fixed xv c l x))).
Proof. exact document_microstep_preserves_legal_lemma. Qed.
Print Assumptions document_microstep_preserves_legal.

(* the oracle applied to the implementation's configurations implies the legality notion of the theorems,
   for every well-formed core document *)
Theorem document_oracle_implies_legal : forall late t, core_treeb t = true ->
  let c := flatten late t in
  forall cfg, legal_configb c cfg = true -> LegalCfg c cfg.
Proof. exact document_oracle_implies_legal_lemma. Qed.
Print Assumptions document_oracle_implies_legal.

(* necessity, clause by clause: whenever the tables of a document pass wf_coreb with a compound root, the
   document has only core kinds, a proper root, no transition to the root; its 'initial' attributes name
   one child provided the ids they list exist in the document (ct_initial_knownb; ids naming nothing are
   dropped by init); its target sets are legal provided ids are unique. *)
Theorem core_clauses_necessary : forall late t,
  wf_coreb (flatten late t) = true -> fs_type (st (flatten late t) 0) = FCompound ->
  ct_kindsb t = true /\ ct_rootb t = true /\ ct_no_root_targetb t = true /\
  (ct_initial_knownb t = true -> ct_initialb t = true) /\
  (ct_uniqueb t = true -> ct_target_setsb t = true).
Proof. exact core_clauses_necessary_lemma. Qed.
Print Assumptions core_clauses_necessary.

(* hence, for documents with unique ids whose 'initial' attributes list existing ids, core_treeb is
   EXACTLY the hypothesis of the theorems above: nothing is lost by stating them on documents *)
Theorem core_treeb_exact : forall late t, ct_uniqueb t = true -> ct_initial_knownb t = true ->
  (core_treeb t = true <-> wf_coreb (flatten late t) = true /\ fs_type (st (flatten late t) 0) = FCompound).
Proof. exact core_treeb_exact_lemma. Qed.
Print Assumptions core_treeb_exact.

(* the two side conditions of the converse cannot be dropped (two leaves with the same id; initial="1 99") *)
Theorem core_treeb_converse_needs_unique_ids_refuted :
  exists t, ct_uniqueb t = false /\ ct_initial_knownb t = true /\ core_treeb t = false /\
            wf_coreb (flatten false t) = true /\ fs_type (st (flatten false t) 0%nat) = FCompound.
Proof. exact core_treeb_necessary_unique_refuted. Qed.
Print Assumptions core_treeb_converse_needs_unique_ids_refuted.
Theorem core_treeb_converse_needs_known_initial_refuted :
  exists t, ct_uniqueb t = true /\ ct_initial_knownb t = false /\ core_treeb t = false /\
            wf_coreb (flatten false t) = true /\ fs_type (st (flatten false t) 0%nat) = FCompound.
Proof. exact core_treeb_necessary_initial_known_refuted. Qed.
Print Assumptions core_treeb_converse_needs_known_initial_refuted.

(* no clause of core_treeb can be dropped: for each clause a document that satisfies all the others
   (core_tree_clauses lists the six clauses in the order above) and whose tables fail wf_coreb, or whose
   root is not compound; for the target-set clause the run on one event also ends in an illegal
   configuration (s1 --e--> {s2, s3}, two children of <scxml>) *)
Theorem core_kinds_clause_needed_refuted :
  exists t, core_tree_clauses t = [false; true; true; true; true; true] /\ wf_coreb (flatten false t) = false.
Proof. exact core_kinds_needed_refuted. Qed.
Print Assumptions core_kinds_clause_needed_refuted.
Theorem core_root_clause_needed_refuted :
  (exists t, core_tree_clauses t = [true; false; true; true; true; true] /\ wf_coreb (flatten false t) = false) /\
  (exists t, core_tree_clauses t = [true; false; true; true; true; true] /\ fs_type (st (flatten false t) 0%nat) <> FCompound).
Proof. exact core_root_needed_refuted. Qed.
Print Assumptions core_root_clause_needed_refuted.
Theorem core_unique_clause_needed_refuted :
  exists t, core_tree_clauses t = [true; true; false; true; true; true] /\ wf_coreb (flatten false t) = false.
Proof. exact core_unique_needed_refuted. Qed.
Print Assumptions core_unique_clause_needed_refuted.
Theorem core_initial_clause_needed_refuted :
  (exists t, core_tree_clauses t = [true; true; true; false; true; true] /\ wf_coreb (flatten false t) = false) /\
  (exists t, core_tree_clauses t = [true; true; true; false; true; true] /\ wf_coreb (flatten false t) = false).
Proof. exact core_initial_needed_refuted. Qed.
Print Assumptions core_initial_clause_needed_refuted.
Theorem core_no_root_target_clause_needed_refuted :
  exists t, core_tree_clauses t = [true; true; true; true; false; true] /\ wf_coreb (flatten false t) = false.
Proof. exact core_no_root_target_needed_refuted. Qed.
Print Assumptions core_no_root_target_clause_needed_refuted.
Theorem core_target_sets_clause_needed_refuted :
  exists t, core_tree_clauses t = [true; true; true; true; true; false] /\ wf_coreb (flatten false t) = false /\
    exists evs fuel, let c := flatten false t in
      legal_configb c (l_cfg (fst (run_loop c lstate (large_step lg_fixed ex_fixed c) l_cfg fuel l_pristine x_init evs))) = false.
Proof. exact core_target_sets_needed_refuted. Qed.
Print Assumptions core_target_sets_clause_needed_refuted.

(* non-vacuity: the example document of hypotheses_satisfiable, and a second one with nested <parallel>s,
   'initial' attributes, a <final>, three-target and ancestor/descendant-target transitions, pass core_treeb;
   a run of the second reaches a configuration with the nested regions active *)
Theorem document_hypotheses_satisfiable : core_treeb ex_tree = true /\ core_treeb ex_tree2 = true.
Proof. split; [exact ex_tree_core | exact ex_tree2_core]. Qed.
Print Assumptions document_hypotheses_satisfiable.
Theorem document_example_reaches_nested_parallel :
  l_cfg (fst (run_loop (flatten false ex_tree2) lstate (large_step lg_fixed ex_fixed (flatten false ex_tree2)) l_cfg 12%nat
                       l_pristine x_init [[105%N]; [101%N]])) = [0; 2; 3; 5; 6; 7; 9; 10; 12]%nat.
Proof. exact ex_tree2_reaches_nested_parallel. Qed.
Print Assumptions document_example_reaches_nested_parallel.

(* ===================== work package `hist`: <initial>, deep/multiple initial attributes, <history> ===================== *)

(* WHAT: after initialisation and after every microstep of EVERY run (all event histories, all datamodel
   states, any number of steps) of the model Large.v of LargeMicroStep::step (repaired code, lg_fixed) the
   configuration is legal -- same statement as run_always_legal.
   FOR WHICH CHARTS: flat tables passing the boolean check wf_initb (LegalHistWf.v): the history-free core PLUS
   <initial> child elements (one transition, proper targets anywhere below the parent), `initial`
   attributes naming deep descendants and/or several states (the completion is the target list as written:
   non-empty, strict descendants, at most one child of every compound state on the paths to its members),
   transitions targeting any state.  Pseudo-states must be leaves directly below a compound state.
   NOT COVERED: <history> (next theorem), the fast engine, the generated C. *)
Theorem run_always_legal_initial :
  forall c xv, wf_initb c = true -> fs_type (st c 0) = FCompound ->
  forall fuel evs,
    CfgOK c (fst (run_loop c lstate (large_step lg_fixed xv c) l_cfg fuel l_pristine x_init evs)).
Proof. exact run_legal_initial. Qed.
Print Assumptions run_always_legal_initial.

(* WHAT: the same for charts WITH <history> pseudo-states, shallow and deep, including transitions that target a
   history, default transitions, restoring a recorded value, an internal transition re-entering through a
   history whose parent stays active, several histories per document.
   FOR WHICH CHARTS: wf_histb = wf_initb without "no history", plus: a history is a leaf below a COMPOUND
   state (not below <parallel>), has a default transition with proper targets (shallow: children of the
   parent; deep: descendants), and NO PROPER STATE IS RECORDED BY TWO HISTORIES (whb_hist_disjoint:
   the fs_completion sets of two histories WITH DIFFERENT PARENTS share no proper state; a deep and a shallow
   history of the same state are allowed, they are written together).  That excludes exactly the pattern of
   known finding C02-K1 (a deep history above a state that owns a history) and cannot be dropped:
   history_disjointness_needed below.
   NOT COVERED: histories below <parallel>; overlapping histories (where the statement is false); the fast
   engine; the generated C. *)
Theorem run_always_legal_history :
  forall c xv, wf_histb c = true -> fs_type (st c 0) = FCompound ->
  forall fuel evs,
    CfgOK c (fst (run_loop c lstate (large_step lg_fixed xv c) l_cfg fuel l_pristine x_init evs)).
Proof. exact run_legal_history. Qed.
Print Assumptions run_always_legal_history.

(* WHAT: the run invariant behind it.  CfgOKH = (not yet initialised, empty configuration) or (legal configuration
   over the tree of PROPER states: root active, parent-closed, exactly one proper child per active compound, all
   proper children of an active parallel, no pseudo-state active), AND in both cases HistOK (l_hist): for every
   history h the recorded part  l_hist /\ fs_completion h  is empty or a set of proper states strictly below
   parent(h) that is closed under parents up to parent(h), contains a child of parent(h) and at most one
   child of every compound -- hence restoring it is legal.  Preserved by every step() from ANY such state. *)
Theorem microstep_preserves_legal_history :
  forall c xv, wf_histb c = true -> fs_type (st c 0) = FCompound ->
  forall l x, CfgOKH c l -> CfgOKH c (fst (fst (large_step lg_fixed xv c l x))).
Proof. exact step_legal_history. Qed.
Print Assumptions microstep_preserves_legal_history.

Theorem run_always_legal_history_strong :
  forall c xv, wf_histb c = true -> fs_type (st c 0) = FCompound ->
  forall fuel evs,
    CfgOKH c (fst (run_loop c lstate (large_step lg_fixed xv c) l_cfg fuel l_pristine x_init evs)).
Proof. exact run_legal_history_strong. Qed.
Print Assumptions run_always_legal_history_strong.

(* WHAT: REMEMBER_HISTORY keeps the record usable: from a legal configuration, for any exit set inside it. *)
Theorem remember_history_keeps_record_ok :
  forall c, WFH c -> forall cfg exitset,
    LegalH c (fun x => In x cfg) -> (forall x, In x cfg -> pseudoS c x = false) -> (forall x, In x exitset -> In x cfg) ->
    forall hist, HistOK c hist -> HistOK c (remember_history c cfg exitset hist).
Proof. exact remember_HistOK. Qed.
Print Assumptions remember_history_keeps_record_ok.

(* WHAT: the set-level step with pseudo-states: (C - X) + (E restricted to proper states) is legal whenever C is, the
   selected transitions have active sources and pairwise non-overlapping exit intervals, and the record is usable. *)
Theorem microstep_sets_preserve_legality_history :
  forall c (W : WFH c) cfg sel,
    LegalH c (fun x => In x cfg) -> (forall x, In x cfg -> x < nstates c) -> (forall x, In x cfg -> pseudoS c x = false) ->
    (forall ti, In ti sel -> In (ft_source (tr c ti)) cfg) -> pairwise_ok lg_fixed c sel ->
    forall hist, HistOK c hist ->
    LegalH c (fun x => (In x cfg /\ ~ In x (exitset c cfg sel)) \/ (In x (HEfs c cfg sel hist) /\ pseudoS c x = false)).
Proof. exact microstep_sets_legal_h. Qed.
Print Assumptions microstep_sets_preserve_legality_history.

(* WHAT: the oracle legal_configb, applied by the check to every configuration the implementation reports, implies
   the legality notion of these theorems on every chart of wf_histb (pseudo-states allowed). *)
Theorem oracle_implies_legal_history :
  forall c, wf_histb c = true -> forall cfg, legal_configb c cfg = true -> LegalCfgH c cfg.
Proof. intros c H cfg. apply legal_configb_sound_h. now apply wf_histb_sound. Qed.
Print Assumptions oracle_implies_legal_history.

(* WHAT: the new reach contains the old one: every chart of the history-free core (wf_coreb) passes wf_initb, hence
   wf_histb; run_always_legal is the special case. *)
Theorem core_charts_are_covered : forall c, wf_coreb c = true -> wf_initb c = true.
Proof. exact wf_coreb_initb. Qed.
Print Assumptions core_charts_are_covered.

(* non-vacuity, computed from flatten: (a) a document with an <initial> element with a deep target, initial
   attributes with a deep target and with two targets in two regions of a <parallel>, internal / target-less /
   multi-target transitions passes wf_initb (and is outside wf_coreb); (b) a document with a deep and a shallow
   history in different sub-trees, an <initial> element and transitions into both histories passes wf_histb *)
Theorem hypotheses_satisfiable_initial :
  wf_initb (flatten false hini_tree) = true /\ fs_type (st (flatten false hini_tree) 0) = FCompound /\
  wf_coreb (flatten false hini_tree) = false.
Proof. exact hini_tree_wf. Qed.
Print Assumptions hypotheses_satisfiable_initial.

Theorem hypotheses_satisfiable_history :
  wf_histb (flatten false hh_tree) = true /\ fs_type (st (flatten false hh_tree) 0) = FCompound /\
  wf_initb (flatten false hh_tree) = false.
Proof. exact hh_tree_wf. Qed.
Print Assumptions hypotheses_satisfiable_history.

(* the side conditions cannot be dropped: each witness passes every conjunct of wf_histb but one and a run of the
   engine model reaches an illegal configuration.  (1) disjoint histories: the C02-K1 document kho_tree;
   (2) the default transition of a shallow history must name children of its parent; (3) an initial attribute
   must not name two children of one compound state.  (2) and (3) are invalid documents. *)
Theorem history_disjointness_needed :
  exists t evs fuel,
    let c := flatten false t in
    whb_hist_disjoint c = false /\
    (wfb_nonempty c && wfb_root c && wfb_parent c && wfb_children c && wfb_anc c && wfb_interval c &&
     wfb_root_type c && wfb_src c && wfb_targets c && whb_pseudo_parent c && whb_pseudo_leaf c && whb_completion c &&
     whb_target_sets c && whb_initial c && whb_hist_default c && whb_hist_cpl c)%bool = true /\
    legal_configb c (l_cfg (fst (run_loop c lstate (large_step lg_fixed ex_fixed c) l_cfg fuel l_pristine x_init evs))) = false.
Proof. exact history_disjointness_needed_refuted. Qed.
Print Assumptions history_disjointness_needed.

Theorem shallow_default_child_needed :
  exists t evs fuel,
    let c := flatten false t in
    whb_hist_default c = false /\
    (wfb_nonempty c && wfb_root c && wfb_parent c && wfb_children c && wfb_anc c && wfb_interval c &&
     wfb_root_type c && wfb_src c && wfb_targets c && whb_pseudo_parent c && whb_pseudo_leaf c && whb_completion c &&
     whb_target_sets c && whb_initial c && whb_hist_cpl c && whb_hist_disjoint c)%bool = true /\
    legal_configb c (l_cfg (fst (run_loop c lstate (large_step lg_fixed ex_fixed c) l_cfg fuel l_pristine x_init evs))) = false.
Proof. exact shallow_default_child_needed_refuted. Qed.
Print Assumptions shallow_default_child_needed.

Theorem initial_attribute_target_set_needed :
  exists t evs fuel,
    let c := flatten false t in
    whb_completion c = false /\
    (wfb_nonempty c && wfb_root c && wfb_parent c && wfb_children c && wfb_anc c && wfb_interval c &&
     wfb_root_type c && wfb_src c && wfb_targets c && whb_pseudo_parent c && whb_pseudo_leaf c &&
     whb_target_sets c && whb_initial c && whb_hist_default c && whb_hist_cpl c && whb_hist_disjoint c)%bool = true /\
    legal_configb c (l_cfg (fst (run_loop c lstate (large_step lg_fixed ex_fixed c) l_cfg fuel l_pristine x_init evs))) = false.
Proof. exact initial_attribute_target_set_needed_refuted. Qed.
Print Assumptions initial_attribute_target_set_needed.

(* ===================== the FAST engine (Fast.v, FastMicroStep::step) on the same charts ===================== *)

(* WHAT: after initialisation and after every microstep of EVERY run of the model Fast.v of FastMicroStep::step
   (repaired code) the configuration is legal (same statement as run_always_legal, with fast_step).
   FOR WHICH CHARTS: wf_fastb, which IS wf_histb (fast_reach_is_large_reach below): exactly the charts of
   run_always_legal_history -- <initial> elements, deep / multiple initial attributes, shallow and deep
   histories below compound states where histories with different parents record disjoint sets of proper
   states; default transitions of deep histories may have SEVERAL targets.  Every chart of wf_initb, hence of
   wf_coreb, is inside.
   HISTORY OF THIS STATEMENT: for the pinned FastMicroStep.cpp it needed "the default transition of a deep history
   has exactly one target": the loop over the default targets added the ancestors of the first target only
   (a defect found by this proof, repaired; Fast.v models the repaired code, see
   fast_deep_history_multi_target_default_repaired).
   NOT COVERED: histories below <parallel>, overlapping histories (false, C02-K1), the generated C. *)
Theorem run_always_legal_history_fast :
  forall c xv, wf_fastb c = true -> fs_type (st c 0) = FCompound ->
  forall fuel evs,
    CfgOK c (fst (run_loop c lstate (fast_step xv c) l_cfg fuel l_pristine x_init evs)).
Proof. exact fast_run_legal_history. Qed.
Print Assumptions run_always_legal_history_fast.

(* WHAT: the invariant form (legal configuration of proper states and usable history record), one step from any such state *)
Theorem microstep_preserves_legal_history_fast :
  forall c xv, wf_fastb c = true -> fs_type (st c 0) = FCompound ->
  forall l x, CfgOKH c l -> CfgOKH c (fst (fst (fast_step xv c l x))).
Proof. exact fast_step_legal_history. Qed.
Print Assumptions microstep_preserves_legal_history_fast.

(* WHAT: the reach of the fast-engine theorems is the reach of the large-engine theorems *)
Theorem fast_reach_is_large_reach : forall c, wf_fastb c = wf_histb c.
Proof. exact wf_fastb_histb. Qed.
Print Assumptions fast_reach_is_large_reach.

Theorem history_free_charts_are_covered_fast : forall c, wf_initb c = true -> wf_fastb c = true.
Proof. exact wf_initb_fastb. Qed.
Print Assumptions history_free_charts_are_covered_fast.

(* WHAT: the document on which the pinned fast engine reached an illegal configuration (deep history whose default
   transition names two states in two regions of a <parallel>, both two levels below their region: s7 became
   active without its parent s11).  With the repaired code the run of fast_step on event e ends in a legal
   configuration, the same as the large engine's: scxml, s1, s2, s3, s10, s4, s6, s11, s7. *)
Theorem fast_deep_history_multi_target_default_repaired :
  let c := flatten false fd_tree in
  let cf := l_cfg (fst (run_loop c lstate (fast_step ex_fixed c) l_cfg 20%nat l_pristine x_init [[101%N]])) in
  let cl := l_cfg (fst (run_loop c lstate (large_step lg_fixed ex_fixed c) l_cfg 20%nat l_pristine x_init [[101%N]])) in
  wf_fastb c = true /\ fs_type (st c 0%nat) = FCompound /\
  legal_configb c cf = true /\ cf = cl /\ cf = [0; 1; 3; 4; 5; 6; 8; 10; 12]%nat.
Proof. exact fast_deep_history_default_repaired. Qed.
Print Assumptions fast_deep_history_multi_target_default_repaired.

(* ===================== work package `val`: the hypothesis "validates without fatal issues" ===================== *)
From V Require Import Validate ValidateBridge ValidateBridgeRun.

(* WHAT: C02 with its hypothesis as the property states it -- "any document that validates without fatal issues".
   For every document tree t (<initial>, deep/multiple initial attributes, shallow/deep histories allowed) for whose
   rendering gdoc_of_tree t (ValidateBridge.v: the SCXML text tools/chartgen.py writes, as the validator model reads
   it) the repaired validator model reports no FATAL issue: after initialisation and after every microstep of every run
   (all event histories, datamodel variants, numbers of steps, early/late binding) of the large-step AND of the fast
   engine model the configuration is legal.
   SIDE CONDITIONS (vb_docb: the root is the only <scxml>; vb_hidden_freshb: a numbering condition of the tree type;
   vb_sideb: the root has a child state, no history below <parallel>, transitions of <initial> name proper states,
   no state below the parent of a deep history owns a history; that default transitions of histories name proper
   states follows from validation since patches/C19-history-default-pseudo-target.diff).  None of the conditions listed
   follows from validation; see Properties_C19.v for the witness of each (C02-K1 is accepted by the validator:
   validated_documents_need_disjoint_histories_refuted below).
   NOT COVERED: the generated C; documents outside the side conditions. *)
Theorem run_always_legal_validated_document : forall t l,
  vb_docb t = true -> vb_hidden_freshb t = true ->
  validate vv_fixed (gdoc_of_tree t) = Ok l -> no_fatal l = true -> vb_sideb t = true ->
  forall late xv fuel evs,
    let c := flatten late t in
    CfgOK c (fst (run_loop c lstate (large_step lg_fixed xv c) l_cfg fuel l_pristine x_init evs)) /\
    CfgOK c (fst (run_loop c lstate (fast_step xv c) l_cfg fuel l_pristine x_init evs)).
Proof.
  intros t l Hd Hf Hv Hn Hs late xv fuel evs c. assert (V : validated t) by (now exists l).
  split; [now apply validated_run_legal_lemma | now apply validated_run_legal_fast_lemma].
Qed.
Print Assumptions run_always_legal_validated_document.

(* the tables of such a document are inside the reach of run_always_legal_history / _fast *)
Theorem validated_documents_are_covered : forall t l,
  vb_docb t = true -> vb_hidden_freshb t = true ->
  validate vv_fixed (gdoc_of_tree t) = Ok l -> no_fatal l = true -> vb_sideb t = true ->
  forall late, wf_histb (flatten late t) = true /\ fs_type (st (flatten late t) 0) = FCompound.
Proof. intros t l Hd Hf Hv Hn. apply validated_wf_hist_lemma; [exact Hd | exact Hf | now exists l]. Qed.
Print Assumptions validated_documents_are_covered.

(* the property as stated (every validated document) is refuted for both engine models: the C02-K1 document validates
   without fatal issue, meets every side condition but vb_hist_disjointb, and reaches an illegal configuration *)
Theorem validated_documents_need_disjoint_histories_refuted :
  breaks kho_tree [true; true; true; true; true; true; false] [[101%N]].
Proof. exact hist_disjoint_needed_refuted. Qed.
Print Assumptions validated_documents_need_disjoint_histories_refuted.

(* ===================== work package `tt`: legality of every run from a document-level predicate ===================== *)
From V Require Import Fast LegalHistRun LegalHistWf LegalHistFastRun FlattenWf ValidateBridge ValidateBridgeRun.
From V Require Import FlattenStaticTree FlattenStaticHist FlattenStaticMain FlattenStaticWitness.

(* WHAT: C02 for documents with <initial> elements, deep / multiple initial attributes and histories, from a
   predicate on the DOCUMENT alone: for every tree of hist_treeb (FlattenStaticTree.v: root <scxml> with a child;
   schema nesting with <history>/<initial> below <state> only; unique numbers; non-empty, existing, legal target and
   initial-attribute sets, the latter of descendants; <initial>/<history> with exactly one transition without
   cond/event to proper states below the parent (proper children for a shallow history); no state below the parent
   of a deep history owns a history), both bindings, both variants of the executable-content model, every list of
   external events and every number of steps, the configuration of BOTH engine models is legal.
   Differs from run_always_legal_validated_document: no validator verdict, no numbering condition vb_hidden_freshb.
   Each clause is needed (hist_tree_clauses_needed in Properties_C03.v; C02-K1 is the witness for the last).
   NOT COVERED: the generated C; documents outside hist_treeb (histories below <parallel>, overlapping histories). *)
Theorem document_run_always_legal_history : forall t, hist_treeb t = true ->
  forall late xv fuel evs,
    let c := flatten late t in
    CfgOK c (fst (run_loop c lstate (large_step lg_fixed xv c) l_cfg fuel l_pristine x_init evs)) /\
    CfgOK c (fst (run_loop c lstate (fast_step xv c) l_cfg fuel l_pristine x_init evs)).
Proof. exact document_run_legal_history_lemma. Qed.
Print Assumptions document_run_always_legal_history.

(* ... the invariant form: legal configuration of proper states and a usable history record, along runs and for one
   step() from any such state *)
Theorem document_run_always_legal_history_strong : forall t, hist_treeb t = true ->
  forall late xv fuel evs,
    let c := flatten late t in
    CfgOKH c (fst (run_loop c lstate (large_step lg_fixed xv c) l_cfg fuel l_pristine x_init evs)) /\
    CfgOKH c (fst (run_loop c lstate (fast_step xv c) l_cfg fuel l_pristine x_init evs)).
Proof. exact document_run_legal_history_strong_lemma. Qed.
Print Assumptions document_run_always_legal_history_strong.

Theorem document_microstep_preserves_legal_history : forall t, hist_treeb t = true ->
  forall late xv, let c := flatten late t in
    (forall l x, CfgOKH c l -> CfgOKH c (fst (fst (large_step lg_fixed xv c l x)))) /\
    (forall l x, CfgOKH c l -> CfgOKH c (fst (fst (fast_step xv c l x)))).
Proof. exact document_step_legal_history_lemma. Qed.
Print Assumptions document_microstep_preserves_legal_history.

(* the tables of such a document are inside the reach of run_always_legal_history / _fast *)
Theorem history_documents_are_covered : forall late t, hist_treeb t = true ->
  wf_histb (flatten late t) = true /\ fs_type (st (flatten late t) 0) = FCompound.
Proof. exact flatten_wf_hist_lemma. Qed.
Print Assumptions history_documents_are_covered.

(* without the last clause the statement is false: C02-K1 passes every other clause of hist_treeb and both engine
   models reach an illegal configuration on e *)
Theorem document_run_always_legal_history_needs_disjoint_histories_refuted :
  ht_clauses kho_tree = [true; true; true; true; true; true; true; false] /\ tables_bad kho_tree = true /\
  run_illegal kho_tree [[101%N]] = true.
Proof. exact disjoint_clause_needed_refuted. Qed.
Print Assumptions document_run_always_legal_history_needs_disjoint_histories_refuted.

From V Require Import Spec LegalHistParBase LegalHistParEntry LegalHistParStep LegalHistParRun LegalHistParWf LegalHistParFast
     LegalHistParFastRun LegalHistParOracle.

(* WHAT: after initialisation and after every microstep of EVERY run (all event histories, datamodel states, numbers of
   steps) of the model Large.v of LargeMicroStep::step the configuration is legal and the history record is usable
   (CfgOKH, as in run_always_legal_history_strong).
   FOR WHICH CHARTS: wf_histpb (LegalHistParWf.v) = wf_histb GENERALISED: a <history> may also sit directly below a
   <parallel> state (completion as flatten builds it: shallow = the regions, deep = every proper state below the
   parallel).  Extra clauses, vacuous when no history has a parallel parent: (1) hist_par_ok on every transition's
   targets and every compound's completion list: a list that names a history h of a parallel state q names, below q,
   only children of q and no other pseudo-state of q; (2) such a history precedes the regions in document order
   (resortStates does that) and q has a region.  wf_histb c = true -> wf_histpb c = true (next theorem).
   STATEMENT SHAPE: CfgOKH (legality over PROPER children, what the oracle legal_configb checks), not the CfgOK of
   run_always_legal: that notion demands ALL children of an active parallel state active and is false as soon as
   a parallel state has a history child (all_children_notion_refuted below).
   NOT COVERED: overlapping histories with different parents (false, C02-K1); a transition / initial attribute naming
   the history of a parallel state together with a state deeper below it (false, see
   history_of_parallel_target_set_needed); the generated C. *)
Theorem run_always_legal_history_parallel :
  forall c xv, wf_histpb c = true -> fs_type (st c 0) = FCompound ->
  forall fuel evs,
    CfgOKH c (fst (run_loop c lstate (large_step lg_fixed xv c) l_cfg fuel l_pristine x_init evs)).
Proof. exact run_legal_history_parallel. Qed.
Print Assumptions run_always_legal_history_parallel.

(* WHAT: the same for the model Fast.v of FastMicroStep::step (repaired code), same charts *)
Theorem run_always_legal_history_parallel_fast :
  forall c xv, wf_histpb c = true -> fs_type (st c 0) = FCompound ->
  forall fuel evs,
    CfgOKH c (fst (run_loop c lstate (fast_step xv c) l_cfg fuel l_pristine x_init evs)).
Proof. exact fast_run_legal_history_parallel. Qed.
Print Assumptions run_always_legal_history_parallel_fast.

(* WHAT: one step() of either engine model from ANY state with a legal configuration and a usable record *)
Theorem microstep_preserves_legal_history_parallel :
  forall c xv, wf_histpb c = true -> fs_type (st c 0) = FCompound ->
  forall l x, CfgOKH c l -> CfgOKH c (fst (fst (large_step lg_fixed xv c l x))).
Proof. exact step_legal_history_parallel. Qed.
Print Assumptions microstep_preserves_legal_history_parallel.

Theorem microstep_preserves_legal_history_parallel_fast :
  forall c xv, wf_histpb c = true -> fs_type (st c 0) = FCompound ->
  forall l x, CfgOKH c l -> CfgOKH c (fst (fst (fast_step xv c l x))).
Proof. exact fast_step_legal_history_parallel. Qed.
Print Assumptions microstep_preserves_legal_history_parallel_fast.

(* WHAT: the new reach contains the old one *)
Theorem history_charts_are_covered_parallel : forall c, wf_histb c = true -> wf_histpb c = true.
Proof. exact wf_histb_histpb. Qed.
Print Assumptions history_charts_are_covered_parallel.

(* WHAT: the oracle legal_configb implies the legality notion of these theorems on every chart of wf_histpb *)
Theorem oracle_implies_legal_history_parallel :
  forall c, wf_histpb c = true -> forall cfg, legal_configb c cfg = true -> LegalCfgH c cfg.
Proof. intros c H cfg. apply legal_configb_sound_hp. now apply wf_histpb_sound. Qed.
Print Assumptions oracle_implies_legal_history_parallel.

(* non-vacuity, computed from flatten: (a) a document with a shallow history directly below one <parallel> and a deep
   history (two default targets) directly below another passes wf_histpb and is outside wf_histb; both are left and
   re-entered through the histories (hpp_tree_run: default entry, shallow restore completed by default children, deep
   restore; both engines); (b) the done-family charts with a history of tools/chart_runs.py (done_family(hist='hd'|'hs'):
   parallel s3 with history child 20 and regions s4, s7, transition on done.state.s3) pass wf_histpb *)
Theorem hypotheses_satisfiable_history_parallel :
  wf_histpb (flatten false hpp_tree) = true /\ fs_type (st (flatten false hpp_tree) 0) = FCompound /\
  wf_histb (flatten false hpp_tree) = false.
Proof. exact hpp_tree_wf. Qed.
Print Assumptions hypotheses_satisfiable_history_parallel.

Theorem done_family_history_charts_are_covered :
  wf_histpb (flatten false (done_family_tree KHistDeep [5; 8]%N)) = true /\
  wf_histpb (flatten false (done_family_tree KHistShallow [4; 7]%N)) = true /\
  wf_histb (flatten false (done_family_tree KHistDeep [5; 8]%N)) = false /\
  wf_histb (flatten false (done_family_tree KHistShallow [4; 7]%N)) = false.
Proof. exact done_family_hist_wf. Qed.
Print Assumptions done_family_history_charts_are_covered.

(* WHAT: the new clause cannot be dropped.  Document hpw_tree: parallel s2{deep history h20, s3{s4,s5}, s6{s7,s8}},
   s9 --e3--> "h20 s4".  It passes every conjunct of wf_histpb but the target-set clause; after e2, e, e3 BOTH engine
   models end with s4 and s5 active in the region s3 (legal_configb = false), and so does the Appendix-D algorithm
   (Spec.v, run_spec: s2 s3 s4 s5 s6 s7).  A document problem the W3C algorithm shares, not a deviation of uscxml. *)
Theorem history_of_parallel_target_set_needed :
  exists t evs fuel,
    let c := flatten false t in
    whpb_target_sets c = false /\
    (wfb_nonempty c && wfb_root c && wfb_parent c && wfb_children c && wfb_anc c && wfb_interval c &&
     wfb_root_type c && wfb_src c && wfb_targets c && whpb_pseudo_parent c && whb_pseudo_leaf c && whpb_completion c &&
     whb_initial c && whb_hist_default c && whb_hist_cpl c && whb_hist_disjoint c && whpb_par_hist c)%bool = true /\
    legal_configb c (l_cfg (fst (run_loop c lstate (large_step lg_fixed ex_fixed c) l_cfg fuel l_pristine x_init evs))) = false /\
    legal_configb c (l_cfg (fst (run_loop c lstate (fast_step ex_fixed c) l_cfg fuel l_pristine x_init evs))) = false /\
    last (cfgs_of (fst (run_large lg_fixed ex_fixed false t evs fuel))) [] = [0; 2; 3; 4; 5; 6; 7]%N /\
    last (cfgs_of (fst (run_fast ex_fixed false t evs fuel))) [] = [0; 2; 3; 4; 5; 6; 7]%N /\
    last (cfgs_of (fst (run_spec false t evs fuel))) [] = [2; 3; 4; 5; 6; 7]%N.
Proof. exact history_of_parallel_target_set_needed_refuted. Qed.
Print Assumptions history_of_parallel_target_set_needed.

(* WHAT: why the statements above are not in the shape of run_always_legal: LegalRun.LegalCfg (all children of an active
   parallel state active) fails on a configuration the oracle accepts, of a chart of wf_histpb *)
Theorem all_children_notion_refuted :
  exists t fuel,
    let c := flatten false t in
    let cfg := l_cfg (fst (run_loop c lstate (large_step lg_fixed ex_fixed c) l_cfg fuel l_pristine x_init [])) in
    wf_histpb c = true /\ legal_configb c cfg = true /\ ~ LegalCfg c cfg.
Proof. exact all_children_shape_refuted. Qed.
Print Assumptions all_children_notion_refuted.
