(* Properties_C02.v -- property theorems only.  C02: the active configuration is legal after every
   microstep.  See the comment at each theorem for its reach. *)
From V Require Import Base NameMatch Chart Exec Large LargeLemmas Legal.

(* for every chart, configuration, event and datamodel state the selected transitions are pairwise
   free of exit-set overlap: the reason two selected transitions cannot both re-complete the same
   compound state *)
Theorem selected_transitions_conflict_free :
  forall v c cfg ev order x,
    pairwise_ok v c (fst (select_loop v c cfg ev order None [] x)).
Proof. intros. apply select_loop_pairwise. apply nil_pairwise. Qed.
Print Assumptions selected_transitions_conflict_free.
