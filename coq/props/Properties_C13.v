(* Properties_C13.v -- property theorems only.  C13: monitor notifications are a well-nested account of
   execution.  wf_traceb (Trace.v) recognises the grammar of DESIGN.md Appendix E: every `before` has its
   `after`, a microstep bracket contains exits, then transitions, then entries (with the <initial>/<history>
   transitions of an entered state), executable content only inside state/transition/completion brackets,
   and only event processing, stable and completion notices and step() results outside brackets. *)
From V Require Import Base NameMatch Chart Exec Large Interp Trace TraceLemmas Fast FastTraceLemmas.

(* U: for EVERY document tree, binding, external event history and step bound, the trace of the modelled
   large engine (repaired content executor) is well nested -- including runs with failing elements,
   top-level final states and eventless loops cut by the bound *)
Theorem large_trace_wf : forall lv late t evs fuel,
  wf_traceb (fst (run_large lv ex_fixed late t evs fuel)) = true.
Proof. exact run_large_wf. Qed.
Print Assumptions large_trace_wf.

(* U: the same for the fast engine *)
Theorem fast_trace_wf : forall late t evs fuel,
  wf_traceb (fst (run_fast ex_fixed late t evs fuel)) = true.
Proof. exact run_fast_wf. Qed.
Print Assumptions fast_trace_wf.

(* the executor as pinned violates it: an error in an element nested in <if> leaves the bracket of the <if> open *)
Theorem content_bracket_on_nested_error_refuted :
  exists t evs fuel, wf_traceb (fst (run_large lg_fixed ex_pinned false t evs fuel)) = false.
Proof. exact content_bracket_on_nested_error_refuted_lemma. Qed.
Print Assumptions content_bracket_on_nested_error_refuted.

(* every element of executable content, in every datamodel state, emits a balanced bracket sequence and
   leaves the enclosing brackets untouched *)
Theorem content_brackets_balanced : forall inst i x s,
  content_ctx s -> emits x (snd (exec_instr ex_fixed inst i x)) s s.
Proof. intros. now apply exec_instr_emits. Qed.
Print Assumptions content_brackets_balanced.
