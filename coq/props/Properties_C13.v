(* Properties_C13.v -- property theorems only.  C13: monitor notifications are a well-nested account of
   execution.  wf_traceb (Trace.v) recognises the grammar of DESIGN.md Appendix E: every `before` has its
   `after`, a microstep bracket contains exits, then transitions, then entries (with the <initial>/<history>
   transitions of an entered state), executable content only inside state/transition/completion brackets,
   and only event processing, stable and completion notices and step() results outside brackets. *)
From V Require Import Base NameMatch Chart Exec Large Interp Trace TraceLemmas Fast FastTraceLemmas.

(* U: for EVERY document tree, binding, external event history and step bound, the trace of the modelled
   large engine (repaired content executor) is well nested -- including runs with failing elements,
   top-level final states and eventless loops cut by the bound *)
Theorem large_trace_wf : forall lv late t evs fuel,
  wf_traceb (fst (run_large lv ex_fixed late t evs fuel)) = true.
Proof. exact run_large_wf. Qed.
Print Assumptions large_trace_wf.

(* U: the same for the fast engine *)
Theorem fast_trace_wf : forall late t evs fuel,
  wf_traceb (fst (run_fast ex_fixed late t evs fuel)) = true.
Proof. exact run_fast_wf. Qed.
Print Assumptions fast_trace_wf.

(* the executor as pinned violates it: an error in an element nested in <if> leaves the bracket of the <if> open *)
Theorem content_bracket_on_nested_error_refuted :
  exists t evs fuel, wf_traceb (fst (run_large lg_fixed ex_pinned false t evs fuel)) = false.
Proof. exact content_bracket_on_nested_error_refuted_lemma. Qed.
Print Assumptions content_bracket_on_nested_error_refuted.

(* every element of executable content, in every datamodel state, emits a balanced bracket sequence and
   leaves the enclosing brackets untouched *)
Theorem content_brackets_balanced : forall inst i x s,
  content_ctx s -> emits x (snd (exec_instr ex_fixed inst i x)) s s.
Proof. intros. now apply exec_instr_emits. Qed.
Print Assumptions content_brackets_balanced.


(* ================================================================================================
   C13, second half: the notifications are a COMPLETE account of execution.
   trace_completeb (TraceComplete.v) is an executable checker over the canonical trace of a run, which
   contains, after each call of step(), the result code (TRet) and the configuration (TCfg).  It demands:
   at most one event report per step, first; at most one micro-step bracket per step; after a step with a
   bracket: exits strictly descending and entries strictly ascending in document order (so nothing twice),
   exited states were active, entered ones were not (after the exits), new configuration = (old - exited) +
   entered, in document order; after a step without a bracket the configuration is unchanged; a stable
   notice is the only notification of its step, which returns MACROSTEPPED, and every MACROSTEPPED step has
   one; between two stable notices an event or a micro-step was reported; IDLE is only returned while the
   last stable notice is outstanding; steps reporting an event or micro-step return MICROSTEPPED.
   sid_pos c : document position of a state id.
   Conditions (boolean, on the flat chart c = flatten late t):
     sids_distinctb c   -- state ids identify states (the notifications carry ids only);
     raise_names_okb c  -- no <raise event="">: the MODEL of step() takes an unnamed head of the internal
                           queue for an empty queue and idles (the C++ drops it and goes on; outside the fragment).
   Each is shown necessary by a witness below.
   ================================================================================================ *)
From V Require Import SetLemmas TraceComplete TraceCompleteBase TraceCompleteMicro TraceCompleteStep TraceCompleteRun
     TraceCompleteWitness TraceCompleteFast TraceCompleteFlatten.

(* U: for EVERY document tree, binding, engine variant (pinned or repaired LargeMicroStep), executor variant
   (pinned or repaired), external event list and step bound, the trace of the modelled large engine passes the
   completeness checker.  Not covered: invocations, cancellation (never set in these runs), delayed sends. *)
Theorem large_trace_complete : forall lv xv late t evs fuel,
  sids_distinctb (flatten late t) = true -> raise_names_okb (flatten late t) = true ->
  trace_completeb (sid_pos (flatten late t)) (fst (run_large lv xv late t evs fuel)) = true.
Proof. exact run_large_complete_tree. Qed.
Print Assumptions large_trace_complete.

(* U: the same for the fast engine *)
Theorem fast_trace_complete : forall xv late t evs fuel,
  sids_distinctb (flatten late t) = true -> raise_names_okb (flatten late t) = true ->
  trace_completeb (sid_pos (flatten late t)) (fst (run_fast xv late t evs fuel)) = true.
Proof. exact run_fast_complete_tree. Qed.
Print Assumptions fast_trace_complete.

(* U: the same for ANY flat chart (not necessarily the image of a document) without dangling state indices
   and with an ascending root completion (report_okb); both hold of every flatten late t *)
Theorem large_trace_complete_flat : forall lv xv c evs fuel,
  report_okb c = true -> raise_names_okb c = true ->
  trace_completeb (sid_pos c)
    (rev (x_out (snd (run_loop c lstate (large_step lv xv c) l_cfg fuel l_pristine x_init evs)))) = true.
Proof. exact large_run_complete. Qed.
Print Assumptions large_trace_complete_flat.

Theorem fast_trace_complete_flat : forall xv c evs fuel,
  report_okb c = true -> raise_names_okb c = true ->
  trace_completeb (sid_pos c)
    (rev (x_out (snd (run_loop c lstate (fast_step xv c) l_cfg fuel l_pristine x_init evs)))) = true.
Proof. exact fast_run_complete. Qed.
Print Assumptions fast_trace_complete_flat.

Theorem flatten_is_report_ok : forall late t, sids_distinctb (flatten late t) = true -> report_okb (flatten late t) = true.
Proof. exact flatten_report_okb. Qed.
Print Assumptions flatten_is_report_ok.

(* U, no condition on the chart at all: one micro-step of LargeMicroStep (every variant), from ANY engine
   state.  Between beforeMicroStep and afterMicroStep the notifications other than those of executable
   content are EXACTLY micro_skel: an exit bracket for each state of the exit set in reverse document order,
   a bracket for each selected transition in document order, an entry bracket for each proper state of the
   entry set that is not active after the exits, ascending, each followed by the <initial>/<history>
   transitions of its children that are in the transition set; and the configuration afterwards is
   (configuration - exit set) + those entered. *)
Theorem microstep_reports_delta : forall v xv c l x targets exitset transset initial_step,
  let r := microstep v xv c l x targets exitset transset initial_step in
  let ts := snd (ms_entry v c l targets exitset transset initial_step) in
  let cfg1 := remove_all (rev exitset) (l_cfg l) in
  let en := entered_of c (set_diff (fst (ms_entry v c l targets exitset transset initial_step)) cfg1) in
  exists new,
    x_out (snd r) = rev new ++ x_out x /\
    skeleton new = micro_skel c (rev exitset) ts en ++ [TMsE] /\
    xb_of new = map (sid_of c) (rev exitset) /\ xe_of new = map (sid_of c) (rev exitset) /\
    eb_of new = map (sid_of c) en /\ ee_of new = map (sid_of c) en /\
    tb_of new = map (vid_of c) (plain_trans c ts ++ flat_map (pseudo_trans c ts) en) /\
    l_cfg (fst r) = insert_all en cfg1 /\
    (forall i, In i (l_cfg (fst r)) <-> (In i (l_cfg l) /\ ~ In i exitset) \/ In i en).
Proof. exact microstep_reports_delta_lemma. Qed.
Print Assumptions microstep_reports_delta.

(* U: ... and in that account nothing occurs twice and the order is the execution order, whenever target set
   and exit set are ascending lists (they always are: they are built by sorted insertion) *)
Theorem microstep_delta_ordered : forall v c l targets exitset transset initial_step,
  ssorted targets -> ssorted exitset ->
  let cfg1 := remove_all (rev exitset) (l_cfg l) in
  let en := entered_of c (set_diff (fst (ms_entry v c l targets exitset transset initial_step)) cfg1) in
  ssorted (rev (rev exitset)) /\ ssorted en /\ (forall i, In i en -> ~ In i cfg1) /\ NoDup (rev exitset) /\ NoDup en.
Proof. exact microstep_delta_ordered_lemma. Qed.
Print Assumptions microstep_delta_ordered.

(* U: the transition brackets of the TAKE_TRANSITIONS phase contain no transition twice and every selected
   transition proper (the selection is an ascending list) *)
Theorem microstep_transitions_once : forall v c l targets exitset transset initial_step,
  ssorted transset ->
  let ts := snd (ms_entry v c l targets exitset transset initial_step) in
  NoDup (plain_trans c ts) /\
  (forall ti, In ti transset -> is_pseudo_trans c ti = false -> In ti (plain_trans c ts)).
Proof. exact microstep_transitions_once_lemma. Qed.
Print Assumptions microstep_transitions_once.

(* U: processed events.  dequeues l x (TraceComplete.v) is the decision of step() in front of the queues;
   run_deq collects it along the run.  The event reports of a run are exactly the names of the dequeued
   events, once each, in dequeue order ... *)
Theorem large_events_reported : forall lv xv late t evs fuel,
  sids_distinctb (flatten late t) = true -> raise_names_okb (flatten late t) = true ->
  ev_of (fst (run_large lv xv late t evs fuel)) =
  flat_map deq_names (run_deq (large_step lv xv (flatten late t)) (flatten late t) fuel l_pristine x_init evs).
Proof. exact run_large_events_tree. Qed.
Print Assumptions large_events_reported.

Theorem fast_events_reported : forall xv late t evs fuel,
  sids_distinctb (flatten late t) = true -> raise_names_okb (flatten late t) = true ->
  ev_of (fst (run_fast xv late t evs fuel)) =
  flat_map deq_names (run_deq (fast_step xv (flatten late t)) (flatten late t) fuel l_pristine x_init evs).
Proof. exact run_fast_events_tree. Qed.
Print Assumptions fast_events_reported.

(* ... and that decision is what happens to the queues: from every state a run reaches (with any further
   external events handed in), the step takes exactly the head dequeues names -- the internal queue first, the
   external one only when the internal one is empty (and, by definition of dequeues, the stable notice is out)
   -- and otherwise only appends to the queues *)
Theorem large_step_takes_the_reported_event : forall lv xv late t evs fuel more,
  sids_distinctb (flatten late t) = true -> raise_names_okb (flatten late t) = true ->
  let c := flatten late t in
  let r := run_loop c lstate (large_step lv xv c) l_cfg fuel l_pristine x_init evs in
  let x := fold_left (fun x e => raise_ext e x) more (snd r) in
  queue_effect (dequeues (fst r) x) x (snd (fst (large_step lv xv c (fst r) x))).
Proof. exact large_reached_step_queues. Qed.
Print Assumptions large_step_takes_the_reported_event.

Theorem fast_step_takes_the_reported_event : forall xv late t evs fuel more,
  sids_distinctb (flatten late t) = true -> raise_names_okb (flatten late t) = true ->
  let c := flatten late t in
  let r := run_loop c lstate (fast_step xv c) l_cfg fuel l_pristine x_init evs in
  let x := fold_left (fun x e => raise_ext e x) more (snd r) in
  queue_effect (dequeues (fst r) x) x (snd (fst (fast_step xv c (fst r) x))).
Proof. exact fast_reached_step_queues. Qed.
Print Assumptions fast_step_takes_the_reported_event.

(* U: an external event is only taken when the internal queue is empty, no eventless selection is pending and
   the stable notice of the macrostep has been issued (l_stable is what the checker tracks as k_stable) *)
Theorem dequeues_ext_needs_stable : forall l x e,
  dequeues l x = DeqExt e -> l_stable l = true /\ x_iq x = [] /\ l_spont l = false /\ hd_error (x_eq x) = Some e.
Proof. exact dequeues_ext_needs_stable_lemma. Qed.
Print Assumptions dequeues_ext_needs_stable.

(* U: executed elements (repaired executor): executing one element, successfully or not, in any datamodel
   state, appends its own "before", then only content reports of nested elements, then its own "after" *)
Theorem element_reported_once : forall inst i x,
  exists mid, x_out (snd (exec_instr ex_fixed inst i x)) = TCe (instr_vid i) :: rev mid ++ TCb (instr_vid i) :: x_out x /\
              skeleton mid = [].
Proof. exact element_reported_once_lemma. Qed.
Print Assumptions element_reported_once.

(* non-vacuity: a document with a <parallel> state and nested compounds satisfies the conditions; its run
   (3 micro-steps, 2 events, a stable notice, completion) is accepted; damaged copies of its trace (an exit
   dropped, an entry dropped, the stable notice dropped) are rejected.  TraceCompleteWitness.v has more. *)
Theorem completeness_nonvacuous :
  sids_distinctb tcw_chart = true /\ raise_names_okb tcw_chart = true /\
  trace_completeb (sid_pos tcw_chart) tcw_trace = true /\
  length (filter (fun t => match t with TMsB => true | _ => false end) tcw_trace) = 3%nat /\
  ev_of tcw_trace = [[101%N]; [102%N]] /\
  trace_completeb (sid_pos tcw_chart) (tcw_drop (fun t => match t with TXb 3 | TXe 3 => true | _ => false end) tcw_trace) = false /\
  trace_completeb (sid_pos tcw_chart) (tcw_drop (fun t => match t with TEb 7 | TEe 7 => true | _ => false end) tcw_trace) = false /\
  trace_completeb (sid_pos tcw_chart) (tcw_drop (fun t => match t with TStable => true | _ => false end) tcw_trace) = false.
Proof. exact completeness_nonvacuous_lemma. Qed.
Print Assumptions completeness_nonvacuous.

(* REFUTED (finding against the property text, both engines share the code path): states active when the
   interpreter completes are exited -- their <onexit> content runs and is reported inside the completion
   bracket -- but no exit is reported for them, and the configuration reported after FINISHED still lists them *)
Theorem completion_exits_unreported_refuted :
  exists t evs fuel s e,
    let c := flatten false t in
    let tr := fst (run_large lg_fixed ex_fixed false t evs fuel) in
    report_okb c = true /\ raise_names_okb c = true /\
    memN s (eb_of tr) = true /\
    tcw_has (fun t => match t with TRet 0 => true | _ => false end) tr = true /\
    tcw_has (fun t => match t with TCb i => (i =? e)%N | _ => false end) tr = true /\
    memN s (xb_of tr) = false /\
    last tr (TRet 0) = TCfg [0%N; s].
Proof. exact completion_exits_unreported_refuted_lemma. Qed.
Print Assumptions completion_exits_unreported_refuted.

(* REFUTED (finding against "once per completed macrostep"): the macrostep that ends in a top-level final
   state gets no stable-configuration notice *)
Theorem final_macrostep_no_stable_refuted :
  exists t evs fuel,
    let tr := fst (run_large lg_fixed ex_fixed false t evs fuel) in
    tcw_has (fun t => match t with TMsE => true | _ => false end) tr = true /\
    tcw_has (fun t => match t with TRet 0 => true | _ => false end) tr = true /\
    tcw_has (fun t => match t with TStable => true | _ => false end) tr = false.
Proof. exact final_macrostep_no_stable_refuted_lemma. Qed.
Print Assumptions final_macrostep_no_stable_refuted.

(* the side conditions cannot be dropped *)
Theorem distinct_ids_needed_refuted :
  exists t evs fuel,
    let c := flatten false t in
    sids_distinctb c = false /\ refs_in_rangeb c = true /\ ascb (fs_completion (st c 0)) = true /\
    raise_names_okb c = true /\
    trace_completeb (sid_pos c) (fst (run_large lg_fixed ex_fixed false t evs fuel)) = false.
Proof. exact distinct_ids_needed_refuted_lemma. Qed.
Print Assumptions distinct_ids_needed_refuted.

Theorem named_raise_needed_refuted :
  exists t evs fuel,
    let c := flatten false t in
    report_okb c = true /\ raise_names_okb c = false /\
    trace_completeb (sid_pos c) (fst (run_large lg_fixed ex_fixed false t evs fuel)) = false.
Proof. exact named_raise_needed_refuted_lemma. Qed.
Print Assumptions named_raise_needed_refuted.

Theorem refs_in_range_needed_refuted :
  exists c, sids_distinctb c = true /\ refs_in_rangeb c = false /\ ascb (fs_completion (st c 0)) = true /\
            raise_names_okb c = true /\ trace_completeb (sid_pos c) (tcw_run c) = false.
Proof. exact refs_in_range_needed_refuted_lemma. Qed.
Print Assumptions refs_in_range_needed_refuted.

Theorem sorted_root_completion_needed_refuted :
  exists c, sids_distinctb c = true /\ refs_in_rangeb c = true /\ ascb (fs_completion (st c 0)) = false /\
            raise_names_okb c = true /\ trace_completeb (sid_pos c) (tcw_run c) = false.
Proof. exact sorted_root_completion_needed_refuted_lemma. Qed.
Print Assumptions sorted_root_completion_needed_refuted.
