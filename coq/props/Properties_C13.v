(* Properties_C13.v -- property theorems only.  C13: monitor notifications are well nested. *)
From V Require Import Base NameMatch Chart Exec Large LargeLemmas Trace.

Theorem finished_is_absorbing :
  forall v xv c l x, l_fin l = true -> large_step v xv c l x = (l, x, RC_FINISHED).
Proof. exact large_step_finished_absorbing. Qed.
Print Assumptions finished_is_absorbing.
