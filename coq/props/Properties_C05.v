(* Properties_C05.v -- property theorems only.  C05: the transpilers compute the chart's structural
   relations correctly (Impl_tables = what ChartToC::prepare and Predicates.cpp compute, as written;
   Spec_tables = the Recommendation's definitions on tree occurrences). *)
From V Require Import Base Chart Tables TreeLemmas TablesLemmas.
Local Open Scope nat_scope.

(* v : tv_variant selects pinned / repaired code (switch tv_history_covered).

   U: the model's only fuelled function (parent-pointer chasing) never runs out of fuel *)
Theorem impl_total : forall v t0, exists tb, Impl_tables v t0 = Ok tb.
Proof. exact impl_total_lemma. Qed.
Print Assumptions impl_total.

(* U (all trees): tree_interval for the flat tables of LargeMicroStep::init (Chart.flatten): the
   descendants of the state numbered a are exactly the states numbered in (a, a + fs_size a); parents,
   children (ascending, tiling the interval) and ancestor sets agree with it *)
Theorem tree_interval : forall late t0,
  let c := flatten late t0 in
  let n := tsize (resort t0) in
  nstates c = n /\
  (forall a, a < n -> 1 <= fs_size (st c a) /\ a + fs_size (st c a) <= n) /\
  (forall a b, a < n -> b < n ->
     (mem a (fs_ancestors (st c b)) = true <-> a < b /\ b < a + fs_size (st c a))) /\
  (forall a b, b < n -> fs_parent (st c b) = Some a -> a < b /\ b < a + fs_size (st c a)) /\
  (forall b, b < n -> (fs_parent (st c b) = None <-> b = 0)) /\
  (forall a b, a < n -> (In b (fs_children (st c a)) <-> b < n /\ fs_parent (st c b) = Some a)) /\
  (forall a, a < n -> tiles (fun j => fs_size (st c j)) (fs_children (st c a)) (S a) (a + fs_size (st c a))).
Proof. exact tree_interval_flatten. Qed.
Print Assumptions tree_interval.

(* U: the same on occurrences: a's path is a proper prefix of b's iff b is numbered in (a, a + size a) *)
Theorem tree_interval_paths : forall t a b, a < tsize t -> b < tsize t ->
  (proper_prefix (pth_of t a) (pth_of t b) = true <-> a < b /\ b < a + tsize (subd t (pth_of t a))).
Proof. exact prefix_interval. Qed.
Print Assumptions tree_interval_paths.

(* U: the states are numbered in pre-order: the i-th state is the occurrence at the i-th path in
   lexicographic order *)
Theorem impl_docorder_is_preorder : forall v t0, exists tb, Impl_tables v t0 = Ok tb /\
  map (fun s => (sb_kind s, sb_sid s)) (tbl_states tb) =
  map (fun p => (t_kind (subd (resort t0) p), t_sid (subd (resort t0) p))) (paths (resort t0)).
Proof. exact impl_docorder_is_preorder_lemma. Qed.
Print Assumptions impl_docorder_is_preorder.

(* U: [paths] lists exactly the occurrences of the tree, each once, in lexicographic order: the numbering
   above is the document (pre-)order *)
Theorem docorder_is_lexicographic : forall t,
  Sorted.StronglySorted (fun a b => lex_lt a b = true) (paths t) /\ NoDup (paths t) /\
  (forall p, In p (paths t) <-> exists u, sub t p = Some u).
Proof. exact paths_enumeration_lemma. Qed.
Print Assumptions docorder_is_lexicographic.

(* U: the re-sorting (resortStates) moves only pseudo-states; the proper children keep their order *)
Theorem resort_keeps_proper_children : forall t,
  filter (fun c => is_proper_kind (t_kind c)) (t_kids (resort t)) =
  map resort (filter (fun c => is_proper_kind (t_kind c)) (t_kids t)).
Proof. exact resort_proper_children. Qed.
Print Assumptions resort_keeps_proper_children.

Theorem impl_parent_correct : forall v t0, exists tb, Impl_tables v t0 = Ok tb /\
  map sb_parent (tbl_states tb) = map sb_parent (tbl_states (Spec_tables t0)).
Proof. exact impl_parent_correct_lemma. Qed.
Print Assumptions impl_parent_correct.

Theorem impl_children_correct : forall v t0, exists tb, Impl_tables v t0 = Ok tb /\
  map sb_child (tbl_states tb) = map sb_child (tbl_states (Spec_tables t0)).
Proof. exact impl_children_correct_lemma. Qed.
Print Assumptions impl_children_correct.

Theorem impl_ancestors_correct : forall v t0, exists tb, Impl_tables v t0 = Ok tb /\
  map sb_anc (tbl_states tb) = map sb_anc (tbl_states (Spec_tables t0)).
Proof. exact impl_ancestors_correct_lemma. Qed.
Print Assumptions impl_ancestors_correct.

(* U: transitions are numbered (postFixOrder) in post-order of their source elements, document order
   within one element; source and documentOrder attributes likewise *)
Theorem impl_postfix_is_postorder_of_sources : forall v t0, exists tb, Impl_tables v t0 = Ok tb /\
  map (fun t => (tb_source t, tb_vid t, tb_doc t)) (tbl_trans tb) =
  map (fun t => (tb_source t, tb_vid t, tb_doc t)) (tbl_trans (Spec_tables t0)).
Proof. exact impl_postfix_lemma. Qed.
Print Assumptions impl_postfix_is_postorder_of_sources.

Theorem impl_targets_correct : forall v t0, exists tb, Impl_tables v t0 = Ok tb /\
  map tb_target (tbl_trans tb) = map tb_target (tbl_trans (Spec_tables t0)).
Proof. exact impl_targets_correct_lemma. Qed.
Print Assumptions impl_targets_correct.

(* U, for well-formed documents (wf_doc: <final>/<history>/<initial> are leaves, ids unique, the root and
   only the root is <scxml>): default completion of every element that is no <history> *)
Theorem impl_completion_correct : forall v t0, wf_doc (resort t0) = true -> exists tb, Impl_tables v t0 = Ok tb /\
  forall i, i < length (tbl_states tb) -> is_hist_kind (sb_kind (nth i (tbl_states tb) (spec_stab (resort t0) 0))) = false ->
    sb_compl (nth i (tbl_states tb) (spec_stab (resort t0) 0)) =
    sb_compl (nth i (tbl_states (Spec_tables t0)) (spec_stab (resort t0) 0)).
Proof. exact impl_completion_correct_lemma. Qed.
Print Assumptions impl_completion_correct.

(* U (wf_doc): getTransitionDomain / findLCCA compute the Recommendation's transition domain *)
Theorem impl_domain_is_lcca : forall v t0, wf_doc (resort t0) = true -> exists tb, Impl_tables v t0 = Ok tb /\
  map tb_domain (tbl_trans tb) = map tb_domain (tbl_trans (Spec_tables t0)).
Proof. exact impl_domain_is_lcca_lemma. Qed.
Print Assumptions impl_domain_is_lcca.

(* U (wf_doc): getExitSet = the proper states strictly below the domain; in particular it never reaches
   past the domain's sub-tree, is empty for target-less transitions, and handles multi-target lists *)
Theorem impl_exit_set_correct : forall v t0, wf_doc (resort t0) = true -> exists tb, Impl_tables v t0 = Ok tb /\
  map tb_exit (tbl_trans tb) = map tb_exit (tbl_trans (Spec_tables t0)).
Proof. exact impl_exit_set_correct_lemma. Qed.
Print Assumptions impl_exit_set_correct.

(* U (wf_doc): conflictBools = (exit sets intersect) or (the source states are equal or in ancestor
   relation); the first disjunct alone is the Recommendation's relation *)
Theorem impl_conflicts_correct : forall v t0, wf_doc (resort t0) = true -> exists tb, Impl_tables v t0 = Ok tb /\
  let root := resort t0 in
  let trs := spec_postfix_trans root in
  map tb_confl (tbl_trans tb) =
  map (fun x => map (fun y => intersects (spec_exit root (fst (fst x)) (snd x)) (spec_exit root (fst (fst y)) (snd y)) ||
                              spec_related root x y) trs) trs /\
  map tb_confl (tbl_trans (Spec_tables t0)) =
  map (fun x => map (fun y => intersects (spec_exit root (fst (fst x)) (snd x)) (spec_exit root (fst (fst y)) (snd y))) trs) trs.
Proof. exact impl_conflicts_correct_lemma. Qed.
Print Assumptions impl_conflicts_correct.

(* U (wf_doc): on transitions with targets whose sources are proper, non-root states the second disjunct is
   redundant: if the sources are equal or in ancestor relation the exit sets intersect.  Hence the
   transpilers' conflict relation differs from the Recommendation's only where a target-less transition
   (or a transition of a pseudo-state) is involved. *)
Theorem conflicts_agree_on_targeted : forall root, wf_doc root = true -> forall x y,
  let ex := fst (fst x) in let ey := fst (fst y) in
  0 < ex -> ex < tsize root -> 0 < ey -> ey < tsize root ->
  spec_proper root ex = true -> spec_proper root ey = true ->
  spec_targets root (snd x) <> [] -> spec_targets root (snd y) <> [] ->
  spec_related root x y = true ->
  intersects (spec_exit root ex (snd x)) (spec_exit root ey (snd y)) = true.
Proof. exact related_targeted_intersect. Qed.
Print Assumptions conflicts_agree_on_targeted.

(* non-vacuity: a document with parallel, histories, <initial>, initial attribute, internal and
   multi-target transitions satisfies wf_doc *)
Example wf_doc_satisfiable : wf_doc (resort ex_rich) = true.
Proof. exact ex_rich_wf. Qed.

(* U (wf_doc), repaired setHistoryCompletion (patches/C05-history-completion-covered.diff, switch
   tv_history_covered off): every completion row -- of a <history>: on proper states -- is the
   Recommendation's *)
Theorem impl_history_completion_fixed : forall t0, wf_doc (resort t0) = true ->
  exists tb, Impl_tables tv_fixed t0 = Ok tb /\ mask_hist_rows tb = compl_rows (Spec_tables t0).
Proof. exact impl_history_completion_fixed_lemma. Qed.
Print Assumptions impl_history_completion_fixed.

(* refuted (pinned code): a <history> below the parent of a deep history gets an empty completion (the `covered'
   list of setHistoryCompletion), even when pseudo-states are disregarded *)
Theorem impl_history_completion_refuted :
  exists t0 tb, Impl_tables tv_pinned t0 = Ok tb /\ mask_hist_rows tb <> compl_rows (Spec_tables t0).
Proof. exact impl_history_completion_refuted_lemma. Qed.
Print Assumptions impl_history_completion_refuted.

(* refuted: the transpilers' conflict relation is not the Recommendation's (exit sets intersect) *)
Theorem impl_conflicts_vs_recommendation_refuted :
  exists t0 tb, Impl_tables tv_fixed t0 = Ok tb /\ confl_rows tb <> confl_rows (Spec_tables t0).
Proof. exact impl_conflicts_vs_recommendation_refuted_lemma. Qed.
Print Assumptions impl_conflicts_vs_recommendation_refuted.

(* refuted: resortStates keeps the order of several <history> siblings *)
Theorem resort_history_order_refuted :
  exists t0, map t_sid (filter (fun c => is_hist_kind (t_kind c)) (t_kids (nth 0 (t_kids (resort t0)) dummy_tree))) <>
             map t_sid (filter (fun c => is_hist_kind (t_kind c)) (t_kids (nth 0 (t_kids t0) dummy_tree))).
Proof. exact resort_history_order_refuted_lemma. Qed.
Print Assumptions resort_history_order_refuted.
