(* Properties_C12.v -- property theorems only.  C12: event descriptors match exactly as the
   Recommendation prescribes (3.12.1). *)
From V Require Import Base NameMatch NameMatchLemmas.

(* U: for every descriptor list whose descriptors are admitted by the Recommendation's grammar and
   every whitespace-free event name, the (repaired) scanner decides exactly the Recommendation's
   relation.  All byte strings, any length. *)
Theorem name_match_correct : forall descs name,
  wf_descs descs = true -> no_space name = true ->
  name_match_impl nm_fixed descs name = name_match_spec descs name.
Proof. exact name_match_correct_lemma. Qed.
Print Assumptions name_match_correct.

(* the statement is false of the code as pinned: one-character descriptors *)
Theorem name_match_pinned_refuted :
  exists descs name, wf_descs descs = true /\ no_space name = true /\
    name_match_impl nm_pinned descs name <> name_match_spec descs name.
Proof. exact pinned_one_char_last_refuted. Qed.
Print Assumptions name_match_pinned_refuted.

(* ... and of a scanner that is correct but compares case-insensitively *)
Theorem name_match_case_insensitive_refuted :
  exists descs name, wf_descs descs = true /\ no_space name = true /\
    name_match_impl {| nm_case_insensitive := true; nm_short_desc_bug := false |} descs name
      <> name_match_spec descs name.
Proof. exact case_insensitive_refuted. Qed.
Print Assumptions name_match_case_insensitive_refuted.

(* ---- "… and the statically resolved matches in Promela and VHDL output all implement this same relation" ----
   The Promela and VHDL back-ends resolve event descriptors at transformation time through the event-name trie
   (Trie.v, tied to the code by its own correspondence, vd_trie.cpp).  The three theorems below are the ones stated in
   Properties_C06.v, repeated here because they are C12's last clause. *)
From V Require Import Trie TrieLemmas.

(* U (any set of names, any prefix): getWordsWithPrefix over the '.'-separated trie returns exactly the inserted names
   whose token list extends the prefix's *)
Theorem trie_resolution_correct : forall ws d x,
  (forall w, In w ws -> canonical_name w = true) ->
  (In x (words_with_prefix (trie_of ws) d) <-> In x ws /\ list_prefixb (dot_tokens d) (dot_tokens x) = true).
Proof. exact words_with_prefix_spec. Qed.
Print Assumptions trie_resolution_correct.

(* U: on canonically spelled names "token prefix" is the Recommendation's descriptor matching *)
Theorem trie_token_prefix_is_descriptor_match : forall d w,
  canonical_name d = true -> canonical_name w = true ->
  list_prefixb (dot_tokens d) (dot_tokens w) = (beq_bytes d w || is_prefix (d ++ [c_dot]) w).
Proof. exact token_prefix_matches. Qed.
Print Assumptions trie_token_prefix_is_descriptor_match.

(* U: the literals OR-ed into a transition's guard by the Promela and the VHDL back-end are exactly the event names
   name_match_spec matches (for resolvable descriptors, a boolean the check evaluates on every generated descriptor) *)
Theorem trie_guard_literals_correct : forall v ws attr name,
  (forall w, In w ws -> canonical_name w = true) -> In name ws ->
  forallb resolvable_desc (tokens attr) = true ->
  resolved_match (resolve_attr v (trie_of ws) attr) name = name_match_spec attr name.
Proof. exact resolve_attr_correct. Qed.
Print Assumptions trie_guard_literals_correct.

(* the restriction is needed: a "*" among several descriptors is looked up as a name by the code as written *)
Theorem trie_star_in_list_refuted :
  exists ws attr name,
    (forall w, In w ws -> canonical_name w = true) /\ In name ws /\ wf_descs attr = true /\
    resolved_match (resolve_attr tv_as_written (trie_of ws) attr) name <> name_match_spec attr name.
Proof. exact star_in_list_refuted. Qed.
Print Assumptions trie_star_in_list_refuted.
