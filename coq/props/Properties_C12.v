(* Properties_C12.v -- property theorems only.  C12: event descriptors match exactly as the
   Recommendation prescribes (3.12.1). *)
From V Require Import Base NameMatch NameMatchLemmas.

(* U: for every descriptor list whose descriptors are admitted by the Recommendation's grammar and
   every whitespace-free event name, the (repaired) scanner decides exactly the Recommendation's
   relation.  All byte strings, any length. *)
Theorem name_match_correct : forall descs name,
  wf_descs descs = true -> no_space name = true ->
  name_match_impl nm_fixed descs name = name_match_spec descs name.
Proof. exact name_match_correct_lemma. Qed.
Print Assumptions name_match_correct.

(* the statement is false of the code as pinned: one-character descriptors *)
Theorem name_match_pinned_refuted :
  exists descs name, wf_descs descs = true /\ no_space name = true /\
    name_match_impl nm_pinned descs name <> name_match_spec descs name.
Proof. exact pinned_one_char_last_refuted. Qed.
Print Assumptions name_match_pinned_refuted.

(* ... and of a scanner that is correct but compares case-insensitively *)
Theorem name_match_case_insensitive_refuted :
  exists descs name, wf_descs descs = true /\ no_space name = true /\
    name_match_impl {| nm_case_insensitive := true; nm_short_desc_bug := false |} descs name
      <> name_match_spec descs name.
Proof. exact case_insensitive_refuted. Qed.
Print Assumptions name_match_case_insensitive_refuted.
