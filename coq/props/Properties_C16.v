(* Properties_C16.v -- property theorems only.  C16: values survive the trip through the Lua
   datamodel; the system variables cannot be assigned by chart code.

   The Lua VM and the C++/Lua number conversions are outside the model: every theorem that needs them
   quantifies over them (F, s2d = strTo<double>, l2d = (double)long, d2s = toStr<double>,
   leval = luaEval of an INTERPRETED atom, lexec = the chunk "<location>= __tmpAssign",
   Fst = which doubles are classified stable) and assumes [oracle_ok] resp. the named lua_* premise.
   [lm_variant] carries the five points at which the pinned code deviates; [variant_ok vr v] is true
   for every value when all switches are off (the repaired code) and spells out the restriction
   otherwise (no empty string, arrays shorter than 10, integers within +-2^53, no empty map key,
   no map key made of the characters ".-0123456789" only). *)
From V Require Import Base GenLuaProtected LuaMarshal LuaMarshalLemmas.

(* U (all values, induction on the value type): a value of the property's class, presented as Data
   (event payload, Data handed to assign), is turned by getDataAsLua into a Lua value that
   getLuaAsData reads back as the same Data.  data_eqb is the oracle of the correspondence check. *)
Theorem marshal_roundtrip :
  forall F s2d l2d d2s leval Fst, oracle_ok F s2d l2d d2s leval Fst ->
  forall vr g v, unambiguous F Fst v = true -> variant_ok F vr v = true ->
  exists l, get_data_as_lua F s2d leval vr g (embed F d2s v) = MOk l /\
            data_eqb (get_lua_as_data F l2d d2s vr l) (embed F d2s v) = true.
Proof.
  intros F s2d l2d d2s leval Fst H vr g v U V.
  destruct (marshal_roundtrip_core F s2d l2d d2s leval Fst H vr g v U V) as (l & A & _ & C).
  exists l. split; [exact A|]. rewrite C. apply data_eqb_refl.
Qed.
Print Assumptions marshal_roundtrip.

(* ... for the repaired code without any restriction *)
Theorem marshal_roundtrip_fixed :
  forall F s2d l2d d2s leval Fst, oracle_ok F s2d l2d d2s leval Fst ->
  forall g v, unambiguous F Fst v = true ->
  exists l, get_data_as_lua F s2d leval lm_fixed g (embed F d2s v) = MOk l /\
            get_lua_as_data F l2d d2s lm_fixed l = embed F d2s v.
Proof.
  intros F s2d l2d d2s leval Fst H g v U.
  destruct (marshal_roundtrip_core F s2d l2d d2s leval Fst H lm_fixed g v U (variant_ok_fixed F v)) as (l & A & _ & C).
  exists l. split; assumption.
Qed.
Print Assumptions marshal_roundtrip_fixed.

(* the statement at full strength is false of the pinned code, once per switch *)
Theorem marshal_roundtrip_empty_string_refuted :
  forall F s2d l2d d2s leval Fst vr g, lm_empty_atom_is_nil vr = true ->
  exists v l, unambiguous F Fst v = true /\ get_data_as_lua F s2d leval vr g (embed F d2s v) = MOk l /\
              get_lua_as_data F l2d d2s vr l <> embed F d2s v.
Proof. exact empty_string_refuted_lemma. Qed.
Print Assumptions marshal_roundtrip_empty_string_refuted.

Theorem marshal_roundtrip_long_array_refuted :
  forall F s2d l2d d2s leval Fst vr g, lm_keys_sorted_as_text vr = true ->
  exists v l, unambiguous F Fst v = true /\ get_data_as_lua F s2d leval vr g (embed F d2s v) = MOk l /\
              get_lua_as_data F l2d d2s vr l <> embed F d2s v.
Proof. exact long_array_refuted_lemma. Qed.
Print Assumptions marshal_roundtrip_long_array_refuted.

(* conditional on the conversion observed on the implementation: (double)(2^53+1) prints as 2^53 *)
Theorem marshal_roundtrip_big_integer_refuted :
  forall F s2d l2d d2s leval Fst vr g, lm_int_via_double vr = true ->
  d2s (l2d (TWO53 + 1)%Z) = dec_of_Z TWO53 ->
  exists v l, unambiguous F Fst v = true /\ get_data_as_lua F s2d leval vr g (embed F d2s v) = MOk l /\
              get_lua_as_data F l2d d2s vr l <> embed F d2s v.
Proof. exact big_integer_refuted_lemma. Qed.
Print Assumptions marshal_roundtrip_big_integer_refuted.

(* "1-2" is not a number, so {"1-2" = ...} is a map with a non-numeric key; isInteger as pinned accepts
   the '-' at any position and the key becomes the integer 1 *)
Theorem marshal_roundtrip_sign_position_refuted :
  forall F s2d l2d d2s leval Fst vr g, lm_sign_anywhere vr = true ->
  exists v l, unambiguous F Fst v = true /\ get_data_as_lua F s2d leval vr g (embed F d2s v) = MOk l /\
              get_lua_as_data F l2d d2s vr l <> embed F d2s v.
Proof. exact sign_position_refuted_lemma. Qed.
Print Assumptions marshal_roundtrip_sign_position_refuted.

Theorem marshal_roundtrip_empty_key_refuted :
  forall F s2d d2s leval Fst vr g, lm_empty_key_undefined vr = true ->
  exists v, unambiguous F Fst v = true /\ get_data_as_lua F s2d leval vr g (embed F d2s v) = MUndef.
Proof. exact empty_key_refuted_lemma. Qed.
Print Assumptions marshal_roundtrip_empty_key_refuted.

(* U: the Lua value a literal of [v] evaluates to (<param expr>, namelist, <assign expr>, <data expr>)
   is read by getLuaAsData as embed v *)
Theorem literal_as_data :
  forall F s2d l2d d2s leval Fst, oracle_ok F s2d l2d d2s leval Fst ->
  forall vr v, unambiguous F Fst v = true -> variant_ok F vr v = true ->
  get_lua_as_data F l2d d2s vr (lua_of_value F v) = embed F d2s v.
Proof.
  intros F s2d l2d d2s leval Fst H vr v U V.
  exact (proj1 (LuaMarshalLemmas.literal_as_data F s2d l2d d2s leval Fst H vr v U V)).
Qed.
Print Assumptions literal_as_data.

(* U: every way in x every way out of the charts run by the correspondence check, as compositions of
   getLuaAsData / getDataAsLua / setEvent, yields embed v *)
Theorem ways_roundtrip :
  forall F s2d l2d d2s leval Fst, oracle_ok F s2d l2d d2s leval Fst ->
  forall vr g wi wo lit_text v, unambiguous F Fst v = true -> variant_ok F vr v = true ->
  literal_denotes F s2d l2d d2s leval vr g lit_text v ->
  run_ways F s2d l2d d2s leval vr g wi wo lit_text (lua_of_value F v) (embed F d2s v) = MOk (embed F d2s v).
Proof. intros F s2d l2d d2s leval Fst H. exact (ways_roundtrip_core F s2d l2d d2s leval Fst H). Qed.
Print Assumptions ways_roundtrip.

(* U: params and namelist entries appear under _event.data, namelist over params over payload *)
Theorem set_event_merge :
  (forall d ps nl k,
     smap_get k (d_comp (merge_event_data d ps nl)) =
     match last_binding k nl with
     | Some x => Some x
     | None => match last_binding k ps with Some x => Some x | None => smap_get k (d_comp d) end
     end) /\
  (forall F s2d leval vr g e,
     event_data_of F s2d leval vr g e =
     let d := merge_event_data (ev_data e) (ev_params e) (ev_namelist e) in
     if data_absent vr d then MOk (LNil F) else get_data_as_lua F s2d leval vr g d).
Proof. split; [exact set_event_merge_lookup|exact event_data_of_spec]. Qed.
Print Assumptions set_event_merge.

(* the guard list regenerated from LuaDataModel::assign names every system variable *)
Theorem protected_covers_system_vars :
  lua_guard_first = true /\ forall s, In s system_vars -> is_protected s = true.
Proof. exact protected_covers_system_vars_lemma. Qed.
Print Assumptions protected_covers_system_vars.

(* U: assigning to a location that is exactly a system variable raises error.execution and leaves the
   store as it was -- whatever the Data, the store and the Lua VM *)
Theorem assign_protected :
  forall F s2d leval lexec vr s d g, In s system_vars ->
  dm_assign F s2d leval lexec vr s d g = DmError F g.
Proof. exact assign_protected_lemma. Qed.
Print Assumptions assign_protected.

(* <data id="_name">: holds if init() guards before it clears (not the order found in the source) ... *)
Theorem init_protected_if_guard_first :
  lua_init_clears_first = false ->
  forall F s2d leval lexec vr s d g, In s system_vars -> dm_init F s2d leval lexec vr s d g = DmError F g.
Proof. intros C F s2d leval lexec. exact (init_protected_if_guard_first_lemma F s2d leval lexec C). Qed.
Print Assumptions init_protected_if_guard_first.

(* ... and is refuted for the order found: the variable is cleared although the error is raised *)
Theorem init_protected_refuted :
  lua_init_clears_first = true ->
  forall F s2d leval lexec vr, exists s d g g',
    In s system_vars /\ dm_init F s2d leval lexec vr s d g = DmError F g' /\ store_get F s g' <> store_get F s g.
Proof. intros C F s2d leval lexec. exact (init_protected_refuted_lemma F s2d leval lexec C). Qed.
Print Assumptions init_protected_refuted.

(* paths below a system variable: with the guard by exact comparison (the source as pinned,
   lua_guard_prefix = false) they are not protected (premise: Lua stores the field) ... *)
Theorem assign_below_system_var_refuted :
  lua_guard_prefix = false ->
  forall F s2d leval lexec, lua_sets_field F lexec ->
  forall vr, exists loc d g g',
    (exists sv fld, In sv system_vars /\ loc = sv ++ c_dot :: fld) /\
    dm_assign F s2d leval lexec vr loc d g = DmOk F g' /\
    store_get F s_sv_event g' <> store_get F s_sv_event g.
Proof. intros P F s2d leval lexec. exact (assign_below_system_var_refuted_lemma F s2d leval lexec P). Qed.
Print Assumptions assign_below_system_var_refuted.

(* ... nor is the name followed by a blank (premise: Lua ignores the blank) *)
Theorem assign_padded_system_var_refuted :
  lua_guard_prefix = false ->
  forall F s2d leval lexec, lua_ignores_trailing_space F lexec ->
  forall vr, exists loc d g g',
    (exists sv, In sv system_vars /\ loc = sv ++ [c_space]) /\
    dm_assign F s2d leval lexec vr loc d g = DmOk F g' /\
    store_get F s_sv_name g' <> store_get F s_sv_name g.
Proof. intros P F s2d leval lexec. exact (assign_padded_system_var_refuted_lemma F s2d leval lexec P). Qed.
Print Assumptions assign_padded_system_var_refuted.

(* U, for the repaired guard (lua_guard_prefix = true): a system variable followed by any character
   that cannot continue an identifier ("." "[" ...), or padded with a blank, is refused like the
   variable itself, whatever the Lua VM would do with the chunk *)
Theorem assign_below_protected_if_prefix_guard :
  lua_guard_prefix = true ->
  forall F s2d leval lexec vr sv c rest d g, In sv system_vars -> is_ident_char c = false -> isspace c = false ->
  dm_assign F s2d leval lexec vr (sv ++ c :: rest) d g = DmError F g.
Proof. intros P F s2d leval lexec. exact (assign_below_protected_lemma F s2d leval lexec P). Qed.
Print Assumptions assign_below_protected_if_prefix_guard.

Theorem assign_padded_protected_if_prefix_guard :
  lua_guard_prefix = true ->
  forall F s2d leval lexec vr sv d g, In sv system_vars ->
  dm_assign F s2d leval lexec vr (sv ++ [c_space]) d g = DmError F g /\
  dm_assign F s2d leval lexec vr (c_space :: sv) d g = DmError F g.
Proof. intros P F s2d leval lexec. exact (assign_padded_protected_lemma F s2d leval lexec P). Qed.
Print Assumptions assign_padded_protected_if_prefix_guard.

(* U: an ordinary variable holds, after assign, a Lua value that evalAsData reads back as embed v *)
Theorem assign_then_read :
  forall F s2d l2d d2s leval lexec Fst, oracle_ok F s2d l2d d2s leval Fst -> lua_sets_global F lexec ->
  forall vr g x v, is_ident x = true -> is_protected x = false ->
  unambiguous F Fst v = true -> variant_ok F vr v = true ->
  exists g', dm_assign F s2d leval lexec vr x (embed F d2s v) g = DmOk F g' /\
             get_lua_as_data F l2d d2s vr (store_get F x g') = embed F d2s v.
Proof.
  intros F s2d l2d d2s leval lexec Fst H L.
  exact (assign_then_read_lemma F s2d l2d d2s leval lexec Fst H L).
Qed.
Print Assumptions assign_then_read.

(* U: the same through init(), the way of <data id=... expr=...> *)
Theorem init_then_read :
  forall F s2d l2d d2s leval lexec Fst, oracle_ok F s2d l2d d2s leval Fst -> lua_sets_global F lexec ->
  forall vr g x v, is_ident x = true -> is_protected x = false ->
  unambiguous F Fst v = true -> variant_ok F vr v = true ->
  exists g', dm_init F s2d leval lexec vr x (embed F d2s v) g = DmOk F g' /\
             get_lua_as_data F l2d d2s vr (store_get F x g') = embed F d2s v.
Proof.
  intros F s2d l2d d2s leval lexec Fst H L.
  exact (init_then_read_lemma F s2d l2d d2s leval lexec Fst H L).
Qed.
Print Assumptions init_then_read.

(* the premise literal_denotes of ways_roundtrip follows, for a literal whose text is not made of
   numeral characters, from "the Lua VM evaluates the text to the value it was rendered from", and
   holds outright for the decimal text of an integer *)
Theorem literal_denotes_sufficient :
  forall F s2d l2d d2s leval Fst, oracle_ok F s2d l2d d2s leval Fst ->
  (forall vr g lit_text v, unambiguous F Fst v = true -> variant_ok F vr v = true ->
     lit_text <> [] -> is_numeric (lm_sign_anywhere vr) lit_text = false -> leval g lit_text = Some [lua_of_value F v] ->
     literal_denotes F s2d l2d d2s leval vr g lit_text v) /\
  (forall vr g z, unambiguous F Fst (VNum F (NInt F z)) = true -> variant_ok F vr (VNum F (NInt F z)) = true ->
     literal_denotes F s2d l2d d2s leval vr g (dec_of_Z z) (VNum F (NInt F z))).
Proof.
  intros F s2d l2d d2s leval Fst H. split.
  - exact (literal_denotes_by_eval F s2d l2d d2s leval Fst H).
  - exact (literal_denotes_integer F s2d l2d d2s leval Fst H).
Qed.
Print Assumptions literal_denotes_sufficient.

(* the oracle of the correspondence check decides equality of Data *)
Theorem data_eqb_decides : forall a b, data_eqb a b = true <-> a = b.
Proof. exact data_eqb_eq. Qed.
Print Assumptions data_eqb_decides.

(* the hypotheses are satisfiable, and a nested value with number-like strings is in the class *)
Theorem oracle_hypotheses_satisfiable : oracle_ok Z str_to_long (fun z => z) dec_of_Z toy_eval in_long.
Proof. exact toy_oracle_ok. Qed.
Print Assumptions oracle_hypotheses_satisfiable.

Theorem example_unambiguous :
  (forall F Fst, unambiguous F Fst (example_value F) = true) /\
  exists l, get_data_as_lua Z str_to_long toy_eval lm_fixed [] (embed Z dec_of_Z (example_value Z)) = MOk l /\
            get_lua_as_data Z (fun z => z) dec_of_Z lm_fixed l = embed Z dec_of_Z (example_value Z).
Proof.
  split; [exact example_value_unambiguous|].
  exact (marshal_roundtrip_fixed Z str_to_long (fun z => z) dec_of_Z toy_eval in_long toy_oracle_ok []
           (example_value Z) (example_value_unambiguous Z in_long)).
Qed.
Print Assumptions example_unambiguous.
