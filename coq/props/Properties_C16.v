(* Properties_C16.v -- property theorems only.  C16: values survive the trip through the Lua
   datamodel; the system variables cannot be assigned by chart code. *)
From V Require Import Base GenLuaProtected LuaMarshal LuaMarshalLemmas.

Theorem protected_covers_system_vars :
  lua_guard_first = true /\ forall s, In s system_vars -> is_protected s = true.
Proof. exact protected_covers_system_vars_lemma. Qed.
Print Assumptions protected_covers_system_vars.
