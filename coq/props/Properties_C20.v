(* Properties_C20.v -- property theorems only.  C20: transformation and interpretation are deterministic
   functions of their input: they depend neither on pointer values, nor on hash or set iteration order, nor on
   files left behind by earlier runs.

   PARTIAL BY NATURE.  The model (Determinism.v) is a Gallina function of (document, url, env); `env` lists the
   process-dependent inputs that were found by reading the code and that the regenerated inventory GenEnvDeps.v
   reports: the address-space layout, std::hash, the random generator, the cache directory.  The theorems are
   noninterference statements in those inputs.  A dependence on something `env` does not list cannot be stated,
   let alone refuted, in a pure model: it is searched for by the multi-process byte comparison of
   tools/props/c20.py, not by these proofs.  `interp_deterministic` (same document, same events => same trace) is
   immediate for any Gallina function and therefore is not claimed as a theorem.

   External components are universally quantified: md5, the analyser's macro names, the rendering of the text
   around the identifier skeleton, table computation and the interpreter. *)
From V Require Import Base GenEnvDeps Determinism DeterminismLemmas.

(* U (all documents, urls, environments, all components): in every variant of the generators in which no
   environment switch is on -- the repaired code -- two arbitrary environments give byte-identical C, Promela
   and VHDL text, provided every <invoke> carries an id *)
Theorem transform_env_independent :
  forall md5 macro_name render_c render_pml render_vhdl v,
    transform_clean v = true ->
    transform_env_independent_statement md5 macro_name render_c render_pml render_vhdl v.
Proof. exact transform_env_independent_lemma. Qed.
Print Assumptions transform_env_independent.

(* ... and so for the working tree whenever its inventory holds harmless entries only (any inventory) *)
Theorem transform_env_independent_current_tree :
  forall md5 macro_name render_c render_pml render_vhdl,
    forallb dep_harmless env_inventory = true ->
    transform_env_independent_statement md5 macro_name render_c render_pml render_vhdl current_variant.
Proof.
  intros. apply transform_env_independent_lemma. apply harmless_inventory_clean. assumption.
Qed.
Print Assumptions transform_env_independent_current_tree.

(* the inventory of the working tree: every entry is harmless or feeds a flow of the model; if all are harmless the
   selected variant is clean; otherwise a harmful entry is named *)
Theorem no_env_dependence : inventory_verdict.
Proof. exact no_env_dependence_lemma. Qed.
Print Assumptions no_env_dependence.

(* refuted for the code as pinned, C back-end: two address-space layouts (injective on the document's objects) in
   which the DOMDocument lies at two addresses whose printed forms MD5 separates give different symbol prefixes;
   and different bytes, if the text shows its identifiers *)
Theorem transform_env_independent_c_refuted :
  forall md5 render_c a1 a2,
    firstn 8 (md5 (print_ptr a1)) <> firstn 8 (md5 (print_ptr a2)) ->
    exists e1 e2 doc, has_ids doc = true /\ addr_injective_on e1 objs0 /\ addr_injective_on e2 objs0 /\
      c_skeleton md5 pinned_variant e1 doc <> c_skeleton md5 pinned_variant e2 doc /\
      ((forall d s1 s2, render_c d s1 = render_c d s2 -> s1 = s2) ->
       forall url, gen_c md5 render_c pinned_variant e1 doc url <> gen_c md5 render_c pinned_variant e2 doc url).
Proof. intros md5 render_c a1 a2 H. exact (transform_c_refuted_lemma md5 render_c pinned_variant a1 a2 eq_refl H). Qed.
Print Assumptions transform_env_independent_c_refuted.

(* refuted for the code as pinned, Promela back-end: the literal set contains "U<md5 of a printed address>__name"
   for a nested machine *)
Theorem transform_env_independent_pml_refuted :
  forall md5 macro_name a1 a2,
    (forall x, length (md5 x) = 32%nat) ->
    firstn 8 (md5 (print_ptr (a1 + 1048576))) <> firstn 8 (md5 (print_ptr (a2 + 1048576))) ->
    exists e1 e2 doc, has_ids doc = true /\ addr_injective_on e1 objs1 /\ addr_injective_on e2 objs1 /\
      pml_literals md5 macro_name pinned_variant e1 doc <> pml_literals md5 macro_name pinned_variant e2 doc.
Proof. intros md5 macro_name a1 a2 Hl H. exact (transform_pml_literals_refuted_lemma md5 macro_name pinned_variant a1 a2 eq_refl Hl H). Qed.
Print Assumptions transform_env_independent_pml_refuted.

(* ... and the per-machine blocks are emitted in the address order of the map's keys *)
Theorem transform_env_independent_pml_order_refuted :
  forall macro_name,
    macro_name id_i ++ [c_us] <> s_ROOT ->
    exists e1 e2 doc, has_ids doc = true /\ addr_injective_on e1 objs1 /\ addr_injective_on e2 objs1 /\
      pml_blocks macro_name pinned_variant e1 doc <> pml_blocks macro_name pinned_variant e2 doc.
Proof. intros macro_name H. exact (transform_pml_order_refuted_lemma macro_name pinned_variant eq_refl H). Qed.
Print Assumptions transform_env_independent_pml_order_refuted.

(* U: what "iterated in address order" means in the model of std::map<DOMElement*, ...>: whatever the insertion
   (document) order, the blocks come in strictly ascending order of the keys' addresses *)
Theorem machine_map_iterates_in_address_order :
  forall (A : Type) (l : list (N * A)), keys_ascending (addr_map l).
Proof. exact addr_map_ascending. Qed.
Print Assumptions machine_map_iterates_in_address_order.

(* refuted for the code as pinned, VHDL back-end: two environments with the same layout and different std::hash *)
Theorem transform_env_independent_vhdl_refuted :
  forall render_vhdl,
    exists e1 e2 doc, has_ids doc = true /\ (forall o, addr e1 o = addr e2 o) /\
      vhdl_signals pinned_variant e1 doc <> vhdl_signals pinned_variant e2 doc /\
      ((forall d s1 s2, render_vhdl d s1 = render_vhdl d s2 -> s1 = s2) ->
       forall url, gen_vhdl render_vhdl pinned_variant e1 doc url <> gen_vhdl render_vhdl pinned_variant e2 doc url).
Proof. intros render_vhdl. exact (transform_vhdl_refuted_lemma render_vhdl pinned_variant eq_refl). Qed.
Print Assumptions transform_env_independent_vhdl_refuted.

(* refuted for the code as pinned, VHDL back-end (and the event disjunctions of the Promela back-end): the event trie
   merges the word lists of its children by the addresses of the nodes; two layouts with the same std::hash in which
   the trie nodes are allocated at ascending / descending addresses list the events "b", "a" in different orders *)
Theorem transform_env_independent_trie_refuted :
  forall render_vhdl,
    exists e1 e2 doc, has_ids doc = true /\ (forall x, std_hash e1 x = std_hash e2 x) /\
      event_order pinned_variant e1 doc <> event_order pinned_variant e2 doc /\
      vhdl_signals pinned_variant e1 doc <> vhdl_signals pinned_variant e2 doc /\
      ((forall d s1 s2, render_vhdl d s1 = render_vhdl d s2 -> s1 = s2) ->
       forall url, gen_vhdl render_vhdl pinned_variant e1 doc url <> gen_vhdl render_vhdl pinned_variant e2 doc url).
Proof. intros render_vhdl. exact (transform_trie_order_refuted_lemma render_vhdl pinned_variant eq_refl). Qed.
Print Assumptions transform_env_independent_trie_refuted.

(* partial, VHDL back-end in any variant whose trie appends instead of merging by address: independent of layout,
   random generator and cache directory; the only environment input left is std::hash (missing: independence of
   the C++ library) *)
Theorem transform_env_independent_vhdl_partial :
  forall render_vhdl v e1 e2 doc url,
    v_trie_ptr_merge v = false ->
    (forall x, std_hash e1 x = std_hash e2 x) ->
    gen_vhdl render_vhdl v e1 doc url = gen_vhdl render_vhdl v e2 doc url.
Proof. exact gen_vhdl_env_independent_partial. Qed.
Print Assumptions transform_env_independent_vhdl_partial.

(* the proviso "elements needing an id carry one" is necessary, in every variant *)
Theorem transform_without_ids_refuted :
  forall macro_name v u1 u2,
    macro_name (s_INV ++ firstn 5 u1) <> macro_name (s_INV ++ firstn 5 u2) ->
    exists e1 e2 doc, has_ids doc = false /\ (forall o, addr e1 o = addr e2 o) /\
      pml_blocks macro_name v e1 doc <> pml_blocks macro_name v e2 doc.
Proof. exact no_ids_refuted_lemma. Qed.
Print Assumptions transform_without_ids_refuted.

(* U: whatever an earlier run (of this or of another document at the same URL) left in the cache directory, the
   trace is that of a run with an empty cache directory -- for every variant that either does not read tables from
   the cache (the tree as pinned: `#undef WITH_CACHE_FILES` in FastMicroStep.cpp) or guards them by the md5 *)
Theorem cache_independent :
  forall md5 compute_tables interp v,
    cache_safe v = true -> cache_independent_statement md5 compute_tables interp v.
Proof. exact cache_independent_lemma. Qed.
Print Assumptions cache_independent.

(* refuted for a fast engine that reads the cache without the md5 guard: a cache left by a different document of
   the same shape at the same URL changes the trace (if tables matter at all) *)
Theorem cache_independent_refuted :
  forall md5 compute_tables interp v d1 d2 evs,
    v_fast_cache v = true -> v_cache_md5_guard v = false ->
    same_shape (compute_tables (m_text d1)) (compute_tables (m_text d2)) = true ->
    interp (compute_tables (m_text d1)) (m_text d2) evs <> interp (compute_tables (m_text d2)) (m_text d2) evs ->
    exists e url,
      cache e (md5 url) = Some (cache_written md5 compute_tables v d1) /\
      run_doc md5 compute_tables interp v e d2 url evs <>
      run_doc md5 compute_tables interp v (with_cache e no_cache) d2 url evs.
Proof. exact cache_independent_refuted_lemma. Qed.
Print Assumptions cache_independent_refuted.

(* U: with the fast engine compiled without cache support, interpretation does not look at the environment *)
Theorem interp_env_independent :
  forall md5 compute_tables interp v e1 e2 doc url evs,
    v_fast_cache v = false ->
    run_doc md5 compute_tables interp v e1 doc url evs = run_doc md5 compute_tables interp v e2 doc url evs.
Proof. exact interp_env_independent_lemma. Qed.
Print Assumptions interp_env_independent.
