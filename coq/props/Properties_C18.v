(* Properties_C18.v -- property theorems only.  C18: the next-state logic of the generated VHDL computes the
   specified next configuration. *)
From V Require Import Base NameMatch Chart Exec Large Legal Fast Vhdl VhdlLemmas.

(* U: for every flat chart of the fragment (vh_wfb: the tables of a document without <history>/<initial>,
   initial attributes naming one child, single-token event names), every legal configuration in which no
   <final> child of <scxml> is active, the spontaneous step or any event of the document, and every valuation
   of the transition-condition inputs, the equations of the REPAIRED generator (all switches of vh_variant
   off; patches/C18-*.diff) evaluate -- ternary, so the syntactic loop through spontaneous_active is covered --
   to a definite next configuration, and it is the one the bit-array micro-step under the transpilers' conflict
   relation produces.  No bound on the number of states, transitions, events or conditions. *)
Theorem vhdl_next_correct : forall c cfg ev val,
  vhdl_fragment c -> legal_configb c cfg = true -> vh_running c cfg = true -> vh_event_ok c ev = true ->
  eval_eqs c (gen_eqs vh_fixed c) cfg ev val = Some (next_config c cfg ev val).
Proof. exact vhdl_next_correct_lemma. Qed.
Print Assumptions vhdl_next_correct.

(* the statement is false of the generator as pinned: <state s1><state s2><transition event="e" target="s4"/>
   </state></state><state s3><state s4/></state>, configuration {scxml, s1, s2}, event e: s4 is entered, its
   parent s3 is not *)
Theorem vhdl_next_refuted : refuted vh_pinned.
Proof. exact vhdl_next_pinned_refuted_lemma. Qed.
Print Assumptions vhdl_next_refuted.

(* each of the three generator defects alone falsifies it *)
Theorem vhdl_next_refuted_ancestor_completion :
  refuted {| vh_anc_outer_index := true; vh_default_ignores_targeted := false; vh_desc_unstripped := false |}.
Proof. exact refuted_anc_only. Qed.
Print Assumptions vhdl_next_refuted_ancestor_completion.

Theorem vhdl_next_refuted_default_child :
  refuted {| vh_anc_outer_index := false; vh_default_ignores_targeted := true; vh_desc_unstripped := false |}.
Proof. exact refuted_default_only. Qed.
Print Assumptions vhdl_next_refuted_default_child.

Theorem vhdl_next_refuted_dotstar :
  refuted {| vh_anc_outer_index := false; vh_default_ignores_targeted := false; vh_desc_unstripped := true |}.
Proof. exact refuted_dotstar_only. Qed.
Print Assumptions vhdl_next_refuted_dotstar.

(* U: the evaluation order of eval_eqs is a proof device only -- every total valuation of the signals that
   agrees with the inputs and satisfies all emitted equations (every state in which the concurrent assignments
   are stable) shows the reference's next configuration on state_next_* *)
Theorem vhdl_solution_unique : forall c cfg ev val (tot : signal -> bool),
  vhdl_fragment c -> legal_configb c cfg = true -> vh_running c cfg = true -> vh_event_ok c ev = true ->
  (forall s b, vh_inputs c cfg ev val s = Some b -> tot s = b) ->
  (forall s e, eq_of (gen_eqs vh_fixed c) s = Some e -> tot s = beval e tot) ->
  filter (fun i => tot (SNext i)) (seq 0 (nstates c)) = next_config c cfg ev val.
Proof. exact vhdl_solution_unique_lemma. Qed.
Print Assumptions vhdl_solution_unique.

(* U: the reference's entry set is FastMicroStep's ESTABLISH_ENTRYSET (Fast.v) on charts without pseudo-states *)
Theorem reference_entryset_is_fast : forall c cfg exitset targets,
  (forall i, i < nstates c -> proper_type (fs_type (st c i)) = true) ->
  vh_entryset c cfg exitset targets = fst (fentry_set c cfg exitset [] targets []).
Proof. exact entryset_is_fast. Qed.
Print Assumptions reference_entryset_is_fast.

(* U: ... its conflict relation (ChartToC::prepare's conflictBools: exit sets intersect, same source, source
   ancestry) is FastMicroStep's conflict matrix (exit intervals overlap, ...), its selection is FastMicroStep's
   SELECT_TRANSITIONS on charts whose conditions are absent (with conditions the engine threads the datamodel
   through is_true; here they are inputs), and its exit set is the engine's *)
Theorem reference_conflict_is_fast : forall c t1 t2,
  vhdl_fragment c -> t1 < ntrans c -> t2 < ntrans c ->
  vh_conflict c (tr c t1) (tr c t2) = fconflicts c (tr c t1) (tr c t2).
Proof. intros c t1 t2 H. now apply conflict_is_fast. Qed.
Print Assumptions reference_conflict_is_fast.

Theorem reference_selection_is_fast : forall c cfg ev val xst,
  vhdl_fragment c -> (forall t, t < ntrans c -> ft_cond (tr c t) = None) ->
  fst (fselect c cfg ev (seq 0 (ntrans c)) [] xst) = vh_selected c cfg (option_map ev_name ev) val.
Proof. intros c cfg ev val xst H. now apply selection_is_fast. Qed.
Print Assumptions reference_selection_is_fast.

Theorem reference_exitset_is_fast : forall c cfg sel,
  vhdl_fragment c -> (forall t, In t sel -> t < ntrans c) ->
  vh_exitset c cfg sel = fold_left (fun a ti => set_union a (exit_states_of lg_fixed c cfg (tr c ti))) sel [].
Proof. intros c cfg sel H. now apply exitset_is_fast. Qed.
Print Assumptions reference_exitset_is_fast.
