(* Properties_C18.v -- property theorems only.  C18: the next-state logic of the generated VHDL computes the
   specified next configuration. *)
From V Require Import Base NameMatch Chart Exec Large Legal Fast Vhdl VhdlLemmas.

(* U: for every flat chart of the fragment (vh_wfb: the tables of a document without <history>/<initial>,
   initial attributes naming one child, single-token event names), every legal configuration in which no
   <final> child of <scxml> is active, the spontaneous step or any event of the document, and every valuation
   of the transition-condition inputs, the equations of the REPAIRED generator (all switches of vh_variant
   off; patches/C18-*.diff) evaluate -- ternary, so the syntactic loop through spontaneous_active is covered --
   to a definite next configuration, and it is the one the bit-array micro-step under the transpilers' conflict
   relation produces.  No bound on the number of states, transitions, events or conditions. *)
Theorem vhdl_next_correct : forall c cfg ev val,
  vhdl_fragment c -> legal_configb c cfg = true -> vh_running c cfg = true -> vh_event_ok c ev = true ->
  eval_eqs c (gen_eqs vh_fixed c) cfg ev val = Some (next_config c cfg ev val).
Proof. exact vhdl_next_correct_lemma. Qed.
Print Assumptions vhdl_next_correct.

(* the statement is false of the generator as pinned: <state s1><state s2><transition event="e" target="s4"/>
   </state></state><state s3><state s4/></state>, configuration {scxml, s1, s2}, event e: s4 is entered, its
   parent s3 is not *)
Theorem vhdl_next_refuted : refuted vh_pinned.
Proof. exact vhdl_next_pinned_refuted_lemma. Qed.
Print Assumptions vhdl_next_refuted.

(* each of the three generator defects alone falsifies it *)
Theorem vhdl_next_refuted_ancestor_completion :
  refuted {| vh_anc_outer_index := true; vh_default_ignores_targeted := false; vh_desc_unstripped := false |}.
Proof. exact refuted_anc_only. Qed.
Print Assumptions vhdl_next_refuted_ancestor_completion.

Theorem vhdl_next_refuted_default_child :
  refuted {| vh_anc_outer_index := false; vh_default_ignores_targeted := true; vh_desc_unstripped := false |}.
Proof. exact refuted_default_only. Qed.
Print Assumptions vhdl_next_refuted_default_child.

Theorem vhdl_next_refuted_dotstar :
  refuted {| vh_anc_outer_index := false; vh_default_ignores_targeted := false; vh_desc_unstripped := true |}.
Proof. exact refuted_dotstar_only. Qed.
Print Assumptions vhdl_next_refuted_dotstar.

(* U: the evaluation order of eval_eqs is a proof device only -- every total valuation of the signals that
   agrees with the inputs and satisfies all emitted equations (every state in which the concurrent assignments
   are stable) shows the reference's next configuration on state_next_* *)
Theorem vhdl_solution_unique : forall c cfg ev val (tot : signal -> bool),
  vhdl_fragment c -> legal_configb c cfg = true -> vh_running c cfg = true -> vh_event_ok c ev = true ->
  (forall s b, vh_inputs c cfg ev val s = Some b -> tot s = b) ->
  (forall s e, eq_of (gen_eqs vh_fixed c) s = Some e -> tot s = beval e tot) ->
  filter (fun i => tot (SNext i)) (seq 0 (nstates c)) = next_config c cfg ev val.
Proof. exact vhdl_solution_unique_lemma. Qed.
Print Assumptions vhdl_solution_unique.

(* U: the reference's entry set is FastMicroStep's ESTABLISH_ENTRYSET (Fast.v) on charts without pseudo-states *)
Theorem reference_entryset_is_fast : forall c cfg exitset targets,
  (forall i, i < nstates c -> proper_type (fs_type (st c i)) = true) ->
  vh_entryset c cfg exitset targets = fst (fentry_set c cfg exitset [] targets []).
Proof. exact entryset_is_fast. Qed.
Print Assumptions reference_entryset_is_fast.

(* U: ... its conflict relation (ChartToC::prepare's conflictBools: exit sets intersect, same source, source
   ancestry) is FastMicroStep's conflict matrix (exit intervals overlap, ...), its selection is FastMicroStep's
   SELECT_TRANSITIONS on charts whose conditions are absent (with conditions the engine threads the datamodel
   through is_true; here they are inputs), and its exit set is the engine's *)
Theorem reference_conflict_is_fast : forall c t1 t2,
  vhdl_fragment c -> t1 < ntrans c -> t2 < ntrans c ->
  vh_conflict c (tr c t1) (tr c t2) = fconflicts c (tr c t1) (tr c t2).
Proof. intros c t1 t2 H. now apply conflict_is_fast. Qed.
Print Assumptions reference_conflict_is_fast.

Theorem reference_selection_is_fast : forall c cfg ev val xst,
  vhdl_fragment c -> (forall t, t < ntrans c -> ft_cond (tr c t) = None) ->
  fst (fselect c cfg ev (seq 0 (ntrans c)) [] xst) = vh_selected c cfg (option_map ev_name ev) val.
Proof. intros c cfg ev val xst H. now apply selection_is_fast. Qed.
Print Assumptions reference_selection_is_fast.

Theorem reference_exitset_is_fast : forall c cfg sel,
  vhdl_fragment c -> (forall t, In t sel -> t < ntrans c) ->
  vh_exitset c cfg sel = fold_left (fun a ti => set_union a (exit_states_of lg_fixed c cfg (tr c ti))) sel [].
Proof. intros c cfg sel H. now apply exitset_is_fast. Qed.
Print Assumptions reference_exitset_is_fast.

From V Require Import Interp WfCore SelectConform EngineEquivSelect EngineEquivRun FlattenWf VhdlDoc VhdlDocFlat VhdlDocLemmas VhdlDocEngine VhdlDocLarge VhdlDocLegal VhdlDocExt VhdlDocWitness.

(* ===================================================================================================
   Work package vhd: C18 at the level of the DOCUMENT, the reference step against the engines, legality and runs.
   =================================================================================================== *)

(* U: ChartToC::prepare / LargeMicroStep::init (Chart.flatten) turns every document of the VHDL fragment into flat
   tables that pass the fragment check vh_wfb -- until now a boolean evaluated per generated chart.  The fragment
   vh_treeb (VhdlDoc.v), in the words of the Recommendation: only <scxml>/<state>, <parallel>, <final> elements
   (no <history>/<initial>; <data>, conditions and executable content are not restricted: conditions are input
   ports), root with at least one child state, unique ids, 'initial' attributes naming one child, no transition
   targeting the root, <final> without child states, no <transition> child of the root, event descriptors "*",
   name, name".", name".*" (names free of '.', '*', white space), <raise>/<send> event names that are such names
   after findEvents' stripping.  Both data-binding modes.  Not demanded: legal target sets. *)
Theorem flatten_vh_wf : forall late t, vh_treeb t = true -> vh_wfb (flatten late t) = true.
Proof. exact flatten_vh_wf_lemma. Qed.
Print Assumptions flatten_vh_wf.

(* U: hence vhdl_next_correct for documents: every document of the fragment, every legal configuration in which
   no top-level <final> is active, the spontaneous step or any event of the document, every valuation of the
   condition inputs (repaired generator) *)
Theorem document_vhdl_next_correct : forall t cfg ev val,
  vh_treeb t = true ->
  legal_configb (flatten false t) cfg = true -> vh_running (flatten false t) cfg = true ->
  vh_event_ok (flatten false t) ev = true ->
  eval_eqs (flatten false t) (gen_eqs vh_fixed (flatten false t)) cfg ev val =
  Some (next_config (flatten false t) cfg ev val).
Proof. exact document_vhdl_next_correct_lemma. Qed.
Print Assumptions document_vhdl_next_correct.

(* refuted: each of these clauses of vh_treeb alone, dropped, falsifies document_vhdl_next_correct (the list is
   [kinds; root; unique ids; initial; no root target; final leaf; root without transitions; descriptors; content;
   target sets], VhdlDocWitness.vh_tree_clauses).  Witness documents in VhdlDocWitness.v:
   root = <parallel>; a second element with the id an initial attribute names; initial naming a grandchild; a
   transition targeting the root; a targeted child of a <final>; descriptor "a..b" against event "a.b";
   <raise event=".a"/> against descriptor "a". *)
Theorem document_fragment_root_needed_refuted : doc_refuted [true; false; true; true; true; true; true; true; true; true].
Proof. exact doc_root_needed_refuted. Qed.
Print Assumptions document_fragment_root_needed_refuted.
Theorem document_fragment_unique_needed_refuted : doc_refuted [true; true; false; true; true; true; true; true; true; true].
Proof. exact doc_unique_needed_refuted. Qed.
Print Assumptions document_fragment_unique_needed_refuted.
Theorem document_fragment_initial_needed_refuted : doc_refuted [true; true; true; false; true; true; true; true; true; true].
Proof. exact doc_initial_needed_refuted. Qed.
Print Assumptions document_fragment_initial_needed_refuted.
Theorem document_fragment_no_root_target_needed_refuted : doc_refuted [true; true; true; true; false; true; true; true; true; true].
Proof. exact doc_no_root_target_needed_refuted. Qed.
Print Assumptions document_fragment_no_root_target_needed_refuted.
Theorem document_fragment_final_leaf_needed_refuted : doc_refuted [true; true; true; true; true; false; true; true; true; true].
Proof. exact doc_final_leaf_needed_refuted. Qed.
Print Assumptions document_fragment_final_leaf_needed_refuted.
Theorem document_fragment_descriptors_needed_refuted : doc_refuted [true; true; true; true; true; true; true; false; true; true].
Proof. exact doc_descs_needed_refuted. Qed.
Print Assumptions document_fragment_descriptors_needed_refuted.
Theorem document_fragment_content_needed_refuted : doc_refuted [true; true; true; true; true; true; true; true; false; true].
Proof. exact doc_content_needed_refuted. Qed.
Print Assumptions document_fragment_content_needed_refuted.

(* refuted (of a different kind): with a <history> element the equations still equal the reference, but the
   reference is no longer the SCXML step: both put the pseudo-state into the configuration (not legal), the fast
   engine enters the history's default state.  NOT refuted and possibly unnecessary: "no <transition> child of the
   root" (mirrors 1 <= ft_source in vh_trans_ok; no witness found). *)
Theorem document_fragment_kinds_needed_refuted :
  exists t cfg ev, let c := flatten false t in
    vh_tree_clauses t = [false; true; true; true; true; true; true; true; true; true] /\
    legal_configb c cfg = true /\ vh_running c cfg = true /\ vh_event_ok c (Some ev) = true /\
    eval_eqs c (gen_eqs vh_fixed c) cfg (Some ev) ff = Some (next_config c cfg (Some ev) ff) /\
    legal_configb c (next_config c cfg (Some ev) ff) = false /\
    next_config c cfg (Some ev) ff <> l_cfg (fst (fst (fselect_and_step ex_fixed c (cfg_state cfg) x_init (Some (ext_event ev))))) /\
    legal_configb c (l_cfg (fst (fst (fselect_and_step ex_fixed c (cfg_state cfg) x_init (Some (ext_event ev)))))) = true.
Proof. exact doc_kinds_needed_refuted. Qed.
Print Assumptions document_fragment_kinds_needed_refuted.

(* U: the reference step IS the configuration part of one FastMicroStep selection + microstep
   (Fast.fselect_and_step: SELECT_TRANSITIONS .. ENTER_STATES), composing the four layer theorems above: every
   chart of the fragment, every ascending configuration within the chart (legality not needed), every event, every
   engine state and datamodel state; the condition inputs are what InterpreterImpl::isTrue yields for the
   conditions in that configuration and store (an evaluation error counts as false).  Says nothing about queues,
   trace and datamodel after the step (the hardware has none). *)
Theorem reference_step_is_fast_microstep : forall xv c l x ev,
  vh_wfb c = true -> ascb (l_cfg l) = true -> (forall i, In i (l_cfg l) -> i < nstates c) ->
  next_config c (l_cfg l) (option_map ev_name ev) (val_of c (l_cfg l) (x_store x)) =
  l_cfg (fst (fst (fselect_and_step xv c l x ev))).
Proof. exact reference_step_is_fast_microstep_lemma. Qed.
Print Assumptions reference_step_is_fast_microstep.

(* U: ... and for an ARBITRARY valuation of the condition inputs (the property's 2^k valuations, realisable by a
   datamodel or not): the engine runs the chart whose conditions are frozen to the constants of the valuation
   (set_conds; states, events, targets unchanged) *)
Theorem reference_step_is_fast_microstep_inputs : forall xv c val l x ev,
  vh_wfb c = true -> ascb (l_cfg l) = true -> (forall i, In i (l_cfg l) -> i < nstates c) ->
  next_config c (l_cfg l) (option_map ev_name ev) val =
  l_cfg (fst (fst (fselect_and_step xv (set_conds val c) l x ev))).
Proof. exact reference_step_is_fast_microstep_inputs_lemma. Qed.
Print Assumptions reference_step_is_fast_microstep_inputs.

(* partial: the reference step is the DEFAULT engine's (LargeMicroStep, repaired code) next configuration, under
   the guards of the C03 engine-equivalence theorems: static wf_coreb (= fragment + legal target sets),
   par_nonemptyb, trans_tableb (per-chart booleans; trans_tableb of flatten is not proved here); dynamic
   sas_guardb = sel_guardb (below) && ms_guardb (done.state events; a hypothesis of the C03 theorem used, immaterial
   for configurations).  Missing for "U": the guards. *)
Theorem reference_step_is_default_engine_partial : forall xv c l x ev,
  vh_wfb c = true -> wf_coreb c = true -> par_nonemptyb c = true -> trans_tableb c = true ->
  legal_configb c (l_cfg l) = true -> ascb (l_cfg l) = true ->
  sas_guardb c l x ev = true ->
  next_config c (l_cfg l) (option_map ev_name ev) (val_of c (l_cfg l) (x_store x)) =
  l_cfg (fst (fst (select_and_step lg_fixed xv c l x ev))).
Proof. exact reference_step_is_default_engine_partial_lemma. Qed.
Print Assumptions reference_step_is_default_engine_partial.

Theorem reference_step_is_default_engine_inputs_partial : forall xv c val l x ev,
  let c' := set_conds val c in
  vh_wfb c = true -> wf_coreb c' = true -> par_nonemptyb c' = true -> trans_tableb c' = true ->
  legal_configb c (l_cfg l) = true -> ascb (l_cfg l) = true ->
  sas_guardb c' l x ev = true ->
  next_config c (l_cfg l) (option_map ev_name ev) val =
  l_cfg (fst (fst (select_and_step lg_fixed xv c' l x ev))).
Proof. exact reference_step_is_default_engine_inputs_partial_lemma. Qed.
Print Assumptions reference_step_is_default_engine_inputs_partial.

(* partial: for documents -- the emitted equations compute the default engine's next configuration; the static
   guards except trans_tableb follow from the document predicates *)
Theorem document_vhdl_is_default_engine_partial : forall xv t l x ev,
  let c := flatten false t in
  vh_tree_runb t = true -> ct_par_nonemptyb t = true -> trans_tableb c = true ->
  legal_configb c (l_cfg l) = true -> ascb (l_cfg l) = true ->
  vh_running c (l_cfg l) = true -> vh_event_ok c (option_map ev_name ev) = true ->
  sas_guardb c l x ev = true ->
  eval_eqs c (gen_eqs vh_fixed c) (l_cfg l) (option_map ev_name ev) (val_of c (l_cfg l) (x_store x)) =
  Some (l_cfg (fst (fst (select_and_step lg_fixed xv c l x ev)))).
Proof. exact document_step_is_default_engine_partial_lemma. Qed.
Print Assumptions document_vhdl_is_default_engine_partial.

(* refuted: the dynamic guard cannot be dropped -- on C03-K1's document (inside the fragment, all static guards
   hold) the default engine takes the target-less transition of s3 and the transition of its grand-parent s1; the
   reference and the emitted equations, following the transpilers' conflict relation (source ancestry conflicts),
   take only the former: the hardware stays in {s1,s2,s3}, the default engine goes to {s4} *)
Theorem reference_step_is_default_engine_unguarded_refuted :
  exists t l x ev, let c := flatten false t in
    vh_tree_runb t = true /\ ct_par_nonemptyb t = true /\ trans_tableb c = true /\
    legal_configb c (l_cfg l) = true /\ ascb (l_cfg l) = true /\ vh_running c (l_cfg l) = true /\
    vh_event_ok c (option_map ev_name ev) = true /\ sas_guardb c l x ev = false /\
    eval_eqs c (gen_eqs vh_fixed c) (l_cfg l) (option_map ev_name ev) (val_of c (l_cfg l) (x_store x)) =
      Some (next_config c (l_cfg l) (option_map ev_name ev) (val_of c (l_cfg l) (x_store x))) /\
    next_config c (l_cfg l) (option_map ev_name ev) (val_of c (l_cfg l) (x_store x)) <>
    l_cfg (fst (fst (select_and_step lg_fixed ex_fixed c l x ev))).
Proof. exact reference_step_is_default_engine_unguarded_refuted_lemma. Qed.
Print Assumptions reference_step_is_default_engine_unguarded_refuted.

(* U: the hardware step preserves legality: every chart of the fragment that also passes wf_coreb (adds: the
   targets of a transition never lie in two children of one compound state), every list representing a legal
   configuration, every event (of the document or not), every valuation *)
Theorem vhdl_next_legal : forall c cfg ev val,
  vh_wfb c = true -> wf_coreb c = true -> legal_configb c cfg = true ->
  legal_configb c (next_config c cfg ev val) = true.
Proof. exact vhdl_next_legal_lemma. Qed.
Print Assumptions vhdl_next_legal.

(* refuted: without the target-set clause the fragment check still holds and the equations still compute the
   reference, but the result is not legal: <transition event="e" target="s3 s4"/>, s3 and s4 children of s2 *)
Theorem vhdl_next_legal_without_target_sets_refuted :
  exists t cfg ev val, let c := flatten false t in
    vh_treeb t = true /\ ct_target_setsb t = false /\ vh_wfb c = true /\ wf_core0b c = true /\ wfb_target_sets c = false /\
    legal_configb c cfg = true /\ vh_running c cfg = true /\ vh_event_ok c ev = true /\
    eval_eqs c (gen_eqs vh_fixed c) cfg ev val = Some (next_config c cfg ev val) /\
    legal_configb c (next_config c cfg ev val) = false.
Proof. exact vhdl_next_legal_needs_target_sets_refuted. Qed.
Print Assumptions vhdl_next_legal_without_target_sets_refuted.

(* U: the initial configuration (FastMicroStep's initial step: completion of <scxml>) is legal *)
Theorem vhdl_init_config_legal : forall c,
  vh_wfb c = true -> wf_coreb c = true -> fs_type (st c 0) = FCompound -> legal_configb c (init_config c) = true.
Proof. exact init_config_legal. Qed.
Print Assumptions vhdl_init_config_legal.

(* U: runs.  vh_run clocks the register state_active_* with state_next_* as evaluated from the emitted equations,
   for a list of (pending event or spontaneous step, condition-port values), and stops when completed_sig is '1';
   ref_run_stop iterates next_config likewise.  From the initial configuration, for EVERY list of inputs whose
   events are events of the document (every length; every prefix is an instance, so: at every clock edge) the net
   settles and the register holds the reference configuration, which is legal.  Not covered: the reset step that
   loads the initial configuration (in_complete_entry_set_0_sig pulse) is not evaluated from the equations; what
   the design does after completed_sig. *)
Theorem vhdl_run_correct : forall c ins,
  vh_wfb c = true -> wf_coreb c = true -> fs_type (st c 0) = FCompound -> inputs_okb c ins = true ->
  vh_run c (gen_eqs vh_fixed c) (init_config c) ins = Some (ref_run_stop c (init_config c) ins) /\
  legal_configb c (ref_run_stop c (init_config c) ins) = true.
Proof. exact vhdl_run_correct_lemma. Qed.
Print Assumptions vhdl_run_correct.

(* U: ... from any legal configuration *)
Theorem vhdl_run_from_legal : forall c ins cfg,
  vh_wfb c = true -> wf_coreb c = true -> legal_configb c cfg = true -> inputs_okb c ins = true ->
  vh_run c (gen_eqs vh_fixed c) cfg ins = Some (ref_run_stop c cfg ins) /\
  legal_configb c (ref_run_stop c cfg ins) = true.
Proof. exact vhdl_run_from_legal_lemma. Qed.
Print Assumptions vhdl_run_from_legal.

(* U: ... and for documents: vh_tree_runb = vh_treeb && legal target sets *)
Theorem document_vhdl_run_correct : forall t ins,
  let c := flatten false t in
  vh_tree_runb t = true -> inputs_okb c ins = true ->
  vh_run c (gen_eqs vh_fixed c) (init_config c) ins = Some (ref_run_stop c (init_config c) ins) /\
  legal_configb c (ref_run_stop c (init_config c) ins) = true.
Proof. exact document_vhdl_run_correct_lemma. Qed.
Print Assumptions document_vhdl_run_correct.

Theorem document_vhdl_next_legal : forall t cfg ev val,
  let c := flatten false t in
  vh_tree_runb t = true -> legal_configb c cfg = true -> ascb cfg = true ->
  legal_configb c (next_config c cfg ev val) = true.
Proof. exact document_vhdl_next_legal_lemma. Qed.
Print Assumptions document_vhdl_next_legal.

(* U: the reference step reads a configuration as a set *)
Theorem next_config_reads_a_set : forall c cfg cfg' ev val,
  (forall i, mem i cfg = mem i cfg') -> next_config c cfg ev val = next_config c cfg' ev val.
Proof. exact next_config_ext_lemma. Qed.
Print Assumptions next_config_reads_a_set.

(* non-vacuity: a document with a <parallel>, two compound regions, a top-level <final>, an internal transition,
   a descriptor list, a condition input and three events satisfies every hypothesis above; a six-edge run *)
Theorem vhdl_document_example :
  vh_treeb vd_tree = true /\ vh_tree_runb vd_tree = true /\ ct_par_nonemptyb vd_tree = true /\
  trans_tableb vd_chart = true /\ inputs_okb vd_chart vd_ins = true /\
  init_config vd_chart = [0; 1; 2; 3; 5; 6] /\
  doc_events vd_chart = [ev_e; ev_f; ev_g].
Proof. exact vd_tree_hypotheses. Qed.
Print Assumptions vhdl_document_example.

Theorem vhdl_document_example_run :
  map (fun k => vh_run vd_chart (gen_eqs vh_fixed vd_chart) (init_config vd_chart) (firstn k vd_ins)) (seq 0 7) =
  map Some [[0; 1; 2; 3; 5; 6]; [0; 1; 2; 3; 5; 6]; [0; 1; 2; 4; 5; 7]; [0; 1; 2; 4; 5; 7]; [0; 1; 2; 4; 5; 7]; [0; 8]; [0; 8]] /\
  vh_run vd_chart (gen_eqs vh_fixed vd_chart) (init_config vd_chart) [(None, tt)] = Some [0; 1; 2; 4; 5; 6].
Proof. exact vd_tree_run. Qed.
Print Assumptions vhdl_document_example_run.

(* ===================== work package `tt`: the default-engine theorems without the table hypothesis ===================== *)
From V Require Import FlattenWf FlattenStaticCorollaries.

(* WHAT: reference_step_is_default_engine_partial, reference_step_is_default_engine_inputs_partial and
   document_vhdl_is_default_engine_partial for the charts Chart.flatten builds, WITHOUT the hypothesis trans_tableb
   (it holds for every document, also after freezing the conditions).  For documents every static guard now follows
   from the document predicates vh_tree_runb and ct_par_nonemptyb.  Still partial: the dynamic guard sas_guardb
   (reference_step_is_default_engine_unguarded_refuted). *)
Theorem document_reference_step_is_default_engine_partial : forall xv late t l x ev,
  let c := flatten late t in
  vh_wfb c = true -> wf_coreb c = true -> par_nonemptyb c = true ->
  legal_configb c (l_cfg l) = true -> ascb (l_cfg l) = true ->
  sas_guardb c l x ev = true ->
  next_config c (l_cfg l) (option_map ev_name ev) (val_of c (l_cfg l) (x_store x)) =
  l_cfg (fst (fst (select_and_step lg_fixed xv c l x ev))).
Proof. exact document_reference_step_is_default_engine_partial_lemma. Qed.
Print Assumptions document_reference_step_is_default_engine_partial.

Theorem document_reference_step_is_default_engine_inputs_partial : forall xv late t val l x ev,
  let c := flatten late t in
  let c' := set_conds val c in
  vh_wfb c = true -> wf_coreb c' = true -> par_nonemptyb c' = true ->
  legal_configb c (l_cfg l) = true -> ascb (l_cfg l) = true ->
  sas_guardb c' l x ev = true ->
  next_config c (l_cfg l) (option_map ev_name ev) val =
  l_cfg (fst (fst (select_and_step lg_fixed xv c' l x ev))).
Proof. exact document_reference_step_is_default_engine_inputs_partial_lemma. Qed.
Print Assumptions document_reference_step_is_default_engine_inputs_partial.

Theorem document_vhdl_is_default_engine_static_free_partial : forall xv t l x ev,
  let c := flatten false t in
  vh_tree_runb t = true -> ct_par_nonemptyb t = true ->
  legal_configb c (l_cfg l) = true -> ascb (l_cfg l) = true ->
  vh_running c (l_cfg l) = true -> vh_event_ok c (option_map ev_name ev) = true ->
  sas_guardb c l x ev = true ->
  eval_eqs c (gen_eqs vh_fixed c) (l_cfg l) (option_map ev_name ev) (val_of c (l_cfg l) (x_store x)) =
  Some (l_cfg (fst (fst (select_and_step lg_fixed xv c l x ev)))).
Proof. exact document_vhdl_is_default_engine_static_free_partial_lemma. Qed.
Print Assumptions document_vhdl_is_default_engine_static_free_partial.
