(* Properties_C14.v -- property theorems only.  C14: serialized state resumes to identical behaviour.

   Model: Serialize.v on the chart core (Large.large_step: LargeMicroStep::step; Exec.v: store and queues).
   Every theorem is for ALL flat charts c whose <raise> elements name an event (chart_named c = true), all
   histories (lists of events and ticks), all step bounds, all snapshot points k and all continuations; the
   defect switches of the code as pinned are in sz_variant (sz_pinned / sz_fixed).
   Trusted / modelled, not verified: the model itself (tied to the code by tools/props/c14.py), md5 as an
   uninterpreted digest (only `different documents have different digests` is used, as a hypothesis), the JSON
   transport of the state string (C15), the datamodels (abstract integer store of Exec.v). *)
From V Require Import Base NameMatch Chart Exec Large Interp Fast GenBase64 Serialize
     SerializeCodecLemmas SerializeCongLemmas SerializeLemmas SerializeFastLemmas.

(* U.  Whenever step() returns MACROSTEPPED or IDLE the internal queue is empty: not serialising it is sound.
   Step level (any engine state satisfying the run invariant) ... *)
Theorem internal_queue_empty_after_step :
  forall lv xv c l x l' x' rc,
    Il l -> Forall named (x_iq x) ->
    large_step lv xv c l x = (l', x', rc) -> rc = RC_MACROSTEPPED \/ rc = RC_IDLE ->
    x_iq x' = [].
Proof.
  intros lv xv c l x l' x' rc Hl Hn Hs Hrc.
  destruct (large_boundary lv xv c l x l' x' rc Hl Hn Hs Hrc) as [H|H]; tauto.
Qed.
Print Assumptions internal_queue_empty_after_step.

(* ... and run level: at the k-th boundary of ANY run from the initial state *)
Theorem internal_queue_empty_at_boundary :
  forall lv xv c, chart_named c = true ->
  forall fuel k ins sp,
    irun_to ELarge c (large_step lv xv c) fuel k fresh ins = Some sp ->
    st_rc sp = RC_MACROSTEPPED \/ st_rc sp = RC_IDLE ->
    x_iq (i_x (st_state sp)) = [].
Proof. exact internal_queue_empty_at_boundary_lemma. Qed.
Print Assumptions internal_queue_empty_at_boundary.

(* U.  LargeMicroStep's encoding (decimal document-order indices, re-inserted into a flat_set) of any
   strictly ascending index list, any length, any magnitude *)
Theorem index_list_roundtrip : forall l, ssorted l -> idx_decode (idx_encode l) = l.
Proof. exact index_list_roundtrip_lemma. Qed.
Print Assumptions index_list_roundtrip.

(* U.  FastMicroStep's encoding (bit array -> 64-bit blocks + size block -> libb64 with line breaks -> back),
   for every number of states below 2^64; about the tables generated from Base64.c *)
Theorem bitset_base64_roundtrip :
  forall n l, (N.of_nat n < 256 ^ N.of_nat bitset_block_bytes)%N -> ssorted l -> bounded n l ->
    fast_decode (fast_encode n l) = l.
Proof. exact bitset_base64_roundtrip_lemma. Qed.
Print Assumptions bitset_base64_roundtrip.

(* U (repaired variant).  deserialize (serialize s) ~ s on every written component, for the state at any
   boundary of any run: configuration, history, initialised data, flags TOP_LEVEL_FINAL / FINISHED / STABLE,
   data values (as a finite map), external queue, invocation set, delayed events *)
Theorem roundtrip_state :
  forall lv xv c, chart_named c = true ->
  forall md5 fuel k ins sp,
    irun_to ELarge c (large_step lv xv c) fuel k fresh ins = Some sp ->
    exists sn r,
      serialize ELarge c sz_fixed md5 (st_rc sp) (st_state sp) = Some sn /\
      deserialize ELarge sz_fixed md5 fresh sn = DsOk r /\
      restored (i_l (st_state sp)) (i_l r) /\
      store_equiv (x_store (i_x (st_state sp))) (x_store (i_x r)) /\
      x_eq (i_x r) = x_eq (i_x (st_state sp)) /\ i_inv r = i_inv (st_state sp) /\ i_dq r = i_dq (st_state sp).
Proof. exact roundtrip_state_lemma. Qed.
Print Assumptions roundtrip_state.

(* U (repaired variant).  For every continuation the original and the resumed interpreter append the same
   tokens to their traces (every monitor notification, log output, result of step(), configuration) and end
   with the same configuration, history, initialised-data set, data values, external and delayed queue *)
Theorem resume_bisimilar :
  forall lv xv c, chart_named c = true ->
  forall md5 fuel k ins res,
    serialize_resume ELarge c (large_step lv xv c) sz_fixed md5 md5 fuel k ins = Some res ->
    exists sn r r',
      sr_snap res = Some sn /\ sr_des res = Some (DsOk r) /\ sr_res res = Some r' /\
      since (st_state (sr_stop res)) (sr_orig res) = since r r' /\
      l_cfg (i_l (sr_orig res)) = l_cfg (i_l r') /\ l_hist (i_l (sr_orig res)) = l_hist (i_l r') /\
      l_initd (i_l (sr_orig res)) = l_initd (i_l r') /\
      store_equiv (x_store (i_x (sr_orig res))) (x_store (i_x r')) /\
      x_eq (i_x (sr_orig res)) = x_eq (i_x r') /\ i_dq (sr_orig res) = i_dq r'.
Proof. exact resume_bisimilar_lemma. Qed.
Print Assumptions resume_bisimilar.

(* The statement is FALSE of the code as pinned; one concrete (chart, history, snapshot point, continuation)
   per lost component, each with only that switch on (corpus/c14.json holds the same witnesses, the check
   replays them on the implementation) *)
Theorem resume_bisimilar_refuted_stable_flag :
  differs (sr_large lg_fixed ex_fixed (only false true false false false) false w_stable dg dg 10 0 []) = true /\
  traces (sr_large lg_fixed ex_fixed (only false true false false false) false w_stable dg dg 10 0 []) =
    Some ([TRet RC_IDLE; TCfg [0; 1]%N], [TStable; TRet RC_MACROSTEPPED; TCfg [0; 1]%N; TRet RC_IDLE; TCfg [0; 1]%N]).
Proof. exact stable_lost_refuted. Qed.
Print Assumptions resume_bisimilar_refuted_stable_flag.

Theorem resume_bisimilar_refuted_delayed_events :
  differs (sr_large lg_fixed ex_fixed (only true false false false false) false w_delayed dg dg 20 0 [InTick]) = true.
Proof. exact delay_lost_refuted. Qed.
Print Assumptions resume_bisimilar_refuted_delayed_events.

Theorem resume_bisimilar_refuted_finished :
  traces (sr_large lg_fixed ex_fixed (only false false true false false) false w_finished dg dg 20 2 [InEv ev_e]) =
    Some ([TRet RC_FINISHED; TCfg [0; 2]%N], [TStable; TRet RC_MACROSTEPPED; TCfg [0; 2]%N]).
Proof. exact final_lost_refuted. Qed.
Print Assumptions resume_bisimilar_refuted_finished.

Theorem resume_bisimilar_refuted_undeclared_data :
  differs (sr_large lg_fixed ex_fixed (only false false false false true) true w_undeclared dg dg 20 0 [InEv ev_e]) = true.
Proof. exact undeclared_restored_refuted. Qed.
Print Assumptions resume_bisimilar_refuted_undeclared_data.

(* _partial (the code as pinned, sz_stable_lost on): after a MACROSTEPPED snapshot at which nothing else is lost
   the resumed interpreter emits exactly one extra stable-configuration notice (STABLE, step() = MACROSTEPPED)
   and then the very continuation of the original -- for every chart, history, k and continuation.
   Missing relative to the full statement: the extra notice itself; snapshots with pending delayed events;
   the Promela datamodel's invented declarations; FINISHED snapshots (refuted above). *)
Theorem resume_pinned_partial :
  forall lv xv c, chart_named c = true ->
  forall md5 v fuel k ins sp sn r,
    sz_stable_lost v = true -> sz_undeclared_restored v = false -> (forall z, sz_skip_value v z = false) ->
    irun_to ELarge c (large_step lv xv c) fuel k fresh ins = Some sp -> st_rc sp = RC_MACROSTEPPED ->
    (sz_delay_lost v = true -> i_dq (st_state sp) = []) ->
    Forall plain (x_eq (i_x (st_state sp))) ->
    serialize ELarge c v md5 (st_rc sp) (st_state sp) = Some sn ->
    deserialize ELarge v md5 fresh sn = DsOk r ->
    forall fuel' ins',
      since r (irun ELarge c (large_step lv xv c) (S fuel') r ins') =
      [TStable; TRet RC_MACROSTEPPED; cfg_token c (i_l (st_state sp))] ++
      since (st_state sp) (irun ELarge c (large_step lv xv c) fuel' (st_state sp) ins').
Proof. exact resume_pinned_partial_lemma. Qed.
Print Assumptions resume_pinned_partial.

(* A variant of serialize() that leaves some values out of the state string (sz_skip_value; the real code writes
   every declared value, a seeded change skipped the values for which Data::empty() holds).
   _partial: at every boundary of every run at which no variable holds such a value, every variable is restored; *)
Theorem roundtrip_state_unless_skipped :
  forall lv xv c, chart_named c = true ->
  forall md5 v fuel k ins sp sn,
    sz_undeclared_restored v = false ->
    irun_to ELarge c (large_step lv xv c) fuel k fresh ins = Some sp ->
    (forall id z, lookup (x_store (i_x (st_state sp))) id = Some z -> sz_skip_value v z = false) ->
    serialize ELarge c v md5 (st_rc sp) (st_state sp) = Some sn ->
    exists r, deserialize ELarge v md5 fresh sn = DsOk r /\
              store_equiv (x_store (i_x (st_state sp))) (x_store (i_x r)) /\
              l_cfg (i_l r) = l_cfg (i_l (st_state sp)) /\ l_hist (i_l r) = l_hist (i_l (st_state sp)) /\
              x_eq (i_x r) = x_eq (i_x (st_state sp)).
Proof. exact roundtrip_state_unless_skipped_lemma. Qed.
Print Assumptions roundtrip_state_unless_skipped.

(* _refuted otherwise: Var1 = 0 and a variant that leaves 0 out: the original logs 0 on e, the resumed interpreter
   (its <data> initialisation is skipped, the initialised-data set being restored) has no value for Var1 *)
Theorem resume_bisimilar_refuted_skipped_value :
  chart_named (flatten false w_skipped) = true /\
  differs (sr_large lg_fixed ex_fixed skip_zero false w_skipped dg dg 20 0 [InEv ev_e]) = true /\
  match sr_large lg_fixed ex_fixed skip_zero false w_skipped dg dg 20 0 [InEv ev_e] with
  | Some res => match sr_des res with
                | Some (DsOk r) => lookup (x_store (i_x (st_state (sr_stop res)))) 1%N = Some 0%Z /\ lookup (x_store (i_x r)) 1%N = None
                | _ => False
                end
  | None => False
  end /\
  differs (sr_large lg_fixed ex_fixed sz_fixed false w_skipped dg dg 20 0 [InEv ev_e]) = false.
Proof. exact skipped_value_refuted. Qed.
Print Assumptions resume_bisimilar_refuted_skipped_value.

(* U.  A state string of a document with another digest is rejected by both variants; the repaired order of
   the checks leaves the rejecting interpreter untouched ... *)
Theorem foreign_state_rejected :
  forall c md5 v other_md5 rc s sn f,
    other_md5 <> md5 ->
    serialize ELarge c v other_md5 rc s = Some sn ->
    exists f', deserialize ELarge v md5 f sn = DsRejected f' /\ (sz_queue_before_md5 v = false -> f' = f).
Proof. intros c md5. exact (foreign_state_rejected_lemma c md5). Qed.
Print Assumptions foreign_state_rejected.

(* ... the pinned order does not: the pending external event of document A stays in B's queue *)
Theorem foreign_state_rejected_unclean_refuted :
  match foreign_experiment (only false false false true false) with
  | Some (DsRejected f') => x_eq (i_x f') = [{| ev_name := ev_f; ev_kind := EvExternal |}]
  | _ => False
  end /\
  match foreign_experiment sz_fixed with
  | Some (DsRejected f') => f' = fresh
  | _ => False
  end.
Proof. exact foreign_unclean_refuted. Qed.
Print Assumptions foreign_state_rejected_unclean_refuted.

(* ---------------------------------------------------------------- the bit-array engine (Fast.fast_step:
   FastMicroStep::step).  Additional hypotheses: the tables only mention state indices (tables_bounded, a
   boolean evaluated on every generated chart by the check) and the chart has fewer than 2^64 states (the size
   block of the encoding). *)

Theorem internal_queue_empty_at_boundary_fast :
  forall xv c, chart_named c = true -> tables_bounded c = true ->
  (N.of_nat (nstates c) < 256 ^ N.of_nat bitset_block_bytes)%N ->
  forall fuel k ins sp,
    irun_to EFast c (fast_step xv c) fuel k fresh ins = Some sp ->
    st_rc sp = RC_MACROSTEPPED \/ st_rc sp = RC_IDLE ->
    x_iq (i_x (st_state sp)) = [].
Proof. exact internal_queue_empty_at_boundary_fast_lemma. Qed.
Print Assumptions internal_queue_empty_at_boundary_fast.

Theorem roundtrip_state_fast :
  forall xv c, chart_named c = true -> tables_bounded c = true ->
  (N.of_nat (nstates c) < 256 ^ N.of_nat bitset_block_bytes)%N ->
  forall md5 fuel k ins sp,
    irun_to EFast c (fast_step xv c) fuel k fresh ins = Some sp ->
    exists sn r,
      serialize EFast c sz_fixed md5 (st_rc sp) (st_state sp) = Some sn /\
      deserialize EFast sz_fixed md5 fresh sn = DsOk r /\
      restored (i_l (st_state sp)) (i_l r) /\
      store_equiv (x_store (i_x (st_state sp))) (x_store (i_x r)) /\
      x_eq (i_x r) = x_eq (i_x (st_state sp)) /\ i_inv r = i_inv (st_state sp) /\ i_dq r = i_dq (st_state sp).
Proof. exact roundtrip_state_fast_lemma. Qed.
Print Assumptions roundtrip_state_fast.

Theorem resume_bisimilar_fast :
  forall xv c, chart_named c = true -> tables_bounded c = true ->
  (N.of_nat (nstates c) < 256 ^ N.of_nat bitset_block_bytes)%N ->
  forall md5 fuel k ins res,
    serialize_resume EFast c (fast_step xv c) sz_fixed md5 md5 fuel k ins = Some res ->
    exists sn r r',
      sr_snap res = Some sn /\ sr_des res = Some (DsOk r) /\ sr_res res = Some r' /\
      since (st_state (sr_stop res)) (sr_orig res) = since r r' /\
      l_cfg (i_l (sr_orig res)) = l_cfg (i_l r') /\ l_hist (i_l (sr_orig res)) = l_hist (i_l r') /\
      l_initd (i_l (sr_orig res)) = l_initd (i_l r') /\
      store_equiv (x_store (i_x (sr_orig res))) (x_store (i_x r')) /\
      x_eq (i_x (sr_orig res)) = x_eq (i_x r') /\ i_dq (sr_orig res) = i_dq r'.
Proof. exact resume_bisimilar_fast_lemma. Qed.
Print Assumptions resume_bisimilar_fast.
