(* Properties_C09.v -- property theorems only.  C09: delayed events fire once, not early, in due
   order, unless cancelled.

   Model: Delay.v -- the interpreter thread executes an arbitrary program [p] of sends, cancels
   and cancelAllDelayed; the timer thread runs libevent's callbacks; [sched] is an arbitrary list
   of thread ids (any length; a thread that cannot move stays).  [v] selects the protocol variant:
   [dv_pinned] is the code as it is, [dv_window] the small repair (patches/C09-*.diff),
   [dv_repaired] the redesign in which cancel never waits for a running callback.
   libevent's choice of the next expired timer is the parameter [pick], constrained only by
   [pick_sound] (it picks a due timer with the least due time). *)
From V Require Import Base Delay DelayLemmas DelayRaceLemmas DelayOracleLemmas DelayLiveLemmas DelayLockLemmas DelayParse DelayParseLemmas.
Local Open Scope N_scope.

(* ---- all variants, all programs, all schedules ---- *)

(* U: an event is delivered at most once *)
Theorem fires_at_most_once : forall v pick, pick_sound pick -> forall p sched,
  wf_prog p = true -> NoDup (delivered (trace (run v pick (init p) sched))).
Proof. exact fires_at_most_once_lemma. Qed.
Print Assumptions fires_at_most_once.

(* U: never before enqueue time + delay (logical time) *)
Theorem never_early : forall v pick, pick_sound pick -> forall p sched u t tgt b,
  wf_prog p = true ->
  In (EDeliver u t tgt b) (trace (run v pick (init p) sched)) ->
  exists sid tgt' enq d, In (ESend u sid tgt' enq d) (trace (run v pick (init p) sched)) /\ enq + d <= t.
Proof. exact never_early_lemma. Qed.
Print Assumptions never_early.

(* U: of two deliveries made by the timer thread the later one (u2, nearer the head of the
   history) is not due earlier; i.e. events whose due times differ are delivered in due order.
   (A send with delay 0 is delivered by the interpreter thread itself and is not ordered against
   callbacks that are already running.) *)
Theorem due_order : forall v pick, pick_sound pick ->
  forall p sched l1 l2 l3 u1 t1 g1 u2 t2 g2 s1 a1 e1 d1 s2 a2 e2 d2,
  wf_prog p = true ->
  let tr := trace (run v pick (init p) sched) in
  tr = l1 ++ EDeliver u2 t2 g2 true :: l2 ++ EDeliver u1 t1 g1 true :: l3 ->
  In (ESend u1 s1 a1 e1 d1) tr -> In (ESend u2 s2 a2 e2 d2) tr ->
  e1 + d1 <= e2 + d2.
Proof. exact due_order_lemma. Qed.
Print Assumptions due_order.

(* U: after a <cancel> that returned (ECancelDone at time tc) before the due time of an event
   sent earlier under that sendid, the event is never delivered *)
Theorem cancel_before_due_never_fires : forall v pick, pick_sound pick ->
  forall p sched l1 sid tc l2 u tgt enq d,
  wf_prog p = true ->
  trace (run v pick (init p) sched) = l1 ++ ECancelDone sid tc :: l2 ->
  In (ESend u sid tgt enq d) l2 -> tc < enq + d ->
  ~ In u (delivered (trace (run v pick (init p) sched))).
Proof. exact cancel_before_due_lemma. Qed.
Print Assumptions cancel_before_due_never_fires.

(* U: a <cancel> removes EVERY pending event of its sendid: from the moment it has returned, each
   event sent earlier under that sendid and not yet due is out of _callbackData, in no running
   callback and undelivered (programs may send any number of events under one sendid) *)
Theorem cancel_removes_all_with_sendid : forall v pick, pick_sound pick ->
  forall p sched l1 sid tc l2,
  wf_prog p = true ->
  let s := run v pick (init p) sched in
  trace s = l1 ++ ECancelDone sid tc :: l2 ->
  forall u tgt enq d, In (ESend u sid tgt enq d) l2 -> tc < enq + d ->
    lookup (pending s) u = None /\ tpc_on (tpc s) <> Some u /\ ~ In u (delivered (trace s)).
Proof. exact cancel_removes_all_lemma. Qed.
Print Assumptions cancel_removes_all_with_sendid.

(* U: an event that was sent and whose sendid the program never cancels (no <cancel> of that
   sendid, no cancelAllDelayed) is delivered -- exactly once by fires_at_most_once: at every moment
   it is delivered or still in flight (timer armed, or callback before the delivery), and in a
   finished run it is delivered.  For every variant in which InterpreterImpl::enqueue records the
   target together with arming the timer under _delayMutex (the code as it is). *)
Theorem sent_uncancelled_is_delivered : forall v pick, pick_sound pick -> dv_enqueue_arms_first v = false ->
  forall p sched u sid tgt enq d,
  wf_prog p = true -> has_cancel_all p = false -> ~ In sid (cancel_sids p) ->
  let s := run v pick (init p) sched in
  In (ESend u sid tgt enq d) (trace s) ->
  (In u (delivered (trace s)) \/ flight s u) /\ (finished s = true -> In u (delivered (trace s))).
Proof.
  intros v pick Hp Hr p sched u sid tgt enq d Hwf Hna Hnc s Hin. split.
  - now apply (sent_uncancelled_in_flight_lemma v pick Hp Hr p sched u sid tgt enq d).
  - intros Hf. now apply (sent_uncancelled_is_delivered_lemma v pick Hp Hr p sched u sid tgt enq d).
Qed.
Print Assumptions sent_uncancelled_is_delivered.

(* U: the executable form (complete_b), applied by the check to every finished run observed on the
   implementation, accepts every finished run of the model *)
Theorem finished_history_complete : forall v pick, pick_sound pick -> dv_enqueue_arms_first v = false ->
  forall p sched, wf_prog p = true ->
  let s := run v pick (init p) sched in
  finished s = true -> complete_b p (trace s) = true.
Proof. exact complete_b_finished_lemma. Qed.
Print Assumptions finished_history_complete.

(* ... refuted for an enqueue that arms the timer before it records the target: the timer fires in
   between, eventReady finds no entry and drops the event *)
Theorem sent_uncancelled_is_delivered_arms_first_refuted :
  exists pick p sched u sid tgt enq d, pick_sound pick /\ wf_prog p = true /\ has_cancel_all p = false /\
    ~ In sid (cancel_sids p) /\
    let s := run dv_arms_first pick (init p) sched in
    finished s = true /\ In (ESend u sid tgt enq d) (trace s) /\ ~ In u (delivered (trace s)).
Proof.
  exists pick_min, w_lost_prog, w_lost, 1, 1, 0, 0, 1.
  destruct arms_first_loses_event as (H1 & H2 & H3 & H4 & H5 & H6 & _).
  split; [exact pick_min_sound|]. split; [exact H1|]. split; [exact H2|]. split; [rewrite H3; intros []|].
  split; [exact H4|]. split; [exact H5|]. rewrite H6. intros [].
Qed.
Print Assumptions sent_uncancelled_is_delivered_arms_first_refuted.

(* U: the executable oracle that judges the histories observed on the implementation
   (delay_admissibleb: at most once, not early, due order, cancel before due) accepts every
   history of the model; and what it accepts is delivered at most once and not early *)
Theorem model_history_admissible : forall v pick p sched,
  pick_sound pick -> wf_prog p = true ->
  delay_admissibleb 0 (trace (run v pick (init p) sched)) = true.
Proof. exact model_history_admissible_lemma. Qed.
Print Assumptions model_history_admissible.

Theorem oracle_sound : forall g tr, delay_admissibleb g tr = true ->
  NoDup (delivered tr) /\
  (forall u t tgt b, In (EDeliver u t tgt b) tr ->
     exists sid tgt' enq d, In (ESend u sid tgt' enq d) tr /\ enq + d <= t).
Proof. exact oracle_sound_lemma. Qed.
Print Assumptions oracle_sound.

(* the assumption on libevent is satisfiable (the instance used for all computations) *)
Theorem pick_assumption_satisfiable : pick_sound pick_min.
Proof. exact pick_min_sound. Qed.
Print Assumptions pick_assumption_satisfiable.

(* the critical sections the model treats as atomic take their mutex before the first and hold it
   to the last use of the guarded map, in the source of the working tree (regenerated inventory) *)
Theorem delay_critical_sections_locked : delay_sections_locked = true.
Proof. exact delay_sections_locked_lemma. Qed.
Print Assumptions delay_critical_sections_locked.

(* ---- the race clauses ---- *)

(* U for every variant in which section 1 of timerCallback takes the entry out of the map *)
Theorem no_use_after_free : forall v pick p sched,
  dv_cb_takes_entry v = true -> fault (run v pick (init p) sched) = None.
Proof. exact no_use_after_free_lemma. Qed.
Print Assumptions no_use_after_free.

(* ... refuted for the code as it is: cancel after section 1 calls event_del on the freed timer *)
Theorem no_use_after_free_pinned_refuted :
  exists pick p sched, pick_sound pick /\ wf_prog p = true /\
    fault (run dv_pinned pick (init p) sched) = Some (UseAfterFree 1).
Proof.
  exists pick_min, w_prog, w_uaf. split; [exact pick_min_sound | exact pinned_uaf_witness].
Qed.
Print Assumptions no_use_after_free_pinned_refuted.

(* U for every variant in which cancel does not wait for a running callback *)
Theorem no_deadlock : forall v pick p sched,
  dv_cancel_noblock v = true -> deadlocked v pick (run v pick (init p) sched) = false.
Proof. exact no_deadlock_lemma. Qed.
Print Assumptions no_deadlock.

(* ... refuted for the code as it is, and for the small repair: cancel between the start of the
   callback and its section 1 holds the queue's mutex inside event_del, the callback waits for it *)
Theorem no_deadlock_pinned_refuted :
  exists pick p sched, pick_sound pick /\ wf_prog p = true /\
    deadlocked dv_pinned pick (run dv_pinned pick (init p) sched) = true.
Proof.
  exists pick_min, w_prog, w_deadlock. split; [exact pick_min_sound | exact pinned_deadlock_witness].
Qed.
Print Assumptions no_deadlock_pinned_refuted.

Theorem no_deadlock_window_refuted :
  exists pick p sched, pick_sound pick /\ wf_prog p = true /\
    deadlocked dv_window pick (run dv_window pick (init p) sched) = true.
Proof.
  exists pick_min, w_prog, w_deadlock. split; [exact pick_min_sound | exact window_deadlock_witness].
Qed.
Print Assumptions no_deadlock_window_refuted.

(* U for the repaired protocol: a cancel racing with the delivery ends in one of the two outcomes
   (delivered once, to the target named in the send; or not delivered), never in a fault or a
   dead-lock *)
Theorem cancel_fire_race_two_outcomes : forall pick, pick_sound pick -> forall p sched,
  wf_prog p = true -> race_ok dv_repaired pick (run dv_repaired pick (init p) sched).
Proof. intros pick Hp p sched Hwf. now apply race_two_outcomes_lemma. Qed.
Print Assumptions cancel_fire_race_two_outcomes.

Theorem cancel_fire_race_two_outcomes_pinned_refuted :
  exists pick p sched, pick_sound pick /\ wf_prog p = true /\
    ~ race_ok dv_pinned pick (run dv_pinned pick (init p) sched).
Proof.
  exists pick_min, w_prog, w_uaf. split; [exact pick_min_sound|]. split; [exact (proj1 pinned_uaf_witness)|].
  intros (Hf & _). rewrite (proj2 pinned_uaf_witness) in Hf. discriminate.
Qed.
Print Assumptions cancel_fire_race_two_outcomes_pinned_refuted.

(* ---- the delay-string codec (DelayParse.v) ---- *)

(* U: "<digits>[.<digits>]ms", ".<digits>ms" and the unit-less forms: whole milliseconds, for
   every value that fits the width of delayMs (uint32_t in the pinned code) *)
Theorem delay_parse_ms_correct : forall dv ip fp (hasdot : bool) un,
  wf_number ip hasdot fp = true -> un <> UnitS -> digits_val 0 ip <= umax dv ->
  delay_parse dv (render ip hasdot fp un) = DpMs (digits_val 0 ip) /\
  delay_spec (render ip hasdot fp un) = Some (digits_val 0 ip).
Proof. exact delay_parse_ms_lemma. Qed.
Print Assumptions delay_parse_ms_correct.

(* B: "<i>.<f>s" for every integer part below 30 and every fraction of one to three digits
   (33300 strings, by computation): within one millisecond below the exact value, never above *)
Theorem delay_parse_s_fraction_upto_30_3 : forall i fl f,
  i < 30 -> (1 <= fl <= 3)%nat -> f < 10 ^ N.of_nat fl ->
  exists m sp, delay_parse dpv_pinned (render_s i fl f) = DpMs m /\ delay_spec (render_s i fl f) = Some sp /\
               sp - 1 <= m /\ m <= sp.
Proof. exact delay_parse_s_fraction_lemma. Qed.
Print Assumptions delay_parse_s_fraction_upto_30_3.

(* B: whole seconds "<i>s" up to 5000 s are exact *)
Theorem delay_parse_s_integral_upto_5000 : forall i,
  i <= 5000 -> delay_parse dpv_pinned (render_si i) = DpMs (1000 * i) /\ delay_spec (render_si i) = Some (1000 * i).
Proof. exact delay_parse_s_integral_lemma. Qed.
Print Assumptions delay_parse_s_integral_upto_5000.

(* exactness of the seconds branch is refuted: "1.001s" is 1000 ms (strtod, then * 1000 in
   binary64, then truncation) *)
Theorem delay_parse_s_exact_refuted : forall dv,
  exists s m, delay_spec s = Some m /\ delay_parse dv s <> DpMs m.
Proof. exact delay_parse_s_exact_refuted_lemma. Qed.
Print Assumptions delay_parse_s_exact_refuted.

(* definedness is refuted: a value beyond uint32_t milliseconds ends in an out-of-range
   conversion, a text without any digit in a read of an uninitialised variable *)
Theorem delay_parse_defined_pinned_refuted :
  (exists s m, delay_spec s = Some m /\ delay_parse dpv_pinned s = DpUB) /\ (exists s, delay_parse dpv_pinned s = DpUninit).
Proof. exact delay_parse_defined_refuted_lemma. Qed.
Print Assumptions delay_parse_defined_pinned_refuted.

(* U: with strTo value-initialising its result no text ends in an uninitialised read; the witness
   "4294968s" is 4294968000 ms with a 64 bit delayMs *)
Theorem delay_parse_initialised : forall dv s, dpv_init dv = true -> delay_parse dv s <> DpUninit.
Proof. exact delay_parse_fixed_init_lemma. Qed.
Print Assumptions delay_parse_initialised.
