(* Properties_C09.v -- property theorems only.  C09: delayed events fire once, not early, in due
   order, unless cancelled. (under construction) *)
From V Require Import Base Delay DelayParse.
