(* Properties_C03.v -- property theorems only.  C03: the two micro-step engines are interchangeable. *)
From V Require Import Base NameMatch Chart Exec Large LargeLemmas Fast Interp Legal LegalRun WfCore LegalOracle
     SelectConform MicroConform EngineEquivDone EngineEquivStep EngineEquivSelect EngineEquivRun EngineEquivMain
     EngineEquivWitness.

Theorem conflict_relation_symmetric :
  forall v c t1 t2, conflicts v c t1 t2 = conflicts v c t2 t1.
Proof. exact conflicts_sym. Qed.
Print Assumptions conflict_relation_symmetric.

(* ---------------------------------------------------------------------------------------------------------
   The two engine models: Fast.v (FastMicroStep::step) and Large.v (LargeMicroStep::step, repaired code
   lg_fixed), over the same flat tables.  Reach of the theorems below: the history-free core (wf_coreb: states,
   compounds, parallels, finals; no history / <initial> pseudo-states), all event histories, all datamodel
   states, any number of steps (unbounded; by simulation).  Engine states are compared with lstate_eqv: every
   field equal except _initializedData, which agrees on the states that have <data> (the fast engine also
   records states without data, see fast_large_initialized_data_differs).  The execution state (trace, both
   queues, datamodel) and the return code of step() are EQUAL.
   Side conditions, all computable:
     static   eq_chartb c = wf_coreb && root is a compound && leaf_okb (finals/atomic states have no child
              states) && par_nonemptyb (every <parallel> has a child) && trans_tableb (a state's transition list
              is the ascending list of the transitions it is the source of; transitions numbered in post-fix
              order of their sources -- what LargeMicroStep::init builds);
     dynamic  eq_guard_run / step_guardb, evaluated along the LARGE engine's run:
              sel_guardb  -- when the large engine examines an active state in ancestor relation with the source
                             of an already selected transition, every transition of that state is ruled out
                             before its condition is evaluated, or its condition evaluates without error to
                             false (C03-K1 is where this fails);
              ms_guardb   -- for every <final> f entered in the microstep: below each <parallel> ancestor of f no
                             state is entered after f, and at most one <parallel> ancestor of f is done (C03-K4
                             is where this fails).
   Not covered: history and <initial> pseudo-states, invocations, delayed sends; that trans_tableb holds for
   every chart built by Chart.flatten is not proved here (it is a boolean the check evaluates per chart).
   --------------------------------------------------------------------------------------------------------- *)

(* (1) ESTABLISH_ENTRYSET: for every core chart, every legal configuration and every list of transitions with
   active sources (no conflict-freeness needed), every history value and initial transition set, the fast
   engine's descendant-bit-set loop computes the same pair of ascending lists as the large engine's loop *)
Theorem fast_large_entry_set_equiv :
  forall c cfg sel hist ts,
    wf_coreb c = true -> legal_configb c cfg = true ->
    (forall ti, In ti sel -> In (ft_source (tr c ti)) cfg) ->
    fentry_set c cfg (sel_exitset c cfg sel) hist (sel_targets c sel) ts =
    entry_set lg_fixed c cfg (sel_exitset c cfg sel) hist (sel_targets c sel) ts.
Proof. exact fast_large_entry_set_equiv_lemma. Qed.
Print Assumptions fast_large_entry_set_equiv.

(* ... and for the initial step (empty configuration, target = the root's completion) *)
Theorem fast_large_entry_set_equiv_initial :
  forall c hist ts,
    wf_coreb c = true -> fs_type (st c 0) = FCompound ->
    fentry_set c [] [] hist (fs_completion (st c 0)) ts = entry_set lg_fixed c [] [] hist (fs_completion (st c 0)) ts.
Proof. exact fast_large_entry_set_equiv_initial_lemma. Qed.
Print Assumptions fast_large_entry_set_equiv_initial.

(* (2) one microstep (REMEMBER_HISTORY .. ENTER_STATES) from the same conflict-free selection with active
   sources, none of them a pseudo-state's default transition: related engine states, equal execution state.
   Needs the dynamic done-event condition ms_guardb; does not cover charts with histories *)
Theorem fast_large_microstep_equiv :
  forall xv c lf ll x sel,
    wf_coreb c = true -> leaf_okb c = true -> par_nonemptyb c = true ->
    lstate_eqv c lf ll -> legal_configb c (l_cfg ll) = true -> ascb (l_cfg ll) = true ->
    (forall ti, In ti sel -> In (ft_source (tr c ti)) (l_cfg ll)) -> pairwise_ok lg_fixed c sel ->
    plain_transb c sel = true ->
    ms_guardb c ll (sel_targets c sel) (sel_exitset c (l_cfg ll) sel) sel false = true ->
    lstate_eqv c (fst (fmicrostep xv c lf x (sel_targets c sel) (sel_exitset c (l_cfg ll) sel) sel false))
                 (fst (microstep lg_fixed xv c ll x (sel_targets c sel) (sel_exitset c (l_cfg ll) sel) sel false)) /\
    snd (fmicrostep xv c lf x (sel_targets c sel) (sel_exitset c (l_cfg ll) sel) sel false) =
    snd (microstep lg_fixed xv c ll x (sel_targets c sel) (sel_exitset c (l_cfg ll) sel) sel false).
Proof. exact fast_large_microstep_equiv_lemma. Qed.
Print Assumptions fast_large_microstep_equiv.

(* the initial microstep *)
Theorem fast_large_initial_microstep_equiv :
  forall xv c lf ll x,
    wf_coreb c = true -> leaf_okb c = true -> par_nonemptyb c = true -> fs_type (st c 0) = FCompound ->
    lstate_eqv c lf ll -> l_cfg ll = [] ->
    ms_guardb c ll (fs_completion (st c 0)) [] [] true = true ->
    lstate_eqv c (fst (fmicrostep xv c lf x (fs_completion (st c 0)) [] [] true))
                 (fst (microstep lg_fixed xv c ll x (fs_completion (st c 0)) [] [] true)) /\
    snd (fmicrostep xv c lf x (fs_completion (st c 0)) [] [] true) =
    snd (microstep lg_fixed xv c ll x (fs_completion (st c 0)) [] [] true).
Proof. exact fast_large_initial_microstep_equiv_lemma. Qed.
Print Assumptions fast_large_initial_microstep_equiv.

(* a static condition that makes ms_guardb hold for every microstep: no <final> below a <parallel> *)
Theorem done_guard_holds_without_final_below_parallel :
  forall c l tg X ts ini, final_free_parb c = true -> ms_guardb c l tg X ts ini = true.
Proof. exact ms_guard_static_lemma. Qed.
Print Assumptions done_guard_holds_without_final_below_parallel.

(* (3) SELECT_TRANSITIONS: the same list of selected transitions (in the same order: both end up ascending) and
   the same execution state -- conditions may fail and raise error.execution, so the set and order of evaluated
   conditions is part of the statement.  For every ascending configuration within range (legality not needed) *)
Theorem fast_large_select_equiv :
  forall c cfg ev x,
    wf_coreb c = true -> trans_tableb c = true -> ascb cfg = true -> (forall s, In s cfg -> s < nstates c) ->
    sel_guardb c cfg ev (cfg_postfix c cfg) None [] x = true ->
    fselect c cfg ev (seq 0 (ntrans c)) [] x = select_loop lg_fixed c cfg ev (cfg_postfix c cfg) None [] x.
Proof. exact fast_large_select_equiv_lemma. Qed.
Print Assumptions fast_large_select_equiv.

(* (4) one step(): selection given as a hypothesis ... *)
Theorem fast_large_step_equiv_given_selection :
  forall xv c lf ll x ev,
    wf_coreb c = true -> leaf_okb c = true -> par_nonemptyb c = true ->
    lstate_eqv c lf ll -> legal_configb c (l_cfg ll) = true -> ascb (l_cfg ll) = true ->
    fselect c (l_cfg ll) ev (seq 0 (ntrans c)) [] x = select_loop lg_fixed c (l_cfg ll) ev (cfg_postfix c (l_cfg ll)) None [] x ->
    (let '(sel, x1) := select_loop lg_fixed c (l_cfg ll) ev (cfg_postfix c (l_cfg ll)) None [] x in
     match sel with [] => true | _ => ms_guardb c ll (sel_targets c sel) (sel_exitset c (l_cfg ll) sel) sel false end) = true ->
    res_eqv c (fselect_and_step xv c lf x ev) (select_and_step lg_fixed xv c ll x ev).
Proof. exact fast_large_step_equiv_given_selection_lemma. Qed.
Print Assumptions fast_large_step_equiv_given_selection.

(* ... and in full: every branch of step() (finished, top-level final, initial microstep, event-less selection,
   internal / external dequeue, stable, idle, cancelled) *)
Theorem fast_large_step_equiv :
  forall xv c lf ll x,
    eq_chartb c = true -> lstate_eqv c lf ll -> CfgOK c ll -> ascb (l_cfg ll) = true -> step_guardb c ll x = true ->
    res_eqv c (fast_step xv c lf x) (large_step lg_fixed xv c ll x).
Proof. exact fast_large_step_equiv_lemma. Qed.
Print Assumptions fast_large_step_equiv.

(* (5) whole runs of the driver loop from the pristine state: every event list, every bound on the number of
   steps; the guard is computed along the large engine's run *)
Theorem fast_large_run_equiv :
  forall xv c fuel evs,
    eq_chartb c = true -> eq_guard_run xv c fuel l_pristine x_init evs = true ->
    lstate_eqv c (fst (run_loop c lstate (fast_step xv c) l_cfg fuel l_pristine x_init evs))
                 (fst (run_loop c lstate (large_step lg_fixed xv c) l_cfg fuel l_pristine x_init evs)) /\
    snd (run_loop c lstate (fast_step xv c) l_cfg fuel l_pristine x_init evs) =
    snd (run_loop c lstate (large_step lg_fixed xv c) l_cfg fuel l_pristine x_init evs).
Proof. exact fast_large_run_equiv_lemma. Qed.
Print Assumptions fast_large_run_equiv.

(* the observable behaviour of documents: same trace and same datamodel *)
Theorem fast_large_trace_equiv :
  forall xv late t evs fuel,
    eq_chartb (flatten late t) = true -> eq_guard_run xv (flatten late t) fuel l_pristine x_init evs = true ->
    run_fast xv late t evs fuel = run_large lg_fixed xv late t evs fuel.
Proof. exact fast_large_trace_equiv_lemma. Qed.
Print Assumptions fast_large_trace_equiv.

(* (6) the fast engine's configurations are legal along guarded runs (from (5) and C02's run_always_legal) *)
Theorem fast_run_always_legal_partial :
  forall xv c fuel evs,
    eq_chartb c = true -> eq_guard_run xv c fuel l_pristine x_init evs = true ->
    CfgOK c (fst (run_loop c lstate (fast_step xv c) l_cfg fuel l_pristine x_init evs)).
Proof. exact fast_run_always_legal_partial_lemma. Qed.
Print Assumptions fast_run_always_legal_partial.

(* non-vacuity: a chart with a <parallel>, nested compounds, <final>s in both regions, <data> with late binding,
   conditions (one of them failing), target-less and done.state-triggered transitions satisfies all hypotheses
   for a run that ends in the top-level <final>, and the theorem applies to it *)
Theorem engine_equiv_hypotheses_satisfiable :
  let c := flatten true ee_tree in
  eq_chartb c = true /\ eq_guard_run ex_fixed c 40 l_pristine x_init ee_evs = true /\
  l_fin (fst (run_loop c lstate (large_step lg_fixed ex_fixed c) l_cfg 40 l_pristine x_init ee_evs)) = true /\
  In (TEv (s_done_state ++ state_name 2%N)) (fst (run_large lg_fixed ex_fixed true ee_tree ee_evs 40)) /\
  In (TLog 6%Z) (fst (run_large lg_fixed ex_fixed true ee_tree ee_evs 40)).
Proof. exact ee_tree_guarded. Qed.
Print Assumptions engine_equiv_hypotheses_satisfiable.

(* the selection guard cannot be dropped (known finding C03-K1): s3 (target-less transition on e) below s2 (no
   transitions) below s1 (transition on e): the fast engine selects [0], the large engine [0; 1] *)
Theorem fast_large_select_equiv_without_guard_refuted :
  exists c cfg ev x,
    wf_coreb c = true /\ trans_tableb c = true /\ legal_configb c cfg = true /\ ascb cfg = true /\
    sel_guardb c cfg ev (cfg_postfix c cfg) None [] x = false /\
    fst (fselect c cfg ev (seq 0 (ntrans c)) [] x) = [0] /\
    fst (select_loop lg_fixed c cfg ev (cfg_postfix c cfg) None [] x) = [0; 1].
Proof. exact select_equiv_without_guard_refuted_lemma. Qed.
Print Assumptions fast_large_select_equiv_without_guard_refuted.

(* the first half of the done-event guard cannot be dropped (C03-K4): entering a <parallel> whose two regions
   start in <final>s, the fast engine raises done.state.<parallel> before the second region is entered; same
   configuration, different execution state.  C01's static condition done_okb holds of the witness: no static
   condition short of "no <final> below a <parallel>" helps *)
Theorem fast_large_microstep_equiv_premature_done_refuted :
  exists c l x sel,
    wf_coreb c = true /\ leaf_okb c = true /\ par_nonemptyb c = true /\ done_okb c = true /\
    legal_configb c (l_cfg l) = true /\ ascb (l_cfg l) = true /\
    (forall ti, In ti sel -> In (ft_source (tr c ti)) (l_cfg l)) /\ pairwise_ok lg_fixed c sel /\ plain_transb c sel = true /\
    ms_parts c l (sel_targets c sel) (sel_exitset c (l_cfg l) sel) sel false = (false, true) /\
    l_cfg (fst (fmicrostep ex_fixed c l x (sel_targets c sel) (sel_exitset c (l_cfg l) sel) sel false)) =
    l_cfg (fst (microstep lg_fixed ex_fixed c l x (sel_targets c sel) (sel_exitset c (l_cfg l) sel) sel false)) /\
    snd (fmicrostep ex_fixed c l x (sel_targets c sel) (sel_exitset c (l_cfg l) sel) sel false) <>
    snd (microstep lg_fixed ex_fixed c l x (sel_targets c sel) (sel_exitset c (l_cfg l) sel) sel false).
Proof. exact microstep_equiv_premature_done_refuted_lemma. Qed.
Print Assumptions fast_large_microstep_equiv_premature_done_refuted.

(* the second half cannot be dropped: nested <parallel>s completed by one <final>: the fast engine raises the
   outer done.state first, the large engine the inner one (ms_parts = the two halves of ms_guardb) *)
Theorem fast_large_microstep_equiv_nested_done_order_refuted :
  exists c l x sel,
    wf_coreb c = true /\ leaf_okb c = true /\ par_nonemptyb c = true /\
    legal_configb c (l_cfg l) = true /\ ascb (l_cfg l) = true /\
    (forall ti, In ti sel -> In (ft_source (tr c ti)) (l_cfg l)) /\ pairwise_ok lg_fixed c sel /\ plain_transb c sel = true /\
    ms_parts c l (sel_targets c sel) (sel_exitset c (l_cfg l) sel) sel false = (true, false) /\
    map ev_name (x_iq (snd (fmicrostep ex_fixed c l x (sel_targets c sel) (sel_exitset c (l_cfg l) sel) sel false))) =
      [s_done_state ++ state_name 4%N; s_done_state ++ state_name 1%N; s_done_state ++ state_name 3%N] /\
    map ev_name (x_iq (snd (microstep lg_fixed ex_fixed c l x (sel_targets c sel) (sel_exitset c (l_cfg l) sel) sel false))) =
      [s_done_state ++ state_name 4%N; s_done_state ++ state_name 3%N; s_done_state ++ state_name 1%N].
Proof. exact microstep_equiv_nested_done_order_refuted_lemma. Qed.
Print Assumptions fast_large_microstep_equiv_nested_done_order_refuted.

Theorem ms_guard_is_its_two_halves :
  forall c l tg X ts ini, ms_guardb c l tg X ts ini = fst (ms_parts c l tg X ts ini) && snd (ms_parts c l tg X ts ini).
Proof. exact ms_parts_spec. Qed.
Print Assumptions ms_guard_is_its_two_halves.

(* the three deviations are visible in the traces of whole runs of documents that pass all static conditions *)
Theorem fast_large_run_equiv_without_guard_refuted :
  forall t, In t [k1_tree; k4_tree; nest_tree] ->
    let c := flatten false t in
    eq_chartb c = true /\ eq_guard_run ex_fixed c 12 l_pristine x_init [[101%N]] = false /\
    run_fast ex_fixed false t [[101%N]] 12 <> run_large lg_fixed ex_fixed false t [[101%N]] 12.
Proof. exact run_equiv_without_guard_refuted_lemma. Qed.
Print Assumptions fast_large_run_equiv_without_guard_refuted.

(* par_nonemptyb cannot be dropped: with a child-less <parallel> inside a region the dynamic guard holds and the
   traces differ (the large engine raises done.state for the enclosing <parallel>, the fast engine does not) *)
Theorem fast_large_run_equiv_childless_parallel_refuted :
  exists t evs fuel,
    let c := flatten false t in
    wf_coreb c = true /\ fs_type (st c 0) = FCompound /\ leaf_okb c = true /\ trans_tableb c = true /\ par_nonemptyb c = false /\
    eq_guard_run ex_fixed c fuel l_pristine x_init evs = true /\
    run_fast ex_fixed false t evs fuel <> run_large lg_fixed ex_fixed false t evs fuel.
Proof. exact run_equiv_childless_parallel_refuted_lemma. Qed.
Print Assumptions fast_large_run_equiv_childless_parallel_refuted.

(* literal equality of the engine states is false: _initializedData of the fast engine lists every entered
   state, that of the large engine only states with <data> *)
Theorem fast_large_initialized_data_differs :
  exists c,
    eq_chartb c = true /\ ms_guardb c l_pristine (fs_completion (st c 0)) [] [] true = true /\
    l_initd (fst (fmicrostep ex_fixed c l_pristine x_init (fs_completion (st c 0)) [] [] true)) = [0; 1] /\
    l_initd (fst (microstep lg_fixed ex_fixed c l_pristine x_init (fs_completion (st c 0)) [] [] true)) = [].
Proof. exact microstep_literal_equality_refuted_lemma. Qed.
Print Assumptions fast_large_initialized_data_differs.
