(* Properties_C03.v -- property theorems only.  C03: the two micro-step engines are interchangeable. *)
From V Require Import Base NameMatch Chart Exec Large LargeLemmas.

Theorem conflict_relation_symmetric :
  forall v c t1 t2, conflicts v c t1 t2 = conflicts v c t2 t1.
Proof. exact conflicts_sym. Qed.
Print Assumptions conflict_relation_symmetric.
