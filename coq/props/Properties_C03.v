(* Properties_C03.v -- property theorems only.  C03: the two micro-step engines are interchangeable. *)
From V Require Import Base NameMatch Chart Exec Large LargeLemmas Fast Interp Legal LegalRun WfCore LegalOracle
     SelectConform MicroConform EngineEquivDone EngineEquivStep EngineEquivSelect EngineEquivRun EngineEquivMain
     EngineEquivWitness.
From V Require Import LegalHistBase LegalHistEntry LegalHistStep LegalHistRun LegalHistWf LegalHistOracle
     EngineEquivHistEntry EngineEquivHistEnter EngineEquivHistRun EngineEquivHistMain EngineEquivHistWitness.

Theorem conflict_relation_symmetric :
  forall v c t1 t2, conflicts v c t1 t2 = conflicts v c t2 t1.
Proof. exact conflicts_sym. Qed.
Print Assumptions conflict_relation_symmetric.

(* ---------------------------------------------------------------------------------------------------------
   The two engine models: Fast.v (FastMicroStep::step) and Large.v (LargeMicroStep::step, repaired code
   lg_fixed), over the same flat tables.  Reach of the theorems below: the history-free core (wf_coreb: states,
   compounds, parallels, finals; no history / <initial> pseudo-states), all event histories, all datamodel
   states, any number of steps (unbounded; by simulation).  Engine states are compared with lstate_eqv: every
   field equal except _initializedData, which agrees on the states that have <data> (the fast engine also
   records states without data, see fast_large_initialized_data_differs).  The execution state (trace, both
   queues, datamodel) and the return code of step() are EQUAL.
   Side conditions, all computable:
     static   eq_chartb c = wf_coreb && root is a compound && leaf_okb (finals/atomic states have no child
              states) && par_nonemptyb (every <parallel> has a child) && trans_tableb (a state's transition list
              is the ascending list of the transitions it is the source of; transitions numbered in post-fix
              order of their sources -- what LargeMicroStep::init builds);
     dynamic  eq_guard_run / step_guardb, evaluated along the LARGE engine's run:
              sel_guardb  -- when the large engine examines an active state in ancestor relation with the source
                             of an already selected transition, every transition of that state is ruled out
                             before its condition is evaluated, or its condition evaluates without error to
                             false (C03-K1 is where this fails);
              ms_guardb   -- for every <final> f entered in the microstep: below each <parallel> ancestor of f no
                             state is entered after f, and at most one <parallel> ancestor of f is done (C03-K4
                             is where this fails).
   Not covered: history and <initial> pseudo-states, invocations, delayed sends; that trans_tableb holds for
   every chart built by Chart.flatten is not proved here (it is a boolean the check evaluates per chart).
   --------------------------------------------------------------------------------------------------------- *)

(* (1) ESTABLISH_ENTRYSET: for every core chart, every legal configuration and every list of transitions with
   active sources (no conflict-freeness needed), every history value and initial transition set, the fast
   engine's descendant-bit-set loop computes the same pair of ascending lists as the large engine's loop *)
Theorem fast_large_entry_set_equiv :
  forall c cfg sel hist ts,
    wf_coreb c = true -> legal_configb c cfg = true ->
    (forall ti, In ti sel -> In (ft_source (tr c ti)) cfg) ->
    fentry_set c cfg (sel_exitset c cfg sel) hist (sel_targets c sel) ts =
    entry_set lg_fixed c cfg (sel_exitset c cfg sel) hist (sel_targets c sel) ts.
Proof. exact fast_large_entry_set_equiv_lemma. Qed.
Print Assumptions fast_large_entry_set_equiv.

(* ... and for the initial step (empty configuration, target = the root's completion) *)
Theorem fast_large_entry_set_equiv_initial :
  forall c hist ts,
    wf_coreb c = true -> fs_type (st c 0) = FCompound ->
    fentry_set c [] [] hist (fs_completion (st c 0)) ts = entry_set lg_fixed c [] [] hist (fs_completion (st c 0)) ts.
Proof. exact fast_large_entry_set_equiv_initial_lemma. Qed.
Print Assumptions fast_large_entry_set_equiv_initial.

(* (2) one microstep (REMEMBER_HISTORY .. ENTER_STATES) from the same conflict-free selection with active
   sources, none of them a pseudo-state's default transition: related engine states, equal execution state.
   Needs the dynamic done-event condition ms_guardb; does not cover charts with histories *)
Theorem fast_large_microstep_equiv :
  forall xv c lf ll x sel,
    wf_coreb c = true -> leaf_okb c = true -> par_nonemptyb c = true ->
    lstate_eqv c lf ll -> legal_configb c (l_cfg ll) = true -> ascb (l_cfg ll) = true ->
    (forall ti, In ti sel -> In (ft_source (tr c ti)) (l_cfg ll)) -> pairwise_ok lg_fixed c sel ->
    plain_transb c sel = true ->
    ms_guardb c ll (sel_targets c sel) (sel_exitset c (l_cfg ll) sel) sel false = true ->
    lstate_eqv c (fst (fmicrostep xv c lf x (sel_targets c sel) (sel_exitset c (l_cfg ll) sel) sel false))
                 (fst (microstep lg_fixed xv c ll x (sel_targets c sel) (sel_exitset c (l_cfg ll) sel) sel false)) /\
    snd (fmicrostep xv c lf x (sel_targets c sel) (sel_exitset c (l_cfg ll) sel) sel false) =
    snd (microstep lg_fixed xv c ll x (sel_targets c sel) (sel_exitset c (l_cfg ll) sel) sel false).
Proof. exact fast_large_microstep_equiv_lemma. Qed.
Print Assumptions fast_large_microstep_equiv.

(* the initial microstep *)
Theorem fast_large_initial_microstep_equiv :
  forall xv c lf ll x,
    wf_coreb c = true -> leaf_okb c = true -> par_nonemptyb c = true -> fs_type (st c 0) = FCompound ->
    lstate_eqv c lf ll -> l_cfg ll = [] ->
    ms_guardb c ll (fs_completion (st c 0)) [] [] true = true ->
    lstate_eqv c (fst (fmicrostep xv c lf x (fs_completion (st c 0)) [] [] true))
                 (fst (microstep lg_fixed xv c ll x (fs_completion (st c 0)) [] [] true)) /\
    snd (fmicrostep xv c lf x (fs_completion (st c 0)) [] [] true) =
    snd (microstep lg_fixed xv c ll x (fs_completion (st c 0)) [] [] true).
Proof. exact fast_large_initial_microstep_equiv_lemma. Qed.
Print Assumptions fast_large_initial_microstep_equiv.

(* a static condition that makes ms_guardb hold for every microstep: no <final> below a <parallel> *)
Theorem done_guard_holds_without_final_below_parallel :
  forall c l tg X ts ini, final_free_parb c = true -> ms_guardb c l tg X ts ini = true.
Proof. exact ms_guard_static_lemma. Qed.
Print Assumptions done_guard_holds_without_final_below_parallel.

(* (3) SELECT_TRANSITIONS: the same list of selected transitions (in the same order: both end up ascending) and
   the same execution state -- conditions may fail and raise error.execution, so the set and order of evaluated
   conditions is part of the statement.  For every ascending configuration within range (legality not needed) *)
Theorem fast_large_select_equiv :
  forall c cfg ev x,
    wf_coreb c = true -> trans_tableb c = true -> ascb cfg = true -> (forall s, In s cfg -> s < nstates c) ->
    sel_guardb c cfg ev (cfg_postfix c cfg) None [] x = true ->
    fselect c cfg ev (seq 0 (ntrans c)) [] x = select_loop lg_fixed c cfg ev (cfg_postfix c cfg) None [] x.
Proof. exact fast_large_select_equiv_lemma. Qed.
Print Assumptions fast_large_select_equiv.

(* (4) one step(): selection given as a hypothesis ... *)
Theorem fast_large_step_equiv_given_selection :
  forall xv c lf ll x ev,
    wf_coreb c = true -> leaf_okb c = true -> par_nonemptyb c = true ->
    lstate_eqv c lf ll -> legal_configb c (l_cfg ll) = true -> ascb (l_cfg ll) = true ->
    fselect c (l_cfg ll) ev (seq 0 (ntrans c)) [] x = select_loop lg_fixed c (l_cfg ll) ev (cfg_postfix c (l_cfg ll)) None [] x ->
    (let '(sel, x1) := select_loop lg_fixed c (l_cfg ll) ev (cfg_postfix c (l_cfg ll)) None [] x in
     match sel with [] => true | _ => ms_guardb c ll (sel_targets c sel) (sel_exitset c (l_cfg ll) sel) sel false end) = true ->
    res_eqv c (fselect_and_step xv c lf x ev) (select_and_step lg_fixed xv c ll x ev).
Proof. exact fast_large_step_equiv_given_selection_lemma. Qed.
Print Assumptions fast_large_step_equiv_given_selection.

(* ... and in full: every branch of step() (finished, top-level final, initial microstep, event-less selection,
   internal / external dequeue, stable, idle, cancelled) *)
Theorem fast_large_step_equiv :
  forall xv c lf ll x,
    eq_chartb c = true -> lstate_eqv c lf ll -> CfgOK c ll -> ascb (l_cfg ll) = true -> step_guardb c ll x = true ->
    res_eqv c (fast_step xv c lf x) (large_step lg_fixed xv c ll x).
Proof. exact fast_large_step_equiv_lemma. Qed.
Print Assumptions fast_large_step_equiv.

(* (5) whole runs of the driver loop from the pristine state: every event list, every bound on the number of
   steps; the guard is computed along the large engine's run *)
Theorem fast_large_run_equiv :
  forall xv c fuel evs,
    eq_chartb c = true -> eq_guard_run xv c fuel l_pristine x_init evs = true ->
    lstate_eqv c (fst (run_loop c lstate (fast_step xv c) l_cfg fuel l_pristine x_init evs))
                 (fst (run_loop c lstate (large_step lg_fixed xv c) l_cfg fuel l_pristine x_init evs)) /\
    snd (run_loop c lstate (fast_step xv c) l_cfg fuel l_pristine x_init evs) =
    snd (run_loop c lstate (large_step lg_fixed xv c) l_cfg fuel l_pristine x_init evs).
Proof. exact fast_large_run_equiv_lemma. Qed.
Print Assumptions fast_large_run_equiv.

(* the observable behaviour of documents: same trace and same datamodel *)
Theorem fast_large_trace_equiv :
  forall xv late t evs fuel,
    eq_chartb (flatten late t) = true -> eq_guard_run xv (flatten late t) fuel l_pristine x_init evs = true ->
    run_fast xv late t evs fuel = run_large lg_fixed xv late t evs fuel.
Proof. exact fast_large_trace_equiv_lemma. Qed.
Print Assumptions fast_large_trace_equiv.

(* (6) the fast engine's configurations are legal along guarded runs (from (5) and C02's run_always_legal) *)
Theorem fast_run_always_legal_partial :
  forall xv c fuel evs,
    eq_chartb c = true -> eq_guard_run xv c fuel l_pristine x_init evs = true ->
    CfgOK c (fst (run_loop c lstate (fast_step xv c) l_cfg fuel l_pristine x_init evs)).
Proof. exact fast_run_always_legal_partial_lemma. Qed.
Print Assumptions fast_run_always_legal_partial.

(* non-vacuity: a chart with a <parallel>, nested compounds, <final>s in both regions, <data> with late binding,
   conditions (one of them failing), target-less and done.state-triggered transitions satisfies all hypotheses
   for a run that ends in the top-level <final>, and the theorem applies to it *)
Theorem engine_equiv_hypotheses_satisfiable :
  let c := flatten true ee_tree in
  eq_chartb c = true /\ eq_guard_run ex_fixed c 40 l_pristine x_init ee_evs = true /\
  l_fin (fst (run_loop c lstate (large_step lg_fixed ex_fixed c) l_cfg 40 l_pristine x_init ee_evs)) = true /\
  In (TEv (s_done_state ++ state_name 2%N)) (fst (run_large lg_fixed ex_fixed true ee_tree ee_evs 40)) /\
  In (TLog 6%Z) (fst (run_large lg_fixed ex_fixed true ee_tree ee_evs 40)).
Proof. exact ee_tree_guarded. Qed.
Print Assumptions engine_equiv_hypotheses_satisfiable.

(* the selection guard cannot be dropped (known finding C03-K1): s3 (target-less transition on e) below s2 (no
   transitions) below s1 (transition on e): the fast engine selects [0], the large engine [0; 1] *)
Theorem fast_large_select_equiv_without_guard_refuted :
  exists c cfg ev x,
    wf_coreb c = true /\ trans_tableb c = true /\ legal_configb c cfg = true /\ ascb cfg = true /\
    sel_guardb c cfg ev (cfg_postfix c cfg) None [] x = false /\
    fst (fselect c cfg ev (seq 0 (ntrans c)) [] x) = [0] /\
    fst (select_loop lg_fixed c cfg ev (cfg_postfix c cfg) None [] x) = [0; 1].
Proof. exact select_equiv_without_guard_refuted_lemma. Qed.
Print Assumptions fast_large_select_equiv_without_guard_refuted.

(* the first half of the done-event guard cannot be dropped (C03-K4): entering a <parallel> whose two regions
   start in <final>s, the fast engine raises done.state.<parallel> before the second region is entered; same
   configuration, different execution state.  C01's static condition done_okb holds of the witness: no static
   condition short of "no <final> below a <parallel>" helps *)
Theorem fast_large_microstep_equiv_premature_done_refuted :
  exists c l x sel,
    wf_coreb c = true /\ leaf_okb c = true /\ par_nonemptyb c = true /\ done_okb c = true /\
    legal_configb c (l_cfg l) = true /\ ascb (l_cfg l) = true /\
    (forall ti, In ti sel -> In (ft_source (tr c ti)) (l_cfg l)) /\ pairwise_ok lg_fixed c sel /\ plain_transb c sel = true /\
    ms_parts c l (sel_targets c sel) (sel_exitset c (l_cfg l) sel) sel false = (false, true) /\
    l_cfg (fst (fmicrostep ex_fixed c l x (sel_targets c sel) (sel_exitset c (l_cfg l) sel) sel false)) =
    l_cfg (fst (microstep lg_fixed ex_fixed c l x (sel_targets c sel) (sel_exitset c (l_cfg l) sel) sel false)) /\
    snd (fmicrostep ex_fixed c l x (sel_targets c sel) (sel_exitset c (l_cfg l) sel) sel false) <>
    snd (microstep lg_fixed ex_fixed c l x (sel_targets c sel) (sel_exitset c (l_cfg l) sel) sel false).
Proof. exact microstep_equiv_premature_done_refuted_lemma. Qed.
Print Assumptions fast_large_microstep_equiv_premature_done_refuted.

(* the second half cannot be dropped: nested <parallel>s completed by one <final>: the fast engine raises the
   outer done.state first, the large engine the inner one (ms_parts = the two halves of ms_guardb) *)
Theorem fast_large_microstep_equiv_nested_done_order_refuted :
  exists c l x sel,
    wf_coreb c = true /\ leaf_okb c = true /\ par_nonemptyb c = true /\
    legal_configb c (l_cfg l) = true /\ ascb (l_cfg l) = true /\
    (forall ti, In ti sel -> In (ft_source (tr c ti)) (l_cfg l)) /\ pairwise_ok lg_fixed c sel /\ plain_transb c sel = true /\
    ms_parts c l (sel_targets c sel) (sel_exitset c (l_cfg l) sel) sel false = (true, false) /\
    map ev_name (x_iq (snd (fmicrostep ex_fixed c l x (sel_targets c sel) (sel_exitset c (l_cfg l) sel) sel false))) =
      [s_done_state ++ state_name 4%N; s_done_state ++ state_name 1%N; s_done_state ++ state_name 3%N] /\
    map ev_name (x_iq (snd (microstep lg_fixed ex_fixed c l x (sel_targets c sel) (sel_exitset c (l_cfg l) sel) sel false))) =
      [s_done_state ++ state_name 4%N; s_done_state ++ state_name 3%N; s_done_state ++ state_name 1%N].
Proof. exact microstep_equiv_nested_done_order_refuted_lemma. Qed.
Print Assumptions fast_large_microstep_equiv_nested_done_order_refuted.

Theorem ms_guard_is_its_two_halves :
  forall c l tg X ts ini, ms_guardb c l tg X ts ini = fst (ms_parts c l tg X ts ini) && snd (ms_parts c l tg X ts ini).
Proof. exact ms_parts_spec. Qed.
Print Assumptions ms_guard_is_its_two_halves.

(* the three deviations are visible in the traces of whole runs of documents that pass all static conditions *)
Theorem fast_large_run_equiv_without_guard_refuted :
  forall t, In t [k1_tree; k4_tree; nest_tree] ->
    let c := flatten false t in
    eq_chartb c = true /\ eq_guard_run ex_fixed c 12 l_pristine x_init [[101%N]] = false /\
    run_fast ex_fixed false t [[101%N]] 12 <> run_large lg_fixed ex_fixed false t [[101%N]] 12.
Proof. exact run_equiv_without_guard_refuted_lemma. Qed.
Print Assumptions fast_large_run_equiv_without_guard_refuted.

(* par_nonemptyb cannot be dropped: with a child-less <parallel> inside a region the dynamic guard holds and the
   traces differ (the large engine raises done.state for the enclosing <parallel>, the fast engine does not) *)
Theorem fast_large_run_equiv_childless_parallel_refuted :
  exists t evs fuel,
    let c := flatten false t in
    wf_coreb c = true /\ fs_type (st c 0) = FCompound /\ leaf_okb c = true /\ trans_tableb c = true /\ par_nonemptyb c = false /\
    eq_guard_run ex_fixed c fuel l_pristine x_init evs = true /\
    run_fast ex_fixed false t evs fuel <> run_large lg_fixed ex_fixed false t evs fuel.
Proof. exact run_equiv_childless_parallel_refuted_lemma. Qed.
Print Assumptions fast_large_run_equiv_childless_parallel_refuted.

(* literal equality of the engine states is false: _initializedData of the fast engine lists every entered
   state, that of the large engine only states with <data> *)
Theorem fast_large_initialized_data_differs :
  exists c,
    eq_chartb c = true /\ ms_guardb c l_pristine (fs_completion (st c 0)) [] [] true = true /\
    l_initd (fst (fmicrostep ex_fixed c l_pristine x_init (fs_completion (st c 0)) [] [] true)) = [0; 1] /\
    l_initd (fst (microstep lg_fixed ex_fixed c l_pristine x_init (fs_completion (st c 0)) [] [] true)) = [].
Proof. exact microstep_literal_equality_refuted_lemma. Qed.
Print Assumptions fast_large_initialized_data_differs.

(* ---------------------------------------------------------------------------------------------------------
   Engine equivalence BEYOND the history-free core: charts with <initial> elements, deep / multiple initial
   attributes and <history> (wf_histb of LegalHistWf.v; wf_coreb => wf_initb => wf_histb), same two models
   (Fast.v, Large.v with lg_fixed), all event histories, all datamodel states, any number of steps (unbounded;
   by simulation along the loop invariants HInv of LegalHistEntry.v / LegalHistFast.v).
   What changes against the core theorems:
   * the two ESTABLISH_ENTRYSET loops do NOT compute the same state list: the fast engine takes an <initial>
     pseudo-state out of the entry set when it follows its transition, the large engine leaves it in and skips it
     when entering.  Proved: fast entry set = large entry set without its <initial> pseudo-states (no_initial),
     transition sets (with the default transitions of <history> / <initial>) equal; the later phases only use this;
   * REMEMBER_HISTORY: set algebra (fast) = insert/remove fold (large) on ascending history lists, any chart;
   * ENTER_STATES with default transitions: the fast engine runs them in transition-index order filtered by
     "source's parent is the entered state", the large engine in child order / list order.  NO order condition is
     needed: in one microstep at most ONE pseudo-state child of an entered state has its default transition in the
     transition set (two histories of one parent, or a history and the <initial> of one parent, never fire
     together: loop invariant hi_uniq), so the two lists are equal and have length <= 1;
   Side conditions, all computable except the history invariant:
     static   eq_chartb_hist c = wf_histb && root is a compound && ascb (completion of the root) && leaf_okb &&
              par_nonemptyb && trans_tableb  (trans_tableb is now also needed by the microstep theorem: a
              pseudo-state must not list its default transition twice);
     dynamic  eq_guard_run_hist / step_guardb_hist along the LARGE engine's run: sel_guardb unchanged,
              ms_guardb_hist = the done-event guard of the core evaluated on the PROPER states entered
              (equal to ms_guardb on core charts: ms_guardb_hist_on_core);
     HistOK (LegalHistEntry.v: the recorded part of every history is empty or a fragment of proper states below
              the history's parent) and ascending lists: invariants of every run from the pristine state, so the
              run / trace theorems do not mention them.
   Not covered: invocations, delayed sends; charts outside wf_histb (a history above a state that owns a history,
   C02-K1; a transition that targets two pseudo-states of one parent); that trans_tableb / eq_chartb_hist hold for
   every chart built by Chart.flatten is not proved (booleans the check evaluates per chart).
   --------------------------------------------------------------------------------------------------------- *)

(* (H1) ESTABLISH_ENTRYSET after a selection: for every chart of wf_histb, every legal configuration, every
   conflict-free list of transitions with active sources, every history value satisfying HistOK, every ascending
   initial transition set: fast entry set = large entry set without <initial> pseudo-states, same transition set.
   pairwise_ok is needed by the proof (loop invariant); no counterexample without it is known *)
Theorem fast_large_entry_set_equiv_hist :
  forall c cfg sel hist ts,
    wf_histb c = true -> legal_configb c cfg = true ->
    (forall ti, In ti sel -> In (ft_source (tr c ti)) cfg) -> pairwise_ok lg_fixed c sel ->
    HistOK c hist -> ascb ts = true ->
    fentry_set c cfg (sel_exitset c cfg sel) hist (sel_targets c sel) ts =
    (no_initial c (fst (entry_set lg_fixed c cfg (sel_exitset c cfg sel) hist (sel_targets c sel) ts)),
     snd (entry_set lg_fixed c cfg (sel_exitset c cfg sel) hist (sel_targets c sel) ts)).
Proof. exact fast_large_entry_set_equiv_hist_lemma. Qed.
Print Assumptions fast_large_entry_set_equiv_hist.

(* ... for the initial step *)
Theorem fast_large_entry_set_equiv_hist_initial :
  forall c hist,
    wf_histb c = true -> fs_type (st c 0) = FCompound -> ascb (fs_completion (st c 0)) = true -> HistOK c hist ->
    fentry_set c [] [] hist (fs_completion (st c 0)) [] =
    (no_initial c (fst (entry_set lg_fixed c [] [] hist (fs_completion (st c 0)) [])),
     snd (entry_set lg_fixed c [] [] hist (fs_completion (st c 0)) [])).
Proof. exact fast_large_entry_set_equiv_hist_initial_lemma. Qed.
Print Assumptions fast_large_entry_set_equiv_hist_initial.

(* ... literal equality of both components when the large entry set holds no <initial> pseudo-state *)
Theorem fast_large_entry_set_equiv_hist_literal :
  forall c cfg sel hist ts,
    wf_histb c = true -> legal_configb c cfg = true ->
    (forall ti, In ti sel -> In (ft_source (tr c ti)) cfg) -> pairwise_ok lg_fixed c sel ->
    HistOK c hist -> ascb ts = true ->
    forallb (fun i => negb (is_initialb c i)) (fst (entry_set lg_fixed c cfg (sel_exitset c cfg sel) hist (sel_targets c sel) ts)) = true ->
    fentry_set c cfg (sel_exitset c cfg sel) hist (sel_targets c sel) ts =
    entry_set lg_fixed c cfg (sel_exitset c cfg sel) hist (sel_targets c sel) ts.
Proof. exact fast_large_entry_set_equiv_hist_literal_lemma. Qed.
Print Assumptions fast_large_entry_set_equiv_hist_literal.

(* ... and literal equality fails with an <initial> element: <scxml> s1 { <initial> -> s2, s2 }, initial step:
   fast [0;1;3], large [0;1;2;3] (index 2 is the <initial> pseudo-state) *)
Theorem fast_large_entry_set_literal_equality_refuted :
  exists c hist,
    wf_initb c = true /\ fs_type (st c 0) = FCompound /\ ascb (fs_completion (st c 0)) = true /\ hist = [] /\
    fst (fentry_set c [] [] hist (fs_completion (st c 0)) []) = [0; 1; 3] /\
    fst (entry_set lg_fixed c [] [] hist (fs_completion (st c 0)) []) = [0; 1; 2; 3] /\
    is_initialb c 2 = true.
Proof. exact entry_set_literal_equality_hist_refuted_lemma. Qed.
Print Assumptions fast_large_entry_set_literal_equality_refuted.

(* (H2) REMEMBER_HISTORY: any chart, configuration, exit set; ascending history list *)
Theorem fast_large_remember_equiv :
  forall c cfg exitset hist,
    ascb hist = true -> fremember c cfg exitset hist = remember_history c cfg exitset hist.
Proof. exact fast_large_remember_equiv_lemma. Qed.
Print Assumptions fast_large_remember_equiv.

(* (H3) the default transitions executed when state i is entered, in execution order: fast (transition-index
   order, source's parent = i) = large (child order, transition-list order, member of the transition set); at
   most one.  ts is the transition set after ESTABLISH_ENTRYSET from a selection of plain transitions *)
Theorem fast_large_default_transitions_equiv :
  forall c cfg sel hist i,
    wf_histb c = true -> trans_tableb c = true -> legal_configb c cfg = true ->
    (forall ti, In ti sel -> In (ft_source (tr c ti)) cfg) -> pairwise_ok lg_fixed c sel ->
    HistOK c hist -> ascb sel = true -> plain_transb c sel = true ->
    let ts := snd (entry_set lg_fixed c cfg (sel_exitset c cfg sel) hist (sel_targets c sel) sel) in
    dflt_fast c ts i = dflt_large c ts i /\ length (dflt_fast c ts i) <= 1.
Proof. exact fast_large_default_transitions_equiv_lemma. Qed.
Print Assumptions fast_large_default_transitions_equiv.

(* (H4) one microstep (REMEMBER_HISTORY .. ENTER_STATES) from the same conflict-free ascending selection of plain
   transitions with active sources: related engine states (lstate_eqv), equal execution state *)
Theorem fast_large_microstep_equiv_hist :
  forall xv c lf ll x sel,
    wf_histb c = true -> leaf_okb c = true -> par_nonemptyb c = true -> trans_tableb c = true ->
    lstate_eqv c lf ll -> legal_configb c (l_cfg ll) = true -> HistOK c (l_hist ll) ->
    ascb (l_cfg ll) = true -> ascb (l_hist ll) = true ->
    (forall ti, In ti sel -> In (ft_source (tr c ti)) (l_cfg ll)) -> pairwise_ok lg_fixed c sel -> ascb sel = true ->
    plain_transb c sel = true ->
    ms_guardb_hist c ll (sel_targets c sel) (sel_exitset c (l_cfg ll) sel) sel false = true ->
    lstate_eqv c (fst (fmicrostep xv c lf x (sel_targets c sel) (sel_exitset c (l_cfg ll) sel) sel false))
                 (fst (microstep lg_fixed xv c ll x (sel_targets c sel) (sel_exitset c (l_cfg ll) sel) sel false)) /\
    snd (fmicrostep xv c lf x (sel_targets c sel) (sel_exitset c (l_cfg ll) sel) sel false) =
    snd (microstep lg_fixed xv c ll x (sel_targets c sel) (sel_exitset c (l_cfg ll) sel) sel false).
Proof. exact fast_large_microstep_equiv_hist_lemma. Qed.
Print Assumptions fast_large_microstep_equiv_hist.

(* the initial microstep *)
Theorem fast_large_initial_microstep_equiv_hist :
  forall xv c lf ll x,
    eq_chartb_hist c = true -> lstate_eqv c lf ll -> l_cfg ll = [] -> HistOK c (l_hist ll) -> ascb (l_hist ll) = true ->
    ms_guardb_hist c ll (fs_completion (st c 0)) [] [] true = true ->
    lstate_eqv c (fst (fmicrostep xv c lf x (fs_completion (st c 0)) [] [] true))
                 (fst (microstep lg_fixed xv c ll x (fs_completion (st c 0)) [] [] true)) /\
    snd (fmicrostep xv c lf x (fs_completion (st c 0)) [] [] true) =
    snd (microstep lg_fixed xv c ll x (fs_completion (st c 0)) [] [] true).
Proof. exact fast_large_initial_microstep_equiv_hist_lemma. Qed.
Print Assumptions fast_large_initial_microstep_equiv_hist.

(* trans_tableb cannot be dropped from (H4): a hand-made flat chart (not built by flatten) whose shallow history
   lists its default transition twice; entering the history's parent the large engine executes the content of the
   default transition twice, the fast engine once *)
Theorem fast_large_microstep_equiv_hist_without_table_refuted :
  exists c l x sel,
    wf_histb c = true /\ leaf_okb c = true /\ par_nonemptyb c = true /\ trans_tableb c = false /\
    legal_configb c (l_cfg l) = true /\ l_hist l = [] /\ ascb (l_cfg l) = true /\
    (forall ti, In ti sel -> In (ft_source (tr c ti)) (l_cfg l)) /\ pairwise_ok lg_fixed c sel /\ ascb sel = true /\
    plain_transb c sel = true /\
    ms_guardb_hist c l (sel_targets c sel) (sel_exitset c (l_cfg l) sel) sel false = true /\
    filter_map (fun t => match t with TLog z => Some z | _ => None end)
      (x_out (snd (fmicrostep ex_fixed c l x (sel_targets c sel) (sel_exitset c (l_cfg l) sel) sel false))) = [2%Z] /\
    filter_map (fun t => match t with TLog z => Some z | _ => None end)
      (x_out (snd (microstep lg_fixed ex_fixed c l x (sel_targets c sel) (sel_exitset c (l_cfg l) sel) sel false))) = [2%Z; 2%Z].
Proof. exact microstep_equiv_hist_without_table_refuted_lemma. Qed.
Print Assumptions fast_large_microstep_equiv_hist_without_table_refuted.

(* (H5) SELECT_TRANSITIONS on charts of wf_histb (same guard as on the core) *)
Theorem fast_large_select_equiv_hist :
  forall c cfg ev x,
    wf_histb c = true -> trans_tableb c = true -> ascb cfg = true -> (forall s, In s cfg -> s < nstates c) ->
    sel_guardb c cfg ev (cfg_postfix c cfg) None [] x = true ->
    fselect c cfg ev (seq 0 (ntrans c)) [] x = select_loop lg_fixed c cfg ev (cfg_postfix c cfg) None [] x.
Proof. exact fast_large_select_equiv_hist_lemma. Qed.
Print Assumptions fast_large_select_equiv_hist.

(* (H6) one step(): related engine states, equal execution state and return code.  CfgOKH (LegalHistRun.v):
   pristine with a usable history record, or initialised with a legal configuration of proper states and HistOK *)
Theorem fast_large_step_equiv_hist :
  forall xv c lf ll x,
    eq_chartb_hist c = true -> lstate_eqv c lf ll -> CfgOKH c ll -> ascb (l_cfg ll) = true -> ascb (l_hist ll) = true ->
    step_guardb_hist c ll x = true ->
    res_eqv c (fast_step xv c lf x) (large_step lg_fixed xv c ll x).
Proof. exact fast_large_step_equiv_hist_lemma. Qed.
Print Assumptions fast_large_step_equiv_hist.

(* (H7) whole runs of the driver loop from the pristine state, any fuel, any external events *)
Theorem fast_large_run_equiv_hist :
  forall xv c fuel evs,
    eq_chartb_hist c = true -> eq_guard_run_hist xv c fuel l_pristine x_init evs = true ->
    lstate_eqv c (fst (run_loop c lstate (fast_step xv c) l_cfg fuel l_pristine x_init evs))
                 (fst (run_loop c lstate (large_step lg_fixed xv c) l_cfg fuel l_pristine x_init evs)) /\
    snd (run_loop c lstate (fast_step xv c) l_cfg fuel l_pristine x_init evs) =
    snd (run_loop c lstate (large_step lg_fixed xv c) l_cfg fuel l_pristine x_init evs).
Proof. exact fast_large_run_equiv_hist_lemma. Qed.
Print Assumptions fast_large_run_equiv_hist.

(* the observable behaviour (trace and datamodel) of documents *)
Theorem fast_large_trace_equiv_hist :
  forall xv late t evs fuel,
    eq_chartb_hist (flatten late t) = true -> eq_guard_run_hist xv (flatten late t) fuel l_pristine x_init evs = true ->
    run_fast xv late t evs fuel = run_large lg_fixed xv late t evs fuel.
Proof. exact fast_large_trace_equiv_hist_lemma. Qed.
Print Assumptions fast_large_trace_equiv_hist.

(* the same for documents with <initial> elements / deep initial attributes and no history (wf_initb) *)
Theorem fast_large_trace_equiv_initial :
  forall xv late t evs fuel,
    let c := flatten late t in
    wf_initb c = true -> fs_type (st c 0) = FCompound -> ascb (fs_completion (st c 0)) = true ->
    leaf_okb c = true -> par_nonemptyb c = true -> trans_tableb c = true ->
    eq_guard_run_hist xv c fuel l_pristine x_init evs = true ->
    run_fast xv late t evs fuel = run_large lg_fixed xv late t evs fuel.
Proof. exact fast_large_trace_equiv_initial_lemma. Qed.
Print Assumptions fast_large_trace_equiv_initial.

(* the dynamic guard cannot be dropped: the three core witnesses (C03-K1, C03-K4 twice) are charts of
   eq_chartb_hist, and C03-K4 also shows through a history: <parallel> s2 whose regions reached their <final>s one
   after the other is left and restored through a deep history (events e2 e3 e e): s5 and s8 are entered in one
   microstep, the fast engine raises done.state.s2 when s5 is entered and again after s8 (3 in the run), the large
   engine once (2 in the run) *)
Theorem fast_large_run_equiv_hist_without_guard_refuted :
  (forall t, In t [k1_tree; k4_tree; nest_tree] ->
     let c := flatten false t in
     eq_chartb_hist c = true /\ eq_guard_run_hist ex_fixed c 12 l_pristine x_init [[101%N]] = false /\
     run_fast ex_fixed false t [[101%N]] 12 <> run_large lg_fixed ex_fixed false t [[101%N]] 12) /\
  (let c := flatten false eh_k4h_tree in
   let evs := [[102%N]; [103%N]; [101%N]; [101%N]] in
   eq_chartb_hist c = true /\ wf_coreb c = false /\
   eq_guard_run_hist ex_fixed c 40 l_pristine x_init [[102%N]; [103%N]; [101%N]] = true /\
   eq_guard_run_hist ex_fixed c 40 l_pristine x_init evs = false /\
   length (filter (eh_is_ev (s_done_state ++ state_name 2%N)) (fst (run_fast ex_fixed false eh_k4h_tree evs 40))) = 3 /\
   length (filter (eh_is_ev (s_done_state ++ state_name 2%N)) (fst (run_large lg_fixed ex_fixed false eh_k4h_tree evs 40))) = 2).
Proof. exact run_equiv_hist_without_guard_refuted_lemma. Qed.
Print Assumptions fast_large_run_equiv_hist_without_guard_refuted.

(* relations to the core theorems and helpers for the check *)
Theorem eq_chartb_core_charts_inside : forall c, eq_chartb c = true -> wf_histb c = true -> eq_chartb_hist c = true.
Proof. exact eq_chartb_core_hist. Qed.
Print Assumptions eq_chartb_core_charts_inside.

Theorem ms_guardb_hist_on_core :
  forall c l tg X ts ini, wf_coreb c = true -> ms_guardb_hist c l tg X ts ini = ms_guardb c l tg X ts ini.
Proof. exact ms_guardb_hist_core_lemma. Qed.
Print Assumptions ms_guardb_hist_on_core.

Theorem done_guard_hist_holds_without_final_below_parallel :
  forall c l tg X ts ini, final_free_parb c = true -> ms_guardb_hist c l tg X ts ini = true.
Proof. exact ms_guard_hist_static_lemma. Qed.
Print Assumptions done_guard_hist_holds_without_final_below_parallel.

Theorem eq_guard_run_hist_prefix :
  forall xv c fuel l x evs, eq_guard_run_hist xv c (S fuel) l x evs = true -> eq_guard_run_hist xv c fuel l x evs = true.
Proof. exact eq_guard_run_hist_mono. Qed.
Print Assumptions eq_guard_run_hist_prefix.

(* non-vacuity: eh_tree (EngineEquivHistWitness.v): a deep and a shallow history with executable content in their
   default transitions, two <initial> elements with content, a <parallel>, <data>; 9 events that run both history
   defaults, leave and re-enter through both histories (restoring a configuration inside the <parallel>) and enter
   s1 and s2 through their <initial> elements in one microstep: inside all hypotheses, outside wf_initb / wf_coreb *)
Theorem engine_equiv_hist_hypotheses_satisfiable :
  let c := flatten false eh_tree in
  eq_chartb_hist c = true /\ wf_initb c = false /\ wf_coreb c = false /\
  eq_guard_run_hist ex_fixed c 80 l_pristine x_init eh_evs = true /\
  filter_map (fun t => match t with TLog z => Some z | _ => None end) (fst (run_large lg_fixed ex_fixed false eh_tree eh_evs 80)) =
    [4; 2; 0; 3; 1; 4; 6; 1; 6]%Z /\
  In (TCfg [0; 1; 2; 4; 5; 7; 8; 9]%N) (fst (run_large lg_fixed ex_fixed false eh_tree eh_evs 80)) /\
  l_cfg (fst (run_loop c lstate (large_step lg_fixed ex_fixed c) l_cfg 80 l_pristine x_init eh_evs)) = [0; 1; 4; 7] /\
  l_hist (fst (run_loop c lstate (large_step lg_fixed ex_fixed c) l_cfg 80 l_pristine x_init eh_evs)) = [4; 7].
Proof. exact eh_tree_guarded. Qed.
Print Assumptions engine_equiv_hist_hypotheses_satisfiable.

Theorem engine_equiv_hist_example_engines_agree :
  run_fast ex_fixed false eh_tree eh_evs 80 = run_large lg_fixed ex_fixed false eh_tree eh_evs 80.
Proof. exact eh_tree_engines_agree. Qed.
Print Assumptions engine_equiv_hist_example_engines_agree.

Theorem engine_equiv_hist_oracle_documents_guarded :
  eq_chartb_hist (flatten false hini_tree) = true /\
  eq_guard_run_hist ex_fixed (flatten false hini_tree) 16 l_pristine x_init [[102%N]] = true /\
  eq_chartb_hist (flatten false hh_tree) = true /\
  eq_guard_run_hist ex_fixed (flatten false hh_tree) 24 l_pristine x_init [[102%N]; [101%N]; [102%N]; [101%N]] = true /\
  eq_chartb_hist (flatten false h2_tree) = true /\
  eq_guard_run_hist ex_fixed (flatten false h2_tree) 24 l_pristine x_init [[102%N]; [101%N]; [103%N]] = true.
Proof. exact eh_oracle_trees_guarded. Qed.
Print Assumptions engine_equiv_hist_oracle_documents_guarded.

(* ===================== work package `tt`: the static hypotheses hold for the charts flatten builds ===================== *)
From V Require Import FlattenWf FlattenWfRun LegalHistFastRun ValidateBridge ValidateBridgeRun.
From V Require Import FlattenStaticTrans FlattenStaticTree FlattenStaticHist FlattenStaticMain FlattenStaticWitness.

(* WHAT: for EVERY document tree t (any element kinds, any numbers, any nesting, well-formed or not) and both
   bindings, the transition tables Chart.flatten (LargeMicroStep::init) builds satisfy trans_tableb: the transition
   list of a state is the ascending list of the transitions it is the source of, and the transitions are numbered
   in post-fix order of their source elements.  No side condition.  This discharges the per-chart boolean
   hypothesis trans_tableb of fast_large_select_equiv(_hist), fast_large_default_transitions_equiv,
   fast_large_microstep_equiv_hist, eq_chartb, eq_chartb_hist for every chart built from a document
   (hand-made flat charts can violate it: fast_large_microstep_equiv_hist_without_table_refuted). *)
Theorem flatten_trans_table : forall late t, trans_tableb (flatten late t) = true.
Proof. exact FlattenStaticTrans.flatten_trans_table. Qed.
Print Assumptions flatten_trans_table.

(* WHAT: hist_treeb (FlattenStaticTree.v) is a boolean well-formedness predicate on the DOCUMENT, for documents with
   <initial> elements, deep / multiple `initial` attributes and shallow / deep <history>:
     ht_rootb           the root is <scxml> and has a child element;
     ht_nestb           nesting: <state>/<parallel> below <scxml>/<state>/<parallel>, <final> below <scxml>/<state>,
                        <history>/<initial> below <state> only, nothing below <final>/<history>/<initial>;
     ct_uniqueb         element numbers pairwise different;
     ht_targetsb        a target attribute lists >= 1 ids of elements (not the root, not an <initial>), no two of
                        them in different children of a <state>/<scxml>;
     ht_initattrb       the same for `initial` attributes, the ids being ids of descendants;
     ht_initialb        <initial> has exactly one transition, without cond/event, to proper states below the parent;
     ht_historyb        <history> has exactly one transition, without cond/event, to proper states below the parent
                        (deep) / proper children of the parent (shallow);
     vb_hist_disjointb  no state below the parent of a deep <history> owns a <history> (C02-K1).
   For every such document and both bindings the flat tables pass wf_histb and the root is a compound state: the
   documents are inside the reach of the history theorems of C02 and C03.  No validator is involved (compare
   validated_documents_are_covered, which needs the validator's verdict and vb_hidden_freshb).
   NOT NEEDED by wf_histb but part of the predicate (inherited from ValidateBridge.VTree, on which the proof builds):
   "no cond/event on the transition of a pseudo-state", "a target attribute of a PROPER state's transition is
   non-empty and names existing elements", "<final> not below <parallel>"; no witness exists for these sub-clauses. *)
Theorem flatten_wf_hist : forall late t, hist_treeb t = true ->
  wf_histb (flatten late t) = true /\ fs_type (st (flatten late t) 0) = FCompound.
Proof. exact flatten_wf_hist_lemma. Qed.
Print Assumptions flatten_wf_hist.

(* WHAT: no clause of hist_treeb can be dropped: for each of the 8 clauses a document that fails only that clause
   and whose tables fail wf_histb or have no compound root (tables_bad).  The documents: <scxml/> (root); a
   <history> below <parallel> (nest); a state carrying the root's number that is a transition target (unique); a
   transition to two children of <scxml> (targets); initial="s1 s2" naming two children (initattr); an <initial>
   whose transition names a <history> (initial); a <history> whose default transition names itself (history);
   C02-K1 (disjoint).  Finite computations. *)
Theorem hist_tree_clauses_needed :
  forall k, (k < 8)%nat -> exists t,
    (forall j, (j < 8)%nat -> nth j (ht_clauses t) true = negb (j =? k)%nat) /\ tables_bad t = true.
Proof. exact hist_tree_clauses_needed_refuted. Qed.
Print Assumptions hist_tree_clauses_needed.

(* ... and where an illegal run exists both engine models reach an illegal configuration: root, targets, initattr,
   history, disjoint (for nest, unique, initial no illegal run is known: the documents are outside wf_histb only) *)
Theorem hist_tree_clauses_needed_runs :
  run_illegal w_stateless [] = true /\ run_illegal w_two_children [[101%N]] = true /\ run_illegal w_initattr_two [] = true /\
  run_illegal w_hist_self [[101%N]] = true /\ run_illegal kho_tree [[101%N]] = true.
Proof. exact hist_tree_clauses_needed_runs_refuted. Qed.
Print Assumptions hist_tree_clauses_needed_runs.

(* WHAT: the remaining static hypotheses, for ANY document: leaf_okb from ct_leafb (a <final> has no child, a
   <state>/<scxml> with children has a proper child state), par_nonemptyb from ct_par_nonemptyb; and hist_treeb
   implies ct_leafb. *)
Theorem flatten_leaf_ok : forall late t, ct_leafb t = true -> leaf_okb (flatten late t) = true.
Proof. exact leaf_ok_flatten. Qed.
Print Assumptions flatten_leaf_ok.
Theorem flatten_par_nonempty : forall late t, ct_par_nonemptyb t = true -> par_nonemptyb (flatten late t) = true.
Proof. exact par_nonempty_flatten. Qed.
Print Assumptions flatten_par_nonempty.
Theorem hist_tree_has_proper_leaves : forall t, hist_treeb t = true -> ct_leafb t = true.
Proof. exact hist_tree_leaf. Qed.
Print Assumptions hist_tree_has_proper_leaves.

(* WHAT: ALL static hypotheses of the engine-equivalence theorems from document-level predicates:
   eq_tree_histb t = hist_treeb t && every <parallel> has a child   gives eq_chartb_hist (flatten late t);
   eq_tree_coreb t = core_treeb t && every <parallel> has a child && ct_leafb t   gives eq_chartb (flatten late t). *)
Theorem document_static_hypotheses_hist : forall late t, eq_tree_histb t = true -> eq_chartb_hist (flatten late t) = true.
Proof. exact eq_tree_hist_chart. Qed.
Print Assumptions document_static_hypotheses_hist.
Theorem document_static_hypotheses_core : forall late t, eq_tree_coreb t = true -> eq_chartb (flatten late t) = true.
Proof. exact eq_tree_core_chart. Qed.
Print Assumptions document_static_hypotheses_core.

(* WHAT: fast_large_trace_equiv_hist at document level.  For EVERY document of eq_tree_histb (with <initial>, deep
   initial attributes, histories, parallels), both bindings, both variants of the executable-content model, every
   list of external events and every number of steps: if the dynamic guard eq_guard_run_hist holds along the LARGE
   engine's run, FastMicroStep and LargeMicroStep produce the same trace and datamodel.  The only hypothesis on
   the flat chart left is the dynamic guard (needed: fast_large_run_equiv_hist_without_guard_refuted).
   NOT COVERED: invocations, delayed sends; documents outside eq_tree_histb. *)
Theorem document_fast_large_run_equiv :
  forall xv late t evs fuel,
    eq_tree_histb t = true -> eq_guard_run_hist xv (flatten late t) fuel l_pristine x_init evs = true ->
    run_fast xv late t evs fuel = run_large lg_fixed xv late t evs fuel.
Proof. exact document_fast_large_run_equiv_lemma. Qed.
Print Assumptions document_fast_large_run_equiv.

(* ... related engine states and equal execution states *)
Theorem document_fast_large_states_equiv :
  forall xv late t evs fuel,
    let c := flatten late t in
    eq_tree_histb t = true -> eq_guard_run_hist xv c fuel l_pristine x_init evs = true ->
    lstate_eqv c (fst (run_loop c lstate (fast_step xv c) l_cfg fuel l_pristine x_init evs))
                 (fst (run_loop c lstate (large_step lg_fixed xv c) l_cfg fuel l_pristine x_init evs)) /\
    snd (run_loop c lstate (fast_step xv c) l_cfg fuel l_pristine x_init evs) =
    snd (run_loop c lstate (large_step lg_fixed xv c) l_cfg fuel l_pristine x_init evs).
Proof. exact document_fast_large_states_equiv_lemma. Qed.
Print Assumptions document_fast_large_states_equiv.

(* ... the history-free core (fast_large_trace_equiv at document level) *)
Theorem document_fast_large_run_equiv_core :
  forall xv late t evs fuel,
    eq_tree_coreb t = true -> eq_guard_run xv (flatten late t) fuel l_pristine x_init evs = true ->
    run_fast xv late t evs fuel = run_large lg_fixed xv late t evs fuel.
Proof. exact document_fast_large_run_equiv_core_lemma. Qed.
Print Assumptions document_fast_large_run_equiv_core.

(* ... SELECT_TRANSITIONS alone needs hist_treeb only *)
Theorem document_fast_large_select_equiv :
  forall late t cfg ev x,
    let c := flatten late t in
    hist_treeb t = true -> ascb cfg = true -> (forall s, In s cfg -> s < nstates c) ->
    sel_guardb c cfg ev (cfg_postfix c cfg) None [] x = true ->
    fselect c cfg ev (seq 0 (ntrans c)) [] x = select_loop lg_fixed c cfg ev (cfg_postfix c cfg) None [] x.
Proof. exact document_fast_large_select_equiv_lemma. Qed.
Print Assumptions document_fast_large_select_equiv.

(* every <parallel> has a child cannot be dropped from eq_tree_histb: cp_tree (a child-less <parallel> inside a
   region) is inside hist_treeb, the dynamic guard holds and the traces differ *)
Theorem document_fast_large_run_equiv_childless_parallel_refuted :
  hist_treeb cp_tree = true /\ ct_par_nonemptyb cp_tree = false /\
  eq_guard_run_hist ex_fixed (flatten false cp_tree) 12 l_pristine x_init [[101%N]] = true /\
  run_fast ex_fixed false cp_tree [[101%N]] 12 <> run_large lg_fixed ex_fixed false cp_tree [[101%N]] 12.
Proof. exact par_nonempty_clause_needed_refuted. Qed.
Print Assumptions document_fast_large_run_equiv_childless_parallel_refuted.

(* non-vacuity: fs_doc_tree (a compound with <initial>, a shallow history, a compound child with a two-state
   initial attribute into a <parallel> with two regions and a deep history, transitions into both histories, a
   top-level <final>) satisfies eq_tree_histb; on e2 e4 e1 e6 e1 e5 the dynamic guard holds, the deep history
   restores s62 inside the parallel, the shallow history restores s4, and both engines end in the same
   configuration.  The example documents of C02/C03 are inside as well. *)
Theorem document_hypotheses_satisfiable_hist :
  eq_tree_histb fs_doc_tree = true /\
  eq_guard_run_hist ex_fixed (flatten false fs_doc_tree) 40 l_pristine x_init fs_doc_events = true /\
  map (fun i => fs_sid (st (flatten false fs_doc_tree) i)) (final_cfg_large fs_doc_tree [[102]; [104]; [101]; [106]]%N 40) = [0; 1; 4; 5; 6; 62; 7; 71]%N /\
  map (fun i => fs_sid (st (flatten false fs_doc_tree) i)) (final_cfg_large fs_doc_tree fs_doc_events 40) = [0; 1; 4; 5; 6; 61; 7; 71]%N /\
  final_cfg_fast fs_doc_tree fs_doc_events 40 = final_cfg_large fs_doc_tree fs_doc_events 40.
Proof. exact document_hypotheses_hold. Qed.
Print Assumptions document_hypotheses_satisfiable_hist.
Theorem document_hypotheses_satisfiable_examples :
  forallb eq_tree_histb [hini_tree; hh_tree; h2_tree; fd_tree; ex_tree; ex_tree2; k1_tree; k4_tree; nest_tree; eh_k4h_tree] = true /\
  forallb eq_tree_coreb [ex_tree; ex_tree2; k1_tree; k4_tree; nest_tree] = true.
Proof. exact document_hypotheses_hold_on_examples. Qed.
Print Assumptions document_hypotheses_satisfiable_examples.

From V Require Import LegalHistParBase LegalHistParWf LegalHistParOracle
     EngineEquivHistParRun EngineEquivHistParMain EngineEquivHistParWitness.


(* ---------------------------------------------------------------------------------------------------------
   Engine equivalence for documents with a <history> DIRECTLY BELOW A <parallel> (wf_histpb of LegalHistParWf.v;
   wf_coreb => wf_initb => wf_histb => wf_histpb), same two models, all event histories, all datamodel states, any
   number of steps (unbounded; the proofs of the wf_histb theorems re-done over the record WFHP and the loop
   invariant HInvP of LegalHistParEntry.v / LegalHistParFast.v).
   What is new against the wf_histb theorems (H1)-(H7):
   * a history child of a <parallel> is never active: the legality used is the one over PROPER states (LegalH /
     CfgOKH); Large.in_final counts a history child of a <parallel> as final (it does not block done.state),
     Fast.fpar_done never sees it: the done-event comparison is re-proved over the tree of proper states;
   * "at most one pseudo-state child of an entered state has its default transition in the transition set" also
     holds when the entered state is a <parallel> (invariant hip_parh2), so the default transitions executed when
     a state is entered are the same list (length <= 1) in both engines;
   * static condition eq_chartb_histp c = wf_histpb && root is a compound && ascb (completion of the root) &&
     leaf_okb && par_nonemptyb && trans_tableb;
   * the dynamic guard is UNCHANGED: eq_guard_run_hist / step_guardb_hist / ms_guardb_hist / sel_guardb (they never
     looked at pseudo-states), so the check keeps evaluating the same extracted function;
   * no new side condition.
   Not covered: as before (invocations, delayed sends, charts outside wf_histpb: a transition that names a history
   of a <parallel> AND a state below one of its regions, C02 history_of_parallel_target_set_needed; C02-K1).
   --------------------------------------------------------------------------------------------------------- *)

(* (P0) every chart of the wf_histb theorems is a chart of the new ones *)
Theorem eq_chartb_hist_charts_inside_histp : forall c, eq_chartb_hist c = true -> eq_chartb_histp c = true.
Proof. exact eq_chartb_hist_histp. Qed.
Print Assumptions eq_chartb_hist_charts_inside_histp.

(* (P1) ESTABLISH_ENTRYSET after a selection, charts of wf_histpb: fast entry set = large entry set without its
   <initial> pseudo-states, same transition set (hypotheses as in fast_large_entry_set_equiv_hist) *)
Theorem fast_large_entry_set_equiv_histp :
  forall c cfg sel hist ts,
    wf_histpb c = true -> legal_configb c cfg = true ->
    (forall ti, In ti sel -> In (ft_source (tr c ti)) cfg) -> pairwise_ok lg_fixed c sel ->
    HistOK c hist -> ascb ts = true ->
    fentry_set c cfg (sel_exitset c cfg sel) hist (sel_targets c sel) ts =
    (no_initial c (fst (entry_set lg_fixed c cfg (sel_exitset c cfg sel) hist (sel_targets c sel) ts)),
     snd (entry_set lg_fixed c cfg (sel_exitset c cfg sel) hist (sel_targets c sel) ts)).
Proof. exact fast_large_entry_set_equiv_histp_lemma. Qed.
Print Assumptions fast_large_entry_set_equiv_histp.

Theorem fast_large_entry_set_equiv_histp_initial :
  forall c hist,
    wf_histpb c = true -> fs_type (st c 0) = FCompound -> ascb (fs_completion (st c 0)) = true -> HistOK c hist ->
    fentry_set c [] [] hist (fs_completion (st c 0)) [] =
    (no_initial c (fst (entry_set lg_fixed c [] [] hist (fs_completion (st c 0)) [])),
     snd (entry_set lg_fixed c [] [] hist (fs_completion (st c 0)) [])).
Proof. exact fast_large_entry_set_equiv_histp_initial_lemma. Qed.
Print Assumptions fast_large_entry_set_equiv_histp_initial.

Theorem fast_large_entry_set_equiv_histp_literal :
  forall c cfg sel hist ts,
    wf_histpb c = true -> legal_configb c cfg = true ->
    (forall ti, In ti sel -> In (ft_source (tr c ti)) cfg) -> pairwise_ok lg_fixed c sel ->
    HistOK c hist -> ascb ts = true ->
    forallb (fun i => negb (is_initialb c i)) (fst (entry_set lg_fixed c cfg (sel_exitset c cfg sel) hist (sel_targets c sel) ts)) = true ->
    fentry_set c cfg (sel_exitset c cfg sel) hist (sel_targets c sel) ts =
    entry_set lg_fixed c cfg (sel_exitset c cfg sel) hist (sel_targets c sel) ts.
Proof. exact fast_large_entry_set_equiv_histp_literal_lemma. Qed.
Print Assumptions fast_large_entry_set_equiv_histp_literal.

(* (P3) the default transitions executed when state i (compound OR parallel) is entered: same list, at most one *)
Theorem fast_large_default_transitions_equiv_histp :
  forall c cfg sel hist i,
    wf_histpb c = true -> trans_tableb c = true -> legal_configb c cfg = true ->
    (forall ti, In ti sel -> In (ft_source (tr c ti)) cfg) -> pairwise_ok lg_fixed c sel ->
    HistOK c hist -> ascb sel = true -> plain_transb c sel = true ->
    let ts := snd (entry_set lg_fixed c cfg (sel_exitset c cfg sel) hist (sel_targets c sel) sel) in
    dflt_fast c ts i = dflt_large c ts i /\ length (dflt_fast c ts i) <= 1.
Proof. exact fast_large_default_transitions_equiv_histp_lemma. Qed.
Print Assumptions fast_large_default_transitions_equiv_histp.

(* (P4) one microstep from the same selection *)
Theorem fast_large_microstep_equiv_histp :
  forall xv c lf ll x sel,
    wf_histpb c = true -> leaf_okb c = true -> par_nonemptyb c = true -> trans_tableb c = true ->
    lstate_eqv c lf ll -> legal_configb c (l_cfg ll) = true -> HistOK c (l_hist ll) ->
    ascb (l_cfg ll) = true -> ascb (l_hist ll) = true ->
    (forall ti, In ti sel -> In (ft_source (tr c ti)) (l_cfg ll)) -> pairwise_ok lg_fixed c sel -> ascb sel = true ->
    plain_transb c sel = true ->
    ms_guardb_hist c ll (sel_targets c sel) (sel_exitset c (l_cfg ll) sel) sel false = true ->
    lstate_eqv c (fst (fmicrostep xv c lf x (sel_targets c sel) (sel_exitset c (l_cfg ll) sel) sel false))
                 (fst (microstep lg_fixed xv c ll x (sel_targets c sel) (sel_exitset c (l_cfg ll) sel) sel false)) /\
    snd (fmicrostep xv c lf x (sel_targets c sel) (sel_exitset c (l_cfg ll) sel) sel false) =
    snd (microstep lg_fixed xv c ll x (sel_targets c sel) (sel_exitset c (l_cfg ll) sel) sel false).
Proof. exact fast_large_microstep_equiv_histp_lemma. Qed.
Print Assumptions fast_large_microstep_equiv_histp.

Theorem fast_large_initial_microstep_equiv_histp :
  forall xv c lf ll x,
    eq_chartb_histp c = true -> lstate_eqv c lf ll -> l_cfg ll = [] -> HistOK c (l_hist ll) -> ascb (l_hist ll) = true ->
    ms_guardb_hist c ll (fs_completion (st c 0)) [] [] true = true ->
    lstate_eqv c (fst (fmicrostep xv c lf x (fs_completion (st c 0)) [] [] true))
                 (fst (microstep lg_fixed xv c ll x (fs_completion (st c 0)) [] [] true)) /\
    snd (fmicrostep xv c lf x (fs_completion (st c 0)) [] [] true) =
    snd (microstep lg_fixed xv c ll x (fs_completion (st c 0)) [] [] true).
Proof. exact fast_large_initial_microstep_equiv_histp_lemma. Qed.
Print Assumptions fast_large_initial_microstep_equiv_histp.

(* (P5) SELECT_TRANSITIONS *)
Theorem fast_large_select_equiv_histp :
  forall c cfg ev x,
    wf_histpb c = true -> trans_tableb c = true -> ascb cfg = true -> (forall s, In s cfg -> s < nstates c) ->
    sel_guardb c cfg ev (cfg_postfix c cfg) None [] x = true ->
    fselect c cfg ev (seq 0 (ntrans c)) [] x = select_loop lg_fixed c cfg ev (cfg_postfix c cfg) None [] x.
Proof. exact fast_large_select_equiv_histp_lemma. Qed.
Print Assumptions fast_large_select_equiv_histp.

(* (P6) one step() *)
Theorem fast_large_step_equiv_histp :
  forall xv c lf ll x,
    eq_chartb_histp c = true -> lstate_eqv c lf ll -> CfgOKH c ll -> ascb (l_cfg ll) = true -> ascb (l_hist ll) = true ->
    step_guardb_hist c ll x = true ->
    res_eqv c (fast_step xv c lf x) (large_step lg_fixed xv c ll x).
Proof. exact fast_large_step_equiv_histp_lemma. Qed.
Print Assumptions fast_large_step_equiv_histp.

(* (P7) whole runs from the pristine state, and the observable behaviour of documents *)
Theorem fast_large_run_equiv_histp :
  forall xv c fuel evs,
    eq_chartb_histp c = true -> eq_guard_run_hist xv c fuel l_pristine x_init evs = true ->
    lstate_eqv c (fst (run_loop c lstate (fast_step xv c) l_cfg fuel l_pristine x_init evs))
                 (fst (run_loop c lstate (large_step lg_fixed xv c) l_cfg fuel l_pristine x_init evs)) /\
    snd (run_loop c lstate (fast_step xv c) l_cfg fuel l_pristine x_init evs) =
    snd (run_loop c lstate (large_step lg_fixed xv c) l_cfg fuel l_pristine x_init evs).
Proof. exact fast_large_run_equiv_histp_lemma. Qed.
Print Assumptions fast_large_run_equiv_histp.

Theorem fast_large_trace_equiv_histp :
  forall xv late t evs fuel,
    eq_chartb_histp (flatten late t) = true -> eq_guard_run_hist xv (flatten late t) fuel l_pristine x_init evs = true ->
    run_fast xv late t evs fuel = run_large lg_fixed xv late t evs fuel.
Proof. exact fast_large_trace_equiv_histp_lemma. Qed.
Print Assumptions fast_large_trace_equiv_histp.

(* the guard cannot be dropped on these charts: C03-K4 through the deep history of a <parallel>.  Done-family chart
   with a way out (e4) and back through the history (e3) of <parallel> s3; events e1 e4 e3: s3 s4 s6 s7 s8 are
   entered in one microstep, when <final> s6 is entered s7 / s8 are not in the configuration yet, the fast engine
   raises done.state.s3 although region s7 is NOT final, the document's transition on done.state.s3 takes it to
   s10; the large engine stays in s3.  The guard is true for e1 e4 and false with e3 *)
Theorem fast_large_run_equiv_histp_without_guard_refuted :
  let t := ehp_dfh_tree KHistDeep [5; 8]%N in
  let c := flatten false t in
  let evs := [[101%N]; [104%N]; [103%N]] in
  eq_chartb_histp c = true /\ eq_chartb_hist c = false /\
  eq_guard_run_hist ex_fixed c 40 l_pristine x_init [[101%N]; [104%N]] = true /\
  eq_guard_run_hist ex_fixed c 40 l_pristine x_init evs = false /\
  last (cfgs_of (fst (run_fast ex_fixed false t evs 40))) [] = [0; 2; 10]%N /\
  last (cfgs_of (fst (run_large lg_fixed ex_fixed false t evs 40))) [] = [0; 2; 3; 4; 6; 7; 8]%N /\
  length (filter (eh_is_ev (s_done_state ++ state_name 3%N)) (fst (run_fast ex_fixed false t evs 40))) = 1 /\
  length (filter (eh_is_ev (s_done_state ++ state_name 3%N)) (fst (run_large lg_fixed ex_fixed false t evs 40))) = 0.
Proof. exact run_equiv_histp_without_guard_refuted_lemma. Qed.
Print Assumptions fast_large_run_equiv_histp_without_guard_refuted.

(* non-vacuity: the done-family charts with a history child of the <parallel> (tools/chart_runs.py
   done_family(hist='hd' | 'hs'); LegalHistParOracle.done_family_tree): inside eq_chartb_histp, outside
   eq_chartb_hist; the regions reach their <final>s one after the other, done.state.s3 raised once, taken to s10 *)
Theorem engine_equiv_histp_done_family_satisfiable :
  let cd := flatten false (done_family_tree KHistDeep [5; 8]%N) in
  let cs := flatten false (done_family_tree KHistShallow [4; 7]%N) in
  eq_chartb_histp cd = true /\ eq_chartb_hist cd = false /\
  eq_guard_run_hist ex_fixed cd 40 l_pristine x_init [[101%N]; [102%N]] = true /\
  last (cfgs_of (fst (run_large lg_fixed ex_fixed false (done_family_tree KHistDeep [5; 8]%N) [[101%N]; [102%N]] 40))) [] = [0; 2; 10]%N /\
  length (filter (eh_is_ev (s_done_state ++ state_name 3%N)) (fst (run_large lg_fixed ex_fixed false (done_family_tree KHistDeep [5; 8]%N) [[101%N]; [102%N]] 40))) = 1 /\
  eq_chartb_histp cs = true /\ eq_chartb_hist cs = false /\
  eq_guard_run_hist ex_fixed cs 40 l_pristine x_init [[102%N]; [101%N]] = true /\
  last (cfgs_of (fst (run_large lg_fixed ex_fixed false (done_family_tree KHistShallow [4; 7]%N) [[102%N]; [101%N]] 40))) [] = [0; 2; 10]%N.
Proof. exact ehp_done_family_guarded. Qed.
Print Assumptions engine_equiv_histp_done_family_satisfiable.

Theorem engine_equiv_histp_done_family_engines_agree :
  run_fast ex_fixed false (done_family_tree KHistDeep [5; 8]%N) [[101%N]; [102%N]] 40 =
  run_large lg_fixed ex_fixed false (done_family_tree KHistDeep [5; 8]%N) [[101%N]; [102%N]] 40 /\
  run_fast ex_fixed false (done_family_tree KHistShallow [4; 7]%N) [[102%N]; [101%N]] 40 =
  run_large lg_fixed ex_fixed false (done_family_tree KHistShallow [4; 7]%N) [[102%N]; [101%N]] 40.
Proof. exact ehp_done_family_engines_agree. Qed.
Print Assumptions engine_equiv_histp_done_family_engines_agree.

(* ... and charts on which the histories of <parallel>s are used (default transition with two targets, record,
   restore): hpp_tree of LegalHistParOracle.v; the done-family chart with a shallow history left and re-entered *)
Theorem engine_equiv_histp_parallel_histories_used :
  let c := flatten false hpp_tree in
  eq_chartb_histp c = true /\ eq_chartb_hist c = false /\
  eq_guard_run_hist ex_fixed c 60 l_pristine x_init [[102%N]; [101%N]; [102%N]; [101%N]; [101%N]] = true /\
  last (cfgs_of (fst (run_large lg_fixed ex_fixed false hpp_tree [[102%N]; [101%N]; [102%N]; [101%N]; [101%N]] 60))) [] = [0; 8; 9; 11; 12; 13]%N /\
  let cs := flatten false (ehp_dfh_tree KHistShallow [4; 7]%N) in
  eq_chartb_histp cs = true /\
  eq_guard_run_hist ex_fixed cs 60 l_pristine x_init [[101%N]; [104%N]; [103%N]; [102%N]] = true.
Proof. exact ehp_hpp_tree_guarded. Qed.
Print Assumptions engine_equiv_histp_parallel_histories_used.

Theorem engine_equiv_histp_parallel_histories_engines_agree :
  run_fast ex_fixed false hpp_tree [[102%N]; [101%N]; [102%N]; [101%N]; [101%N]] 60 =
  run_large lg_fixed ex_fixed false hpp_tree [[102%N]; [101%N]; [102%N]; [101%N]; [101%N]] 60.
Proof. exact ehp_hpp_tree_engines_agree. Qed.
Print Assumptions engine_equiv_histp_parallel_histories_engines_agree.
