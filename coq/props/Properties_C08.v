(* Properties_C08.v -- property theorems only.  C08: external events are processed exactly once, in order,
   at macrostep boundaries; internal events in the order they were raised. *)
From Coq Require Import List Bool Arith NArith Permutation.
Import ListNotations.
From V Require Import Fifo FifoLemmas StepCtl StepCtlLemmas GenStepCtl.

(* U.  For any number of producers with any operation lists, any consumer operation list of dequeue(0) /
   dequeue(forever) calls, and ANY interleaving sc of them: nothing is dequeued twice or invented
   (dequeued + still queued is a permutation of what was sent), the dequeued events of each producer are an
   initial segment of its sequence in its order, the oracle used on the implementation accepts; once the
   queue is drained every event was dequeued exactly once; enough further dequeues drain it.
   (Events of type N for definiteness of the oracle; FifoLemmas proves it for every type with a decidable
   equality.) *)
Theorem fifo_linearizable : forall (prods : list (list N)) (cons sc : list (op N)),
  forallb (@is_consumer_op N) cons = true -> no_reset cons = true ->
  interleave (thread_ops cons prods) sc ->
  let s := frun sc in
  Permutation (tag_all prods) (dequeued s ++ fq s)
  /\ (forall p, prefix (of_producer p (dequeued s)) (nth p prods []))
  /\ fifo_admissibleb N.eqb prods false (dequeued s) = true
  /\ (fq s = [] ->
        Permutation (tag_all prods) (dequeued s)
        /\ (forall p, of_producer p (dequeued s) = nth p prods [])
        /\ fifo_admissibleb N.eqb prods true (dequeued s) = true)
  /\ (forall k, fwait s = false -> length (fq s) <= k -> fq (frun (sc ++ repeat Deq k)) = []).
Proof. exact (fifo_linearizable_atomic N.eqb N.eqb_eq). Qed.
Print Assumptions fifo_linearizable.

(* U.  Strongest form, for EVERY schedule without reset (no merge hypothesis needed: every list of operations is a
   schedule): what has been dequeued, in dequeue order, followed by what is still queued IS the sequence of enqueue
   critical sections -- the queue never reorders, duplicates, invents or loses an event. *)
Theorem fifo_exact_order : forall sc : list (op N),
  no_reset sc = true -> dequeued (frun sc) ++ fq (frun sc) = enqueued sc.
Proof. exact (@fifo_no_reset_exact N). Qed.
Print Assumptions fifo_exact_order.

(* the hypotheses of fifo_linearizable are satisfiable *)
Theorem fifo_hypotheses_satisfiable :
  exists sc : list (op nat),
    interleave (thread_ops [Deq; Deq] [[10]; [20]]) sc /\
    forallb (@is_consumer_op nat) [Deq; Deq] = true /\ no_reset (@Deq nat :: [Deq]) = true /\
    dequeued (frun sc) = [(1, 20); (0, 10)] /\ fq (frun sc) = [].
Proof. exact fifo_example. Qed.
Print Assumptions fifo_hypotheses_satisfiable.

(* U.  The same with reset() calls anywhere in the schedule: dropped events are accounted for, order is kept. *)
Theorem fifo_linearizable_with_reset : forall (prods : list (list N)) (cons sc : list (op N)),
  forallb (@is_consumer_op N) cons = true -> interleave (thread_ops cons prods) sc ->
  let s := frun sc in
  Permutation (tag_all prods) (dequeued s ++ dropped s ++ fq s)
  /\ (forall p, subseq (of_producer p (dequeued s)) (nth p prods [])).
Proof. exact (@FifoLemmas.fifo_linearizable_with_reset N). Qed.
Print Assumptions fifo_linearizable_with_reset.

(* the oracle decides the admissibility predicate *)
Theorem fifo_admissibleb_decides : forall prods complete (obs : list (tagged N)),
  fifo_admissibleb N.eqb prods complete obs = true <-> fifo_admissible prods complete obs.
Proof. exact (fifo_admissibleb_ok N.eqb N.eqb_eq). Qed.
Print Assumptions fifo_admissibleb_decides.

(* finite table regenerated from the source: the atomicity assumption of the model *)
Theorem all_queue_ops_atomic :
  (forall m, inventory_discipline m = true) /\ queue_class_atomic = true.
Proof. exact all_queue_ops_atomic_lemma. Qed.
Print Assumptions all_queue_ops_atomic.

(* U.  LOCK level: threads interleaved at the granularity lock / read _queue / write _queue / unlock, with the
   discipline read off the regenerated inventory (an unlocked method would make all_queue_ops_atomic and hence this
   theorem fail): every run, for any number of threads with any programs of enqueue/dequeue/reset calls and any
   schedule, leaves the queue, the dequeue results and the removal log exactly as the ATOMIC run of its
   linearisation (calls in the order of their write steps) does, and the linearisation keeps every thread's program
   order.  The atomic-level theorems above then apply to that linearisation. *)
Theorem fifo_lock_level_linearizable : forall (progs : list (list (call N))) (sc : list nat),
  let s := lrun inventory_discipline (linit progs) sc in
  let lin := lin_order inventory_discipline (linit progs) sc in
  labs s = frun (map snd lin)
  /\ (forall t prog, nth_error progs t = Some prog -> prefix (lin_of_thread t lin) (map (@op_of_call N) prog)).
Proof.
  intros progs sc. split.
  - apply lock_level_refines_atomic_lemma. exact (proj1 all_queue_ops_atomic_lemma).
  - intros t prog H. apply lock_level_program_order_lemma. exact H.
Qed.
Print Assumptions fifo_lock_level_linearizable.

(* refuted without the lock in enqueue: two enqueues, both threads finished, one event lost *)
Theorem fifo_lock_level_unlocked_refuted :
  exists (progs : list (list (call nat))) sc,
    let s := lrun nolock_enqueue (linit progs) sc in
    Forall (fun th => t_todo th = []) (l_threads s) /\
    l_q s = [(1, 8)] /\ map snd (lin_order nolock_enqueue (linit progs) sc) = [Enq 0 7; Enq 1 8].
Proof. exact lock_level_without_lock_refuted. Qed.
Print Assumptions fifo_lock_level_unlocked_refuted.

(* finite table regenerated from the source: the flag tests / queue calls / labels / returns of step() occur in both
   engines in the order the control model StepCtl.cstep was written against (one model for both engines; as written or with the
   repair of patches/C08-recheck-eventless.diff -- the check compares the variant with the observed behaviour) *)
Theorem step_skeleton_as_modelled :
  stepctl_source_ok = true /\
  exists recheck, large_landmarks = landmarks_for recheck /\ fast_landmarks = landmarks_for recheck.
Proof. exact engines_same_landmarks. Qed.
Print Assumptions step_skeleton_as_modelled.

(* U.  step() control flow of both engines as written (and repaired), all runs: dequeueExternal is reached only
   directly after a dequeueInternal that returned nothing, with an empty internal queue, the most recent
   event-less selection having found no transition.  Hypothesis inputs_ok: no internal event without a name is
   raised (or the variant drops them), see external_only_when_quiescent_empty_name_refuted. *)
Theorem external_only_when_quiescent : forall v ins,
  inputs_ok v ins = true -> ext_quiescent (ctrace v ins).
Proof. exact external_only_when_quiescent_lemma. Qed.
Print Assumptions external_only_when_quiescent.

(* U.  Both queues are consumed in filling order, nothing twice (all runs, both variants). *)
Theorem internal_fifo : forall v ins,
  int_taken (ctrace v ins) ++ c_iq (fst (crun v cinit [] ins)) = raised (ctrace v ins).
Proof. exact internal_fifo_lemma. Qed.
Print Assumptions internal_fifo.

Theorem external_fifo : forall v ins,
  ext_taken (ctrace v ins) ++ c_eq (fst (crun v cinit [] ins)) = arrived (ctrace v ins).
Proof. exact external_fifo_lemma. Qed.
Print Assumptions external_fifo.

(* U.  The monitor-level oracle used on the implementation (internal events in raise order; an external event is
   processed only when every internal event raised before has been processed) accepts every run of the model. *)
Theorem macrostep_tokens_ok : forall v ins,
  inputs_ok v ins = true -> macrostep_okb (toks_of (ctrace v ins)) = true.
Proof. exact macrostep_tokens_ok_lemma. Qed.
Print Assumptions macrostep_tokens_ok.

(* refuted for the code as written: after an event that enabled no transition the next event is read without
   selecting event-less transitions again (the Recommendation's loop does select them) ... *)
Theorem external_strictly_quiescent_as_written_refuted :
  exists ins, inputs_nonzero ins = true /\ ~ ext_strictly_quiescent (ctrace cv_as_written ins).
Proof. exact external_strictly_quiescent_refuted. Qed.
Print Assumptions external_strictly_quiescent_as_written_refuted.

(* ... U for the repaired control flow (patches/C08-recheck-eventless.diff, C08-unnamed-internal-event.diff),
   without any hypothesis on the raised events *)
Theorem external_strictly_quiescent_when_repaired : forall ins,
  ext_strictly_quiescent (ctrace cv_repaired ins) /\ ext_quiescent (ctrace cv_repaired ins).
Proof. exact external_strictly_quiescent_repaired. Qed.
Print Assumptions external_strictly_quiescent_when_repaired.

(* refuted without the hypothesis: internal events with an empty name make the external queue be read while
   internal events are pending *)
Theorem external_only_when_quiescent_empty_name_refuted :
  exists ins, ~ ext_quiescent (ctrace cv_as_written ins).
Proof. exact empty_named_internal_event_refuted. Qed.
Print Assumptions external_only_when_quiescent_empty_name_refuted.
