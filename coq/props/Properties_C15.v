(* Properties_C15.v -- property theorems only.  C15: Data <-> JSON conversion is lossless and its parser
   robust; Event <-> Data.  [js_pinned] is the code as pinned, [js_fixed] the code with the proposed
   repairs (patches/C15-*.diff); the check determines at run time which switches the implementation has. *)
From V Require Import Base Jsmn Json GenJsonEsc GenJsmnEsc JsonLemmas JsmnLemmas JsonBuildLemmas JsonEventLemmas JsonRtTokenize JsonRtBuild JsonRoundTrip.

(* tie: the tables regenerated from Data.cpp / jsmn.c on every run are the ones the theorems are about *)
Theorem source_escape_tables_modelled :
  ((forall s, json_escape_gen s = json_escape js_pinned s) \/
   (forall s, json_escape_gen s = json_escape js_fixed s)) /\
  (forall s, json_unescape_gen s = json_unescape s).
Proof. exact source_escape_tables_modelled_lemma. Qed.
Print Assumptions source_escape_tables_modelled.

Theorem jsmn_mode_modelled :
  gen_jsmn_strict = false /\ gen_jsmn_parent_links = false /\
  (forall c, existsb (N.eqb c) gen_jsmn_allowed_escapes = str_escape_ok c) /\
  (forall c, existsb (N.eqb c) gen_jsmn_prim_delims = prim_delim c) /\
  (forall c, existsb (N.eqb c) gen_jsmn_skip = jsmn_skip c) /\
  (forall c, ((c <? gen_jsmn_prim_lo) || (gen_jsmn_prim_hi <=? c))%N = prim_invalid c).
Proof. exact jsmn_mode_modelled_lemma. Qed.
Print Assumptions jsmn_mode_modelled.

(* U: jsonUnescape (jsonEscape s) = s for every byte string (repaired table) *)
Theorem unescape_escape : forall s, json_unescape (json_escape js_fixed s) = s.
Proof. exact unescape_escape_lemma. Qed.
Print Assumptions unescape_escape.

(* ... false of the pinned table: byte 11 is written as \v, which jsonUnescape reads as 'v' *)
Theorem unescape_escape_pinned_refuted : exists s, json_unescape (json_escape js_pinned s) <> s.
Proof. exact unescape_escape_pinned_refuted_lemma. Qed.
Print Assumptions unescape_escape_pinned_refuted.

(* U: every string written by jsonEscape, followed by the closing quote, is consumed by
   jsmn_parse_string as exactly one JSMN_STRING token; any position, any parser state, any budget *)
Theorem escaped_tokenizes : forall s budget rest pos start st,
  jsmn_run budget (json_escape js_fixed s ++ c_quote :: rest) pos (MStr start) st =
  after_string budget rest (pos + length (json_escape js_fixed s)) start st.
Proof. exact escaped_tokenizes_lemma. Qed.
Print Assumptions escaped_tokenizes.

Theorem escaped_tokenizes_pinned_refuted :
  exists s, jsmn_parse 10 ([c_lbrack; c_quote] ++ json_escape js_pinned s ++ [c_quote; c_rbrack]) = JErr JINVAL.
Proof. exact escaped_tokenizes_pinned_refuted_lemma. Qed.
Print Assumptions escaped_tokenizes_pinned_refuted.

(* U: fromJSON terminates on every byte string, in every variant: the retry loop within 4 rounds, the
   builder within (number of token slots + 2) iterations (from_json is from_json_fuel with exactly
   these bounds) *)
Theorem from_json_total : forall v s, from_json v s <> OutOfFuel.
Proof. exact from_json_total_lemma. Qed.
Print Assumptions from_json_total.

(* U: jsmn never writes outside the allocated tokens, uses at most the budget, and every token it
   reports has a type in 0..3 and 1 <= end <= length of the text; any input, any budget *)
Theorem jsmn_parse_in_bounds : forall budget s,
  match jsmn_parse budget s with
  | JOk toks => (length toks <= budget)%nat /\ Forall (tok_final (length s)) toks
  | JErr _ => True
  | JOob => False
  end.
Proof. exact jsmn_parse_inv. Qed.
Print Assumptions jsmn_parse_in_bounds.

(* U: with the two bounds repairs (as committed in /repo, 289046cb: the end-of-tokens test after a key and
   the emptiness tests in front of every use of the two stacks; a container where a key is expected
   stays accepted) fromJSON never reads behind the token array and never uses an empty stack: for
   every byte string the outcome is a value or a thrown error *)
Theorem from_json_no_oob : forall v,
  jv_key_overread v = false -> jv_container_key v = false ->
  forall s w, from_json v s <> Oob w.
Proof. exact from_json_no_oob_lemma. Qed.
Print Assumptions from_json_no_oob.

(* the repaired parser still accepts the lenient texts the repository's own tests parse *)
Theorem from_json_lenient_accepted :
  from_json js_fixed w_lenient = from_json js_pinned w_lenient /\
  exists d, from_json js_fixed w_lenient = Ok d /\ d <> empty_data.
Proof. exact from_json_lenient_container_key. Qed.
Print Assumptions from_json_lenient_accepted.

(* the pinned parser reads behind the token array on {"a"} and pops the empty data stack on {[]1} *)
Theorem from_json_no_oob_pinned_refuted :
  from_json js_pinned w_key_last = Oob 1 /\ from_json js_pinned w_container_key = Oob 2.
Proof. exact from_json_oob_pinned_refuted_lemma. Qed.
Print Assumptions from_json_no_oob_pinned_refuted.

(* U: fromJSON (toJSON d) = d -- through toJSON's layout, boost::trim, the retry loop over the token
   budgets size/8, /4, /2, /1, the jsmn tokenizer and the stack-based builder -- for every value of the
   class the property names: strings, numbers, non-empty arrays and maps nested to any depth (keys in
   std::map order), and the empty value where the parser maps `null` back (canonical (negb null_atom));
   top-level array or map; no NUL byte in keys and strings.  Holds for every setting of the two
   bounds switches (they do not matter on well-formed text). *)
Theorem from_to_json : forall v d,
  jv_escape_vtab v = false ->
  canonical (negb (jv_null_atom v)) d = true -> nul_free d = true -> top_container d = true ->
  from_json v (data_to_json v d) = Ok d.
Proof. exact from_to_json_lemma. Qed.
Print Assumptions from_to_json.

(* the same for the code as pinned, outside its defect classes (no byte 11 in keys and strings, no
   empty value: canonical false) *)
Theorem from_to_json_pinned_partial : forall d,
  canonical false d = true -> nul_free d = true -> vtab_free d = true -> top_container d = true ->
  from_json js_pinned (data_to_json js_pinned d) = Ok d.
Proof. intros d. exact (from_to_json_vtab_free_lemma js_pinned d). Qed.
Print Assumptions from_to_json_pinned_partial.

(* the parts, usable on their own: the tokenizer on toJSON's text yields exactly the token layout
   toks_core (for every sufficient budget, continuation and parser state) ... *)
Theorem to_json_tokenizes : forall v, jv_escape_vtab v = false ->
  forall d, canonical true d = true -> forall ind, Tstmt v ind d.
Proof. exact tokenize_core. Qed.
Print Assumptions to_json_tokenizes.

(* ... and the builder on that layout rebuilds the value *)
Theorem builder_rebuilds : forall v, jv_escape_vtab v = false ->
  forall ae, (ae = true -> jv_null_atom v = false) ->
  forall js t d, canonical ae d = true -> forall ind, Bstmt v js t ind d.
Proof. exact build_core. Qed.
Print Assumptions builder_rebuilds.

(* the budget matters only through JSMN_ERROR_NOMEM (what makes the retry loop sound) *)
Theorem jsmn_budget_independent : forall b b' s toks,
  jsmn_parse b s = JOk toks ->
  ((length toks <= b')%nat -> jsmn_parse b' s = JOk toks) /\
  ((b' < length toks)%nat -> jsmn_parse b' s = JErr JNOMEM).
Proof. exact jsmn_parse_budget. Qed.
Print Assumptions jsmn_budget_independent.

(* round trip, refuted clauses *)
Theorem from_to_json_empty_pinned_refuted :
  canonical true w_empty_nested = true /\ top_container w_empty_nested = true /\
  from_json js_pinned (data_to_json js_pinned w_empty_nested) <> Ok w_empty_nested.
Proof. exact from_to_json_empty_pinned_refuted_lemma. Qed.
Print Assumptions from_to_json_empty_pinned_refuted.

Theorem from_to_json_vtab_pinned_refuted :
  canonical false w_vtab = true /\ top_container w_vtab = true /\
  from_json js_pinned (data_to_json js_pinned w_vtab) = Err 2.
Proof. exact from_to_json_vtab_pinned_refuted_lemma. Qed.
Print Assumptions from_to_json_vtab_pinned_refuted.

(* in every variant: a string or number outside a container, a NUL byte inside a string *)
Theorem from_to_json_scalar_refuted :
  exists d, canonical false d = true /\ forall v, from_json v (data_to_json v d) <> Ok d.
Proof. exact from_to_json_scalar_refuted_lemma. Qed.
Print Assumptions from_to_json_scalar_refuted.

Theorem from_to_json_nul_refuted :
  exists d, canonical false d = true /\ top_container d = true /\
            forall v, from_json v (data_to_json v d) <> Ok d.
Proof. exact from_to_json_nul_refuted_lemma. Qed.
Print Assumptions from_to_json_nul_refuted.

(* U: every well-formed event survives Event -> Data -> Event in all twelve fields (repaired operator) *)
Theorem event_roundtrip : forall e,
  wf_event e = true -> event_from_data (event_to_data js_fixed e) = Ok e.
Proof. exact event_roundtrip_lemma. Qed.
Print Assumptions event_roundtrip.

Theorem event_roundtrip_pinned_refuted :
  exists e, wf_event e = true /\ event_from_data (event_to_data js_pinned e) <> Ok e.
Proof. exact event_roundtrip_pinned_refuted_lemma. Qed.
Print Assumptions event_roundtrip_pinned_refuted.
