// C10-destroy-inflight-callback-repro.cpp -- found by work package rr; repair: patches/C10-destroy-inflight-callback.diff;
// replayed by tools/props/c10.py section "destroy race" (harness command destroyrace).
//
// Destroying an interpreter while a timer callback of a delayed <send> is past its critical section
// (BasicDelayedEventQueue::timerCallback has erased its entry, schedule point delay.callback.unlocked) and has
// not yet called eventReady: ~InterpreterImpl's cancelAllDelayed() finds nothing to cancel, the members declared
// after _delayQueue (_ioProcs, _invokers, ...) are destroyed, only then the queue's destructor joins the timer
// thread; the callback meanwhile runs InterpreterImpl::eventReady -> dispatch -> _ioProcs.find() on the destroyed
// map: heap use-after-free (valgrind: "Invalid read ... inside a block free'd", SIGSEGV under valgrind; without
// it the run usually "works" and logs "No IO processor ... known").  If the ActionLanguage copy (_al, filled by
// getActionLanguage()) holds the last reference to the queue, the join happens even later (after _delayMutex and
// _delayedEventTargets are gone).  Same window as patches/C10-reset-inflight-callback.diff, at destruction.
// A repair has to make the destructor wait for the timer thread (stop/join the delayed queue, or at least take
// _delayMutex, clear _delayedEventTargets and cancel the timers) BEFORE any member is destroyed.
//
// build (hooks flavour of the tree, -DUSCXML_VERIF):   cd /verif/tools && python3 - <<'PY'
//   import vlib, subprocess
//   inc, defs, libs = vlib.impl_compile_flags('hooks')
//   subprocess.run(['g++','-O1','-g','/verif/patches/C10-destroy-inflight-callback-repro.cpp','-o','/tmp/rr-destroy']+inc+defs+libs, check=True)
//   PY
// run:   USCXML_NOCACHE_FILES=true valgrind -q /tmp/rr-destroy ext      (or: int = undeliverable delayed send)
#include "uscxml/config.h"
#include "uscxml/Interpreter.h"
#include "uscxml/interpreter/InterpreterImpl.h"
#include "uscxml/util/VerifHooks.h"
#include <atomic>
#include <thread>
#include <chrono>
#include <cstring>
#include <iostream>
using namespace uscxml;
std::atomic<int> unlocked(0), delivered(0);
std::atomic<bool> release(false);
void point(const char* name) {
	if (!strcmp(name, "delay.callback.unlocked")) {
		unlocked++;
		while (!release.load()) std::this_thread::sleep_for(std::chrono::microseconds(200));
	} else if (!strcmp(name, "delay.callback.delivered")) delivered++;
}
int main(int argc, char** argv) {
	std::string kind = argc > 1 ? argv[1] : "ext";
	std::string send = kind == "int" ? "<send event=\"tick\" target=\"#_scxml_nosuch\" delay=\"15ms\"/>" : "<send event=\"tick\" delay=\"15ms\"/>";
	std::string xml = "<scxml datamodel=\"null\" initial=\"s0\"><state id=\"s0\"><transition event=\"go\">" + send + "</transition></state></scxml>";
	uscxml_verif_point = point;
	Interpreter* ip = new Interpreter(Interpreter::fromXML(xml, ""));
	for (int i = 0; i < 10; i++) if (ip->step(0) == USCXML_IDLE) break;
	Event go; go.name = "go"; ip->receive(go);
	for (int i = 0; i < 10; i++) if (ip->step(0) == USCXML_IDLE) break;
	while (unlocked.load() == 0) std::this_thread::sleep_for(std::chrono::microseconds(200));
	std::cerr << "callback is past its critical section; destroying" << std::endl;
	std::atomic<bool> destroyed(false);
	std::thread t([&] { delete ip; destroyed = true; });
	std::this_thread::sleep_for(std::chrono::milliseconds(50));
	std::cerr << "destroyed yet: " << destroyed.load() << " ; releasing the callback" << std::endl;
	release = true;
	t.join();
	std::cerr << "joined, delivered=" << delivered.load() << std::endl;
	return 0;
}
