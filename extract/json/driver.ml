(* driver.ml -- line-oriented front end of the extracted C15 model.  One command per input line, one
   result line per command.  Byte strings are hex ("-" = empty).
   Tree format: node := ('V'|'I') hex(atom) '[' node* ']' '{' (hex(key) '=' node)* '}'
   Variant: five characters 0/1 = escape_vtab key_overread container_key null_atom event_data_self. *)
open Vmodel

(*COMMON*)

let variant (s:string) : js_variant =
  let b i = s.[i] = '1' in
  { jv_escape_vtab = b 0; jv_key_overread = b 1; jv_container_key = b 2; jv_null_atom = b 3;
    jv_event_data_self = b 4 }

let hexraw (l : n list) : string = String.concat "" (List.map (fun b -> Printf.sprintf "%02x" (int_of_n b)) l)

let rec dump (d : data) : string =
  match d with
  | D (v, a, l, m) ->
    (if v then "V" else "I") ^ hexraw a ^ "[" ^ String.concat "" (List.map dump l) ^ "]{" ^
    String.concat "" (List.map (fun (k, c) -> hexraw k ^ "=" ^ dump c) m) ^ "}"

exception Tree_error

let is_hex c = (c >= '0' && c <= '9') || (c >= 'a' && c <= 'f')
let rd_hex (s:string) (i:int ref) : n list =
  let acc = ref [] in
  while !i + 1 < String.length s && is_hex s.[!i] && is_hex s.[!i+1] do
    acc := n_of_int (int_of_string ("0x" ^ String.sub s !i 2)) :: !acc;
    i := !i + 2
  done;
  List.rev !acc

(* the compound is built as the C++ side builds it: by compound[k] = v, i.e. sorted / last wins *)
let rec map_set_ml k v m =
  match m with
  | [] -> [(k, v)]
  | (k', v') :: r ->
    if k = k' then (k, v) :: r
    else if compare (List.map int_of_n k) (List.map int_of_n k') < 0 then (k, v) :: m
    else (k', v') :: map_set_ml k v r

let rec rd_tree (s:string) (i:int ref) : data =
  if !i >= String.length s || (s.[!i] <> 'V' && s.[!i] <> 'I') then raise Tree_error;
  let v = s.[!i] = 'V' in
  incr i;
  let a = rd_hex s i in
  if !i >= String.length s || s.[!i] <> '[' then raise Tree_error;
  incr i;
  let l = ref [] in
  while !i < String.length s && s.[!i] <> ']' do l := rd_tree s i :: !l done;
  if !i >= String.length s then raise Tree_error;
  incr i;
  if !i >= String.length s || s.[!i] <> '{' then raise Tree_error;
  incr i;
  let m = ref [] in
  while !i < String.length s && s.[!i] <> '}' do
    let k = rd_hex s i in
    if !i >= String.length s || s.[!i] <> '=' then raise Tree_error;
    incr i;
    let c = rd_tree s i in
    m := map_set_ml k c !m
  done;
  if !i >= String.length s then raise Tree_error;
  incr i;
  D (v, a, List.rev !l, !m)

let tree (s:string) : data =
  let i = ref 0 in
  let d = rd_tree s i in
  if !i <> String.length s then raise Tree_error;
  d

let outcome_str (o : data outcome) : string =
  match o with
  | Ok d -> "OK " ^ dump d
  | Err e -> "ERR " ^ string_of_int (int_of_n e)
  | Oob w -> "OOB " ^ string_of_int (int_of_n w)
  | OutOfFuel -> "FUEL"

let rd_event (a : string array) (o:int) : event =
  let ps = match tree a.(o+11) with D (_, _, l, _) ->
    List.map (fun p -> match p with D (_, _, _, (k, c) :: _) -> (k, c) | _ -> raise Tree_error) l in
  { ev_name = bytes_of_hex a.(o); ev_raw = bytes_of_hex a.(o+1); ev_type = n_of_int (int_of_string a.(o+2));
    ev_origin = bytes_of_hex a.(o+3); ev_origintype = bytes_of_hex a.(o+4); ev_sendid = bytes_of_hex a.(o+5);
    ev_hide = (a.(o+6) = "1"); ev_invokeid = bytes_of_hex a.(o+7); ev_uuid = bytes_of_hex a.(o+8);
    ev_data = tree a.(o+9);
    ev_namelist = (match tree a.(o+10) with D (_, _, _, m) -> m);
    ev_params = ps }

let dump_event (e : event) : string =
  String.concat " "
    [hex_of_bytes e.ev_name; hex_of_bytes e.ev_raw; string_of_int (int_of_n e.ev_type); hex_of_bytes e.ev_origin;
     hex_of_bytes e.ev_origintype; hex_of_bytes e.ev_sendid; b2s e.ev_hide; hex_of_bytes e.ev_invokeid;
     hex_of_bytes e.ev_uuid; dump e.ev_data; dump (D (false, [], [], e.ev_namelist));
     dump (D (false, [], List.map (fun (k, c) -> D (false, [], [], [(k, c)])) e.ev_params, []))]

let tok_str (t : token) : string =
  let z = function Z0 -> 0 | Zpos p -> int_of_pos p | Zneg p -> - (int_of_pos p) in
  Printf.sprintf "%d:%d:%d" (int_of_n t.ttype) (z t.tstart) (z t.tend)

let handle (line:string) : string =
  match split line with
  | ["escape"; v; s] -> hex_of_bytes (json_escape (variant v) (bytes_of_hex s))
  | ["escape-gen"; s] -> hex_of_bytes (json_escape_gen (bytes_of_hex s))
  | ["unescape"; s] -> hex_of_bytes (json_unescape (bytes_of_hex s))
  | ["unescape-gen"; s] -> hex_of_bytes (json_unescape_gen (bytes_of_hex s))
  | ["parse"; v; s] -> outcome_str (from_json (variant v) (bytes_of_hex s))
  | ["tokens"; b; s] ->
    (match jsmn_parse (nat_of_int (int_of_string b)) (bytes_of_hex s) with
     | JOk l -> "OK " ^ String.concat " " (List.map tok_str l)
     | JErr JNOMEM -> "ERR 1" | JErr JINVAL -> "ERR 2" | JErr JPART -> "ERR 3" | JOob -> "OOB 4")
  | ["tojson"; v; t] -> hex_of_bytes (data_to_json (variant v) (tree t))
  | ["rt"; v; t] ->
    let v = variant v in
    let d = tree t in
    let text = data_to_json v d in
    let r = from_json v text in
    Printf.sprintf "text=%s %s canon=%s canon0=%s top=%s nulfree=%s%s" (hex_of_bytes text) (outcome_str r)
      (b2s (canonical true d)) (b2s (canonical false d)) (b2s (top_container d)) (b2s (nul_free d))
      (match r with Ok d' -> " eq=" ^ b2s (data_eqb d' d) | _ -> "")
  | ["judge-rt"; t1; t2] ->
    (* the oracle on an implementation output: is the parsed value equal to the original one? *)
    b2s (data_eqb (tree t2) (tree t1))
  | "event-todata" :: v :: rest when List.length rest = 12 ->
    dump (event_to_data (variant v) (rd_event (Array.of_list rest) 0))
  | ["event-fromdata"; t] ->
    (match event_from_data (tree t) with Ok e -> dump_event e | Oob w -> "OOB " ^ string_of_int (int_of_n w) | _ -> "ERR")
  | "event-rt" :: v :: rest when List.length rest = 12 ->
    let e = rd_event (Array.of_list rest) 0 in
    let d = event_to_data (variant v) e in
    (match event_from_data d with
     | Ok e' -> Printf.sprintf "data=%s event= %s wf=%s eq=%s" (dump d) (dump_event e') (b2s (wf_event e)) (b2s (event_eqb e' e))
     | Oob w -> Printf.sprintf "data=%s OOB %d" (dump d) (int_of_n w)
     | _ -> "ERR")
  | "judge-ev" :: rest when List.length rest = 24 ->
    let a = Array.of_list rest in
    b2s (event_eqb (rd_event a 12) (rd_event a 0))
  | _ -> "ERR unknown command"

let () = main_loop handle
