(* Extract.v -- extraction of the executable C15 models (model files only, no lemma files), with
   ExtrOcamlBasic only: N, Z, positive and nat stay the extracted inductive datatypes.
   No Extract Constant. *)
Require Extraction.
Require Import ExtrOcamlBasic.
From V Require Import Base Jsmn Json GenJsonEsc GenJsmnEsc.
Extraction Language OCaml.
Extraction "vmodel.ml"
  Build_js_variant js_pinned js_fixed json_escape json_unescape json_escape_gen json_unescape_gen
  data_to_json from_json data_eqb canonical nul_free top_container jsmn_parse tok_retry
  event_to_data event_from_data event_eqb wf_event Build_event empty_data
  gen_escape_table gen_unescape_table gen_unescape_flag_char.
