(* driver.ml -- line-oriented front end of the extracted model.  One command per input line,
   one result line per command.  Byte strings are hex ("-" = empty). *)
open Vmodel

(*COMMON*)

let handle (line:string) : string =
  match split line with
  | ["match"; ci; bug; d; n] ->
      let v = { nm_case_insensitive = (ci = "1"); nm_short_desc_bug = (bug = "1") } in
      let d = bytes_of_hex d and n = bytes_of_hex n in
      Printf.sprintf "impl=%s spec=%s wf=%s" (b2s (name_match_impl v d n)) (b2s (name_match_spec d n))
        (b2s (wf_descs d && no_space n))
  | ["tokens"; d] ->
      String.concat " " (List.map hex_of_bytes (tokens (bytes_of_hex d)))
  | _ -> "ERR unknown command"

let () = main_loop handle
