(* Extract.v -- extraction of the executable models (model files only, no lemma files), with
   ExtrOcamlBasic only: bool, option, unit, list, prod, sumbool, sumor map to OCaml's; N, Z,
   positive and nat stay the extracted inductive datatypes.  No Extract Constant. *)
Require Extraction.
Require Import ExtrOcamlBasic.
From V Require Import Base NameMatch.
Extraction Language OCaml.
Extraction "vmodel.ml"
  nm_fixed nm_pinned Build_nm_variant name_match_impl name_match_spec wf_descs no_space tokens.
