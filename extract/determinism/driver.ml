(* driver.ml -- C20: line-oriented front end of the extracted model Determinism.v.
   External components are supplied here: md5 = OCaml's Digest (MD5) in upper-case hex, as uscxml::md5 prints it;
   macro_name = the character mapping of PromelaCodeAnalyzer::createMacroName on a fresh analyser (upper case,
   runs of illegal characters -> '_').  Addresses are given as printed by operator<< (0x...). *)
open Vmodel

(*COMMON*)

let bytes_of_string (s:string) : n list = List.init (String.length s) (fun i -> n_of_int (Char.code s.[i]))
let string_of_bytes (l : n list) : string = String.concat "" (List.map (fun b -> String.make 1 (Char.chr (int_of_n b land 255))) l)

let md5 (b : n list) : n list =
  bytes_of_string (String.uppercase_ascii (Digest.to_hex (Digest.string (string_of_bytes b))))

let macro_name (b : n list) : n list =
  let s = String.uppercase_ascii (string_of_bytes b) in
  let s = if String.length s > 0 && s.[0] >= '0' && s.[0] <= '9' then "_" ^ s else s in
  let illegal = "#\\/:?\"<>| \n\t()[]{}',.-" in
  let buf = Buffer.create 16 in
  let i = ref 0 in
  while !i < String.length s do
    if String.contains illegal s.[!i] then begin
      Buffer.add_char buf '_';
      incr i;
      while !i < String.length s && String.contains illegal s.[!i] do incr i done
    end else begin Buffer.add_char buf s.[!i]; incr i end
  done;
  bytes_of_string (Buffer.contents buf)

let variant_of_bits (s:string) : variant =
  let b i = s.[i] = '1' in
  { v_c_prefix_ptr = b 0; v_pml_prefix_leak = b 1; v_pml_ptr_order = b 2; v_vhdl_std_hash = b 3; v_trie_ptr_merge = b 4;
    v_fast_cache = b 5; v_cache_md5_guard = b 6 }
let bits_of_variant (v:variant) : string =
  String.concat "" (List.map b2s [v.v_c_prefix_ptr; v.v_pml_prefix_leak; v.v_pml_ptr_order; v.v_vhdl_std_hash; v.v_trie_ptr_merge; v.v_fast_cache; v.v_cache_md5_guard])

let addr_of (s:string) : n = n_of_int (int_of_string s)

(* environment from association lists: (kind, path) -> address *)
let mk_env (addrs : ((objkind * int list) * n) list) (hash : n list -> n) (uuids : string) : env =
  { addr = (fun o -> let (k, p) = o in
                     let key = (k, List.map int_of_nat p) in
                     (try List.assoc key addrs with Not_found -> N0));
    std_hash = hash;
    uuid = (fun _ -> bytes_of_string uuids);
    cache = (fun _ -> None) }

let empty_machine = Machine ([], [], [], [])

let handle (line:string) : string =
  match split line with
  | ["variant"] ->
      let v = current_variant in
      Printf.sprintf "bits=%s clean=%s cache_safe=%s source_ok=%s inventory=%d harmful=%d unaccounted=%d"
        (bits_of_variant v) (b2s (transform_clean v)) (b2s (cache_safe v)) (b2s env_source_ok)
        (List.length env_inventory)
        (List.length (List.filter (fun d -> not (dep_harmless d)) env_inventory))
        (List.length (List.filter (fun d -> not (dep_accounted d)) env_inventory))
  | "cskel" :: bits :: root :: children ->
      (* cskel <bits> <addr of the root DOMDocument> <addr of child k's DOMDocument>*  -> prefix:md5 per machine *)
      let v = variant_of_bits bits in
      let addrs = ((KDoc, []), addr_of root) :: List.mapi (fun k a -> ((KDoc, [k]), addr_of a)) children in
      let e = mk_env addrs (fun _ -> N0) "" in
      let doc = Machine ([], [], [], List.map (fun _ -> (Some (bytes_of_string "i"), empty_machine)) children) in
      let sk = c_skeleton md5 v e doc in
      String.concat " " (List.map string_of_bytes sk)
  | "pmlblocks" :: bits :: scxml :: rest ->
      (* pmlblocks <bits> <addr of root <scxml>> (<hex id|-> <addr of the invoke element>)*  -> block prefixes in emission order *)
      let v = variant_of_bits bits in
      let rec pairs = function a :: b :: r -> (a, b) :: pairs r | _ -> [] in
      let ps = pairs rest in
      let addrs = ((KScxml, []), addr_of scxml) :: List.mapi (fun k (_, a) -> ((KInvoke, [k]), addr_of a)) ps in
      let e = mk_env addrs (fun _ -> N0) "RANDOMUUID" in
      let doc = Machine ([], [], [], List.map (fun (i, _) -> ((if i = "-" then None else Some (bytes_of_hex i)), empty_machine)) ps) in
      String.concat " " (List.map string_of_bytes (pml_blocks macro_name v e doc))
  | ["pmlprefix"; bits; k; id; docaddr] ->
      (* prefix under which the analyser registers <prefix>_sessionid / <prefix>_name of the k-th nested machine *)
      let v = variant_of_bits bits in
      let k = int_of_string k in
      let e = mk_env [((KDoc, [k]), addr_of docaddr)] (fun _ -> N0) "" in
      string_of_bytes (pml_analysis_prefix md5 macro_name v e (nat_of_int k) (Some (bytes_of_hex id)) empty_machine)
  | ["vhdlsig"; bits; hashbyte; ev] ->
      (* escapeMacro(<event>) with std::hash(special characters) mod 256 = <hashbyte> *)
      let v = variant_of_bits bits in
      let e = mk_env [] (fun _ -> n_of_int (int_of_string hashbyte)) "" in
      hex_of_bytes (escape_macro v e (bytes_of_hex ev))
  | ["evorder"; bits; words; addrs] ->
      (* evorder <bits> <hex words in the order added, comma separated> <addresses of the trie nodes in allocation
         order (node 1, 2, ...), comma separated>  -> the words in the order getWordsWithPrefix("") lists them *)
      let v = variant_of_bits bits in
      let ws = List.map bytes_of_hex (String.split_on_char ',' words) in
      let al = if addrs = "-" then [] else List.mapi (fun k a -> ((KTrieNode, [k + 1]), addr_of a)) (String.split_on_char ',' addrs) in
      let e = mk_env al (fun _ -> N0) "" in
      let doc = Machine ([], ws, [], []) in
      String.concat "," (List.map hex_of_bytes (event_order v e doc))
  | ["special"; ev] ->
      (* the characters escapeMacro hashes *)
      let e = mk_env [] (fun s -> N0) "" in
      ignore e;
      hex_of_bytes (List.filter (fun c -> let c = int_of_n c in not ((c >= 48 && c <= 57) || (c >= 65 && c <= 90) || (c >= 97 && c <= 122) || c = 95)) (bytes_of_hex ev))
  | ["hasids"; spec] ->
      (* spec: one character per invoke of the root, '1' = has id *)
      let doc = Machine ([], [], [], List.init (String.length spec) (fun i -> ((if spec.[i] = '1' then Some (bytes_of_string "i") else None), empty_machine))) in
      b2s (has_ids doc)
  | ["printptr"; a] -> string_of_bytes (print_ptr (addr_of a))
  | _ -> "ERR unknown command"

let () = main_loop handle
