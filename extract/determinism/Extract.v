(* Extract.v -- C20: extraction of the executable model Determinism.v (model file only, no lemma files) with
   ExtrOcamlBasic only.  No Extract Constant. *)
Require Extraction.
Require Import ExtrOcamlBasic.
From V Require Import Base GenEnvDeps Determinism.
Extraction Language OCaml.
Extraction "vmodel.ml"
  Machine has_ids mkEnv mkVariant mkCache pinned_variant repaired_variant current_variant transform_clean cache_safe
  print_ptr c_skeleton pml_literals pml_blocks pml_analysis_prefix vhdl_signals escape_macro event_order trie_of trie_words_doc
  cache_after_init tables_used cache_written no_cache
  v_c_prefix_ptr v_pml_prefix_leak v_pml_ptr_order v_vhdl_std_hash v_trie_ptr_merge v_fast_cache v_cache_md5_guard
  env_inventory dep_harmless dep_flow dep_accounted env_source_ok.
