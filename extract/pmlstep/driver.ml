(* driver.ml -- C06 models, one command per line:
     pml <11 variant bits> <iqcap> <eqcap> <fuel> <tree>   raw TRACE_EXECUTION tokens of the PmlStep model | S:<sids> T:<vids> R:<status>
     views <11 variant bits> <iqcap> <eqcap> <fuel> <tree> observable view of the PmlStep run || view of the Fast run
     guards <11 variant bits> <tree>                       per transition (post-fix order): '-' (no event test) or the literals, hex, comma separated
     guardspec <tree>                                     per transition: '-' (eventless) or the chart's event names name_match_spec matches
     resolvable <hex attr>                                1 if the attribute is "*" or all its descriptors satisfy Trie.resolvable_desc
     trie <star bit> <hex word>,... <hex attr> <hex name> resolved literals | match by the resolution | name_match_spec
   variant bits: in_reads_root initial_break deep_unnegated hist_parent_test hist_or star_in_list_ignored hist_covered found_stale hist_inner_first cond_bare completion_guarded *)
open Vmodel

(*COMMON*)

type sexp = Atom of string | L of sexp list

let parse_sexp (s : string) : sexp list =
  let n = String.length s in
  let pos = ref 0 in
  let rec skip () = while !pos < n && (s.[!pos] = ' ' || s.[!pos] = '\t') do incr pos done in
  let rec parse_list () : sexp list =
    skip ();
    if !pos >= n then []
    else if s.[!pos] = ')' then []
    else begin
      let x = parse_one () in
      x :: parse_list ()
    end
  and parse_one () : sexp =
    skip ();
    if s.[!pos] = '(' then begin
      incr pos;
      let l = parse_list () in
      skip ();
      if !pos < n && s.[!pos] = ')' then incr pos;
      L l
    end else begin
      let st = !pos in
      while !pos < n && s.[!pos] <> ' ' && s.[!pos] <> '(' && s.[!pos] <> ')' do incr pos done;
      Atom (String.sub s st (!pos - st))
    end in
  parse_list ()

let z_of_int (i:int) : z = if i = 0 then Z0 else if i > 0 then Zpos (pos_of_int i) else Zneg (pos_of_int (-i))
let int_of_z = function Z0 -> 0 | Zpos p -> int_of_pos p | Zneg p -> - (int_of_pos p)
let atom = function Atom a -> a | L _ -> failwith "atom expected"
let nat_n a = n_of_int (int_of_string (atom a))

let rec iexpr_of = function
  | Atom "bad" -> IBad
  | L [Atom "n"; a] -> INum (z_of_int (int_of_string (atom a)))
  | L [Atom "v"; a] -> IVar (nat_n a)
  | L [Atom "+"; a; b] -> IAdd (iexpr_of a, iexpr_of b)
  | L [Atom "-"; a; b] -> ISub (iexpr_of a, iexpr_of b)
  | _ -> failwith "iexpr"
let rec bexpr_of = function
  | Atom "true" -> BTrue | Atom "false" -> BFalse | Atom "bad" -> BBad
  | L [Atom "in"; a] -> BIn (nat_n a)
  | L [Atom "<"; a; b] -> BLt (iexpr_of a, iexpr_of b)
  | L [Atom "!"; a] -> BNot (bexpr_of a)
  | L [Atom "&"; a; b] -> BAnd (bexpr_of a, bexpr_of b)
  | L [Atom "|"; a; b] -> BOr (bexpr_of a, bexpr_of b)
  | _ -> failwith "bexpr"
let rec instr_of = function
  | L [Atom "raise"; v; e] -> IRaise (nat_n v, bytes_of_hex (atom e))
  | L [Atom "send"; v; e] -> ISend (nat_n v, bytes_of_hex (atom e))
  | L [Atom "sendbt"; v; e] -> ISendBadType (nat_n v, bytes_of_hex (atom e))
  | L [Atom "sendbg"; v; e] -> ISendBadTarget (nat_n v, bytes_of_hex (atom e))
  | L [Atom "log"; v; e] -> ILog (nat_n v, iexpr_of e)
  | L [Atom "assign"; v; x; e] -> IAssign (nat_n v, nat_n x, iexpr_of e)
  | L (Atom "if" :: v :: c :: items) -> IIf (nat_n v, bexpr_of c, List.map item_of items)
  | _ -> failwith "instr"
and item_of = function
  | L [Atom "elseif"; c] -> FElseif (bexpr_of c)
  | L [Atom "else"] -> FElse
  | x -> FInstr (instr_of x)
let block_of = function L l -> List.map instr_of l | _ -> failwith "block"
let trans_of = function
  | L [Atom "t"; vid; ev; cond; tg; internal; body] ->
      { tt_vid = nat_n vid;
        tt_event = (match ev with Atom "-" -> None | a -> Some (bytes_of_hex (atom a)));
        tt_cond = (match cond with Atom "-" -> None | c -> Some (bexpr_of c));
        tt_targets = (match tg with Atom "-" -> None | L l -> Some (List.map nat_n l) | _ -> failwith "targets");
        tt_internal = (atom internal = "1");
        tt_body = block_of body }
  | _ -> failwith "trans"
let kind_of = function
  | "scxml" -> KScxml | "state" -> KState | "parallel" -> KParallel | "final" -> KFinal
  | "hs" -> KHistShallow | "hd" -> KHistDeep | "initial" -> KInitial | _ -> failwith "kind"
let rec tree_of = function
  | L [Atom "N"; k; sid; ini; L (Atom "T" :: ts); L (Atom "EN" :: en); L (Atom "EX" :: ex); L (Atom "D" :: ds); L (Atom "K" :: kids)] ->
      TNode (kind_of (atom k), nat_n sid,
             (match ini with Atom "-" -> None | L l -> Some (List.map nat_n l) | _ -> failwith "init"),
             List.map trans_of ts, List.map block_of en, List.map block_of ex,
             List.map (function L [v; e] -> (nat_n v, iexpr_of e) | _ -> failwith "data") ds,
             List.map tree_of kids)
  | _ -> failwith "tree"

let bits s i = String.length s > i && s.[i] = '1'
let variant_of (s : string) : pml_variant =
  { pv_in_reads_root = bits s 0; pv_initial_break = bits s 1; pv_deep_unnegated = bits s 2;
    pv_hist_parent_test = bits s 3; pv_hist_or = bits s 4; pv_hist_covered = bits s 6; pv_hist_inner_first = bits s 8; pv_found_stale = bits s 7; pv_cond_bare = bits s 9; pv_completion_guarded = bits s 10; pv_trie = (bits s 5) }

let rec nat_mem (x : int) = function [] -> false | y :: r -> (int_of_nat y = x) || nat_mem x r
let bitstr (n : int) (l : nat list) : string =
  let il = List.map int_of_nat l in
  String.init n (fun i -> if List.mem i il then '1' else '0')
let ni k = string_of_int (int_of_nat k)

let ptok_str (n : int) (nt : int) (t : ptok) : string = match t with
  | PStep -> "STEP" | PSpont -> "SP" | PDeqInt -> "DI" | PDeqExt -> "DE"
  | PEvent e -> "EV:" ^ hex_of_bytes e
  | PConfig s -> "CF:" ^ bitstr n s | PSelected s -> "ST:" ^ bitstr nt s
  | PTarget s -> "TS:" ^ bitstr n s | PExit s -> "XS:" ^ bitstr n s
  | PInitialEntry -> "INIT" | PFound -> "FOUND" | PNotFound -> "NONE"
  | PSaveHist -> "SAVEH" | PHistExit i -> "HX:" ^ ni i
  | PHComplet s -> "HC:" ^ bitstr n s | PHConfig s -> "HG:" ^ bitstr n s | PHTmp s -> "HT:" ^ bitstr n s
  | PHistory s -> "HI:" ^ bitstr n s
  | PDescHist i -> "DH:" ^ ni i | PFresh -> "FRESH" | PEstab -> "ESTAB" | PDeep -> "DEEP"
  | PDescInit i -> "DIN:" ^ ni i | PAddTrans j -> "ADDT:" ^ ni j
  | PEntrySet s -> "ES:" ^ bitstr n s
  | PExiting i -> "X:" ^ ni i | PProcExit i -> "PX:" ^ ni i
  | PTaking j -> "T:" ^ ni j | PProcTrans j -> "PT:" ^ ni j
  | PEntering i -> "E:" ^ ni i | PProcEntry i -> "PE:" ^ ni i
  | PLog z -> "LOG:" ^ string_of_int (int_of_z z)
  | PFinished -> "FIN" | PDone -> "DONE" | PTimeout -> "TIMEOUT" | PQueueFull -> "QFULL" | PLimit -> "LIMIT"

let status_str = function
  | PRunning -> "running" | PTerminated -> "terminated" | PBlocked -> "blocked" | PFull -> "queue-full" | POutOfFuel -> "limit"

let vtok_str = function
  | VEv e -> "EV:" ^ hex_of_bytes e
  | VMsB -> "MS{" | VMsE -> "}MS"
  | VCfg l -> "CFG:" ^ String.concat "," (List.map (fun x -> string_of_int (int_of_n x)) l)
  | VExit s -> "X:" ^ string_of_int (int_of_n s)
  | VTrans v -> "T:" ^ string_of_int (int_of_n v)
  | VEnter s -> "E:" ^ string_of_int (int_of_n s)
  | VLog z -> "LOG:" ^ string_of_int (int_of_z z)
  | VFin -> "FIN"

let handle (line : string) : string =
  match parse_sexp line with
  | Atom "pml" :: Atom vb :: Atom iq :: Atom eq :: Atom fuel :: tree :: _ ->
      let t = tree_of tree in
      let c = flatten false t in
      let n = List.length c.fc_states and nt = List.length c.fc_trans in
      let (toks, st) = pml_run (variant_of vb) c (nat_of_int (int_of_string iq)) (nat_of_int (int_of_string eq)) (nat_of_int (int_of_string fuel)) in
      String.concat " " (List.map (ptok_str n nt) toks) ^ " | S:" ^
      String.concat "," (List.map (fun s -> string_of_int (int_of_n s.fs_sid)) c.fc_states) ^ " T:" ^
      String.concat "," (List.map (fun t -> string_of_int (int_of_n t.ft_vid)) c.fc_trans) ^ " R:" ^ status_str st
  | Atom "views" :: Atom vb :: Atom iq :: Atom eq :: Atom fuel :: tree :: _ ->
      let t = tree_of tree in
      let c = flatten false t in
      let f = nat_of_int (int_of_string fuel) in
      let (toks, st) = pml_run (variant_of vb) c (nat_of_int (int_of_string iq)) (nat_of_int (int_of_string eq)) f in
      let (ftoks, _) = run_fast ex_fixed false t [] f in
      String.concat " " (List.map vtok_str (pview c toks)) ^ " || " ^ String.concat " " (List.map vtok_str (fview ftoks)) ^ " || " ^ status_str st
  | Atom "guards" :: Atom vb :: tree :: _ ->
      let c = flatten false (tree_of tree) in
      let v = variant_of vb in
      String.concat " " (List.mapi (fun j _ ->
        match guard_literals v c (nat_of_int j) with
        | None -> "-"
        | Some l -> "[" ^ String.concat "," (List.sort_uniq compare (List.map hex_of_bytes l)) ^ "]") c.fc_trans)
  | Atom "guardspec" :: tree :: _ ->
      let c = flatten false (tree_of tree) in
      let names = List.sort_uniq compare (List.map hex_of_bytes (chart_event_names c)) in
      String.concat " " (List.map (fun t ->
        if t.ft_spontaneous then "-" else
        let l = List.filter (fun h -> name_match_spec t.ft_event (bytes_of_hex h)) names in
        (if l = names then "all:" else "") ^ "[" ^ String.concat "," l ^ "]") c.fc_trans)
  | Atom "resolvable" :: Atom attr :: _ ->
      let a = bytes_of_hex attr in
      b2s (a = [n_of_int 42] || List.for_all resolvable_desc (tokens a))
  | Atom "trie" :: Atom star :: Atom ws :: Atom attr :: Atom name :: _ ->
      let words = if ws = "-" then [] else List.map bytes_of_hex (String.split_on_char ',' ws) in
      let t = trie_of words in
      let a = bytes_of_hex attr and nm = bytes_of_hex name in
      let r = resolve_attr (star = "1") t a in
      (match r with None -> "-" | Some l -> "[" ^ String.concat "," (List.sort_uniq compare (List.map hex_of_bytes l)) ^ "]") ^
      " m=" ^ b2s (resolved_match r nm) ^ " spec=" ^ b2s (name_match_spec a nm) ^
      " wf=" ^ b2s (wf_descs a) ^ " canon=" ^ b2s (List.for_all canonical_name words && canonical_name nm)
  | _ -> "ERR unknown command"

let () = main_loop handle
