(* extraction of the C06 models: the emitted Promela step process (PmlStep), the event trie (Trie), and
   the fast engine model the equivalence statement compares with (ExtrOcamlBasic only) *)
Require Extraction.
Require Import ExtrOcamlBasic.
From V Require Import Base NameMatch Chart Exec Large Interp Fast Trie PmlStep.
Extraction Language OCaml.
Extraction "vmodel.ml" pml_run_tree pml_run pml_as_written pml_repaired Build_pml_variant Build_trie_variant
  flatten pview fview run_fast ex_fixed trie_of resolve_attr resolved_match chart_event_names guard_literals
  words_with_prefix name_match_spec dot_tokens canonical_name wf_descs strip_desc resolvable_desc tokens.
