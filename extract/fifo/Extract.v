(* Extract.v -- C08: extraction of the executable models Fifo.v and StepCtl.v (model files only, no lemma
   files), ExtrOcamlBasic only; N, positive, nat stay the extracted inductive datatypes. *)
Require Extraction.
Require Import ExtrOcamlBasic.
From Coq Require Import NArith List.
From V Require Import Fifo StepCtl GenStepCtl.
Extraction Language OCaml.

Definition fifo_run_n (sc : list (op N)) : fstate N := frun sc.
Definition fifo_admissible_n := @fifo_admissibleb N N.eqb.
Definition dequeued_n (s : fstate N) := dequeued s.
Definition enqueued_n (sc : list (op N)) := enqueued sc.
Definition lrun_n := @lrun N.
Definition linit_n := @linit N.
Definition lin_order_n := @lin_order N.

Extraction "vmodel.ml"
  fifo_run_n fifo_admissible_n dequeued_n enqueued_n lrun_n linit_n lin_order_n inventory_discipline
  queue_class_atomic
  cinit cstep cinput crun crun_steps ctrace observe cv_as_written cv_repaired mkCV
  ext_quiescentb ext_strictly_quiescentb int_taken ext_taken raised arrived processed
  macrostep_okb toks_of gate_okb skeleton_recheck large_landmarks fast_landmarks.
