(* driver.ml -- C08: line-oriented front end of the extracted Fifo / StepCtl models.
     sched <nb|blk> <counts c1,c2,..> <sched over 1..9,A..Z (producers 10..),d>
         -> valid=<0|1> deq=<result of every completed dequeue: pK.S or _> order=<enqueue order> wait=<0|1>
            left=<still queued> adm=<fifo_admissibleb prods false dequeued>
     adm <counts> <complete 0|1> <pK.S,pK.S,...|->       -> 0|1   (the property oracle on an observed sequence)
     ctl <recheck 0|1><drop_unnamed 0|1> <item,item,...>   items: S:<enabled 0|1>:<topfinal 0|1>:<sel>:<ms>:<inv> (lists: ids joined by '.', or -)
                                        R<id> | C
         -> one group per S: <RET>[;EV:<id>][;MS][;ST] ... | q=<ext_quiescentb> sq=<ext_strictly_quiescentb>
            int=<internal events taken> ext=<external events taken>
     macro <E<id>|I<id>|R<id>,...|->   -> macrostep_okb (E external event processed, I internal, R raised)
     skeleton                          -> which control-model variant the regenerated landmark sequences of the two
                                          engines correspond to (recheck switch 0|1, or none)
     gate <string over e,t,x>          -> gate_okb (e: an event-less transition became enabled, t: it was taken,
                                          x: an external event was taken) *)
open Vmodel

(*COMMON*)

let ev_name (p, s) = Printf.sprintf "p%d.%d" (int_of_nat p + 1) (int_of_n s)
let names l = if l = [] then "-" else String.concat "," (List.map ev_name l)
let counts_of s = List.map int_of_string (String.split_on_char ',' s)
let prods_of counts = List.map (fun c -> List.init c (fun i -> n_of_int i)) counts

let parse_obs s =
  if s = "-" then [] else
  List.map (fun nm ->
    (* pK.S *)
    let dot = String.index nm '.' in
    let k = int_of_string (String.sub nm 1 (dot - 1)) in
    let q = int_of_string (String.sub nm (dot + 1) (String.length nm - dot - 1)) in
    (nat_of_int (k - 1), n_of_int q)) (String.split_on_char ',' s)

let ids s = if s = "-" || s = "" then [] else List.map (fun x -> n_of_int (int_of_string x)) (String.split_on_char '.' s)

let retname = function
  | RInitialized -> "INITIALIZED" | RFinished -> "FINISHED" | RMicrostepped -> "MICROSTEPPED"
  | RMacrostepped -> "MACROSTEPPED" | RIdle -> "IDLE" | RCancelled -> "CANCELLED"

let group (a : act list) : string =
  let o = observe a in
  let ret = List.fold_left (fun acc x -> match x with ORet r -> retname r | _ -> acc) "?" o in
  ret ^ String.concat "" (List.map (function
      | OEvent e -> ";EV:" ^ string_of_int (int_of_n e)
      | OMicro -> ";MS" | OStable -> ";ST" | ORet _ -> "") o)

let handle (line:string) : string =
  match split line with
  | ["sched"; mode; counts; sched] ->
      let counts = counts_of counts in
      let next = Array.make (List.length counts + 1) 0 in
      let ops = ref [] in
      String.iter (fun ch ->
        if ch = 'd' then ops := (if mode = "blk" then DeqW else Deq) :: !ops
        else if (ch >= '1' && ch <= '9') || (ch >= 'A' && ch <= 'Z') then begin
          let k = if ch <= '9' then Char.code ch - Char.code '0' else Char.code ch - Char.code 'A' + 10 in
          ops := Enq (nat_of_int (k - 1), n_of_int next.(k)) :: !ops;
          next.(k) <- next.(k) + 1 end) (if sched = "-" then "" else sched);
      let sc = List.rev !ops in
      let s = fifo_run_n sc in
      let deq = String.concat "," (List.map (function Some x -> ev_name x | None -> "_") s.fout) in
      Printf.sprintf "valid=%s deq=%s order=%s wait=%s left=%s adm=%s" (b2s s.fvalid)
        (if deq = "" then "-" else deq) (names (enqueued_n sc)) (b2s s.fwait) (names s.fq)
        (b2s (fifo_admissible_n (prods_of counts) false (dequeued_n s)))
  | ["adm"; counts; complete; obs] ->
      b2s (fifo_admissible_n (prods_of (counts_of counts)) (complete = "1") (parse_obs obs))
  | ["ctl"; v; script] ->
      (* variant: two characters, recheck and drop_unnamed, e.g. 00 = as written, 11 = both repairs *)
      let v = { cv_recheck = (String.length v > 0 && v.[0] = '1'); cv_drop_unnamed = (String.length v > 1 && v.[1] = '1') } in
      let ins = List.map (fun it ->
        if it = "C" then ICancel
        else if it.[0] = 'R' then IArrive (n_of_int (int_of_string (String.sub it 1 (String.length it - 1))))
        else match String.split_on_char ':' it with
          | ["S"; e; t; sel; ms; inv] ->
              IStep { o_enabled = (e = "1"); o_raise_sel = ids sel; o_raise_ms = ids ms; o_raise_inv = ids inv;
                      o_topfinal = (t = "1") }
          | _ -> failwith ("bad item " ^ it)) (String.split_on_char ',' script) in
      let groups = crun_steps v cinit ins in
      let outs = List.filter_map (fun (i, a) -> match i with IStep _ -> Some (group a) | _ -> None)
          (List.combine ins groups) in
      let tr = ctrace v ins in
      let il l = if l = [] then "-" else String.concat "." (List.map (fun x -> string_of_int (int_of_n x)) l) in
      Printf.sprintf "%s | q=%s sq=%s int=%s ext=%s" (String.concat " " outs)
        (b2s (ext_quiescentb tr)) (b2s (ext_strictly_quiescentb tr)) (il (int_taken tr)) (il (ext_taken tr))
  | ["macro"; toks] ->
      let l = if toks = "-" then [] else List.map (fun t ->
        let id = n_of_int (int_of_string (String.sub t 1 (String.length t - 1))) in
        match t.[0] with 'E' -> TExt id | 'I' -> TInt id | 'R' -> TRaise id | _ -> failwith ("bad token " ^ t))
        (String.split_on_char ',' toks) in
      b2s (macrostep_okb l)
  | ["gate"; toks] ->
      let l = List.filter_map (fun ch -> match ch with 'e' -> Some GEnabled | 't' -> Some GTaken | 'x' -> Some GExt | _ -> None)
          (List.init (String.length toks) (String.get toks)) in
      b2s (gate_okb l)
  | ["skeleton"] ->
      let f l = match skeleton_recheck l with Some true -> "1" | Some false -> "0" | None -> "none" in
      Printf.sprintf "large=%s fast=%s" (f large_landmarks) (f fast_landmarks)
  | _ -> "ERR unknown command"

let () = main_loop handle
