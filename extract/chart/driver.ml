(* driver.ml -- chart semantics models: `run ...` and `tables ...` commands, one per line *)
open Vmodel

(*COMMON*)

(* ---- s-expressions ---- *)
type sexp = Atom of string | L of sexp list

let parse_sexp (s : string) : sexp list =
  let n = String.length s in
  let pos = ref 0 in
  let rec skip () = while !pos < n && (s.[!pos] = ' ' || s.[!pos] = '\t') do incr pos done in
  let rec parse_list () : sexp list =
    skip ();
    if !pos >= n then []
    else if s.[!pos] = ')' then []
    else begin
      let x = parse_one () in
      x :: parse_list ()
    end
  and parse_one () : sexp =
    skip ();
    if s.[!pos] = '(' then begin
      incr pos;
      let l = parse_list () in
      skip ();
      if !pos < n && s.[!pos] = ')' then incr pos;
      L l
    end else begin
      let st = !pos in
      while !pos < n && s.[!pos] <> ' ' && s.[!pos] <> '(' && s.[!pos] <> ')' do incr pos done;
      Atom (String.sub s st (!pos - st))
    end in
  parse_list ()

let z_of_int (i:int) : z = if i = 0 then Z0 else if i > 0 then Zpos (pos_of_int i) else Zneg (pos_of_int (-i))
let int_of_z = function Z0 -> 0 | Zpos p -> int_of_pos p | Zneg p -> - (int_of_pos p)
let atom = function Atom a -> a | L _ -> failwith "atom expected"
let nat_n a = n_of_int (int_of_string (atom a))

let rec iexpr_of = function
  | Atom "bad" -> IBad
  | L [Atom "n"; a] -> INum (z_of_int (int_of_string (atom a)))
  | L [Atom "v"; a] -> IVar (nat_n a)
  | L [Atom "+"; a; b] -> IAdd (iexpr_of a, iexpr_of b)
  | L [Atom "-"; a; b] -> ISub (iexpr_of a, iexpr_of b)
  | _ -> failwith "iexpr"
let rec bexpr_of = function
  | Atom "true" -> BTrue | Atom "false" -> BFalse | Atom "bad" -> BBad
  | L [Atom "in"; a] -> BIn (nat_n a)
  | L [Atom "<"; a; b] -> BLt (iexpr_of a, iexpr_of b)
  | L [Atom "!"; a] -> BNot (bexpr_of a)
  | L [Atom "&"; a; b] -> BAnd (bexpr_of a, bexpr_of b)
  | L [Atom "|"; a; b] -> BOr (bexpr_of a, bexpr_of b)
  | _ -> failwith "bexpr"
let rec instr_of = function
  | L [Atom "raise"; v; e] -> IRaise (nat_n v, bytes_of_hex (atom e))
  | L [Atom "send"; v; e] -> ISend (nat_n v, bytes_of_hex (atom e))
  | L [Atom "sendbt"; v; e] -> ISendBadType (nat_n v, bytes_of_hex (atom e))
  | L [Atom "sendbg"; v; e] -> ISendBadTarget (nat_n v, bytes_of_hex (atom e))
  | L [Atom "log"; v; e] -> ILog (nat_n v, iexpr_of e)
  | L [Atom "assign"; v; x; e] -> IAssign (nat_n v, nat_n x, iexpr_of e)
  | L (Atom "if" :: v :: c :: items) -> IIf (nat_n v, bexpr_of c, List.map item_of items)
  | _ -> failwith "instr"
and item_of = function
  | L [Atom "elseif"; c] -> FElseif (bexpr_of c)
  | L [Atom "else"] -> FElse
  | x -> FInstr (instr_of x)
let block_of = function L l -> List.map instr_of l | _ -> failwith "block"
let trans_of = function
  | L [Atom "t"; vid; ev; cond; tg; internal; body] ->
      { tt_vid = nat_n vid;
        tt_event = (match ev with Atom "-" -> None | a -> Some (bytes_of_hex (atom a)));
        tt_cond = (match cond with Atom "-" -> None | c -> Some (bexpr_of c));
        tt_targets = (match tg with Atom "-" -> None | L l -> Some (List.map nat_n l) | _ -> failwith "targets");
        tt_internal = (atom internal = "1");
        tt_body = block_of body }
  | _ -> failwith "trans"
let kind_of = function
  | "scxml" -> KScxml | "state" -> KState | "parallel" -> KParallel | "final" -> KFinal
  | "hs" -> KHistShallow | "hd" -> KHistDeep | "initial" -> KInitial | _ -> failwith "kind"
let rec tree_of = function
  | L [Atom "N"; k; sid; ini; L (Atom "T" :: ts); L (Atom "EN" :: en); L (Atom "EX" :: ex); L (Atom "D" :: ds); L (Atom "K" :: kids)] ->
      TNode (kind_of (atom k), nat_n sid,
             (match ini with Atom "-" -> None | L l -> Some (List.map nat_n l) | _ -> failwith "init"),
             List.map trans_of ts, List.map block_of en, List.map block_of ex,
             List.map (function L [v; e] -> (nat_n v, iexpr_of e) | _ -> failwith "data") ds,
             List.map tree_of kids)
  | _ -> failwith "tree"

let rc_name c = match int_of_n c with
  | 0 -> "FINISHED" | 1 -> "INITIALIZED" | 2 -> "MICROSTEPPED" | 3 -> "MACROSTEPPED" | 4 -> "IDLE" | 5 -> "CANCELLED" | _ -> "?"
let tok_str = function
  | TRet c -> "RET:" ^ rc_name c
  | TCfg l -> "CFG:" ^ String.concat "," (List.map (fun x -> string_of_int (int_of_n x)) l)
  | TEv n -> "EV:" ^ hex_of_bytes n
  | TMsB -> "MS{" | TMsE -> "}MS"
  | TXb s -> "X{:" ^ string_of_int (int_of_n s) | TXe s -> "}X:" ^ string_of_int (int_of_n s)
  | TTb s -> "T{:" ^ string_of_int (int_of_n s) | TTe s -> "}T:" ^ string_of_int (int_of_n s)
  | TEb s -> "E{:" ^ string_of_int (int_of_n s) | TEe s -> "}E:" ^ string_of_int (int_of_n s)
  | TCb s -> "C{:" ^ string_of_int (int_of_n s) | TCe s -> "}C:" ^ string_of_int (int_of_n s)
  | TLog z -> "LOG:" ^ string_of_int (int_of_z z)
  | TStable -> "STABLE" | TComplB -> "COMPL{" | TComplE -> "}COMPL"
  | TDiag d -> "DIAG:" ^ string_of_int (int_of_n d)

let after s k = String.sub s k (String.length s - k)
let starts s p = String.length s >= String.length p && String.sub s 0 (String.length p) = p
let rc_code = function
  | "FINISHED" -> 0 | "INITIALIZED" -> 1 | "MICROSTEPPED" -> 2 | "MACROSTEPPED" -> 3 | "IDLE" -> 4 | "CANCELLED" -> 5 | _ -> 9
let tok_of (s:string) : tok =
  let num k = n_of_int (int_of_string (after s k)) in
  if s = "MS{" then TMsB else if s = "}MS" then TMsE
  else if s = "STABLE" then TStable else if s = "COMPL{" then TComplB else if s = "}COMPL" then TComplE
  else if starts s "RET:" then TRet (n_of_int (rc_code (after s 4)))
  else if starts s "CFG:" then TCfg []
  else if starts s "EV:" then TEv (bytes_of_hex (after s 3))
  else if starts s "X{:" then TXb (num 3) else if starts s "}X:" then TXe (num 3)
  else if starts s "T{:" then TTb (num 3) else if starts s "}T:" then TTe (num 3)
  else if starts s "E{:" then TEb (num 3) else if starts s "}E:" then TEe (num 3)
  else if starts s "C{:" then TCb (num 3) else if starts s "}C:" then TCe (num 3)
  else if starts s "LOG:" then TLog (z_of_int (try int_of_string (after s 4) with _ -> 0))
  else failwith ("token " ^ s)

let bits s i = String.length s > i && s.[i] = '1'

let handle (line:string) : string =
  match parse_sexp line with
  | Atom "run" :: Atom "large" :: Atom vflags :: Atom late :: Atom fuel :: tree :: L evs :: _ ->
      let lv = { lg_exit_overreach = bits vflags 0; lg_targetless_exits_root = bits vflags 1; lg_hist_active_parent = bits vflags 2 } in
      let xv = (bits vflags 3) in
      let (toks, store) = run_large lv xv (late = "1") (tree_of tree)
          (List.map (fun e -> bytes_of_hex (atom e)) evs) (nat_of_int (int_of_string fuel)) in
      String.concat " " (List.map tok_str toks) ^ " | " ^
      String.concat " " (List.map (fun (v, z) -> Printf.sprintf "%d=%d" v z)
                           (List.sort compare (List.map (fun (v, z) -> (int_of_n v, int_of_z z)) store)))
  | Atom "run" :: Atom "fast" :: Atom vflags :: Atom late :: Atom fuel :: tree :: L evs :: _ ->
      let (toks, store) = run_fast (bits vflags 3) (late = "1") (tree_of tree)
          (List.map (fun e -> bytes_of_hex (atom e)) evs) (nat_of_int (int_of_string fuel)) in
      String.concat " " (List.map tok_str toks) ^ " | " ^
      String.concat " " (List.map (fun (v, z) -> Printf.sprintf "%d=%d" v z)
                           (List.sort compare (List.map (fun (v, z) -> (int_of_n v, int_of_z z)) store)))
  | Atom "spec" :: Atom late :: Atom fuel :: tree :: L evs :: _ ->
      let (toks, store) = run_spec (late = "1") (tree_of tree)
          (List.map (fun e -> bytes_of_hex (atom e)) evs) (nat_of_int (int_of_string fuel)) in
      String.concat " " (List.map tok_str toks) ^ " | " ^
      String.concat " " (List.map (fun (v, z) -> Printf.sprintf "%d=%d" v z)
                           (List.sort compare (List.map (fun (v, z) -> (int_of_n v, int_of_z z)) store)))
  | Atom "cache" :: Atom vflags :: Atom late :: Atom fuel :: tree :: L evs :: _ ->
      let lv = { lg_exit_overreach = bits vflags 0; lg_targetless_exits_root = bits vflags 1; lg_hist_active_parent = bits vflags 2 } in
      let (_, k) = run_large_c lv (bits vflags 3) (late = "1") (tree_of tree)
          (List.map (fun e -> bytes_of_hex (atom e)) evs) (nat_of_int (int_of_string fuel)) in
      let rows pairs =
        let ps = List.sort_uniq compare (List.map (fun (a, b) -> (int_of_nat a, int_of_nat b)) pairs) in
        let keys = List.sort_uniq compare (List.map fst ps) in
        String.concat "" (List.map (fun a ->
          string_of_int a ^ ":" ^ String.concat "," (List.map (fun (_, b) -> string_of_int b) (List.filter (fun (x, _) -> x = a) ps)) ^ ";") keys) in
      "K compat=" ^ rows k.tc_compat ^ " confl=" ^ rows k.tc_confl
  | Atom "legal" :: Atom late :: tree :: cfgs ->
      let t = tree_of tree in
      String.concat "" (List.map (function L l -> b2s (legal_sids (late = "1") t (List.map nat_n l)) | _ -> "?") cfgs)
  | Atom "wfcore" :: Atom late :: tree :: _ ->
      let c = flatten (late = "1") (tree_of tree) in
      b2s (wf_coreb c && (match (st c O).fs_type with FCompound -> true | _ -> false))
  | Atom "eqguard" :: Atom vflags :: Atom late :: Atom fuel :: tree :: L evs :: _ ->
      (* C03: static and dynamic side conditions of fast_large_run_equiv, evaluated along the large model's run *)
      let c = flatten (late = "1") (tree_of tree) in
      let ch = eq_chartb c in
      let g = ch && eq_guard_run (bits vflags 3) c (nat_of_int (int_of_string fuel)) l_pristine x_init
                      (List.map (fun e -> bytes_of_hex (atom e)) evs) in
      let es = List.map (fun e -> bytes_of_hex (atom e)) evs in
      let chh = eq_chartb_histp c in   (* fast_large_run_equiv_histp: subsumes eq_chartb_hist (histories below <parallel> too) *)
      let gh = chh && eq_guard_run_hist (bits vflags 3) c (nat_of_int (int_of_string fuel)) l_pristine x_init es in
      b2s ch ^ b2s g ^ b2s chh ^ b2s gh
  | Atom "runguard" :: Atom late :: Atom fuel :: tree :: L evs :: _ ->
      (* C01: hypotheses of run_conforms: static conditions, the dynamic guard along the large model's run, run complete *)
      let c = flatten (late = "1") (tree_of tree) in
      let es = List.map (fun e -> bytes_of_hex (atom e)) evs in
      let f = nat_of_int (int_of_string fuel) in
      let s = static_okb c in
      let si = static_ib c in   (* run_conforms_initial: documents with <initial> elements, deep/multiple initial attributes *)
      b2s s ^ b2s (s && run_guardb c es f) ^ b2s (s && run_completeb c es f) ^
      let sh = static_hb c in   (* run_conforms_history_partial: documents with <history> (wf_histb + side conditions) *)
      b2s si ^ b2s (si && run_guardb c es f && run_completeb c es f) ^
      b2s sh ^ b2s (sh && run_guardb c es f && run_completeb c es f) ^
      b2s (sh && run_guardb c es f)   (* run_conforms_prefix_history_partial: needs the guard only *)
  | Atom "reach" :: Atom late :: tree :: _ ->
      (* which theorems' hypotheses the document / its flat tables satisfy *)
      let t = tree_of tree in
      let c = flatten (late = "1") t in
      let root = (match (st c O).fs_type with FCompound -> true | _ -> false) in
      String.concat "" (List.map b2s [wf_coreb c && root; wf_initb c && root; wf_histb c && root; wf_fastb c && root;
                                      core_treeb t; c01_treeb t; eq_chartb c; hist_treeb t; eq_tree_histb t; c01i_treeb t; wf_histpb c && root])
  | Atom "tc" :: Atom late :: tree :: toks ->
      (* the completeness checker of TraceComplete.v on a trace with RET/CFG tokens; CFG carries the sids *)
      let c = flatten (late = "1") (tree_of tree) in
      let tok_cfg s =
        if starts s "CFG:" then
          TCfg (List.map (fun x -> n_of_int (int_of_string x)) (List.filter (fun x -> x <> "") (String.split_on_char ',' (after s 4))))
        else tok_of s in
      let tl = List.map (fun a -> tok_cfg (atom a)) toks in
      if not (sids_distinctb c && raise_names_okb c) then "- hypotheses"
      else if trace_completeb (sid_pos c) tl then "1" else
        (match tc_first_bad (sid_pos c) tc_init tl O with Some k -> "0 " ^ string_of_int (int_of_nat k) | None -> "0 ?")
  | Atom "wf" :: toks ->
      let tl = List.map (fun a -> tok_of (atom a)) toks in
      if wf_traceb tl then "1" else
        (match wf_first_bad [] tl O with Some k -> "0 " ^ string_of_int (int_of_nat k) | None -> "0 ?")
  | _ -> "ERR unknown command"

let () = main_loop handle
