(* extraction of the chart semantics models (ExtrOcamlBasic only) *)
Require Extraction.
Require Import ExtrOcamlBasic.
From V Require Import Base NameMatch Chart Exec Large Interp Spec Legal Trace Fast SetLemmas LegalAbstract LegalLarge WfCore LargeCache.
Extraction Language OCaml.
Extraction "vmodel.ml" run_large_c wf_coreb run_fast legal_sids wf_traceb wf_first_bad run_spec run_large flatten lg_fixed lg_pinned ex_fixed ex_pinned Build_lg_variant Build_ex_variant.
