(* extraction of the chart semantics models (ExtrOcamlBasic only) *)
Require Extraction.
Require Import ExtrOcamlBasic.
From V Require Import Base NameMatch Chart Exec Large Interp Spec Legal Trace Fast SetLemmas LegalAbstract LegalLarge WfCore LargeCache TraceComplete EngineEquivRun EngineEquivHistRun EngineEquivHistParRun LegalHistWf LegalHistFastRun FlattenWf FlattenWfSide RunConformStep RunConformLoop RunConformInitialStep RunConformHistStep FlattenStaticTree FlattenStaticC01 LegalHistParWf.
Extraction Language OCaml.
Extraction "vmodel.ml" eq_chartb_histp wf_histpb static_hb hist_treeb eq_tree_histb c01i_treeb static_ib eq_chartb_hist eq_guard_run_hist static_okb run_guardb run_completeb l_pristine x_init eq_chartb eq_guard_run wf_initb wf_histb wf_fastb core_treeb c01_treeb trace_completeb tc_first_bad tc_init sid_pos sids_distinctb raise_names_okb run_large_c wf_coreb run_fast legal_sids wf_traceb wf_first_bad run_spec run_large flatten lg_fixed lg_pinned ex_fixed ex_pinned Build_lg_variant Build_ex_variant.
