(* extraction of the VHDL next-state model (ExtrOcamlBasic only) *)
Require Extraction.
Require Import ExtrOcamlBasic.
From V Require Import Base NameMatch Chart Exec Large Legal Fast Vhdl.
Extraction Language OCaml.
Extraction "vmodel.ml" gen_eqs eval_eqs next_config vh_selected vh_wfb vh_running all_subsets_legal doc_events
  flatten vh_fixed vh_pinned Build_vh_variant legal_configb vh_order init_config.
