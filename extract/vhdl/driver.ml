(* driver.ml -- C18 model driver.  One command per line:
     eqs <abm> <tree>            wf, events and gen_eqs of the variant (a = anc_outer_index, b = default_ignores_targeted,
                                 m = desc_unstripped; each 0/1) in the term syntax of harness/vhdl_eq.py
     sweep <abm|-> <tree>        for every legal running configuration x (spontaneous, every event) x every valuation of
                                 the condition inputs: the reference next configuration, and (unless `-`) eval_eqs of
                                 the variant's equations
     next <tree> (<cfg mask> <event hex|-> <val mask>)*
                                 reference next configuration and selected transitions (post-fix indices) of single
                                 situations (any event name); first field: init_config
   masks are hexadecimal, bit i = state i / i-th conditional transition *)
open Vmodel

(*COMMON*)

type sexp = Atom of string | L of sexp list

let parse_sexp (s : string) : sexp list =
  let n = String.length s in
  let pos = ref 0 in
  let rec skip () = while !pos < n && (s.[!pos] = ' ' || s.[!pos] = '\t') do incr pos done in
  let rec parse_list () : sexp list =
    skip ();
    if !pos >= n then []
    else if s.[!pos] = ')' then []
    else begin
      let x = parse_one () in
      x :: parse_list ()
    end
  and parse_one () : sexp =
    skip ();
    if s.[!pos] = '(' then begin
      incr pos;
      let l = parse_list () in
      skip ();
      if !pos < n && s.[!pos] = ')' then incr pos;
      L l
    end else begin
      let st = !pos in
      while !pos < n && s.[!pos] <> ' ' && s.[!pos] <> '(' && s.[!pos] <> ')' do incr pos done;
      Atom (String.sub s st (!pos - st))
    end in
  parse_list ()

let z_of_int (i:int) : z = if i = 0 then Z0 else if i > 0 then Zpos (pos_of_int i) else Zneg (pos_of_int (-i))
let atom = function Atom a -> a | L _ -> failwith "atom expected"
let nat_n a = n_of_int (int_of_string (atom a))

let rec iexpr_of = function
  | Atom "bad" -> IBad
  | L [Atom "n"; a] -> INum (z_of_int (int_of_string (atom a)))
  | L [Atom "v"; a] -> IVar (nat_n a)
  | L [Atom "+"; a; b] -> IAdd (iexpr_of a, iexpr_of b)
  | L [Atom "-"; a; b] -> ISub (iexpr_of a, iexpr_of b)
  | _ -> failwith "iexpr"
let rec bexpr_of = function
  | Atom "true" -> BTrue | Atom "false" -> BFalse | Atom "bad" -> BBad
  | L [Atom "in"; a] -> BIn (nat_n a)
  | L [Atom "<"; a; b] -> BLt (iexpr_of a, iexpr_of b)
  | L [Atom "!"; a] -> BNot (bexpr_of a)
  | L [Atom "&"; a; b] -> BAnd (bexpr_of a, bexpr_of b)
  | L [Atom "|"; a; b] -> BOr (bexpr_of a, bexpr_of b)
  | _ -> failwith "bexpr"
let rec instr_of = function
  | L [Atom "raise"; v; e] -> IRaise (nat_n v, bytes_of_hex (atom e))
  | L [Atom "send"; v; e] -> ISend (nat_n v, bytes_of_hex (atom e))
  | L [Atom "sendbt"; v; e] -> ISendBadType (nat_n v, bytes_of_hex (atom e))
  | L [Atom "sendbg"; v; e] -> ISendBadTarget (nat_n v, bytes_of_hex (atom e))
  | L [Atom "log"; v; e] -> ILog (nat_n v, iexpr_of e)
  | L [Atom "assign"; v; x; e] -> IAssign (nat_n v, nat_n x, iexpr_of e)
  | L (Atom "if" :: v :: c :: items) -> IIf (nat_n v, bexpr_of c, List.map item_of items)
  | _ -> failwith "instr"
and item_of = function
  | L [Atom "elseif"; c] -> FElseif (bexpr_of c)
  | L [Atom "else"] -> FElse
  | x -> FInstr (instr_of x)
let block_of = function L l -> List.map instr_of l | _ -> failwith "block"
let trans_of = function
  | L [Atom "t"; vid; ev; cond; tg; internal; body] ->
      { tt_vid = nat_n vid;
        tt_event = (match ev with Atom "-" -> None | a -> Some (bytes_of_hex (atom a)));
        tt_cond = (match cond with Atom "-" -> None | c -> Some (bexpr_of c));
        tt_targets = (match tg with Atom "-" -> None | L l -> Some (List.map nat_n l) | _ -> failwith "targets");
        tt_internal = (atom internal = "1");
        tt_body = block_of body }
  | _ -> failwith "trans"
let kind_of = function
  | "scxml" -> KScxml | "state" -> KState | "parallel" -> KParallel | "final" -> KFinal
  | "hs" -> KHistShallow | "hd" -> KHistDeep | "initial" -> KInitial | _ -> failwith "kind"
let rec tree_of = function
  | L [Atom "N"; k; sid; ini; L (Atom "T" :: ts); L (Atom "EN" :: en); L (Atom "EX" :: ex); L (Atom "D" :: ds); L (Atom "K" :: kids)] ->
      TNode (kind_of (atom k), nat_n sid,
             (match ini with Atom "-" -> None | L l -> Some (List.map nat_n l) | _ -> failwith "init"),
             List.map trans_of ts, List.map block_of en, List.map block_of ex,
             List.map (function L [v; e] -> (nat_n v, iexpr_of e) | _ -> failwith "data") ds,
             List.map tree_of kids)
  | _ -> failwith "tree"

let str_of_bytes (l : n list) : string = String.concat "" (List.map (fun b -> String.make 1 (Char.chr (int_of_n b))) l)

let variant_of (s : string) : vh_variant =
  { vh_anc_outer_index = (s.[0] = '1'); vh_default_ignores_targeted = (s.[1] = '1'); vh_desc_unstripped = (s.[2] = '1') }

let sig_name (evs : string array) = function
  | SActive i -> Printf.sprintf "state_active_%d_sig" (int_of_nat i)
  | SEvent k -> let k = int_of_nat k in Printf.sprintf "event_%s_sig" (if k < Array.length evs then evs.(k) else "?")
  | SCond t -> Printf.sprintf "transition_condition_fulfilled_%d_i" (int_of_nat t)
  | SSpontEn -> "spontaneous_en"
  | SOpt t -> Printf.sprintf "in_optimal_transition_set_%d_sig" (int_of_nat t)
  | SCombined -> "optimal_transition_set_combined_sig"
  | SSpontActive -> "spontaneous_active"
  | SExit i -> Printf.sprintf "in_exit_set_%d_sig" (int_of_nat i)
  | SUp i -> Printf.sprintf "in_complete_entry_set_up_%d_sig" (int_of_nat i)
  | SCes i -> Printf.sprintf "in_complete_entry_set_%d_sig" (int_of_nat i)
  | SEntry i -> Printf.sprintf "in_entry_set_%d_sig" (int_of_nat i)
  | SNext i -> Printf.sprintf "state_next_%d_sig" (int_of_nat i)
  | SCompleted -> "completed_sig"

let rec term evs = function
  | VSig s -> sig_name evs s
  | VConst b -> if b then "'1'" else "'0'"
  | VNot a -> "!" ^ term evs a
  | VAnd (a, b) -> "&(" ^ term evs a ^ " " ^ term evs b ^ ")"
  | VOr (a, b) -> "|(" ^ term evs a ^ " " ^ term evs b ^ ")"

let mask (l : nat list) : int = List.fold_left (fun a i -> a lor (1 lsl (int_of_nat i))) 0 l

let handle (line:string) : string =
  match parse_sexp line with
  | [Atom "eqs"; Atom var; tree] ->
      let c = flatten false (tree_of tree) in
      let evl = List.map str_of_bytes (doc_events c) in
      let evs = Array.of_list evl in
      let eqs = gen_eqs (variant_of var) c in
      Printf.sprintf "wf=%s n=%d T=%d events=%s | %s" (b2s (vh_wfb c)) (List.length c.fc_states) (List.length c.fc_trans)
        (String.concat "," evl)
        (String.concat " ; " (List.map (fun (s, e) -> sig_name evs s ^ " = " ^ term evs e) eqs))
  | [Atom "sweep"; Atom var; tree] ->
      let c = flatten false (tree_of tree) in
      let evl = doc_events c in
      let n = List.length c.fc_states in
      let conds = List.filter (fun ti -> match (List.nth c.fc_trans ti).ft_cond with Some _ -> true | None -> false)
          (List.init (List.length c.fc_trans) (fun i -> i)) in
      let k = List.length conds in
      let cfgs = List.filter (fun cfg -> vh_running c cfg) (all_subsets_legal c) in
      let eqs = if var = "-" then None else Some (gen_eqs (variant_of var) c) in
      let buf = Buffer.create 4096 in
      Buffer.add_string buf (Printf.sprintf "wf=%s n=%d conds=%s events=%s |" (b2s (vh_wfb c)) n
                               (String.concat "," (List.map string_of_int conds)) (String.concat "," (List.map str_of_bytes evl)));
      List.iter (fun cfg ->
          List.iteri (fun ei ev ->
              for vm = 0 to (1 lsl k) - 1 do
                let trues = List.filteri (fun j _ -> (vm lsr j) land 1 = 1) conds in
                let vl = fun t -> List.mem (int_of_nat t) trues in
                let nx = next_config c cfg ev vl in
                let sel = vh_selected c cfg ev vl in
                Buffer.add_string buf (Printf.sprintf " %x:%d:%x:%x:%x" (mask cfg) ei vm (mask nx) (mask sel));
                (match eqs with
                 | None -> ()
                 | Some q -> (match eval_eqs c q cfg ev vl with
                     | Some r -> Buffer.add_string buf (Printf.sprintf ":%x" (mask r))
                     | None -> Buffer.add_string buf ":?"))
              done) (None :: List.map (fun e -> Some e) evl)) cfgs;
      Buffer.contents buf
  | Atom "next" :: tree :: rest ->
      let c = flatten false (tree_of tree) in
      let conds = List.filter (fun ti -> match (List.nth c.fc_trans ti).ft_cond with Some _ -> true | None -> false)
          (List.init (List.length c.fc_trans) (fun i -> i)) in
      let n = List.length c.fc_states in
      let rec go = function
        | Atom cm :: Atom ev :: Atom vm :: r ->
            let cmi = int_of_string ("0x" ^ cm) and vmi = int_of_string ("0x" ^ vm) in
            let cfg = List.map nat_of_int (List.filter (fun i -> (cmi lsr i) land 1 = 1) (List.init n (fun i -> i))) in
            let trues = List.filteri (fun j _ -> (vmi lsr j) land 1 = 1) conds in
            let vl = fun t -> List.mem (int_of_nat t) trues in
            let e = if ev = "-" then None else Some (bytes_of_hex ev) in
            Printf.sprintf "%x:%x" (mask (next_config c cfg e vl)) (mask (vh_selected c cfg e vl)) :: go r
        | [] -> []
        | _ -> failwith "next: triples expected" in
      String.concat " " (Printf.sprintf "%x" (mask (init_config c)) :: go rest)
  | _ -> "ERR unknown command"

let () = main_loop handle
