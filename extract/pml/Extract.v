(* Extract.v -- C17: extraction of the executable Promela-datamodel models (model files and the generated
   tables only, no lemma files), with ExtrOcamlBasic only; N, Z, positive and nat stay the extracted
   inductive datatypes.  No Extract Constant. *)
Require Extraction.
Require Import ExtrOcamlBasic.
From V Require Import Base PmlParse Pml GenPmlPrec GenPmlEval.
Extraction Language OCaml.
Extraction "vmodel.ml"
  parse print_min print_full to_node reparse table_is_C c_table pinned_table gen_table
  eval_impl exec_stmt exec_decl c_eval c_exec_stmt c_exec_decl wt stmt_node decl_node
  pml_pinned pml_fixed gen_variant all_binops binop_code esize.
