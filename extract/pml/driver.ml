(* driver.ml -- C17: line-oriented front end of the extracted Promela-datamodel model.
   case <table> <variant> <item> ; <item> ; ...
     table   = l1,...,l18:r1...r18:neg:umin      (levels / right-assoc bits in the order of all_binops)  | gen | c | pinned
     variant = h1...h18:f1...f7                   (pv_handles bits : uminus_crash div_unguarded index_unguarded
                                                   no_short_circuit field_meta_clobber undeclared_false ord_rtl) | gen | fixed | pinned
     items (prefix notation, names in hex):
       D x | I x <expr> | A x n | = <lval> <expr> | + <lval> | - <lval> | E <expr>
       expr: n<dec> | T | F | v<x> | i<x> <expr> | f<x>.<f>.<g>... | ! <expr> | ~ <expr> | b<code> <expr> <expr>
   answer: items joined by ';', each  kind|textmin|astmin|outmin|textfull|astfull|outfull|oracle|wt
   where text* is the hex of the program text handed to the implementation, ast* the AST dump the
   implementation's parser is predicted to produce for it, out* the predicted answer token of
   `vdriver pml-eval`, oracle the verdict of the reference semantics (ok | V<z> | FAULT | ILL | UNSPEC). *)
open Vmodel

(*COMMON*)

let z_of_int (i:int) : z = if i = 0 then Z0 else if i > 0 then Zpos (pos_of_int i) else Zneg (pos_of_int (-i))
let int_of_z = function Z0 -> 0 | Zpos p -> int_of_pos p | Zneg p -> - (int_of_pos p)
let str_of_bytes (l : n list) = String.concat "" (List.map (fun b -> String.make 1 (Char.chr (int_of_n b))) l)
let bytes_of_str (s : string) : n list = List.init (String.length s) (fun i -> n_of_int (Char.code s.[i]))

let binops = Array.of_list all_binops
let sym = [| "||"; "&&"; "|"; "^"; "&"; "=="; "!="; ">"; "<"; ">="; "<="; "<<"; ">>"; "+"; "-"; "*"; "/"; "%" |]
let desc = [| "OR"; "AND"; "BITOR"; "BITXOR"; "BITAND"; "EQ"; "NE"; "GT"; "LT"; "GE"; "LE"; "LSHIFT"; "RSHIFT";
              "PLUS"; "MINUS"; "TIMES"; "DIVIDE"; "MODULO" |]
let code o = int_of_nat (binop_code o)

(* ---- text of tokens (the lexer of promela.l is not modelled: tokens are separated by one space) ---- *)
let tok_str = function
  | TNum n -> string_of_int (int_of_n n)
  | TTrue -> "true" | TFalse -> "false"
  | TName x -> str_of_bytes x
  | TBin o -> sym.(code o)
  | TNot -> "!" | TLP -> "(" | TRP -> ")" | TLB -> "[" | TRB -> "]" | TDot -> "."
let text_of toks = String.concat " " (List.map tok_str toks)

let plain s = s <> "" && (let ok = ref true in String.iter (fun c -> match c with
  | 'a'..'z' | 'A'..'Z' | '0'..'9' | '_' | '-' -> () | _ -> ok := false) s; !ok) || s = ""
let hexs s = if s = "" then "-" else String.concat "" (List.init (String.length s) (fun i -> Printf.sprintf "%02x" (Char.code s.[i])))
let atomstr s = if plain s then s else "%" ^ hexs s

(* ---- AST dump, as harness/vd_pml.cpp prints PromelaParserNode ---- *)
let ntype_str = function
  | NBin o -> desc.(code o) | NNEG -> "NEG" | NCONST -> "CONST" | NNAME -> "NAME" | NVAR_ARRAY -> "VAR_ARRAY"
  | NCMPND -> "CMPND" | NASGN -> "ASGN" | NINCR -> "INCR" | NDECR -> "DECR" | NSTMNT -> "STMNT" | NDECL -> "DECL"
  | NDECLLIST -> "DECLLIST" | NVARLIST -> "VARLIST" | NTYPE -> "TYPE" | NSHOW -> "SHOW"
let rec sexp (PNode (ty, v, ops)) =
  let vs = match v with NVnone -> "" | NVnum n -> " " ^ string_of_int (int_of_n n) | NVtrue -> " true"
                      | NVfalse -> " false" | NVtxt s -> " " ^ atomstr (str_of_bytes s) in
  "(" ^ ntype_str ty ^ vs ^ String.concat "" (List.map (fun c -> " " ^ sexp c) ops) ^ ")"

(* ---- Data rendering, as harness/vd_pml.cpp ---- *)
let rec render (Data (a, arr, cmp)) =
  let at = match a with
    | AInt z -> "i:" ^ string_of_int (int_of_z z) | AFalse -> "i:false" | AEmptyI -> "i:" | AEmptyV -> "v:"
    | ACompound -> "v:compound" in
  at ^ (if arr = [] then "" else "[" ^ String.concat "," (List.map render arr) ^ "]")
     ^ (if cmp = [] then "" else "{" ^ String.concat "," (List.map (fun (k, d) -> atomstr (str_of_bytes k) ^ "=" ^ render d) cmp) ^ "}")

let out_tok f = function
  | Ok a -> f a
  | ErrEvent -> "ERR"
  | Crash w -> (match int_of_n w with 8 -> "CRASH:8" | 11 -> "CRASH:11" | 1 -> "EXC" | 2 -> "UB" | k -> "CRASH:" ^ string_of_int k)

(* ---- input ---- *)
let bits s = List.init (String.length s) (fun i -> s.[i] = '1')
let table_of s : ptable =
  match s with
  | "gen" -> gen_table | "c" -> c_table | "pinned" -> pinned_table
  | _ ->
    (match String.split_on_char ':' s with
     | [lv; ra; ng; um] ->
        let lv = Array.of_list (List.map int_of_string (String.split_on_char ',' lv)) in
        let ra = Array.of_list (bits ra) in
        { pt_level = (fun o -> nat_of_int lv.(code o)); pt_rassoc = (fun o -> ra.(code o));
          pt_neg = nat_of_int (int_of_string ng); pt_umin = nat_of_int (int_of_string um) }
     | _ -> failwith "table")
let variant_of s : pml_variant =
  match s with
  | "gen" -> gen_variant | "fixed" -> pml_fixed | "pinned" -> pml_pinned
  | _ ->
    (match String.split_on_char ':' s with
     | [h; f] ->
        let h = Array.of_list (bits h) and f = Array.of_list (bits f) in
        { pv_handles = (fun o -> h.(code o)); pv_uminus_crash = f.(0); pv_div_unguarded = f.(1);
          pv_index_unguarded = f.(2); pv_no_short_circuit = f.(3); pv_field_meta_clobber = f.(4);
          pv_undeclared_false = f.(5); pv_ord_rtl = f.(6) }
     | _ -> failwith "variant")

let name_of h = bytes_of_hex h
let rec rd_expr (ts : string list) : expr * string list =
  match ts with
  | [] -> failwith "expr: eof"
  | t :: r ->
    let body = String.sub t 1 (String.length t - 1) in
    (match t.[0] with
     | 'n' -> (EConst (n_of_int (int_of_string body)), r)
     | 'T' -> (EBoolc true, r) | 'F' -> (EBoolc false, r)
     | 'v' -> (EVar (name_of body), r)
     | 'i' -> let (i, r') = rd_expr r in (EIdx (name_of body, i), r')
     | 'f' -> (match List.map name_of (String.split_on_char '.' body) with
               | x :: f :: fs -> (EFld (x, f, fs), r) | _ -> failwith "field")
     | '!' -> let (a, r') = rd_expr r in (EUn (UNeg, a), r')
     | '~' -> let (a, r') = rd_expr r in (EUn (UMinus, a), r')
     | 'b' -> let o = binops.(int_of_string body) in
              let (a, r1) = rd_expr r in let (b, r2) = rd_expr r1 in (EBin (o, a, b), r2)
     | _ -> failwith ("expr: " ^ t))
let rd_lval ts : lval * string list =
  match rd_expr ts with
  | (EVar x, r) -> (LVar x, r) | (EIdx (x, i), r) -> (LIdx (x, i), r) | (EFld (x, f, fs), r) -> (LFld (x, f, fs), r)
  | _ -> failwith "lval"

type item = IDecl of decl | IStmt of stmt | IExpr of expr
let rd_item ts : item =
  match ts with
  | ["D"; x] -> IDecl (DVar (name_of x))
  | "I" :: x :: r -> let (e, r') = rd_expr r in if r' <> [] then failwith "trailing"; IDecl (DInit (name_of x, e))
  | ["A"; x; n] -> IDecl (DArr (name_of x, n_of_int (int_of_string n)))
  | "=" :: r -> let (l, r1) = rd_lval r in let (e, r2) = rd_expr r1 in if r2 <> [] then failwith "trailing"; IStmt (SAsgn (l, e))
  | "+" :: r -> let (l, r1) = rd_lval r in if r1 <> [] then failwith "trailing"; IStmt (SIncr l)
  | "-" :: r -> let (l, r1) = rd_lval r in if r1 <> [] then failwith "trailing"; IStmt (SDecr l)
  | "E" :: r -> let (e, r1) = rd_expr r in if r1 <> [] then failwith "trailing"; IExpr e
  | _ -> failwith "item"

let rec split_items acc cur = function
  | [] -> List.rev (List.rev cur :: acc)
  | ";" :: r -> split_items (List.rev cur :: acc) [] r
  | t :: r -> split_items acc (t :: cur) r

(* ---- printing an item as program text, and reading it back with the implementation's table ---- *)
let pr full e = text_of (if full then print_full e else print_min e)
let lval_text full = function
  | LVar x -> str_of_bytes x
  | LIdx (x, i) -> str_of_bytes x ^ " [ " ^ pr full i ^ " ]"
  | LFld (x, f, fs) -> String.concat " . " (List.map str_of_bytes (x :: f :: fs))
let item_text full = function
  | IDecl (DVar x) -> "int " ^ str_of_bytes x
  | IDecl (DInit (x, e)) -> "int " ^ str_of_bytes x ^ " = " ^ pr full e
  | IDecl (DArr (x, n)) -> "int " ^ str_of_bytes x ^ " [ " ^ string_of_int (int_of_n n) ^ " ]"
  | IStmt (SAsgn (l, e)) -> lval_text full l ^ " = " ^ pr full e
  | IStmt (SIncr l) -> lval_text full l ^ " ++"
  | IStmt (SDecr l) -> lval_text full l ^ " --"
  | IExpr e -> pr full e

exception Syn        (* the text is a syntax error for the implementation's parser *)
exception Unmod of string
let rp t full e = match reparse t full e with
  | POk (e', _) -> e' | PErr -> raise Syn | PUnsup -> raise (Unmod "unsup") | PFuel -> raise (Unmod "fuel")
let rp_lval t full = function
  | LVar x -> LVar x | LIdx (x, i) -> LIdx (x, rp t full i) | LFld (x, f, fs) -> LFld (x, f, fs)
let rp_item t full = function
  | IDecl (DInit (x, e)) -> IDecl (DInit (x, rp t full e))
  | IDecl d -> IDecl d
  | IStmt (SAsgn (l, e)) -> IStmt (SAsgn (rp_lval t full l, rp t full e))
  | IStmt (SIncr l) -> IStmt (SIncr (rp_lval t full l))
  | IStmt (SDecr l) -> IStmt (SDecr (rp_lval t full l))
  | IExpr e -> IExpr (rp t full e)
let item_ast = function
  | IDecl d -> "D" ^ sexp (decl_node d)
  | IStmt s -> "S" ^ sexp (stmt_node s)
  | IExpr e -> "E" ^ sexp (to_node e)
let item_kind = function
  | IDecl _ -> "d" | IStmt _ -> "s" | IExpr _ -> "x"

(* one store thread: returns (ast, out) and the new store; after a crash the thread is dead *)
let run_impl t v (st : (store option) ref) full it =
  try
    let it' = rp_item t full it in
    let ast = item_ast it' in
    match !st with
    | None -> (ast, "-")
    | Some s ->
      (match it' with
       | IExpr e -> let r = eval_impl v s e in      (* vdriver continues after the death of a read-only item *)
           (ast, out_tok (fun d -> "V" ^ render d) r)
       | IStmt sm -> let (s', r) = exec_stmt v s sm in
           (match r with Crash _ -> st := None | _ -> st := Some s');
           (ast, out_tok (fun _ -> "ok") r)
       | IDecl d -> let (s', r) = exec_decl v s d in
           (match r with Crash _ -> st := None | _ -> st := Some s');
           (ast, out_tok (fun _ -> "ok") r))
  with Syn -> ("ERR", (match !st with None -> "-" | Some _ -> "ERR"))
     | Unmod w -> ("UNMODELLED", "UNMODELLED")

let cres_tok = function CVal z -> "V" ^ string_of_int (int_of_z z) | CFault -> "FAULT" | CIll -> "ILL" | CUnspec -> "UNSPEC"
let cstat_tok = function COk -> "ok" | CSFault -> "FAULT" | CSIll -> "ILL" | CSUnspec -> "UNSPEC"
let run_oracle (cs : cstate ref) = function
  | IExpr e -> (cres_tok (c_eval !cs e), b2s (wt !cs e))
  | IStmt s -> let (cs', r) = c_exec_stmt !cs s in cs := cs'; (cstat_tok r, "-")
  | IDecl d -> let (cs', r) = c_exec_decl !cs d in cs := cs'; (cstat_tok r, "-")

let handle (line:string) : string =
  match split line with
  | "case" :: t :: v :: rest ->
      let t = table_of t and v = variant_of v in
      let items = List.map rd_item (split_items [] [] rest) in
      let smin = ref (Some []) and sfull = ref (Some []) and cs = ref [] in
      String.concat ";" (List.map (fun it ->
        let (amin, omin) = run_impl t v smin false it in
        let (afull, ofull) = run_impl t v sfull true it in
        let (orc, wtb) = run_oracle cs it in
        String.concat "|" [item_kind it; hexs (item_text false it); amin; omin; hexs (item_text true it); afull; ofull; orc; wtb]) items)
  | ["tableisc"; t] -> b2s (table_is_C (table_of t))
  | _ -> "ERR unknown command"

let () = main_loop handle
