(* driver.ml -- C09: line-oriented front end of the extracted models Delay / DelayParse.
   Commands (one per line, one answer line each):
     parse <dv> <hex>                     delay string codec (dv = two bits: dpv_wide dpv_init):
                                          impl=<ms>|ub|uninit spec=<ms>|none value=<hex> unit=<hex>
     sim <v> <prog> <sched>               run one schedule:    class=.. steps=.. trace=..
     simc <v> <prog> <sched> [park]       the same, then completed canonically to a terminal state
     enum <v> <prog> <switches> <cap> [atomic]   (atomic: a <cancel> runs uninterrupted and only starts while no
                                          callback is in progress -- for programs with repeated sendids)
                                          all realisable complete schedules with at most <switches>
                                          context switches: <sched>|<class>|<steps>|<trace> joined by ';'
     complete <prog> <trace>              complete_b: 1 iff every event whose sendid the program never cancels was delivered
     oracle <gran> <trace>                delay_admissibleb on an observed history (oldest first in the text)
   <v>     four bits: dv_cb_takes_entry dv_ready_checks dv_cancel_noblock dv_enqueue_arms_first (0000 = the pinned code)
   <prog>  comma separated: S:<uuid>:<sid>:<tgt>:<delay> | C:<sid> | A
   <sched> string over I (interpreter), T (timer), C (clock tick); '-' = empty
   trace   comma separated, oldest first: s:<u>:<sid>:<tgt>:<enq>:<delay> x:<u>:<due> d:<u>:<t>:<tgt>:<0|1> c:<sid>:<t> *)
open Vmodel

(*COMMON*)

let variant_of (s:string) : dvariant =
  { dv_cb_takes_entry = (s.[0] = '1'); dv_ready_checks = (s.[1] = '1'); dv_cancel_noblock = (s.[2] = '1');
    dv_enqueue_arms_first = (String.length s > 3 && s.[3] = '1') }

let ni s = n_of_int (int_of_string s)
let si x = string_of_int (int_of_n x)

let prog_of (s:string) : iop list =
  if s = "-" then [] else
  List.map (fun it ->
    match String.split_on_char ':' it with
    | ["S"; u; sid; tgt; d] -> OSend (ni u, ni sid, ni tgt, ni d)
    | ["C"; sid] -> OCancel (ni sid)
    | ["A"] -> OCancelAll
    | _ -> failwith ("bad op " ^ it)) (String.split_on_char ',' s)

let tid_of = function 'I' -> Interp | 'T' -> Timer | 'C' -> Clock | c -> failwith "bad tid"
let char_of_tid = function Interp -> 'I' | Timer -> 'T' | Clock -> 'C'

let obs_str = function
  | ESend (u, sid, tgt, enq, d) -> Printf.sprintf "s:%s:%s:%s:%s:%s" (si u) (si sid) (si tgt) (si enq) (si d)
  | EExpire (u, due) -> Printf.sprintf "x:%s:%s" (si u) (si due)
  | EDeliver (u, t, tgt, bt) -> Printf.sprintf "d:%s:%s:%s:%s" (si u) (si t) (si tgt) (b2s bt)
  | ECancelDone (sid, t) -> Printf.sprintf "c:%s:%s" (si sid) (si t)

let obs_of (s:string) : obs =
  match String.split_on_char ':' s with
  | ["s"; u; sid; tgt; enq; d] -> ESend (ni u, ni sid, ni tgt, ni enq, ni d)
  | ["x"; u; due] -> EExpire (ni u, ni due)
  | ["d"; u; t; tgt; bt] -> EDeliver (ni u, ni t, ni tgt, bt = "1")
  | ["c"; sid; t] -> ECancelDone (ni sid, ni t)
  | _ -> failwith ("bad obs " ^ s)

let trace_str (tr : obs list) : string =
  if tr = [] then "-" else String.concat "," (List.rev_map obs_str tr)   (* oldest first *)

let class_str v s =
  match classify v pick_min s with
  | OcFault (UseAfterFree u) -> "uaf:" ^ si u
  | OcFault (DoubleFree u) -> "dfree:" ^ si u
  | OcDeadlock -> "deadlock"
  | OcRunning -> "running"
  | OcDone -> "done"

(* one token per scheduled step: what the thread was about to do and how it ended *)
let nprog0 = ref 0
let skipped = ref 0
(* programs with several sends under one sendid: InterpreterImpl::cancelDelayed walks them in the order of their
   (random) UUIDs, so a <cancel> is only enumerated as one uninterrupted run of the interpreter thread that
   starts while no timer callback is in progress *)
let atomic_cancel = ref false
(* the interpreter thread may be parked at interp.enqueue.armed (needs that hook in the tree); otherwise the two
   halves of a delayed send follow each other at once *)
let park_send = ref false
let step_token v (s:dstate) (t:tid) : string =
  let res = dstep v pick_min s t in
  let opidx () = !nprog0 - List.length s.prog in
  match t with
  | Clock -> "C"
  | Interp ->
    let post = match res with
      | None -> "b"
      | Some s' -> (match s'.fault with Some _ -> "f" | None ->
                     (match s'.ipc with IIdle -> "d" | IQBefore _ -> "q" | IQLocked _ -> "l" | IAllLocked -> "l"
                                      | ISendArmed _ -> "a")) in
    (match s.ipc with
     | IIdle -> (match s.prog with
                 | OSend (u, _, _, _) :: _ -> Printf.sprintf "Is%d:%s" (opidx ()) post
                 | OCancel _ :: _ -> Printf.sprintf "Ic%d:%s" (opidx ()) post
                 | OCancelAll :: _ -> Printf.sprintf "Ia%d:%s" (opidx ()) post
                 | [] -> "I-")
     | IAllLocked -> "Ial:" ^ post
     | ISendArmed _ -> "Isa:" ^ post
     | IQBefore _ -> "Iqb:" ^ post
     | IQLocked (_, u, _) -> Printf.sprintf "Iql%s:%s" (si u) post)
  | Timer ->
    let post = match res with
      | None -> "b"
      | Some s' -> (match s'.fault with Some _ -> "f" | None ->
                     (match s'.tpc with TIdle -> "r" | _ -> "n")) in
    (match s.tpc with
     | TIdle -> (match res with Some s' -> (match s'.tpc with TCbEnter u -> "Te" ^ si u | _ -> "T?") | None -> "T-")
     | TCbEnter u -> Printf.sprintf "Tce%s:%s" (si u) post
     | TCbUnlocked u -> Printf.sprintf "Tcu%s:%s" (si u) post
     | TReadyLocked u -> Printf.sprintf "Trl%s:%s" (si u) post
     | TDelivered u -> Printf.sprintf "Tdl%s:%s" (si u) post)

let sim v prog sched =
  nprog0 := List.length prog;
  let s = ref (init prog) in
  let toks = ref [] in
  String.iter (fun c -> let t = tid_of c in
                toks := step_token v !s t :: !toks;
                s := step_or_stay v pick_min !s t) sched;
  (!s, List.rev !toks)

(* ---- enumeration of the schedules the replay can force ----
   eager expiry: when the timer thread is idle and a timer is due, its callback starts before
   anything else happens (libevent does not wait); only enabled steps are scheduled; a clock tick
   only while some timer is armed and not yet due; when the budget of context switches is used up
   the run is completed canonically (current thread first). In a dead-locked state both blocked
   grants are appended. *)
let enabled v s t = match dstep v pick_min s t with Some _ -> true | None -> false
let timer_due s = s.tpc = TIdle && (pick_min (armed_list s.pending) s.now <> None)
let tick_useful s =
  List.exists (fun (_, d) -> int_of_n d > int_of_n s.now) (armed_list s.pending)

let enum_from v prog prefix maxsw cap =
  nprog0 := List.length prog;
  let out = ref [] and count = ref 0 in
  let finish s sched toks =
    incr count;
    out := (String.concat "" (List.rev_map (String.make 1) sched), class_str v s,
            String.concat " " (List.rev toks), trace_str s.trace) :: !out in
  let rec go s last sw sched toks depth =
    if !count >= cap then () else
    let terminal = (match s.fault with Some _ -> true | None -> false) || deadlocked v pick_min s
                   || (quiescent s && armed_list s.pending = []) || depth > 200 in
    if terminal then begin
      if deadlocked v pick_min s then
        finish s sched (step_token v s Timer :: step_token v s Interp :: toks)
      else finish s sched toks
    end else if (s.ipc = IAllLocked || ((not !park_send) && (match s.ipc with ISendArmed _ -> true | _ -> false)))
                && enabled v s Interp then
      step s Interp last sw sched toks depth
    else if !atomic_cancel && (match s.ipc with IQBefore _ | IQLocked _ -> true | _ -> false) && enabled v s Interp then
      step s Interp last sw sched toks depth
    else if timer_due s then begin
      (* two timers with the same (logical) least due time: which of them libevent runs first is decided by
         the sub-tick difference of their real due times, which the replay cannot control: not enumerated *)
      let due = List.filter (fun (_, d) -> int_of_n d <= int_of_n s.now) (armed_list s.pending) in
      let m = List.fold_left (fun a (_, d) -> min a (int_of_n d)) max_int due in
      if List.length (List.filter (fun (_, d) -> int_of_n d = m) due) > 1 then incr skipped
      else step s Timer last sw sched toks depth
    end
    else begin
      let cands = List.filter (fun t -> enabled v s t) [Interp; Timer] in
      let cancel_next = (match s.prog with OCancel _ :: _ -> true | _ -> false) in
      let cands = if !atomic_cancel && s.ipc = IIdle && s.tpc <> TIdle && cancel_next
                  then List.filter (fun t -> t <> Interp) cands else cands in
      let cands = if tick_useful s then cands @ [Clock] else cands in
      let cands = if cands = [] then [Clock] else cands in
      (* with the budget used up: stay on the last thread if it can move, else the other, else tick *)
      let cands =
        if sw >= maxsw then
          (match List.filter (fun t -> t = last) cands with
           | t :: _ -> [t]
           | [] -> (match List.filter (fun t -> t <> Clock) cands with t :: _ -> [t] | [] -> [Clock]))
        else cands in
      List.iter (fun t -> step s t last sw sched toks depth) cands
    end
  and step s t last sw sched toks depth =
    let sw' = if t <> Clock && last <> Clock && t <> last then sw + 1 else sw in
    let last' = if t = Clock then last else t in
    let tok = step_token v s t in
    go (step_or_stay v pick_min s t) last' sw' (char_of_tid t :: sched) (tok :: toks) (depth + 1)
  in
  (* the given prefix is taken as it is (blocked steps included) *)
  let s0 = ref (init prog) and sched0 = ref [] and toks0 = ref [] and last0 = ref Clock in
  String.iter (fun c -> let t = tid_of c in
                toks0 := step_token v !s0 t :: !toks0;
                sched0 := c :: !sched0;
                if t <> Clock then last0 := t;
                s0 := step_or_stay v pick_min !s0 t) prefix;
  go !s0 !last0 0 !sched0 !toks0 0;
  List.rev !out
let enum v prog maxsw cap = enum_from v prog "" maxsw cap

let handle (line:string) : string =
  match split line with
  | ["parse"; dv; h] ->
      let s = bytes_of_hex h in
      let na = num_attr s in
      let dv = { dpv_wide = (dv.[0] = '1'); dpv_init = (dv.[1] = '1') } in
      Printf.sprintf "impl=%s spec=%s value=%s unit=%s"
        (match delay_parse dv s with DpMs m -> si m | DpUB -> "ub" | DpUninit -> "uninit")
        (match delay_spec s with Some m -> si m | None -> "none")
        (hex_of_bytes na.na_value) (hex_of_bytes na.na_unit)
  | ["sim"; v; p; sch] ->
      let v = variant_of v in
      let (s, toks) = sim v (prog_of p) (if sch = "-" then "" else sch) in
      Printf.sprintf "class=%s steps=%s trace=%s" (class_str v s)
        (if toks = [] then "-" else String.concat "," toks) (trace_str s.trace)
  | "simc" :: v :: p :: sch :: opt ->
      (* the schedule, then completed canonically to a terminal state *)
      let v = variant_of v in
      park_send := List.mem "park" opt;
      let r = enum_from v (prog_of p) (if sch = "-" then "" else sch) 0 1 in
      park_send := false;
      (match r with
       | (sch', c, toks, tr) :: _ ->
           Printf.sprintf "class=%s sched=%s steps=%s trace=%s" c (if sch' = "" then "-" else sch')
             (String.concat "," (String.split_on_char ' ' toks)) tr
       | [] -> "ERR no completion")
  | "enum" :: v :: p :: sw :: cap :: opt ->
      atomic_cancel := List.mem "atomic" opt;
      park_send := List.mem "park" opt;
      let v = variant_of v in
      let l = enum v (prog_of p) (int_of_string sw) (int_of_string cap) in
      atomic_cancel := false; park_send := false;
      String.concat ";" (List.map (fun (sch, c, toks, tr) ->
        Printf.sprintf "%s|%s|%s|%s" (if sch = "" then "-" else sch) c (String.concat "," (String.split_on_char ' ' toks)) tr) l)
  | ["complete"; p; tr] ->
      (* a finished run has delivered every event whose sendid the program never cancels *)
      let l = if tr = "-" then [] else List.rev_map obs_of (String.split_on_char ',' tr) in
      b2s (complete_b (prog_of p) l)
  | ["oracle"; g; tr] ->
      let l = if tr = "-" then [] else List.rev_map obs_of (String.split_on_char ',' tr) in   (* newest first *)
      let g = ni g in
      Printf.sprintf "adm=%s once=%s notearly=%s order=%s cancel=%s routed=%s"
        (b2s (delay_admissibleb g l)) (b2s (nodup_N (delivered l))) (b2s (not_early_b l))
        (b2s (due_sorted_b g (timer_dues l l))) (b2s (cancel_ok_b l)) (b2s (routed_b l))
  | _ -> "ERR unknown command"

let () = main_loop handle
