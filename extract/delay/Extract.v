(* Extract.v -- C09: extraction of the executable models Delay.v and DelayParse.v (model files
   only), ExtrOcamlBasic only, no Extract Constant. *)
Require Extraction.
Require Import ExtrOcamlBasic.
From V Require Import Base Delay DelayParse.
Extraction Language OCaml.
Extraction "vmodel.ml"
  dv_pinned dv_window dv_repaired dv_arms_first Build_dvariant complete_b finished
  init dstep step_or_stay run pick_min deadlocked quiescent classify armed_list
  delay_admissibleb nodup_N delivered not_early_b routed_b due_sorted_b timer_dues cancel_ok_b wf_prog
  delay_parse delay_spec num_attr parse_u32 parse_double dpv_pinned dpv_fixed Build_dp_variant.
