(* driver.ml -- line-oriented front end of the extracted model of C16 (LuaMarshal.v).
   One command per input line, one result line per command.

   The Section variables of LuaMarshal.v are instantiated here with an executable stand-in for the
   oracle that is outside the model:
     F              := OCaml float (IEEE double)
     double_to_str  := sprintf "%.16g"          (C++: ostringstream, precision 16, "C" locale)
     str_to_double  := the longest prefix [sign] digits [dot digits] read by strtod, 0 if it has no digit
                       (libstdc++ num_get on a string that passed isNumeric)
     long_to_double := Int64.to_float
     lua_eval       := true / false / nil / decimal float numerals / unknown identifiers (nil) /
                       the literal of the current case (evaluating to the value it was rendered from);
                       anything else is a Lua error
     F_stable       := finite, not -0.0, and print/re-read/print gives the same text

   Value syntax (whitespace-free):
     v := S hex.. | I [-] digits | D hex.. (numeral text) | T | F | N
        | "[" v.. "]" | "{" k v .. "}"      k := s hex.. ":" | i [-] digits ":"
   ('N' and 'i' keys only for raw Lua values; the rest is the property's value class.)
   Data tree syntax: node := (V|I) hex(atom) "[" node.. "]" "{" hex(key) "=" node .. "}" *)
open Vmodel

(*COMMON*)

let string_of_bytes (l : n list) : string =
  let b = Buffer.create 16 in
  List.iter (fun c -> Buffer.add_char b (Char.chr (int_of_n c))) l; Buffer.contents b
let bytes_of_string (s : string) : n list =
  List.init (String.length s) (fun i -> n_of_int (Char.code s.[i]))
let hexraw (l : n list) : string = String.concat "" (List.map (fun b -> Printf.sprintf "%02x" (int_of_n b)) l)

(* ---------------------------------------------------------------- stand-in for the number oracle *)
let double_to_str (f : float) : n list = bytes_of_string (Printf.sprintf "%.16g" f)
let is_dig c = c >= '0' && c <= '9'
let str_to_double (l : n list) : float =
  let s = string_of_bytes l in
  let n = String.length s in
  let i = ref 0 in
  let nd = ref 0 in
  if !i < n && s.[!i] = '-' then incr i;
  while !i < n && is_dig s.[!i] do incr i; incr nd done;
  if !i < n && s.[!i] = '.' then begin
    incr i;
    while !i < n && is_dig s.[!i] do incr i; incr nd done
  end;
  if !nd = 0 then 0.0 else float_of_string (String.sub s 0 !i)
let long_to_double (z : z) : float = Int64.to_float (Int64.of_string (string_of_bytes (dec_of_Z z)))
let z_of_string (s : string) : z = str_to_long (bytes_of_string s)

let is_ident s =
  s <> "" && (let c = s.[0] in (c >= 'a' && c <= 'z') || (c >= 'A' && c <= 'Z') || c = '_') &&
  (let ok = ref true in
   String.iter (fun c -> if not ((c >= 'a' && c <= 'z') || (c >= 'A' && c <= 'Z') || c = '_' || is_dig c) then ok := false) s; !ok)
let float_numeral_re = Str.regexp "^-?\\([0-9]+\\(\\.[0-9]*\\)?\\|\\.[0-9]+\\)\\([eE][-+]?[0-9]+\\)?$"
let int_chain_re = Str.regexp "^[0-9]+\\(-[0-9]+\\)+$"
let keywords = ["and"; "break"; "do"; "else"; "elseif"; "end"; "for"; "function"; "goto"; "if"; "in"; "local";
                "not"; "or"; "repeat"; "return"; "then"; "until"; "while"]

(* the literal of the current case: (source text, value) *)
let case_literal : (string * float lua) option ref = ref None

let lua_eval (_g : float store) (a : n list) : float lua list option =
  let s = string_of_bytes a in
  match !case_literal with
  | Some (t, v) when t = s -> Some [v]
  | _ ->
    let s = String.trim s in
    if s = "true" then Some [LBool true]
    else if s = "false" then Some [LBool false]
    else if s = "nil" then Some [LNil]
    else if Str.string_match float_numeral_re s 0 then Some [LNum (NFlt (float_of_string s))]
    else if Str.string_match int_chain_re s 0 then
      (* integer subtraction chains such as 1-2 (texts the repaired isNumeric no longer takes for numerals) *)
      (match List.map Int64.of_string (String.split_on_char '-' s) with
       | a :: r -> Some [LNum (NInt (z_of_string (Int64.to_string (List.fold_left Int64.sub a r))))]
       | [] -> None)
    else if is_ident s && not (List.mem s keywords) then Some [LNil]
    else None

let lua_exec_assign (_loc : n list) (_g : float store) : float store option = None

let reread (vr : lm_variant) (f : float) : n list option =
  match get_data_as_lua str_to_double lua_eval vr [] (atomI (double_to_str f)) with
  | MOk (LNum n) -> Some (num_to_str long_to_double double_to_str vr n)
  | _ -> None
let f_stable_for vr (f : float) : bool =
  Float.is_finite f && not (f = 0.0 && 1.0 /. f < 0.0) && reread vr f = Some (double_to_str f)

(* ---------------------------------------------------------------- parsing *)
exception Parse of string
let is_hex c = (c >= '0' && c <= '9') || (c >= 'a' && c <= 'f')
let parse_hex (s : string) (i : int ref) : n list =
  let out = ref [] in
  while !i + 1 < String.length s && is_hex s.[!i] && is_hex s.[!i + 1] do
    out := n_of_int (int_of_string ("0x" ^ String.sub s !i 2)) :: !out; i := !i + 2
  done; List.rev !out
let parse_int (s : string) (i : int ref) : z =
  let st = !i in
  if !i < String.length s && s.[!i] = '-' then incr i;
  while !i < String.length s && is_dig s.[!i] do incr i done;
  z_of_string (String.sub s st (!i - st))

type ast =
  | AStr of n list | AInt of z | AFlt of float | ABool of bool | ANil
  | AArr of ast list | ATab of (lkey * ast) list

let float_of_numeral (t : string) : float =
  match t with
  | "inf" -> infinity | "-inf" -> neg_infinity | "nan" -> nan
  | _ -> float_of_string t

let rec parse_v (s : string) (i : int ref) : ast =
  if !i >= String.length s then raise (Parse "eof");
  let c = s.[!i] in incr i;
  match c with
  | 'S' -> AStr (parse_hex s i)
  | 'I' -> AInt (parse_int s i)
  | 'D' -> AFlt (float_of_numeral (string_of_bytes (parse_hex s i)))
  | 'T' -> ABool true
  | 'F' -> ABool false
  | 'N' -> ANil
  | '[' ->
      let l = ref [] in
      while !i < String.length s && s.[!i] <> ']' do l := parse_v s i :: !l done;
      incr i; AArr (List.rev !l)
  | '{' ->
      let l = ref [] in
      while !i < String.length s && s.[!i] <> '}' do
        let k = (match s.[!i] with
                 | 's' -> incr i; KStr (parse_hex s i)
                 | 'i' -> incr i; KInt (parse_int s i)
                 | _ -> raise (Parse "key")) in
        if !i >= String.length s || s.[!i] <> ':' then raise (Parse "colon");
        incr i;
        let v = parse_v s i in
        l := (k, v) :: !l
      done;
      incr i; ATab (List.rev !l)
  | _ -> raise (Parse "value")
let parse_value_s (s : string) : ast =
  let i = ref 0 in
  let v = parse_v s i in
  if !i <> String.length s then raise (Parse "trailing"); v

exception Raw
let rec value_of_ast (a : ast) : float value =
  match a with
  | AStr s -> VStr s | AInt z -> VNum (NInt z) | AFlt f -> VNum (NFlt f) | ABool b -> VBool b
  | ANil -> raise Raw
  | AArr l -> VArr (List.map value_of_ast l)
  | ATab kvs -> VMap (List.map (fun (k, v) -> match k with KStr s -> (s, value_of_ast v) | KInt _ -> raise Raw) kvs)
(* raw Lua value: arrays are sequences; a table constructor with a repeated key keeps the last
   assignment, nil values are absent *)
let rec lua_of_ast (a : ast) : float lua =
  match a with
  | AStr s -> LStr s | AInt z -> LNum (NInt z) | AFlt f -> LNum (NFlt f) | ABool b -> LBool b | ANil -> LNil
  | AArr l -> LTable (List.filter (fun (_, v) -> v <> LNil)
                        (List.mapi (fun i v -> (KInt (z_of_string (string_of_int (i + 1))), lua_of_ast v)) l))
  | ATab kvs -> LTable (List.fold_left (fun t (k, v) -> tbl_set k (lua_of_ast v) t) [] kvs)

let rec dump_data (b : Buffer.t) (d : data) : unit =
  match d with
  | Data (a, t, ar, c) ->
      Buffer.add_char b (match t with VERBATIM -> 'V' | INTERPRETED -> 'I');
      Buffer.add_string b (hexraw a);
      Buffer.add_char b '[';
      List.iter (dump_data b) ar;
      Buffer.add_char b ']';
      Buffer.add_char b '{';
      List.iter (fun (k, x) -> Buffer.add_string b (hexraw k); Buffer.add_char b '='; dump_data b x) c;
      Buffer.add_char b '}'
let data_s (d : data) : string = let b = Buffer.create 64 in dump_data b d; Buffer.contents b
let odata_s (d : data mres) : string = match d with MOk d -> data_s d | MErr -> "ERR" | MUndef -> "UNDEF"

let rec parse_data (s : string) (i : int ref) : data =
  if !i >= String.length s then raise (Parse "eof");
  let t = (match s.[!i] with 'V' -> VERBATIM | 'I' -> INTERPRETED | _ -> raise (Parse "V/I")) in
  incr i;
  let a = parse_hex s i in
  if !i >= String.length s || s.[!i] <> '[' then raise (Parse "[");
  incr i;
  let ar = ref [] in
  while !i < String.length s && s.[!i] <> ']' do ar := parse_data s i :: !ar done;
  incr i;
  if !i >= String.length s || s.[!i] <> '{' then raise (Parse "{");
  incr i;
  let c = ref [] in
  while !i < String.length s && s.[!i] <> '}' do
    let k = parse_hex s i in
    if !i >= String.length s || s.[!i] <> '=' then raise (Parse "=");
    incr i;
    let x = parse_data s i in
    c := smap_set k x !c     (* std::map assignment *)
  done;
  incr i;
  Data (a, t, List.rev !ar, !c)
let parse_data_s (s : string) : data =
  let i = ref 0 in
  let d = parse_data s i in
  if !i <> String.length s then raise (Parse "trailing"); d

let variant_of (s : string) : lm_variant =
  { lm_empty_atom_is_nil = (s.[0] = '1'); lm_keys_sorted_as_text = (s.[1] = '1'); lm_int_via_double = (s.[2] = '1');
    lm_empty_key_undefined = (s.[3] = '1'); lm_sign_anywhere = (String.length s > 4 && s.[4] = '1') }

(* ---------------------------------------------------------------- the instantiated model *)
let m_get_lua_as_data vr l = get_lua_as_data long_to_double double_to_str vr l
let m_get_data_as_lua vr d = get_data_as_lua str_to_double lua_eval vr [] d
let m_embed v = embed double_to_str v
let m_set_event vr e = set_event str_to_double lua_eval vr [] e

let ways_in = [("payload", InPayload); ("param", InParam); ("namelist", InNamelist); ("assign", InAssign);
               ("data", InData); ("assigndata", InAssignData)]
let ways_out = [("expr", OutExpr); ("send", OutSend); ("evdata", OutEventData); ("dsend", OutDoneSend);
                ("devdata", OutDoneEventData)]

let handle (line : string) : string =
  match split line with
  | ["rt"; vr; vs; lithex] ->
      (* value-level case: every way in x every way out, with the spec (embed v) and the class flags *)
      let vr = variant_of vr in
      let a = parse_value_s vs in
      let v = value_of_ast a in
      let lit = lua_of_value v in
      let lit_text = bytes_of_hex lithex in
      case_literal := Some (string_of_bytes lit_text, lit);
      let d = m_embed v in
      let b = Buffer.create 1024 in
      Buffer.add_string b (Printf.sprintf "unamb=%s vok=%s spec=%s" (b2s (unambiguous (f_stable_for vr) v)) (b2s (variant_ok vr v)) (data_s d));
      List.iter (fun (wn, wi) ->
        List.iter (fun (on, wo) ->
          let r = run_ways str_to_double long_to_double double_to_str lua_eval vr [] wi wo lit_text lit d in
          Buffer.add_string b (Printf.sprintf " %s:%s=%s" wn on (odata_s r))) ways_out) ways_in;
      case_literal := None;
      Buffer.contents b
  | ["lrt"; vr; vs] ->
      (* raw Lua value: evalAsData, then assign + evalAsData *)
      let vr = variant_of vr in
      let l = lua_of_ast (parse_value_s vs) in
      let d1 = m_get_lua_as_data vr l in
      let r2 = odata_s (mbind (m_get_data_as_lua vr d1) (fun l2 -> MOk (m_get_lua_as_data vr l2))) in
      Printf.sprintf "first=%s second=%s" (data_s d1) r2
  | ["drt"; vr; ts] ->
      let vr = variant_of vr in
      let d = parse_data_s ts in
      odata_s (mbind (m_get_data_as_lua vr d) (fun l -> MOk (m_get_lua_as_data vr l)))
  | ["pay"; vr; ts] ->
      let vr = variant_of vr in
      let d = parse_data_s ts in
      odata_s (mbind (event_data_of str_to_double lua_eval vr [] (mk_event s_in EvExternal d [] [])) (fun l -> MOk (m_get_lua_as_data vr l)))
  | ["ev"; vr; ts; ps; nl] ->
      (* setEvent with data, params (array of one-key compounds), namelist; also the spec of the merge *)
      let vr = variant_of vr in
      let d = parse_data_s ts in
      let params = (match parse_data_s ps with Data (_, _, ar, _) -> List.concat (List.map (fun p -> match p with Data (_, _, _, c) -> c) ar)) in
      let namelist = (match parse_data_s nl with Data (_, _, _, c) -> c) in
      let e = mk_event s_in EvExternal d params namelist in
      odata_s (mbind (event_data_of str_to_double lua_eval vr [] e) (fun l -> MOk (m_get_lua_as_data vr l)))
  | ["merge"; ts; ps; nl] ->
      let d = parse_data_s ts in
      let params = (match parse_data_s ps with Data (_, _, ar, _) -> List.concat (List.map (fun p -> match p with Data (_, _, _, c) -> c) ar)) in
      let namelist = (match parse_data_s nl with Data (_, _, _, c) -> c) in
      data_s (merge_event_data d params namelist)
  | ["protect"; mode; lochex] ->
      (* what the model says about assign / init on a location: does the guard fire, and which system
         variables does the model itself change (the Lua chunk is outside the model: "lua") *)
      let loc = bytes_of_hex lochex in
      let g0 : float store = List.map (fun s -> (s, LStr s)) system_vars in
      let r = (if mode = "api-init" || mode = "chart-data"
               then dm_init str_to_double lua_eval lua_exec_assign lm_pinned loc (atomV (bytes_of_string "pwned")) g0
               else dm_assign str_to_double lua_eval lua_exec_assign lm_pinned loc (atomV (bytes_of_string "pwned")) g0) in
      let g1 = (match r with DmOk g -> g | DmError g -> g | DmUndef -> g0) in
      let changed = List.filter (fun s -> store_get s g1 <> store_get s g0) system_vars in
      Printf.sprintf "guard=%s changed=%s" (b2s (is_protected loc))
        (if changed = [] then "-" else String.concat "," (List.map string_of_bytes changed))
  | ["num"; vr; h] ->
      let vr = variant_of vr in
      let s = bytes_of_hex h in
      Printf.sprintf "dbl=%s lng=%s isnum=%s isint=%s" (hex_of_bytes (double_to_str (str_to_double s)))
        (string_of_bytes (dec_of_Z (str_to_long s))) (b2s (is_numeric vr.lm_sign_anywhere s)) (b2s (is_integer vr.lm_sign_anywhere s))
  | ["table"] ->
      Printf.sprintf "protected=%s guard_first=%s init_clears_first=%s"
        (String.concat "," (List.map string_of_bytes lua_protected)) (b2s lua_guard_first) (b2s lua_init_clears_first)
  | _ -> "ERR unknown command"

let () = main_loop handle
