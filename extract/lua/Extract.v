(* Extract.v -- extraction of the executable model of C16 (LuaMarshal.v only, no lemma files), with
   ExtrOcamlBasic only.  The Section variables of LuaMarshal.v (doubles, their printing/parsing, the
   Lua VM's evaluation of an atom) become ordinary function parameters; driver.ml passes an
   executable stand-in for them.  No Extract Constant. *)
Require Extraction.
Require Import ExtrOcamlBasic.
From V Require Import Base GenLuaProtected LuaMarshal.
Extraction Language OCaml.
Extraction "vmodel.ml"
  lm_pinned lm_fixed Build_lm_variant
  data_eqb data_empty dec_of_Z str_to_long is_numeric is_integer contains_dot in_long
  mbind num_to_str smap_set atomI atomV tbl_set s_in
  get_lua_as_data get_data_as_lua set_event merge_event_data dm_assign dm_init
  store_get store_set tbl_get
  embed lua_of_value unambiguous variant_ok
  run_way_in run_way_out run_ways mk_event event_data_of field_of
  is_protected system_vars lua_protected lua_guard_first lua_init_clears_first.
