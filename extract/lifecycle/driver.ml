(* driver.ml -- line-oriented front end of the extracted life-cycle model (C10).
   seq <lazy> <keepq> <chart> <op>...        observations of the model, same text as vdriver's `lifecycle`
   oracle <op,op,..> <observation token>...   the property oracles applied to an observed run
   same <n> <tokens a...> <tokens b...>       obs_eqb of two observed runs (n = length of the first)
   td <sticky> <timers> <s0> <RSE string>     tear-down protocol under a schedule
   tdenum <sticky> <timers> <s0>              all maximal executions: hook-point projection and outcome
   cu <enqfirst> <queue> <schedule>           cancel() against a blocked step()
   flags                                      constants the model was built with *)
open Vmodel

(*COMMON*)

let nlist s = if s = "-" || s = "" then [] else List.map (fun x -> n_of_int (int_of_string x)) (String.split_on_char ',' s)
let string_of_nlist l = String.concat "," (List.map (fun x -> string_of_int (int_of_n x)) l)

let sres_name = function
  | R_FINISHED -> "FINISHED" | R_UNDEF -> "UNDEF" | R_IDLE -> "IDLE" | R_INITIALIZED -> "INITIALIZED"
  | R_INSTANTIATED -> "INSTANTIATED" | R_MICROSTEPPED -> "MICROSTEPPED" | R_MACROSTEPPED -> "MACROSTEPPED"
  | R_CANCELLED -> "CANCELLED"
let sres_of_name = function
  | "FINISHED" -> R_FINISHED | "UNDEF" -> R_UNDEF | "IDLE" -> R_IDLE | "INITIALIZED" -> R_INITIALIZED
  | "INSTANTIATED" -> R_INSTANTIATED | "MICROSTEPPED" -> R_MICROSTEPPED | "MACROSTEPPED" -> R_MACROSTEPPED
  | "CANCELLED" -> R_CANCELLED | s -> failwith ("unknown state " ^ s)

let logitem_str = function LBefore -> "<" | LAfter -> ">" | LLog l -> string_of_int (int_of_n l)
let logitem_of = function "<" -> LBefore | ">" -> LAfter | s -> LLog (n_of_int (int_of_string s))

let ob_str = function
  | ObStep (r, l, c) -> Printf.sprintf "%s[%s]{%s}" (sres_name r) (String.concat "," (List.map logitem_str l)) (string_of_nlist c)
  | ObOk -> "ok" | ObState st -> "state:" ^ sres_name st | ObDestroyed -> "destroyed" | ObCrash -> "CRASH" | ObHang -> "HANG"

let ob_of (t : string) : ob =
  if t = "ok" then ObOk else if t = "destroyed" then ObDestroyed
  else if String.length t >= 5 && String.sub t 0 5 = "CRASH" then ObCrash
  else if String.length t >= 4 && String.sub t 0 4 = "HANG" then ObHang
  else if String.length t > 6 && String.sub t 0 6 = "state:" then ObState (sres_of_name (String.sub t 6 (String.length t - 6)))
  else begin
    let i = String.index t '[' and j = String.index t ']' in
    let k = String.index t '{' and m = String.index t '}' in
    let name = String.sub t 0 i in
    let logs = String.sub t (i+1) (j-i-1) and cfg = String.sub t (k+1) (m-k-1) in
    ObStep (sres_of_name name,
            (if logs = "" then [] else List.map logitem_of (String.split_on_char ',' logs)),
            nlist cfg)
  end

let op_of (t : string) : op =
  match t with
  | "s" -> OpStep | "c" -> OpCancel | "x" -> OpReset | "d" -> OpDestroy
  | _ when t.[0] = 'r' -> OpReceive (n_of_int (int_of_string (String.sub t 1 (String.length t - 1))))
  | _ -> failwith ("unknown op " ^ t)

let bool_of s = (s = "1")

(* chart: entries separated by ';'
   I:cfg:tlf:logs:raised   T:cfg:ev:cfg':tlf:logs:raised (ev '-' = eventless)   X:cfg:labels *)
let chart_of (spec : string) =
  let init = ref { ms_cfg = N0; ms_log = []; ms_raised = []; ms_tlf = false } in
  let rows = ref [] and exits = ref [] in
  List.iter (fun e ->
    match String.split_on_char ':' e with
    | ["I"; c; tlf; logs; raised] ->
        init := { ms_cfg = n_of_int (int_of_string c); ms_log = nlist logs; ms_raised = nlist raised; ms_tlf = bool_of tlf }
    | ["T"; c; ev; c2; tlf; logs; raised] ->
        rows := { tr_cfg = n_of_int (int_of_string c);
                  tr_ev = (if ev = "-" then None else Some (n_of_int (int_of_string ev)));
                  tr_res = { ms_cfg = n_of_int (int_of_string c2); ms_log = nlist logs; ms_raised = nlist raised; ms_tlf = bool_of tlf } } :: !rows
    | ["X"; c; labels] -> exits := (n_of_int (int_of_string c), nlist labels) :: !exits
    | [""] -> ()
    | _ -> failwith ("bad chart entry " ^ e)) (String.split_on_char ';' spec);
  table_chart !init (List.rev !rows) (List.rev !exits)

let rpc_str = function RP1 -> "r1" | RP2 -> "r2" | RP3 -> "r3" | RP4 -> "r4" | RDone -> "rdone"
let spc_str = function SP0 -> "s0" | SP1 -> "s1" | SP2 -> "s2" | SP3 -> "s3" | SP4 -> "s4" | SDone -> "sdone"

(* the hook points the real code passes with a step of the tear-down model *)
let td_marker (t : tid) (st : td) : string =
  match t, st.t_r, st.t_s with
  | TRun, RP2, _ -> "C"                                   (* released from delay.run.started_checked, enters the loop *)
  | TRun, RP3, _ when not st.t_break -> if st.t_due = O then "K" else "F"  (* woken by the activated event / callbacks ran *)
  | TStop, _, SP1 when st.t_started -> "B"                (* delay.stop.before_loopbreak *)
  | TStop, _, SP2 -> "A"                                  (* delay.stop.after_loopbreak *)
  | TEnv, _, _ -> "E"
  | _ -> ""

(* every maximal execution of the tear-down model (finite by td_step_decreases), as the set of
   (hook-point projection, outcome) pairs *)
let td_enum (v : td_variant) (timers : int) (s0 : bool) : string =
  let results = Hashtbl.create 97 and seen = Hashtbl.create 9973 and nexec = ref 0 in
  let rec go st pts =
    if not (Hashtbl.mem seen (st, pts)) then begin
      Hashtbl.add seen (st, pts) ();
      let moves = List.filter_map (fun t -> match td_step v st t with Some s' -> Some (t, s') | None -> None) [TRun; TStop; TEnv] in
      if moves = [] then begin
        incr nexec;
        Hashtbl.replace results ((if pts = "" then "-" else pts) ^ ":" ^ (if td_final st then "final" else "deadlock")) ()
      end else List.iter (fun (t, s') -> go s' (pts ^ td_marker t st)) moves
    end in
  go (td_init (nat_of_int timers) (if s0 then SP0 else SP1)) "";
  let l = List.sort compare (Hashtbl.fold (fun k () acc -> k :: acc) results []) in
  Printf.sprintf "states=%d classes=%d %s" (Hashtbl.length seen) (List.length l) (String.concat " " l)

let handle (line:string) : string =
  match split line with
  | "seq" :: lz :: kq :: chart :: ops ->
      let v = { lv_lazy_queues = bool_of lz; lv_reset_keeps_queue = bool_of kq } in
      let obs = lc_observe v (chart_of chart) (List.map op_of ops) in
      String.concat " " (List.map ob_str obs)
  | "oracle" :: ops :: toks ->
      let ops = if ops = "-" then [] else List.map op_of (String.split_on_char ',' ops) in
      let obs = List.map ob_of toks in
      let tl = (match obs with _ :: t -> t | [] -> []) in
      Printf.sprintf "ok=%s nocrash=%s regex=%s quiet=%s completion=%s cancel=%s"
        (b2s (lifecycle_okb ops obs)) (b2s (no_crashb obs)) (b2s (lifecycle_regexb obs))
        (b2s (finished_quietb false obs)) (b2s (completion_okb false [] obs))
        (b2s (cancel_okb false false ops tl))
  | "same" :: n :: toks ->
      let n = int_of_string n in
      let a = List.filteri (fun i _ -> i < n) toks and b = List.filteri (fun i _ -> i >= n) toks in
      b2s (obs_eqb (List.map ob_of a) (List.map ob_of b))
  | ["td"; sticky; timers; s0; sched] ->
      let v : td_variant = bool_of sticky in
      let st = ref (td_init (nat_of_int (int_of_string timers)) (if bool_of s0 then SP0 else SP1)) in
      let pts = Buffer.create 16 and skipped = ref 0 in
      String.iter (fun ch ->
        let t = (match ch with 'R' -> TRun | 'S' -> TStop | 'E' -> TEnv | _ -> failwith "bad schedule") in
        match td_step v !st t with
        | None -> incr skipped
        | Some s' ->
            Buffer.add_string pts (td_marker t !st);
            st := s') sched;
      Printf.sprintf "final=%s deadlock=%s enabled=%s r=%s s=%s started=%s break=%s kick=%s timers=%d due=%d skipped=%d points=%s"
        (b2s (td_final !st)) (b2s (td_deadlocked v !st)) (b2s (td_enabled v !st)) (rpc_str !st.t_r) (spc_str !st.t_s)
        (b2s !st.t_started) (b2s !st.t_break) (b2s !st.t_kick) (int_of_nat !st.t_timers) (int_of_nat !st.t_due) !skipped
        (if Buffer.length pts = 0 then "-" else Buffer.contents pts)
  | ["tdenum"; sticky; timers; s0] -> td_enum (bool_of sticky) (int_of_string timers) (bool_of s0)
  | "cu" :: enqfirst :: q :: sched ->
      let v : cu_variant = bool_of enqfirst in
      let sched = List.map (fun t -> match t with
        | "P" -> UStep | "C" -> UCancel
        | _ when t.[0] = 'R' -> URecv (n_of_int (int_of_string (String.sub t 1 (String.length t - 1))))
        | _ -> failwith "bad schedule") sched in
      let s = cu_run v (cu_init (nlist q) PWait) sched in
      Printf.sprintf "lost=%s flag=%s p=%s c=%s q=%s" (b2s (cu_lost s)) (b2s s.u_flag)
        (match s.u_p with PWait -> "wait" | PCheck -> "check" | PBusy -> "busy" | PDone -> "done")
        (match s.u_c with CP1 -> "c1" | CP2 -> "c2" | CDone -> "cdone")
        (if s.u_q = [] then "-" else string_of_nlist s.u_q)
  | ["flags"] ->
      Printf.sprintf "pristine=%d codes=%s" (int_of_n (fl_encode fl_pristine))
        (String.concat "," (List.map (fun r -> sres_name r) all_sres))
  | _ -> "ERR unknown command"

let () = main_loop handle
