(* Extract.v -- extraction of the life-cycle model (C10): model files only, ExtrOcamlBasic only,
   no Extract Constant. *)
Require Extraction.
Require Import ExtrOcamlBasic.
From V Require Import Base GenFlags Lifecycle.
Extraction Language OCaml.
Extraction "vmodel.ml"
  lc_observe lc_run lc_pinned lc_fixed Build_lc_variant table_chart
  lifecycle_okb lifecycle_regexb no_crashb finished_quietb completion_okb cancel_okb obs_eqb
  sres_code all_sres fl_encode fl_pristine
  td_step td_run td_init td_final td_deadlocked td_enabled td_pinned td_fixed
  cu_step cu_run cu_init cu_lost cu_code.
