(* driver.ml -- C14 model: `sr ...` (serialize at the k-th boundary, resume, continue) and `sf ...`
   (state string of chart A given to an interpreter of chart B), `codec ...`; one command per line.
   The chart reader is the one of extract/chart/driver.ml (copied). *)
open Vmodel

(*COMMON*)

(* ---- s-expressions ---- *)
type sexp = Atom of string | L of sexp list

let parse_sexp (s : string) : sexp list =
  let n = String.length s in
  let pos = ref 0 in
  let rec skip () = while !pos < n && (s.[!pos] = ' ' || s.[!pos] = '\t') do incr pos done in
  let rec parse_list () : sexp list =
    skip ();
    if !pos >= n then []
    else if s.[!pos] = ')' then []
    else begin
      let x = parse_one () in
      x :: parse_list ()
    end
  and parse_one () : sexp =
    skip ();
    if s.[!pos] = '(' then begin
      incr pos;
      let l = parse_list () in
      skip ();
      if !pos < n && s.[!pos] = ')' then incr pos;
      L l
    end else begin
      let st = !pos in
      while !pos < n && s.[!pos] <> ' ' && s.[!pos] <> '(' && s.[!pos] <> ')' do incr pos done;
      Atom (String.sub s st (!pos - st))
    end in
  parse_list ()

let z_of_int (i:int) : z = if i = 0 then Z0 else if i > 0 then Zpos (pos_of_int i) else Zneg (pos_of_int (-i))
let int_of_z = function Z0 -> 0 | Zpos p -> int_of_pos p | Zneg p -> - (int_of_pos p)
let atom = function Atom a -> a | L _ -> failwith "atom expected"
let nat_n a = n_of_int (int_of_string (atom a))

let rec iexpr_of = function
  | Atom "bad" -> IBad
  | L [Atom "n"; a] -> INum (z_of_int (int_of_string (atom a)))
  | L [Atom "v"; a] -> IVar (nat_n a)
  | L [Atom "+"; a; b] -> IAdd (iexpr_of a, iexpr_of b)
  | L [Atom "-"; a; b] -> ISub (iexpr_of a, iexpr_of b)
  | _ -> failwith "iexpr"
let rec bexpr_of = function
  | Atom "true" -> BTrue | Atom "false" -> BFalse | Atom "bad" -> BBad
  | L [Atom "in"; a] -> BIn (nat_n a)
  | L [Atom "<"; a; b] -> BLt (iexpr_of a, iexpr_of b)
  | L [Atom "!"; a] -> BNot (bexpr_of a)
  | L [Atom "&"; a; b] -> BAnd (bexpr_of a, bexpr_of b)
  | L [Atom "|"; a; b] -> BOr (bexpr_of a, bexpr_of b)
  | _ -> failwith "bexpr"
let rec instr_of = function
  | L [Atom "raise"; v; e] -> IRaise (nat_n v, bytes_of_hex (atom e))
  | L [Atom "send"; v; e] -> ISend (nat_n v, bytes_of_hex (atom e))
  | L [Atom "sendbt"; v; e] -> ISendBadType (nat_n v, bytes_of_hex (atom e))
  | L [Atom "sendbg"; v; e] -> ISendBadTarget (nat_n v, bytes_of_hex (atom e))
  | L [Atom "log"; v; e] -> ILog (nat_n v, iexpr_of e)
  | L [Atom "assign"; v; x; e] -> IAssign (nat_n v, nat_n x, iexpr_of e)
  | L (Atom "if" :: v :: c :: items) -> IIf (nat_n v, bexpr_of c, List.map item_of items)
  | _ -> failwith "instr"
and item_of = function
  | L [Atom "elseif"; c] -> FElseif (bexpr_of c)
  | L [Atom "else"] -> FElse
  | x -> FInstr (instr_of x)
let block_of = function L l -> List.map instr_of l | _ -> failwith "block"
let trans_of = function
  | L [Atom "t"; vid; ev; cond; tg; internal; body] ->
      { tt_vid = nat_n vid;
        tt_event = (match ev with Atom "-" -> None | a -> Some (bytes_of_hex (atom a)));
        tt_cond = (match cond with Atom "-" -> None | c -> Some (bexpr_of c));
        tt_targets = (match tg with Atom "-" -> None | L l -> Some (List.map nat_n l) | _ -> failwith "targets");
        tt_internal = (atom internal = "1");
        tt_body = block_of body }
  | _ -> failwith "trans"
let kind_of = function
  | "scxml" -> KScxml | "state" -> KState | "parallel" -> KParallel | "final" -> KFinal
  | "hs" -> KHistShallow | "hd" -> KHistDeep | "initial" -> KInitial | _ -> failwith "kind"
let rec tree_of = function
  | L [Atom "N"; k; sid; ini; L (Atom "T" :: ts); L (Atom "EN" :: en); L (Atom "EX" :: ex); L (Atom "D" :: ds); L (Atom "K" :: kids)] ->
      TNode (kind_of (atom k), nat_n sid,
             (match ini with Atom "-" -> None | L l -> Some (List.map nat_n l) | _ -> failwith "init"),
             List.map trans_of ts, List.map block_of en, List.map block_of ex,
             List.map (function L [v; e] -> (nat_n v, iexpr_of e) | _ -> failwith "data") ds,
             List.map tree_of kids)
  | _ -> failwith "tree"

let rc_name c = match int_of_n c with
  | 0 -> "FINISHED" | 1 -> "INITIALIZED" | 2 -> "MICROSTEPPED" | 3 -> "MACROSTEPPED" | 4 -> "IDLE" | 5 -> "CANCELLED" | _ -> "?"
let tok_str = function
  | TRet c -> "RET:" ^ rc_name c
  | TCfg l -> "CFG:" ^ String.concat "," (List.map (fun x -> string_of_int (int_of_n x)) l)
  | TEv n -> "EV:" ^ hex_of_bytes n
  | TMsB -> "MS{" | TMsE -> "}MS"
  | TXb s -> "X{:" ^ string_of_int (int_of_n s) | TXe s -> "}X:" ^ string_of_int (int_of_n s)
  | TTb s -> "T{:" ^ string_of_int (int_of_n s) | TTe s -> "}T:" ^ string_of_int (int_of_n s)
  | TEb s -> "E{:" ^ string_of_int (int_of_n s) | TEe s -> "}E:" ^ string_of_int (int_of_n s)
  | TCb s -> "C{:" ^ string_of_int (int_of_n s) | TCe s -> "}C:" ^ string_of_int (int_of_n s)
  | TLog z -> "LOG:" ^ string_of_int (int_of_z z)
  | TStable -> "STABLE" | TComplB -> "COMPL{" | TComplE -> "}COMPL"
  | TDiag d -> "DIAG:" ^ string_of_int (int_of_n d)


let bits s i = String.length s > i && s.[i] = '1'

let string_of_bytes (l : n list) : string = String.concat "" (List.map (fun b -> String.make 1 (Char.chr (int_of_n b))) l)
let ints l = String.concat "," (List.map (fun x -> string_of_int (int_of_nat x)) l)
let enc_str = function
  | EncIdx l -> "[" ^ String.concat "," (List.map string_of_bytes l) ^ "]"
  | EncBits s -> "\"" ^ string_of_bytes s ^ "\""
let names q = if q = [] then "-" else String.concat "," (List.map (fun ev -> hex_of_bytes ev.ev_name) q)
let dnames q = if q = [] then "-" else String.concat "," (List.map (fun (r, ev) -> hex_of_bytes ev.ev_name ^ ":" ^ string_of_int (100 + 10 * int_of_nat r)) q)
let store_str st =
  let l = List.sort compare (List.map (fun (v, z) -> (int_of_n v, int_of_z z)) st) in
  if l = [] then "-" else String.concat " " (List.map (fun (v, z) -> Printf.sprintf "%d=%d" v z) l)
let toks l = String.concat " " (List.map tok_str l)
let ob = function None -> "none" | Some b -> b2s b
let snap_str (sn : snapshot) =
  Printf.sprintf "cfg=%s hist=%s initd=%s inv=%s stable=%s final=%s data=%s eq=%s dq=%s"
    (enc_str sn.sn_cfg) (enc_str sn.sn_hist) (enc_str sn.sn_initd) (enc_str sn.sn_inv)
    (ob sn.sn_stable) (match sn.sn_final with None -> "none" | Some (a, b) -> b2s a ^ b2s b)
    (if sn.sn_data = [] then "-" else String.concat "," (List.map (fun (v, z) -> string_of_int (int_of_n v) ^ ":" ^
        (match z with None -> "undef" | Some z -> string_of_int (int_of_z z))) sn.sn_data))
    (names sn.sn_eq) (dnames sn.sn_dq)
let queues (s : istate) = names s.i_x.x_eq ^ ";" ^ dnames s.i_dq
let input_of a = if a = "@t" then InTick else InEv (bytes_of_hex a)

let engine_of vflags late tree = function
  | "large" ->
      let lv = { lg_exit_overreach = bits vflags 0; lg_targetless_exits_root = bits vflags 1; lg_hist_active_parent = bits vflags 2 } in
      let c = flatten late tree in
      (ELarge, c, large_step lv (bits vflags 3) c)
  | "fast" ->
      let c = flatten late tree in
      (EFast, c, fast_step (bits vflags 3) c)
  | _ -> failwith "engine"
let variant_of s = { sz_delay_lost = bits s 0; sz_stable_lost = bits s 1; sz_final_lost = bits s 2; sz_queue_before_md5 = bits s 3; sz_undeclared_restored = bits s 4; sz_skip_value = (fun _ -> false) }

let handle (line:string) : string =
  match parse_sexp line with
  (* sr <engine> <vflags> <szflags> <late> <fuel> <k> <tree> (<items>) *)
  | Atom "sr" :: Atom eng :: Atom vflags :: Atom szf :: Atom late :: Atom fuel :: Atom k :: tree :: L items :: _ ->
      let (e, c, step) = engine_of vflags (late = "1") (tree_of tree) eng in
      let v = variant_of szf in
      let ins = List.map (fun a -> input_of (atom a)) items in
      let md5 = bytes_of_hex "41" in
      (match irun_to e c step (nat_of_int (int_of_string fuel)) (nat_of_int (int_of_string k)) fresh ins with
       | None -> "SR at=NONE"
       | Some sp ->
         let head = Printf.sprintf "SR at=%s | PRE %s" (rc_name sp.st_rc) (toks (since fresh sp.st_state)) in
         (match serialize e c v md5 sp.st_rc sp.st_state with
          | None -> head ^ " | SERFAIL"
          | Some sn ->
            let o = icontinue e c step sp.st_rc sp.st_fuel sp.st_state sp.st_ins in
            let head = head ^ " | SNAP " ^ snap_str sn ^ " | OQ " ^ queues sp.st_state ^
                       " | ORIG " ^ toks (since sp.st_state o) ^ " | OD " ^ store_str o.i_x.x_store in
            (match deserialize e v md5 fresh sn with
             | DsOk r ->
               let r' = icontinue e c step sp.st_rc sp.st_fuel r sp.st_ins in
               head ^ " | RQ " ^ queues r ^ " | RES " ^ toks (since r r') ^ " | RD " ^ store_str r'.i_x.x_store
             | DsRejected _ -> head ^ " | DESERFAIL rejected"
             | DsUndefined -> head ^ " | DESERFAIL undefined")))
  (* sf <engine> <vflags> <szflags> <late> <fuel> <k> <treeA> <treeB> (<items>) *)
  | Atom "sf" :: Atom eng :: Atom vflags :: Atom szf :: Atom late :: Atom fuel :: Atom k :: treeA :: treeB :: L items :: _ ->
      let (e, ca, stepa) = engine_of vflags (late = "1") (tree_of treeA) eng in
      let (_, cb, stepb) = engine_of vflags (late = "1") (tree_of treeB) eng in
      let v = variant_of szf in
      let ins = List.map (fun a -> input_of (atom a)) items in
      let fu = nat_of_int (int_of_string fuel) in
      (match irun_to e ca stepa fu (nat_of_int (int_of_string k)) fresh ins with
       | None -> "SF at=NONE"
       | Some sp ->
         (match serialize e ca v (bytes_of_hex "41") sp.st_rc sp.st_state with
          | None -> "SF at=" ^ rc_name sp.st_rc ^ " | SERFAIL"
          | Some sn ->
            let head = "SF at=" ^ rc_name sp.st_rc ^ " | OQ " ^ queues sp.st_state in
            let u = irun e cb stepb fu fresh ins in
            let tail b = " | BQ " ^ queues b ^ " | B " ^ toks (since fresh (irun e cb stepb fu b ins)) ^
                         " | BD " ^ store_str (irun e cb stepb fu b ins).i_x.x_store ^
                         " | U " ^ toks (since fresh u) ^ " | UD " ^ store_str u.i_x.x_store in
            (match deserialize e v (bytes_of_hex "42") fresh sn with
             | DsRejected b -> head ^ " | REJECTED" ^ tail b
             | DsOk b -> head ^ " | ACCEPTED" ^ tail b
             | DsUndefined -> head ^ " | UNDEFINED")))
  (* hyp <late> <tree>: the boolean hypotheses of the theorems on the flattened chart *)
  | Atom "hyp" :: Atom late :: tree :: _ ->
      let c = flatten (late = "1") (tree_of tree) in
      Printf.sprintf "named=%s bounded=%s n=%d" (b2s (chart_named c)) (b2s (tables_bounded c)) (int_of_nat (nstates c))
  (* codec <n> (<indices>): both encodings of a set and their decodings *)
  | Atom "codec" :: Atom n :: L idx :: _ ->
      let l = List.map (fun a -> nat_of_int (int_of_string (atom a))) idx in
      let nn = nat_of_int (int_of_string n) in
      let ie = idx_encode l in
      let fe = fast_encode nn l in
      Printf.sprintf "idx=[%s] idxdec=%s b64=%s b64dec=%s" (String.concat "," (List.map string_of_bytes ie)) (ints (idx_decode ie))
        (string_of_bytes fe) (ints (fast_decode fe))
  (* b64 <hex>: base64 of a byte string and back *)
  | Atom "b64" :: Atom h :: _ ->
      let b = bytes_of_hex h in
      let en = b64_encode b in
      hex_of_bytes en ^ " " ^ hex_of_bytes (b64_decode en)
  | _ -> "ERR unknown command"

let () = main_loop handle
