(* extraction of the C14 model (ExtrOcamlBasic only; N, Z, positive, nat stay the extracted datatypes) *)
Require Extraction.
Require Import ExtrOcamlBasic.
From V Require Import Base NameMatch Chart Exec Large Interp Fast Serialize.
Extraction Language OCaml.
Extraction "vmodel.ml"
  flatten large_step fast_step lg_fixed ex_fixed Build_lg_variant Build_ex_variant Build_sz_variant
  fresh irun irun_to icontinue serialize deserialize since
  idx_encode idx_decode fast_encode fast_decode b64_encode b64_decode bitset_encode bitset_decode
  chart_named tables_bounded nstates.
