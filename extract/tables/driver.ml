(* driver.ml -- structural tables (C05): `tables <covered 0|1> <tree>` (switch tv_history_covered) prints Impl_tables and Spec_tables of a document tree *)
open Vmodel

(*COMMON*)

(* ---- s-expressions ---- *)
type sexp = Atom of string | L of sexp list

let parse_sexp (s : string) : sexp list =
  let n = String.length s in
  let pos = ref 0 in
  let rec skip () = while !pos < n && (s.[!pos] = ' ' || s.[!pos] = '\t') do incr pos done in
  let rec parse_list () : sexp list =
    skip ();
    if !pos >= n then []
    else if s.[!pos] = ')' then []
    else begin
      let x = parse_one () in
      x :: parse_list ()
    end
  and parse_one () : sexp =
    skip ();
    if s.[!pos] = '(' then begin
      incr pos;
      let l = parse_list () in
      skip ();
      if !pos < n && s.[!pos] = ')' then incr pos;
      L l
    end else begin
      let st = !pos in
      while !pos < n && s.[!pos] <> ' ' && s.[!pos] <> '(' && s.[!pos] <> ')' do incr pos done;
      Atom (String.sub s st (!pos - st))
    end in
  parse_list ()

let z_of_int (i:int) : z = if i = 0 then Z0 else if i > 0 then Zpos (pos_of_int i) else Zneg (pos_of_int (-i))
let int_of_z = function Z0 -> 0 | Zpos p -> int_of_pos p | Zneg p -> - (int_of_pos p)
let atom = function Atom a -> a | L _ -> failwith "atom expected"
let nat_n a = n_of_int (int_of_string (atom a))

let rec iexpr_of = function
  | Atom "bad" -> IBad
  | L [Atom "n"; a] -> INum (z_of_int (int_of_string (atom a)))
  | L [Atom "v"; a] -> IVar (nat_n a)
  | L [Atom "+"; a; b] -> IAdd (iexpr_of a, iexpr_of b)
  | L [Atom "-"; a; b] -> ISub (iexpr_of a, iexpr_of b)
  | _ -> failwith "iexpr"
let rec bexpr_of = function
  | Atom "true" -> BTrue | Atom "false" -> BFalse | Atom "bad" -> BBad
  | L [Atom "in"; a] -> BIn (nat_n a)
  | L [Atom "<"; a; b] -> BLt (iexpr_of a, iexpr_of b)
  | L [Atom "!"; a] -> BNot (bexpr_of a)
  | L [Atom "&"; a; b] -> BAnd (bexpr_of a, bexpr_of b)
  | L [Atom "|"; a; b] -> BOr (bexpr_of a, bexpr_of b)
  | _ -> failwith "bexpr"
let rec instr_of = function
  | L [Atom "raise"; v; e] -> IRaise (nat_n v, bytes_of_hex (atom e))
  | L [Atom "send"; v; e] -> ISend (nat_n v, bytes_of_hex (atom e))
  | L [Atom "sendbt"; v; e] -> ISendBadType (nat_n v, bytes_of_hex (atom e))
  | L [Atom "sendbg"; v; e] -> ISendBadTarget (nat_n v, bytes_of_hex (atom e))
  | L [Atom "log"; v; e] -> ILog (nat_n v, iexpr_of e)
  | L [Atom "assign"; v; x; e] -> IAssign (nat_n v, nat_n x, iexpr_of e)
  | L (Atom "if" :: v :: c :: items) -> IIf (nat_n v, bexpr_of c, List.map item_of items)
  | _ -> failwith "instr"
and item_of = function
  | L [Atom "elseif"; c] -> FElseif (bexpr_of c)
  | L [Atom "else"] -> FElse
  | x -> FInstr (instr_of x)
let block_of = function L l -> List.map instr_of l | _ -> failwith "block"
let trans_of = function
  | L [Atom "t"; vid; ev; cond; tg; internal; body] ->
      { tt_vid = nat_n vid;
        tt_event = (match ev with Atom "-" -> None | a -> Some (bytes_of_hex (atom a)));
        tt_cond = (match cond with Atom "-" -> None | c -> Some (bexpr_of c));
        tt_targets = (match tg with Atom "-" -> None | L l -> Some (List.map nat_n l) | _ -> failwith "targets");
        tt_internal = (atom internal = "1");
        tt_body = block_of body }
  | _ -> failwith "trans"
let kind_of = function
  | "scxml" -> KScxml | "state" -> KState | "parallel" -> KParallel | "final" -> KFinal
  | "hs" -> KHistShallow | "hd" -> KHistDeep | "initial" -> KInitial | _ -> failwith "kind"
let rec tree_of = function
  | L [Atom "N"; k; sid; ini; L (Atom "T" :: ts); L (Atom "EN" :: en); L (Atom "EX" :: ex); L (Atom "D" :: ds); L (Atom "K" :: kids)] ->
      TNode (kind_of (atom k), nat_n sid,
             (match ini with Atom "-" -> None | L l -> Some (List.map nat_n l) | _ -> failwith "init"),
             List.map trans_of ts, List.map block_of en, List.map block_of ex,
             List.map (function L [v; e] -> (nat_n v, iexpr_of e) | _ -> failwith "data") ds,
             List.map tree_of kids)
  | _ -> failwith "tree"


let kind_name = function
  | KScxml -> "scxml" | KState -> "state" | KParallel -> "parallel" | KFinal -> "final"
  | KHistShallow -> "hs" | KHistDeep -> "hd" | KInitial -> "initial"
let bits l = if l = [] then "-" else String.concat "" (List.map b2s l)
let onat = function Some k -> string_of_int (int_of_nat k) | None -> "-"
let stab_str s =
  Printf.sprintf "S:%s:%d:%s:%s:%s:%s:%s" (kind_name s.sb_kind) (int_of_n s.sb_sid) (onat s.sb_parent)
    (bits s.sb_child) (bits s.sb_anc) (bits s.sb_compl) (b2s s.sb_hashist)
let ttab_str t =
  Printf.sprintf "T:%d:%d:%d:%d:%s:%s:%s:%s" (int_of_n t.tb_vid) (int_of_nat t.tb_doc) (int_of_nat t.tb_source)
    (int_of_nat t.tb_srcstate) (match t.tb_target with Some l -> bits l | None -> "-") (onat t.tb_domain)
    (bits t.tb_exit) (bits t.tb_confl)
let tables_str tb =
  String.concat " " (List.map stab_str tb.tbl_states @ List.map ttab_str tb.tbl_trans)

let handle (line:string) : string =
  match parse_sexp line with
  | Atom "tables" :: Atom covered :: tree :: _ ->
      let t = tree_of tree in
      (match impl_tables (covered = "1") t with
       | Ok tb -> "impl " ^ tables_str tb
       | OutOfFuel -> "impl OUTOFFUEL") ^ " ## spec " ^ tables_str (spec_tables t) ^ " ## wf " ^ b2s (wf_doc (resort t))
  | _ -> "ERR unknown command"

let () = main_loop handle
