(* extraction of the structural-table models of C05 (ExtrOcamlBasic only) *)
Require Extraction.
Require Import ExtrOcamlBasic.
From V Require Import Base Chart Tables.
Extraction Language OCaml.
Extraction "vmodel.ml" Impl_tables Build_tv_variant Spec_tables wf_doc resort spec_initial_states.
