(* Extract.v -- extraction of the C11 model (Invoke.v only, no lemma files), ExtrOcamlBasic only. *)
Require Extraction.
Require Import ExtrOcamlBasic.
From V Require Import Base Invoke.
Extraction Language OCaml.
Extraction "vmodel.ml"
  iv_pinned iv_fixed Build_iv_variant
  large_macro_end fast_macro_end large_completion fast_completion bk_run spec_macro_end
  w3c_macro cfg_after
  ist_init istep irun enabled sched_run child_next parent_next count_done msgs
  Build_inv_obs invoke_protocolb
  Build_session_tables is_valid_target route send_dest deliver_all dequeue_external
  tstep trun tst_init tstuck.
