(* driver.ml -- line-oriented front end of the extracted C11 model (Invoke.v).
   One command per input line, one result line per command. *)
open Vmodel

(*COMMON*)

let csv s = if s = "-" || s = "" then [] else String.split_on_char ',' s
let nats s = List.map (fun x -> nat_of_int (int_of_string x)) (csv s)
let show_nats l = if l = [] then "-" else String.concat "," (List.map (fun x -> string_of_int (int_of_nat x)) l)
let hexlist s = List.map bytes_of_hex (csv s)

let show_bk = function BInvoke s -> "I" ^ string_of_int (int_of_nat s) | BUninvoke s -> "U" ^ string_of_int (int_of_nat s)
let show_bks l = if l = [] then "-" else String.concat "." (List.map show_bk l)

let label_of_string = function
  | "Invoke" -> LInvoke | "SendChild" -> LSendChild | "U1" -> LU1 | "U2" -> LU2 | "U3a" -> LU3a
  | "U3b" -> LU3b | "U4" -> LU4 | "Work" -> LWork | "P1" -> LP1 | "P2" -> LP2 | "Stable" -> LStable
  | "FinAlone" -> LFinAlone | "DeqEvt" -> LDeqEvt | "DeqUnblock" -> LDeqUnblock | "Read" -> LRead
  | "EnqDone" -> LEnqDone | "Clear" -> LClear | s -> failwith ("label " ^ s)
let string_of_label = function
  | LInvoke -> "Invoke" | LSendChild -> "SendChild" | LU1 -> "U1" | LU2 -> "U2" | LU3a -> "U3a"
  | LU3b -> "U3b" | LU4 -> "U4" | LWork -> "Work" | LP1 -> "P1" | LP2 -> "P2" | LStable -> "Stable"
  | LFinAlone -> "FinAlone" | LDeqEvt -> "DeqEvt" | LDeqUnblock -> "DeqUnblock" | LRead -> "Read"
  | LEnqDone -> "EnqDone" | LClear -> "Clear"
let citem_of_string = function
  | "work" -> CIWork | "send" -> CISend | "stable" -> CIStable | "fin" -> CIFin | s -> failwith ("citem " ^ s)

let show_pp = function P0 -> "P0" | PRun -> "PRun" | PU2 -> "PU2" | PU3 -> "PU3" | PU3b -> "PU3b" | PU4 -> "PU4" | PRet -> "PRet"
let show_cp = function CNone -> "CNone" | CBusy SIdle -> "CBusy" | CBusy SChecked -> "CBusyChecked" | CWait -> "CWait"
  | C2 -> "C2" | C3 -> "C3" | C4 -> "C4" | CEnd -> "CEnd"
let show_pev = function PDone -> "D" | PMsg k -> "m" ^ string_of_int (int_of_nat k)

let show_state (s : ist) =
  Printf.sprintf "pp=%s cp=%s active=%s started=%s done=%d fin=%s saw=%s pq=%s sent=%d dropped=%d cq=%d retlen=%s"
    (show_pp s.pp) (show_cp s.cp) (b2s s.isActive) (b2s s.isStarted) (int_of_nat (count_done s.pq)) (b2s s.fin_alone)
    (match s.c2_saw with None -> "-" | Some b -> b2s b)
    (if s.pq = [] then "-" else String.concat "," (List.map show_pev s.pq))
    (int_of_nat s.nsent) (int_of_nat s.ndropped) (List.length s.cq)
    (match s.pq_at_ret with None -> "-" | Some k -> string_of_int (int_of_nat k))

let sched_of_string s = List.init (String.length s) (fun i -> s.[i] = 'P')

(* all maximal schedules (as P/C strings) of the two programs with at most maxsw context switches *)
let enum w pprog cprog maxsw =
  let out = ref [] in
  let rec go s pprog cprog acc last sw =
    let pmove = match parent_next pprog with
      | Some (l, r) -> (match istep w s l with Some s' -> Some (s', r) | None -> None) | None -> None in
    let cmove = match child_next s cprog with
      | Some (l, r) -> (match istep w s l with Some s' -> Some (s', r) | None -> None) | None -> None in
    if pmove = None && cmove = None then out := acc :: !out
    else begin
      (match pmove with
       | Some (s', r) ->
           let sw' = if last = 'C' then sw + 1 else sw in
           if sw' <= maxsw then go s' r cprog (acc ^ "P") 'P' sw'
       | None -> ());
      (match cmove with
       | Some (s', r) ->
           let sw' = if last = 'P' then sw + 1 else sw in
           if sw' <= maxsw then go s' pprog r (acc ^ "C") 'C' sw'
       | None -> ())
    end in
  go ist_init pprog cprog "" 'P' 0;
  List.rev !out

let variant clears ci = { iv_large_completion_clears_all = (clears = "1"); iv_route_case_insensitive = (ci = "1") }

let show_dest = function
  | DExternalSelf -> "ext" | DInternalSelf -> "int" | DParent -> "parent"
  | DSession sid -> "session:" ^ hex_of_bytes sid | DInvoker id -> "inv:" ^ hex_of_bytes id
  | DError ErrExecution -> "err.execution" | DError ErrCommunication -> "err.communication"

let handle (line:string) : string =
  match split line with
  | ["bk"; engine; clears; hi; cfgs; compl] ->
      let hi = nats hi in
      let has_invoke s = List.mem s hi in
      let cfgs = List.map (fun c -> List.map (fun x -> nat_of_int (int_of_string x)) (if c = "-" then [] else String.split_on_char '.' c))
          (String.split_on_char '/' cfgs) in
      let v = variant clears "0" in
      let f = if engine = "large" then large_macro_end has_invoke else fast_macro_end has_invoke in
      let (tr, inv) = bk_run f cfgs [] in
      let last = match List.rev cfgs with c :: _ -> c | [] -> [] in
      let (ca, _) = if engine = "large" then large_completion has_invoke v last inv else fast_completion has_invoke last inv in
      let spec =
        let rec go prev = function [] -> [] | c :: r -> spec_macro_end has_invoke c prev :: go c r in go [] cfgs in
      Printf.sprintf "steps=%s compl=%s spec=%s inv=%s" (String.concat "/" (List.map show_bks tr))
        (if compl = "1" then show_bks ca else "-") (String.concat "/" (List.map show_bks spec)) (show_nats inv)
  | ["w3c"; hi; running; ms] ->
      let hi = nats hi in
      let has_invoke s = List.mem s hi in
      let ms = List.map (fun m -> match String.split_on_char '>' m with
          | [ex; en] -> (nats ex, nats en) | _ -> failwith "microstep") (String.split_on_char '/' ms) in
      let (a, ru) = w3c_macro has_invoke ms (nats running) in
      Printf.sprintf "actions=%s running=%s" (show_bks a) (show_nats ru)
  | ["sched"; w; pprog; cprog; sched] ->
      let pprog = List.map label_of_string (csv pprog) and cprog = List.map citem_of_string (csv cprog) in
      let ((s, tr), err) = sched_run (nat_of_int (int_of_string w)) ist_init pprog cprog (sched_of_string sched) in
      Printf.sprintf "trace=%s err=%s %s" (if tr = [] then "-" else String.concat "," (List.map string_of_label tr))
        (match err with None -> "-" | Some k -> string_of_int (int_of_nat k)) (show_state s)
  | ["enum"; w; pprog; cprog; maxsw] ->
      let pprog = List.map label_of_string (csv pprog) and cprog = List.map citem_of_string (csv cprog) in
      let l = enum (nat_of_int (int_of_string w)) pprog cprog (int_of_string maxsw) in
      if l = [] then "-" else String.concat ";" l
  | ["run"; w; labels] ->
      let (s, err) = irun (nat_of_int (int_of_string w)) ist_init (List.map label_of_string (csv labels)) in
      Printf.sprintf "err=%s %s enabled=%s" (match err with None -> "-" | Some k -> string_of_int (int_of_nat k)) (show_state s)
        (String.concat "," (List.map string_of_label (enabled (nat_of_int (int_of_string w)) s)))
  | ["route"; ci; target; hasparent; sessions; invokers] ->
      let v = variant "0" ci in
      let tb = { st_has_parent = (hasparent = "1"); st_sessions = hexlist sessions; st_invokers = hexlist invokers } in
      let t = bytes_of_hex target in
      Printf.sprintf "valid=%s dest=%s send=%s" (b2s (is_valid_target t)) (show_dest (route v t tb)) (show_dest (send_dest v t tb))
  | ["deq"; evid; finalizers; autofwd; invokers] ->
      let acts = dequeue_external (bytes_of_hex evid) (hexlist finalizers) (hexlist autofwd) (hexlist invokers) in
      String.concat "," (List.map (function ASetEvent -> "set" | AFinalize i -> "fin:" ^ hex_of_bytes i
                                          | AForward i -> "fwd:" ^ hex_of_bytes i | AMatch -> "match") acts)
  | ["teardown"; sticky; d; labels] ->
      let k = (sticky = "1") in
      let d = (match d with "read" -> DRead | "enter" -> DEnter | "loop" -> DLoop | _ -> DEnd) in
      let lab = function "d_read" -> TD_read | "d_enter" -> TD_enter | "d_wake" -> TD_wake | "t_clear" -> TT_clear
                       | "t_break" -> TT_break | "t_join" -> TT_join | s -> failwith ("tlabel " ^ s) in
      (match trun k (tst_init d) (List.map lab (csv labels)) with
       | None -> "err"
       | Some s -> Printf.sprintf "stuck=%s returned=%s" (b2s (tstuck k s)) (b2s (s.tp = TRet)))
  | ["oracle"; mea; bi; ai; bu; au; exited; dn; alone; c2u1; begun; aret; csteps; ms; stuck] ->
      let n x = nat_of_int (int_of_string x) in
      let o = { o_macro_end_active = (mea = "1"); o_before_inv = n bi; o_after_inv = n ai; o_before_uninv = n bu; o_after_uninv = n au;
                o_exited = (exited = "1"); o_done = n dn; o_child_final_alone = (alone = "1");
                o_c2_before_u1 = (c2u1 = "1"); o_uninvoke_begun = (begun = "1"); o_after_return = n aret;
                o_child_steps_after_return = n csteps; o_msgs = nats ms; o_stuck = (stuck = "1") } in
      b2s (invoke_protocolb o)
  | _ -> "ERR unknown command"

let () = main_loop handle
