(* driver.ml -- line-oriented front end of the extracted reset-race model (C10, ResetRace.v).
   gen
        the regenerated facts the theorems are about:  ok=<0|1> order=<D,E,I..|-> locks=<0|1> delay_first=<0|1>
   rr <locks 0|1> <order D,E,I|gen> <kind d|e> <sched>
        one delayed send of the previous life (uuid 7; kind d = deliverable, e = undeliverable) is pending and
        the timer thread is idle when reset() is called with the given order of sub-steps; both queues empty.
        sched: comma separated  R = next sub-step of reset()   F = the timer fires   T = next critical section of
        the timer thread   S = step() of the restarted machine dequeues.  An action that is not enabled is skipped.
        answer: class=clean|stale|blocked|notreturned ext=<n> int=<n> pend=<n> processed=<n> raced=<0|1>
                at_return=<clean|stale|->      (the class at the first moment reset() had returned)
   dgen
        the regenerated facts about ~InterpreterImpl():  ok=<0|1> locks=<0|1> drops_al=<0|1> joins=<0|1> members=<A,T,M,I,E,Q,P..>
        safe=<destroy_safeb for alref 1> safe_by_order=<destroy_safe_by_orderb for alref 1>
   dr <locks> <drops_al> <joins>|gen <members|gen> <kind d|e> <alref 0|1> <sched>
        destruction of an interpreter with one pending delayed send (uuid 7), timer thread idle at the start.
        sched: comma separated  D = next sub-step of the destructor   F = the timer fires   T = next step of the callback.
        answer: class=clean|after-destruction|blocked|notfinished fault=<0|1> after_done=<0|1> joined=<0|1> *)
open Vmodel

(*COMMON*)

let part_of = function
  | "D" -> ResetDelay | "E" -> ResetExternal | "I" -> ResetInternal
  | s -> failwith ("unknown part " ^ s)
let part_str = function ResetDelay -> "D" | ResetExternal -> "E" | ResetInternal -> "I"
let order_of s = if s = "gen" then reset_order else if s = "-" then [] else List.map part_of (String.split_on_char ',' s)
let order_str o = if o = [] then "-" else String.concat "," (List.map part_str o)

let act_of = function
  | "R" -> AReset | "T" -> ATimer | "S" -> AStep | "F" -> AFire (n_of_int 7)
  | s -> failwith ("unknown action " ^ s)

let class_str = function OClean -> "clean" | OStale -> "stale" | OBlocked -> "blocked" | ONotReturned -> "notreturned"

let member_of = function
  | "A" -> MAl | "T" -> MTargets | "M" -> MDelayMutex | "I" -> MInternalQueue | "E" -> MExternalQueue
  | "Q" -> MDelayQueue | "P" -> MIoProcs | s -> failwith ("unknown member " ^ s)
let member_str = function
  | MAl -> "A" | MTargets -> "T" | MDelayMutex -> "M" | MInternalQueue -> "I" | MExternalQueue -> "E"
  | MDelayQueue -> "Q" | MIoProcs -> "P"
let members_of s = if s = "gen" then destroy_members else if s = "-" then [] else List.map member_of (String.split_on_char ',' s)
let dact_of = function
  | "D" -> DaDestroy | "T" -> DaTimer | "F" -> DaFire (n_of_int 7) | s -> failwith ("unknown action " ^ s)
let dclass_str = function DClean -> "clean" | DAfterDestruction -> "after-destruction" | DBlocked -> "blocked" | DNotFinished -> "notfinished"

let handle line =
  match split line with
  | ["dgen"] ->
      Printf.sprintf "ok=%s locks=%s drops_al=%s joins=%s members=%s safe=%s safe_by_order=%s" (b2s destroy_source_ok)
        (b2s destroy_locks_targets) (b2s destroy_drops_al) (b2s destroy_joins_in_body)
        (if destroy_members = [] then "-" else String.concat "," (List.map member_str destroy_members))
        (b2s (destroy_safeb dv_gen true)) (b2s (destroy_safe_by_orderb dv_gen true destroy_members))
  | "dr" :: rest ->
      let (v, rest) = (match rest with
        | "gen" :: r -> (dv_gen, r)
        | l :: d :: j :: r -> ({ dv_locks_targets = (l = "1"); dv_drops_al = (d = "1"); dv_joins_in_body = (j = "1") }, r)
        | _ -> failwith "usage") in
      (match rest with
       | [members; kind; alref; sched] ->
           let k = (match kind with "d" -> KDeliver | "e" -> KError | _ -> failwith "kind") in
           let s0 = d_at_call (destroy_prog v (members_of members)) [n_of_int 7] [(n_of_int 7, k)] CbIdle (alref = "1") in
           let acts = if sched = "-" then [] else List.map dact_of (String.split_on_char ',' sched) in
           let s = d_run s0 acts in
           Printf.sprintf "class=%s fault=%s after_done=%s joined=%s" (dclass_str (d_classify s)) (b2s s.d_fault)
             (b2s s.d_after_done) (b2s s.d_joined)
       | _ -> "ERR usage")
  | ["gen"] ->
      Printf.sprintf "ok=%s order=%s locks=%s delay_first=%s" (b2s reset_order_source_ok) (order_str reset_order)
        (b2s reset_locks_targets) (b2s (delay_firstb reset_order))
  | ["rr"; locks; order; kind; sched] ->
      let v = if locks = "gen" then rv_gen else (locks = "1") in
      let k = (match kind with "d" -> KDeliver | "e" -> KError | _ -> failwith "kind") in
      let s0 = rr_at_call (order_of order) [] [] [n_of_int 7] [(n_of_int 7, k)] CbIdle in
      let acts = if sched = "-" then [] else List.map act_of (String.split_on_char ',' sched) in
      let at_ret = ref "-" in
      let s = List.fold_left (fun s a ->
                let s' = rr_step v s a in
                if !at_ret = "-" && returned s' then at_ret := class_str (rr_classify s');
                s') s0 acts in
      Printf.sprintf "class=%s ext=%d int=%d pend=%d processed=%d raced=%s at_return=%s"
        (class_str (rr_classify s)) (List.length s.r_ext) (List.length s.r_int) (List.length s.r_pend)
        (List.length s.r_processed) (b2s s.r_raced) !at_ret
  | _ -> "ERR usage"

let () = main_loop handle
