(* driver.ml -- line-oriented front end of the extracted reset-race model (C10, ResetRace.v).
   gen
        the regenerated facts the theorems are about:  ok=<0|1> order=<D,E,I..|-> locks=<0|1> delay_first=<0|1>
   rr <locks 0|1> <order D,E,I|gen> <kind d|e> <sched>
        one delayed send of the previous life (uuid 7; kind d = deliverable, e = undeliverable) is pending and
        the timer thread is idle when reset() is called with the given order of sub-steps; both queues empty.
        sched: comma separated  R = next sub-step of reset()   F = the timer fires   T = next critical section of
        the timer thread   S = step() of the restarted machine dequeues.  An action that is not enabled is skipped.
        answer: class=clean|stale|blocked|notreturned ext=<n> int=<n> pend=<n> processed=<n> raced=<0|1>
                at_return=<clean|stale|->      (the class at the first moment reset() had returned) *)
open Vmodel

(*COMMON*)

let part_of = function
  | "D" -> ResetDelay | "E" -> ResetExternal | "I" -> ResetInternal
  | s -> failwith ("unknown part " ^ s)
let part_str = function ResetDelay -> "D" | ResetExternal -> "E" | ResetInternal -> "I"
let order_of s = if s = "gen" then reset_order else if s = "-" then [] else List.map part_of (String.split_on_char ',' s)
let order_str o = if o = [] then "-" else String.concat "," (List.map part_str o)

let act_of = function
  | "R" -> AReset | "T" -> ATimer | "S" -> AStep | "F" -> AFire (n_of_int 7)
  | s -> failwith ("unknown action " ^ s)

let class_str = function OClean -> "clean" | OStale -> "stale" | OBlocked -> "blocked" | ONotReturned -> "notreturned"

let handle line =
  match split line with
  | ["gen"] ->
      Printf.sprintf "ok=%s order=%s locks=%s delay_first=%s" (b2s reset_order_source_ok) (order_str reset_order)
        (b2s reset_locks_targets) (b2s (delay_firstb reset_order))
  | ["rr"; locks; order; kind; sched] ->
      let v = if locks = "gen" then rv_gen else (locks = "1") in
      let k = (match kind with "d" -> KDeliver | "e" -> KError | _ -> failwith "kind") in
      let s0 = rr_at_call (order_of order) [] [] [n_of_int 7] [(n_of_int 7, k)] CbIdle in
      let acts = if sched = "-" then [] else List.map act_of (String.split_on_char ',' sched) in
      let at_ret = ref "-" in
      let s = List.fold_left (fun s a ->
                let s' = rr_step v s a in
                if !at_ret = "-" && returned s' then at_ret := class_str (rr_classify s');
                s') s0 acts in
      Printf.sprintf "class=%s ext=%d int=%d pend=%d processed=%d raced=%s at_return=%s"
        (class_str (rr_classify s)) (List.length s.r_ext) (List.length s.r_int) (List.length s.r_pend)
        (List.length s.r_processed) (b2s s.r_raced) !at_ret
  | _ -> "ERR usage"

let () = main_loop handle
