(* Extract.v -- extraction of the reset-race model (C10, theories/ResetRace.v) with the regenerated
   order of reset() (gen/GenResetOrder.v): model files only, ExtrOcamlBasic only, no Extract Constant. *)
Require Extraction.
Require Import ExtrOcamlBasic.
From V Require Import Base GenResetOrder GenDestroyOrder ResetRace ResetRaceDestroy.
Extraction Language OCaml.
Extraction "vmodel.ml"
  rr_run rr_step rr_at_call rr_classify returned nothing_leftb cb_quietb delay_firstb
  Build_rr_variant rv_gen reset_order reset_locks_targets reset_order_source_ok
  d_run d_step d_at_call destroy_prog d_classify Build_dvariant dv_gen destroy_safeb destroy_safe_by_orderb
  destroy_source_ok destroy_locks_targets destroy_drops_al destroy_joins_in_body destroy_members
  Datatypes.nat. (* common.ml converts nat *)
