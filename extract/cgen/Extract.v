(* extraction of the model of the emitted ANSI-C machine (ExtrOcamlBasic only) *)
Require Extraction.
Require Import ExtrOcamlBasic.
From V Require Import Base NameMatch Chart Exec Large Fast CGen.
Extraction Language OCaml.
Extraction "vmodel.ml" run_cgen run_bgen run_agree bmachine_of m_maxs m_maxt m_ws m_wt cg_emitted cg_repaired Build_cg_variant CoverNone flatten max_bytes nr_bytes width_for char_array_size.
