(* driver.ml -- model of the emitted ANSI-C machine (CGen.v): `run <variant bits> <fuel> <tree> (<hex events>)`
   prints the trace in the format of harness/cgen_harness.c (`brun`: the byte-level model); `sizes <n>` prints the sizing macros for n states *)
open Vmodel

(*COMMON*)

(* ---- s-expressions ---- *)
type sexp = Atom of string | L of sexp list

let parse_sexp (s : string) : sexp list =
  let n = String.length s in
  let pos = ref 0 in
  let rec skip () = while !pos < n && (s.[!pos] = ' ' || s.[!pos] = '\t') do incr pos done in
  let rec parse_list () : sexp list =
    skip ();
    if !pos >= n then []
    else if s.[!pos] = ')' then []
    else begin
      let x = parse_one () in
      x :: parse_list ()
    end
  and parse_one () : sexp =
    skip ();
    if s.[!pos] = '(' then begin
      incr pos;
      let l = parse_list () in
      skip ();
      if !pos < n && s.[!pos] = ')' then incr pos;
      L l
    end else begin
      let st = !pos in
      while !pos < n && s.[!pos] <> ' ' && s.[!pos] <> '(' && s.[!pos] <> ')' do incr pos done;
      Atom (String.sub s st (!pos - st))
    end in
  parse_list ()

let z_of_int (i:int) : z = if i = 0 then Z0 else if i > 0 then Zpos (pos_of_int i) else Zneg (pos_of_int (-i))
let int_of_z = function Z0 -> 0 | Zpos p -> int_of_pos p | Zneg p -> - (int_of_pos p)
let atom = function Atom a -> a | L _ -> failwith "atom expected"
let nat_n a = n_of_int (int_of_string (atom a))

let rec iexpr_of = function
  | Atom "bad" -> IBad
  | L [Atom "n"; a] -> INum (z_of_int (int_of_string (atom a)))
  | L [Atom "v"; a] -> IVar (nat_n a)
  | L [Atom "+"; a; b] -> IAdd (iexpr_of a, iexpr_of b)
  | L [Atom "-"; a; b] -> ISub (iexpr_of a, iexpr_of b)
  | _ -> failwith "iexpr"
let rec bexpr_of = function
  | Atom "true" -> BTrue | Atom "false" -> BFalse | Atom "bad" -> BBad
  | L [Atom "in"; a] -> BIn (nat_n a)
  | L [Atom "<"; a; b] -> BLt (iexpr_of a, iexpr_of b)
  | L [Atom "!"; a] -> BNot (bexpr_of a)
  | L [Atom "&"; a; b] -> BAnd (bexpr_of a, bexpr_of b)
  | L [Atom "|"; a; b] -> BOr (bexpr_of a, bexpr_of b)
  | _ -> failwith "bexpr"
let rec instr_of = function
  | L [Atom "raise"; v; e] -> IRaise (nat_n v, bytes_of_hex (atom e))
  | L [Atom "send"; v; e] -> ISend (nat_n v, bytes_of_hex (atom e))
  | L [Atom "sendbt"; v; e] -> ISendBadType (nat_n v, bytes_of_hex (atom e))
  | L [Atom "sendbg"; v; e] -> ISendBadTarget (nat_n v, bytes_of_hex (atom e))
  | L [Atom "log"; v; e] -> ILog (nat_n v, iexpr_of e)
  | L [Atom "assign"; v; x; e] -> IAssign (nat_n v, nat_n x, iexpr_of e)
  | L (Atom "if" :: v :: c :: items) -> IIf (nat_n v, bexpr_of c, List.map item_of items)
  | _ -> failwith "instr"
and item_of = function
  | L [Atom "elseif"; c] -> FElseif (bexpr_of c)
  | L [Atom "else"] -> FElse
  | x -> FInstr (instr_of x)
let block_of = function L l -> List.map instr_of l | _ -> failwith "block"
let trans_of = function
  | L [Atom "t"; vid; ev; cond; tg; internal; body] ->
      { tt_vid = nat_n vid;
        tt_event = (match ev with Atom "-" -> None | a -> Some (bytes_of_hex (atom a)));
        tt_cond = (match cond with Atom "-" -> None | c -> Some (bexpr_of c));
        tt_targets = (match tg with Atom "-" -> None | L l -> Some (List.map nat_n l) | _ -> failwith "targets");
        tt_internal = (atom internal = "1");
        tt_body = block_of body }
  | _ -> failwith "trans"
let kind_of = function
  | "scxml" -> KScxml | "state" -> KState | "parallel" -> KParallel | "final" -> KFinal
  | "hs" -> KHistShallow | "hd" -> KHistDeep | "initial" -> KInitial | _ -> failwith "kind"
let rec tree_of = function
  | L [Atom "N"; k; sid; ini; L (Atom "T" :: ts); L (Atom "EN" :: en); L (Atom "EX" :: ex); L (Atom "D" :: ds); L (Atom "K" :: kids)] ->
      TNode (kind_of (atom k), nat_n sid,
             (match ini with Atom "-" -> None | L l -> Some (List.map nat_n l) | _ -> failwith "init"),
             List.map trans_of ts, List.map block_of en, List.map block_of ex,
             List.map (function L [v; e] -> (nat_n v, iexpr_of e) | _ -> failwith "data") ds,
             List.map tree_of kids)
  | _ -> failwith "tree"


let rc_name c = match int_of_n c with 0 -> "OK" | 1 -> "IDLE" | 2 -> "DONE" | k -> "ERR" ^ string_of_int k
let ids l = String.concat "," (List.map (fun x -> string_of_int (int_of_n x)) l)
let ctok_str = function
  | CEv n -> "EV:" ^ hex_of_bytes n
  | CRaise n -> "RAISE:" ^ hex_of_bytes n
  | CSend n -> "SEND:" ^ hex_of_bytes n
  | CDone s -> "DONE:" ^ string_of_int (int_of_n s)
  | CRet c -> "RET:" ^ rc_name c
  | CCfg l -> "CFG:" ^ ids l
  | CHist l -> "H:" ^ ids l

let bits s i = String.length s > i && s.[i] = '1'
(* third character of the variant: 1 = covering, outer histories first (as emitted originally), 2 = covering, inner first, 0 = no covering *)
let cover_of s = if String.length s > 2 && s.[2] = '1' then CoverOuterFirst else if String.length s > 2 && s.[2] = '2' then CoverInnerFirst else CoverNone

let handle (line:string) : string =
  match parse_sexp line with
  | Atom "run" :: Atom vflags :: Atom fuel :: tree :: L evs :: _ ->
      let cv = { cg_hist_active_parent = bits vflags 0; cg_tlf_first_byte = bits vflags 1; cg_cover = cover_of vflags } in
      let toks = run_cgen cv (tree_of tree) (List.map (fun e -> bytes_of_hex (atom e)) evs) (nat_of_int (int_of_string fuel)) in
      String.concat " " (List.map ctok_str toks)
  | Atom "brun" :: Atom vflags :: Atom fuel :: tree :: L evs :: _ ->
      let cv = { cg_hist_active_parent = bits vflags 0; cg_tlf_first_byte = bits vflags 1; cg_cover = cover_of vflags } in
      let (toks, fin) = run_bgen cv (tree_of tree) (List.map (fun e -> bytes_of_hex (atom e)) evs) (nat_of_int (int_of_string fuel)) in
      String.concat " " (List.map ctok_str toks) ^
      (match fin with BEnd -> "" | BOob s -> " OOB:" ^ string_of_int (int_of_n s) | BDiverge -> " DIVERGE" | BFuel -> " OUT-OF-FUEL")
  | Atom "agree" :: Atom vflags :: Atom fuel :: tree :: L evs :: _ ->
      let cv = { cg_hist_active_parent = bits vflags 0; cg_tlf_first_byte = bits vflags 1; cg_cover = cover_of vflags } in
      b2s (run_agree cv (tree_of tree) (List.map (fun e -> bytes_of_hex (atom e)) evs) (nat_of_int (int_of_string fuel)))
  | Atom "tables" :: Atom vflags :: tree :: _ ->
      let cv = { cg_hist_active_parent = bits vflags 0; cg_tlf_first_byte = bits vflags 1; cg_cover = cover_of vflags } in
      let c = flatten false (tree_of tree) in
      let bm = bmachine_of cv c in
      let hexb a = String.concat "" (List.map (fun b -> Printf.sprintf "%02x" (int_of_n b)) a) in
      let b x = if x then "1" else "0" in
      String.concat " "
        ([Printf.sprintf "N:%d,%d,%d,%d,%d,%d" (int_of_nat bm.bm_ns) (int_of_nat bm.bm_nt) (int_of_nat (m_maxs c)) (int_of_nat (m_maxt c))
            (int_of_n (m_ws c)) (int_of_n (m_wt c))] @
         List.mapi (fun i s -> Printf.sprintf "S:%d:%d:%d:%s:%s:%s" i (int_of_nat s.bs_parent) (int_of_n s.bs_type) (hexb s.bs_children)
                                 (hexb s.bs_completion) (hexb s.bs_ancestors)) bm.bm_states @
         List.mapi (fun j t -> Printf.sprintf "T:%d:%d:%d:%s:%s:%s:%s%s" j (int_of_nat t.bt_source) (int_of_n t.bt_type) (hexb t.bt_target)
                                 (hexb t.bt_conflicts) (hexb t.bt_exit) (b t.bt_has_event) (b t.bt_has_cond)) bm.bm_trans)
  | Atom "sizes" :: Atom n :: _ ->
      let n = n_of_int (int_of_string n) in
      let w = width_for n in
      Printf.sprintf "%d %d %d" (int_of_n w) (int_of_n (max_bytes n)) (int_of_n (nr_bytes w n))
  | _ -> "ERR unknown command"

let () = main_loop handle
