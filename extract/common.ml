(* common.ml -- helpers shared by the model drivers; textually prepended to each driver.ml
   after `open Vmodel` (so the extracted datatypes n, positive, nat are in scope). *)
let rec pos_of_int (i:int) : positive =
  if i = 1 then XH else if i land 1 = 1 then XI (pos_of_int (i lsr 1)) else XO (pos_of_int (i lsr 1))
let n_of_int (i:int) : n = if i = 0 then N0 else Npos (pos_of_int i)
let rec int_of_pos = function XH -> 1 | XO p -> 2 * int_of_pos p | XI p -> 2 * int_of_pos p + 1
let int_of_n = function N0 -> 0 | Npos p -> int_of_pos p
let rec nat_of_int i = if i <= 0 then O else S (nat_of_int (i-1))
let rec int_of_nat = function O -> 0 | S k -> 1 + int_of_nat k

let bytes_of_hex (s:string) : n list =
  if s = "-" then [] else
  let l = String.length s / 2 in
  List.init l (fun i -> n_of_int (int_of_string ("0x" ^ String.sub s (2*i) 2)))
let hex_of_bytes (l : n list) : string =
  if l = [] then "-" else String.concat "" (List.map (fun b -> Printf.sprintf "%02x" (int_of_n b)) l)
let b2s b = if b then "1" else "0"
let split s = List.filter (fun x -> x <> "") (String.split_on_char ' ' s)

let main_loop (handle : string -> string) =
  try
    while true do
      let line = input_line stdin in
      print_string (try handle line with e -> "EXC " ^ Printexc.to_string e); print_newline ()
    done
  with End_of_file -> ()
