(* driver.ml -- validation model: one command per line.
   document: (tag id initial target deep cond event kid ...) ; id: - none, = empty, else hex;
   initial/target: - none or (hex ...) ; paths are printed root first, dotted, the root is "r". *)
open Vmodel

(*COMMON*)

type sexp = Atom of string | L of sexp list
let parse_sexp (s : string) : sexp list =
  let n = String.length s in
  let pos = ref 0 in
  let skip () = while !pos < n && (s.[!pos] = ' ' || s.[!pos] = '\t') do incr pos done in
  let rec parse_list () : sexp list =
    skip ();
    if !pos >= n then [] else if s.[!pos] = ')' then []
    else begin let x = parse_one () in x :: parse_list () end
  and parse_one () : sexp =
    skip ();
    if s.[!pos] = '(' then begin
      incr pos; let l = parse_list () in skip ();
      if !pos < n && s.[!pos] = ')' then incr pos; L l
    end else begin
      let st = !pos in
      while !pos < n && s.[!pos] <> ' ' && s.[!pos] <> '(' && s.[!pos] <> ')' do incr pos done;
      Atom (String.sub s st (!pos - st))
    end in
  parse_list ()

let tag_of = function
  | "scxml" -> GScxml | "state" -> GState | "parallel" -> GParallel | "final" -> GFinal
  | "history" -> GHistory | "initial" -> GInitial | "transition" -> GTransition
  | "container" -> GContainer | "exec" -> GExec | _ -> GOther
let idtok = function Atom "=" -> [] | Atom h -> bytes_of_hex h | _ -> failwith "id"
let optid = function Atom "-" -> None | a -> Some (idtok a)
let optids = function Atom "-" -> None | L l -> Some (List.map idtok l) | _ -> failwith "ids"
let flag = function Atom "1" -> true | _ -> false
let rec doc_of = function
  | L (Atom t :: id :: ini :: tg :: deep :: cond :: ev :: kids) ->
      GNode (tag_of t, { ga_id = optid id; ga_initial = optids ini; ga_target = optids tg;
                         ga_deep = flag deep; ga_cond = flag cond; ga_event = flag ev },
             List.map doc_of kids)
  | _ -> failwith "doc"

let path_str (p : nat list) : string =
  if p = [] then "r" else String.concat "." (List.rev_map (fun i -> string_of_int (int_of_nat i)) p)
let path_of (s : string) : nat list =
  if s = "r" then [] else List.rev_map (fun x -> nat_of_int (int_of_string x)) (String.split_on_char '.' s)

let sev_str = function Fatal -> "0" | Warning -> "1" | Info -> "2"
let cls_str = function
  | INoId -> "NoId" | IEmptyId -> "EmptyId" | IHistMulti -> "HistMulti" | IHistNone -> "HistNone"
  | IHistCond -> "HistCond" | IHistEvent -> "HistEvent" | IHistNoTarget -> "HistNoTarget"
  | IHistDeepIllegal -> "HistDeepIllegal" | IHistShallowIllegal -> "HistShallowIllegal"
  | IHistPseudoTarget -> "HistPseudoTarget"
  | IUnreachable -> "Unreachable" | IDuplicate -> "Duplicate"
  | ITransEmptyTargets -> "TransEmptyTargets" | ITransNoSuchTarget -> "TransNoSuchTarget"
  | IUselessHistAtomic -> "UselessHistAtomic" | IUselessHistSingle -> "UselessHistSingle"
  | IInitAttrInvalid -> "InitAttrInvalid" | IInitAttrNonChild -> "InitAttrNonChild"
  | IInitAttrEmpty -> "InitAttrEmpty"
  | IIllegalTargets -> "IllegalTargets" | IInitialNotOneTrans -> "InitialNotOneTrans"
  | IInitTransCond -> "InitTransCond" | IInitTransEvent -> "InitTransEvent"
  | IInitTransNonChild -> "InitTransNonChild" | IInitTransNoTarget -> "InitTransNoTarget"
  | IExecUnknown -> "ExecUnknown" | INesting -> "Nesting"

let variant_of (s : string) : vvariant =
  let b i = String.length s > i && s.[i] = '1' in
  { vv_getstates_null = b 0; vv_any_parallel_ancestor = b 1; vv_root_initial_unchecked = b 2;
    vv_initial_target_optional = b 3; vv_id_required = b 4; vv_nesting_warning_only = b 5;
    vv_empty_initial_unchecked = b 6; vv_hist_pseudo_target_unchecked = b 7 }

let find_el (d : gdoc) (p : nat list) : el =
  let r = root_el d in
  List.find (fun e -> e.e_path = p) (r :: descendants r)

let handle (line:string) : string =
  match parse_sexp line with
  | [Atom "validate"; Atom vf; doc] ->
      (match validate (variant_of vf) (doc_of doc) with
       | Crash w -> "CRASH " ^ string_of_int (int_of_n w)
       | OutOfFuel -> "OUTOFFUEL"
       | Ok l ->
           "OK " ^ String.concat ";" (List.map (fun i ->
             Printf.sprintf "%s:%s:%s:%s" (sev_str i.i_sev) (cls_str i.i_cls) (path_str i.i_at)
               (String.concat "," (List.map hex_of_bytes i.i_args))) l))
  | [Atom "wf"; doc] ->
      let d = doc_of doc in
      Printf.sprintf "wf=%s conf=%s single=%s plain=%s root=%s nesting=%s ids=%s targets=%s initattr=%s initial=%s history=%s sets=%s"
        (b2s (wf_chartb d)) (b2s (conformantb d)) (b2s (single_machine d)) (b2s (plain_ids d))
        (b2s (wf_root d)) (b2s (wf_nesting d)) (b2s (wf_ids d)) (b2s (wf_targets d)) (b2s (wf_initattr d)) (b2s (wf_initial_el d))
        (b2s (wf_history d)) (b2s (wf_target_sets d))
  | Atom "legalcfg" :: doc :: cfgs ->
      let d = doc_of doc in
      String.concat "" (List.map (function
        | L l -> b2s (legal_cfg d (List.map (fun a -> match a with Atom s -> path_of s | _ -> failwith "path") l))
        | _ -> "?") cfgs)
  | [Atom "completion"; Atom vf; doc; L ps] ->
      let d = doc_of doc in
      let els = List.map (function Atom s -> find_el d (path_of s) | _ -> failwith "path") ps in
      Printf.sprintf "impl=%s spec=%s" (b2s (has_legal_completion (variant_of vf) els))
        (b2s (List.length els < 2 || pairwise_compatible els))
  | [Atom "nconfigs"; doc; Atom p] ->
      let d = doc_of doc in
      let e = find_el d (path_of p) in
      string_of_int (List.length (all_configs e.e_path e.e_node))
  | _ -> "ERR unknown command"

let () = main_loop handle
