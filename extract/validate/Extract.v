(* extraction of the validation model (ExtrOcamlBasic only, no Extract Constant) *)
Require Extraction.
Require Import ExtrOcamlBasic.
From V Require Import Base Validate.
Extraction Language OCaml.
Extraction "vmodel.ml" validate wf_chartb conformantb single_machine plain_ids wf_root wf_nesting wf_ids wf_targets
  wf_initattr wf_initial_el wf_history wf_target_sets legal_cfg has_legal_completion pairwise_compatible
  root_el descendants all_configs syntax_warnings vv_pinned vv_fixed vv_hist_unchecked Build_vvariant Build_gattrs.
