// vd_c07.cpp -- C07 (errors become error events, never crashes): document-level fault runs.
//
//   c07run <engine> <hex scxml> <fuel> <wait_ms> <item>*
//       interprets the document like `run` (vd_run.cpp) but
//         * an item is either a hex event name (delivered as an external event when the interpreter is idle)
//           or `~<hex event name>`: go on stepping (without consuming fuel) until an event of that name
//           has been processed, at most wait_ms -- for events that arrive from another thread (an invoked
//           session answering, a delayed send, an error raised by the timer thread);
//         * an exception that leaves Interpreter::step() ends the run and is part of the answer
//           (`EXC:<hex what()>`), the trace up to that point is kept.
//       answer: EV:<hex name> (beforeProcessingEvent) IN:<state id> (beforeEnteringState) RET:<step result>
//               WAIT:ok|timeout EXC:<hex> LOG:<hex text> ... END
//       A crash of the process (abort from a foreign thread, signal) is seen by the caller: no answer line.
#include "uscxml/config.h"
#include "uscxml/Common.h"
#include "uscxml/Interpreter.h"
#include "uscxml/interpreter/InterpreterImpl.h"
#include "uscxml/interpreter/InterpreterMonitor.h"
#include "uscxml/interpreter/LoggingImpl.h"
#include "uscxml/interpreter/MicroStep.h"
#include "uscxml/plugins/Factory.h"
#include "uscxml/util/DOM.h"

#include <sstream>
#include <thread>
#include <chrono>
#include <mutex>
#include <set>
#include "vd_common.h"

using namespace uscxml;
using namespace XERCESC_NS;

namespace vd_c07 {

struct Rec {
	std::mutex m;
	std::ostringstream out;
	std::set<std::string> seen;   // names of processed events
	void tok(const std::string& t) { std::lock_guard<std::mutex> l(m); out << t << " "; }
	void ev(const std::string& name) { std::lock_guard<std::mutex> l(m); out << "EV:" << hex(name) << " "; seen.insert(name); }
	bool has(const std::string& name) { std::lock_guard<std::mutex> l(m); return seen.count(name) > 0; }
};

class Mon : public InterpreterMonitor {
public:
	Rec* r;
	std::string session;   // only the top-level session is recorded (monitors are not copied to invokers)
	Mon(Rec* rec) : r(rec) {}
	void beforeProcessingEvent(const std::string&, const Event& event) { r->ev(event.name); }
	void beforeEnteringState(const std::string&, const std::string&, const DOMElement* s) {
		r->tok("IN:" + (HAS_ATTR(s, X("id")) ? ATTR(s, X("id")) : std::string("?")));
	}
};

class Log : public LoggerImpl {
public:
	Rec* r;
	Log(Rec* rec) : r(rec) {}
	std::shared_ptr<LoggerImpl> create() { return std::shared_ptr<LoggerImpl>(new Log(r)); }
	void log(LogSeverity, const Event&) {}
	void log(LogSeverity, const Data&) {}
	void log(LogSeverity severity, const std::string& message) {
		if (severity != USCXML_LOG) return;
		std::string m = message;
		while (m.size() && (m.back() == '\n' || m.back() == ' ')) m.pop_back();
		r->tok("LOG:" + hex(m));
	}
};

static const char* rcName(InterpreterState s) {
	switch (s) {
	case USCXML_FINISHED: return "FINISHED";
	case USCXML_INITIALIZED: return "INITIALIZED";
	case USCXML_MICROSTEPPED: return "MICROSTEPPED";
	case USCXML_MACROSTEPPED: return "MACROSTEPPED";
	case USCXML_IDLE: return "IDLE";
	case USCXML_CANCELLED: return "CANCELLED";
	case USCXML_INSTANTIATED: return "INSTANTIATED";
	default: return "UNDEF";
	}
}

static std::string cmd_c07run(const std::vector<std::string>& a) {
	if (a.size() < 5) return "ERR usage";
	Rec* rec = new Rec();   // deliberately not freed: foreign threads may still log when the answer is printed
	int fuel = atoi(a[3].c_str());
	int waitMs = atoi(a[4].c_str());
	Interpreter* inp = NULL;
	try {
		inp = new Interpreter(Interpreter::fromXML(unhex(a[2]), ""));
		ActionLanguage al;
		al.logger = Logger(std::shared_ptr<LoggerImpl>(new Log(rec)));
		al.microStepper = MicroStep(Factory::getInstance()->createMicroStepper(a[1], (MicroStepCallbacks*)inp->getImpl().get()));
		inp->setActionLanguage(al);
	} catch (std::exception& e) {
		return std::string("SETUP-EXC:") + hex(e.what()) + " END";
	} catch (...) {
		return "SETUP-EXC:- END";
	}
	Interpreter& in = *inp;
	Mon* mon = new Mon(rec);
	in.addMonitor(mon);
	size_t next = 5;
	bool seenInit = false;
	bool waiting = false;
	std::chrono::steady_clock::time_point waitStart;
	while (fuel > 0) {
		InterpreterState s;
		try {
			s = in.step(0);
		} catch (std::exception& e) {
			rec->tok("EXC:" + hex(std::string("std::exception ") + e.what()));
			break;
		} catch (uscxml::Event& e) {
			rec->tok("EXC:" + hex("uscxml::Event " + e.name));
			break;
		} catch (...) {
			rec->tok("EXC:" + hex("unknown"));
			break;
		}
		if (s == USCXML_INITIALIZED && !seenInit) { seenInit = true; continue; }
		if (!(waiting && s == USCXML_IDLE)) {
			fuel--;
			rec->tok(std::string("RET:") + rcName(s));
		}
		if (s == USCXML_FINISHED) break;
		if (s != USCXML_IDLE) continue;
		if (next >= a.size()) break;
		const std::string& item = a[next];
		if (item.size() > 0 && item[0] == '~') {
			std::string name = unhex(item.substr(1));
			if (rec->has(name)) { rec->tok("WAIT:ok"); waiting = false; next++; continue; }
			if (!waiting) { waiting = true; waitStart = std::chrono::steady_clock::now(); }
			long el = std::chrono::duration_cast<std::chrono::milliseconds>(std::chrono::steady_clock::now() - waitStart).count();
			if (el > waitMs) { rec->tok("WAIT:timeout"); waiting = false; next++; continue; }
			std::this_thread::sleep_for(std::chrono::milliseconds(3));
			continue;
		}
		Event e(unhex(item));
		e.eventType = Event::EXTERNAL;
		in.receive(e);
		next++;
	}
	std::string out;
	{
		std::lock_guard<std::mutex> l(rec->m);
		out = rec->out.str();
	}
	out += "END";
	vd_reap(inp);
	return out;
}

}

VD_REGISTER(c07run, vd_c07::cmd_c07run)
