// vd_fifo.cpp -- C08: implementation-side commands for the event queues and the step() control flow.
//
//   fifo-sched <engine> <mode> <charthex> <counts> <timeout_ms> <sched>
//        engine  large|fast      micro-stepper
//        mode    nb|blk|tmo      stepping thread calls step(0) | step(forever) | step(3 ms)
//        counts  c1,c2,...       producer k (1-based) calls Interpreter::receive with events p<k>.0 .. p<k>.<ck-1>
//        sched   string over {1..9,d,-}: the forced order of critical sections: digit k = the next
//                BasicEventQueue::enqueue of producer k on the external queue, d = the next
//                BasicEventQueue::dequeue of the stepping thread on the external queue; '-' = empty schedule
//                (free running).  Expanded to controller items <role>:queue.{en,de}queue.before/.locked.
//     answer: obs=<names processed (beforeProcessingEvent), comma separated> deq=<result of every dequeue on the
//             external queue: name or _ for the empty event> stuck=0|1 remaining=<unconsumed schedule items>
//             rets=<distinct step() return codes seen> done=0|1
//   fifo-free <engine> <mode> <charthex> <nprod> <count> [tagged|default]
//        free-running stress without a controller; 'default' leaves the queues to InterpreterImpl::init.
//        answer as above without deq= when default.
//   fifo-ctl <engine> <charthex> <script>
//        single threaded: script items separated by ',' : S = step(0), R<name> = receive(Event(name, EXTERNAL)),
//        C = cancel(), X = reset() of the external queue, Y = reset() of the internal queue.
//        answer: one group per S:  <ret>[;EV:<name>][;MS][;ST][;RAISE:<name>]...  groups separated by ' '
//
// The queues handed to the interpreter are BasicEventQueue objects of a subclass that only tags the calling
// thread's controller role with ".ext"/".int" around the inherited enqueue/dequeue (so that the schedule
// can tell the stepping thread's dequeue on the external queue from the one on the internal queue) and logs
// the returned event; the code that runs is BasicEventQueue's.
#include "uscxml/config.h"
#include "uscxml/Interpreter.h"
#include "uscxml/interpreter/InterpreterImpl.h"
#include "uscxml/interpreter/InterpreterMonitor.h"
#include "uscxml/interpreter/BasicEventQueue.h"
#include "uscxml/interpreter/FastMicroStep.h"
#include "uscxml/interpreter/LargeMicroStep.h"
#include "uscxml/util/DOM.h"

#include <thread>
#include <atomic>
#include <sstream>
#include <iostream>
#include <set>

#include "vd_common.h"
#include "vd_sched.h"

using namespace uscxml;

namespace {

struct FifoTaggedQueue : public BasicEventQueue {
	std::string tag;
	std::mutex logm;
	std::vector<std::string> deqlog;
	FifoTaggedQueue(const std::string& t) : tag(t) {}
	virtual Event dequeue(size_t blockMs) {
		std::string old = vd_sched_thread_role();
		vd_sched_role(old + "." + tag);
		Event e = BasicEventQueue::dequeue(blockMs);
		vd_sched_role(old);
		{
			std::lock_guard<std::mutex> l(logm);
			deqlog.push_back(e.name.size() ? e.name : "_");
		}
		return e;
	}
	virtual void enqueue(const Event& event) {
		std::string old = vd_sched_thread_role();
		vd_sched_role(old + "." + tag);
		BasicEventQueue::enqueue(event);
		vd_sched_role(old);
	}
};

struct FifoMonitor : public InterpreterMonitor {
	std::mutex m;
	std::vector<std::string> events;      // beforeProcessingEvent, in order
	std::vector<std::string> cur;         // tokens of the current step() call (fifo-ctl)
	std::atomic<size_t> nproducer;        // processed events whose name starts with 'p'
	FifoMonitor() : nproducer(0) {}
	virtual void beforeProcessingEvent(const std::string&, const Event& event) {
		std::lock_guard<std::mutex> l(m);
		events.push_back(event.name);
		cur.push_back("EV:" + event.name);
		if (event.name.size() && event.name[0] == 'p') nproducer++;
	}
	virtual void beforeMicroStep(const std::string&) { std::lock_guard<std::mutex> l(m); cur.push_back("MS"); }
	virtual void onStableConfiguration(const std::string&) { std::lock_guard<std::mutex> l(m); cur.push_back("ST"); }
	virtual void beforeTakingTransition(const std::string&, const XERCESC_NS::DOMElement* t) {
		std::lock_guard<std::mutex> l(m);
		std::string tg = HAS_ATTR(t, X("target")) ? ATTR(t, X("target")) : "";
		std::string ev = HAS_ATTR(t, X("event")) ? ATTR(t, X("event")) : "";
		std::string tok = "T:" + ev + ">" + tg;
		for (auto& ch : tok) if (ch == ' ' || ch == ';' || ch == ',') ch = '+';
		cur.push_back(tok);
	}
	virtual void beforeExecutingContent(const std::string&, const XERCESC_NS::DOMElement* e) {
		std::string tag = LOCALNAME(e);
		// what ends up in the internal queue: <raise> and <send target="#_internal"> (the event attribute is optional there)
		if (tag == "raise" || (tag == "send" && HAS_ATTR(e, X("target")) && ATTR(e, X("target")) == "#_internal")) {
			std::lock_guard<std::mutex> l(m);
			std::string name = HAS_ATTR(e, X("event")) ? ATTR(e, X("event")) : "";
			cur.push_back("RAISE:" + name);
			events.push_back("!" + name);
		}
	}
	virtual void beforeEnteringState(const std::string&, const std::string&, const XERCESC_NS::DOMElement* st) {
		if (LOCALNAME(st) == "final" && st->getParentNode() != NULL &&
		        st->getParentNode() == (XERCESC_NS::DOMNode*)st->getOwnerDocument()->getDocumentElement()) {
			std::lock_guard<std::mutex> l(m);
			cur.push_back("TF");
		}
	}
};

static std::string join(const std::vector<std::string>& v, const char* sep) {
	std::string out;
	for (size_t i = 0; i < v.size(); i++) { if (i) out += sep; out += v[i]; }
	return out.size() ? out : "-";
}

static const char* retname(InterpreterState s) {
	switch (s) {
	case USCXML_FINISHED: return "FINISHED";
	case USCXML_UNDEF: return "UNDEF";
	case USCXML_IDLE: return "IDLE";
	case USCXML_INITIALIZED: return "INITIALIZED";
	case USCXML_INSTANTIATED: return "INSTANTIATED";
	case USCXML_MICROSTEPPED: return "MICROSTEPPED";
	case USCXML_MACROSTEPPED: return "MACROSTEPPED";
	case USCXML_CANCELLED: return "CANCELLED";
	default: return "OTHER";
	}
}

struct FifoSetup {
	Interpreter interp;
	FifoMonitor mon;
	FifoTaggedQueue* ext = 0;
	FifoTaggedQueue* internal = 0;
	FifoSetup(const std::string& engine, const std::string& xml, bool tagged) {
		interp = Interpreter::fromXML(xml, "");
		ActionLanguage al;
		if (engine == "fast")
			al.microStepper = MicroStep(std::shared_ptr<MicroStepImpl>(new FastMicroStep(interp.getImpl().get())));
		else
			al.microStepper = MicroStep(std::shared_ptr<MicroStepImpl>(new LargeMicroStep(interp.getImpl().get())));
		if (tagged) {
			ext = new FifoTaggedQueue("ext");
			internal = new FifoTaggedQueue("int");
			al.externalQueue = EventQueue(std::shared_ptr<EventQueueImpl>(ext));
			al.internalQueue = EventQueue(std::shared_ptr<EventQueueImpl>(internal));
		}
		interp.setActionLanguage(al);
		interp.addMonitor(&mon);
	}
	~FifoSetup() {
		// destruction of an interpreter can block for ever (C10): leave it to the driver's reaper thread
		// (hand over the only reference: the last owner runs ~InterpreterImpl)
		interp.removeMonitor(&mon);
		Interpreter* last = new Interpreter(interp);
		interp = Interpreter();
		vd_reap(last);
	}
};

static std::vector<size_t> parse_counts(const std::string& s) {
	std::vector<size_t> out;
	std::istringstream iss(s);
	std::string t;
	while (std::getline(iss, t, ',')) out.push_back((size_t)atol(t.c_str()));
	return out;
}

// the threaded run shared by fifo-sched and fifo-free
static std::string threaded_run(const std::string& engine, const std::string& mode, const std::string& xml,
                                const std::vector<size_t>& counts, int timeout_ms, const std::string& sched, bool tagged) {
	FifoSetup s(engine, xml, tagged);
	size_t total = 0;
	for (size_t c : counts) total += c;
	size_t blockMs = 0;
	if (mode == "blk") blockMs = std::numeric_limits<size_t>::max();
	else if (mode == "tmo") blockMs = 3;

	// bring the interpreter to its first stable configuration before any producer exists: the queues are created
	// by the first step() (receive() before that is C10's subject) and the initial macrostep is not of interest
	std::set<std::string> rets;
	InterpreterState st = USCXML_UNDEF;
	for (int i = 0; i < 64; i++) {
		st = s.interp.step(0);
		rets.insert(retname(st));
		if (st == USCXML_IDLE || st == USCXML_FINISHED) break;
	}
	if (s.ext) { std::lock_guard<std::mutex> l(s.ext->logm); s.ext->deqlog.clear(); }

	std::vector<std::string> items;
	if (sched != "-") {
		for (char ch : sched) {
			if (ch == 'd') {
				items.push_back("stepper.ext:queue.dequeue.before");
				items.push_back("stepper.ext:queue.dequeue.locked");
			} else if ((ch >= '1' && ch <= '9') || (ch >= 'A' && ch <= 'Z')) {
				int k = (ch <= '9') ? ch - '0' : ch - 'A' + 10;
				std::string r = "p" + std::to_string(k) + ".ext";
				items.push_back(r + ":queue.enqueue.before");
				items.push_back(r + ":queue.enqueue.locked");
			}
		}
		vd_sched_install(items, timeout_ms);
	}

	std::atomic<bool> stop(false);
	std::atomic<bool> finished(false);
	std::mutex retm;
	std::thread stepper([&]() {
		vd_sched_role("stepper");
		auto deadline = std::chrono::steady_clock::now() + std::chrono::milliseconds(timeout_ms * 10 + 20000);
		// runs until the interpreter reports CANCELLED / FINISHED (the main thread cancels once every
		// producer event was processed); everything queued before the cancel is processed first
		while (true) {
			InterpreterState r = s.interp.step(blockMs);
			{ std::lock_guard<std::mutex> l(retm); rets.insert(retname(r)); }
			if (r == USCXML_FINISHED || r == USCXML_CANCELLED) { finished = true; break; }
			if (stop && std::chrono::steady_clock::now() > deadline) break;
		}
	});
	std::vector<std::thread> producers;
	for (size_t k = 0; k < counts.size(); k++) {
		producers.push_back(std::thread([&, k]() {
			vd_sched_role("p" + std::to_string(k + 1));
			for (size_t i = 0; i < counts[k]; i++) {
				Event e("p" + std::to_string(k + 1) + "." + std::to_string(i), Event::EXTERNAL);
				s.interp.receive(e);
			}
		}));
	}
	for (auto& t : producers) t.join();
	// wait until everything was processed (or give up), then end the stepping thread the way clients do
	{
		auto deadline = std::chrono::steady_clock::now() + std::chrono::milliseconds(timeout_ms * 2 + 5000);
		while (s.mon.nproducer < total && !finished && std::chrono::steady_clock::now() < deadline)
			std::this_thread::sleep_for(std::chrono::microseconds(200));
	}
	bool done = s.mon.nproducer >= total;
	bool stuck = false;
	size_t remaining = 0;
	if (sched != "-") vd_sched_finish(&stuck, &remaining);
	stop = true;
	s.interp.cancel();          // enqueues the empty event: unblocks a blocked dequeue
	stepper.join();

	std::string out = "obs=" + join(s.mon.events, ",");
	if (s.ext) {
		// the result of the dequeues that the schedule ordered, then the non-empty results of the free ones
		size_t nd = 0;
		for (char ch : sched) if (ch == 'd') nd++;
		std::vector<std::string> first, rest;
		for (size_t i = 0; i < s.ext->deqlog.size(); i++) {
			if (i < nd) first.push_back(s.ext->deqlog[i]);
			else if (s.ext->deqlog[i] != "_") rest.push_back(s.ext->deqlog[i]);
		}
		out += " deq=" + join(first, ",") + " rest=" + join(rest, ",") + " ndeq=" + std::to_string(s.ext->deqlog.size());
	}
	out += std::string(" stuck=") + (stuck ? "1" : "0") + " remaining=" + std::to_string(remaining);
	std::vector<std::string> rv(rets.begin(), rets.end());
	out += " rets=" + join(rv, ",") + " done=" + (done ? "1" : "0");
	return out;
}

static std::string cmd_fifo_sched(const std::vector<std::string>& a) {
	if (a.size() != 7) return "ERR usage";
	return threaded_run(a[1], a[2], unhex(a[3]), parse_counts(a[4]), atoi(a[5].c_str()), a[6], true);
}

static std::string cmd_fifo_free(const std::vector<std::string>& a) {
	if (a.size() < 6) return "ERR usage";
	std::vector<size_t> counts((size_t)atol(a[4].c_str()), (size_t)atol(a[5].c_str()));
	bool tagged = !(a.size() > 6 && a[6] == "default");
	return threaded_run(a[1], a[2], unhex(a[3]), counts, 20000, "-", tagged);
}

static std::string cmd_fifo_ctl(const std::vector<std::string>& a) {
	if (a.size() != 4) return "ERR usage";
	FifoSetup s(a[1], unhex(a[2]), true);
	std::istringstream iss(a[3]);
	std::string t;
	std::string out;
	while (std::getline(iss, t, ',')) {
		if (t.empty()) continue;
		if (t[0] == 'S') {
			{ std::lock_guard<std::mutex> l(s.mon.m); s.mon.cur.clear(); }
			InterpreterState r = s.interp.step(0);
			std::string g = retname(r);
			for (auto& x : s.mon.cur) g += ";" + x;
			if (out.size()) out += " ";
			out += g;
		} else if (t[0] == 'R') {
			s.interp.receive(Event(t.substr(1), Event::EXTERNAL));
		} else if (t[0] == 'C') {
			s.interp.cancel();
		} else if (t[0] == 'X') {
			s.ext->reset();
		} else if (t[0] == 'Y') {
			s.internal->reset();
		} else return "ERR script item " + t;
	}
	return out.size() ? out : "-";
}

} // namespace

static VdReg vd_reg_fifo_sched("fifo-sched", cmd_fifo_sched);
static VdReg vd_reg_fifo_free("fifo-free", cmd_fifo_free);
static VdReg vd_reg_fifo_ctl("fifo-ctl", cmd_fifo_ctl);
