// vd_determinism.cpp -- C20: implementation-side commands for the determinism check.
//
//   dettr <c|pml|vhdl> <hex url> <hex scxml> <hex outfile|->
//        in-process transformation of the document; the emitted text goes to <outfile>; the answer line
//        lists the process-dependent inputs as they were in this run (printed DOMDocument pointer of every
//        machine, the md5/prefix derived from it, address and document position of every key of the
//        pointer-keyed machine map, in the map's iteration order), so that the check can compare what the
//        model says flows into the output with what did.  For vhdl also every node of the event trie (token path,
//        address, word index) and the event names in the order getWordsWithPrefix("") returned them.
//   detrun <engine> <cache 0|1> <hex tmpdir> <hex url> <hex scxml> <fuel> <hex event>*
//        interpret the document with the cache files switched on or off (TMPDIR as given), record the same
//        trace tokens as `run`, destroy the interpreter *before* answering (the cache file is written by the
//        destructor); " CACHE:<hex file content>" is appended so the check sees what was left behind.
//   detcachefile <hex tmpdir> <hex url>         name of the cache file InterpreterImpl uses for <url>
//   dethash <hex string>                        escapeMacro(<string>) in hex (std::hash of this libstdc++)
#include "uscxml/config.h"
#include "uscxml/Common.h"
#include "uscxml/Interpreter.h"
#include "uscxml/interpreter/InterpreterImpl.h"
#include "uscxml/interpreter/InterpreterMonitor.h"
#include "uscxml/interpreter/LoggingImpl.h"
#include "uscxml/interpreter/MicroStep.h"
#include "uscxml/plugins/Factory.h"
#include "uscxml/transform/ChartToC.h"
#include "uscxml/transform/ChartToPromela.h"
#include "uscxml/transform/ChartToVHDL.h"
#include "uscxml/util/DOM.h"
#include "uscxml/util/MD5.hpp"
#include "uscxml/util/String.h"
#include "uscxml/util/URL.h"

#include <iostream>
#include <fstream>
#include <sstream>
#include <thread>
#include <future>
#include <chrono>
#include <cstdlib>
#include "vd_common.h"

using namespace uscxml;
using namespace XERCESC_NS;

namespace {

// read protected members through pointers-to-member formed inside a derived class (legal C++)
struct PeekC : public ChartToC {
	static std::string md5Of(ChartToC* m) { return m->*(&PeekC::_md5); }
	static std::string prefixOf(ChartToC* m) { return m->*(&PeekC::_prefix); }
	static DOMDocument* docOf(ChartToC* m) { return m->*(&PeekC::_document); }
	static DOMElement* scxmlOf(ChartToC* m) { return m->*(&PeekC::_scxml); }
	static std::list<ChartToC*>& allOf(ChartToC* m) { return m->*(&PeekC::_allMachines); }
	static std::list<ChartToC*>& nestedOf(ChartToC* m) { return m->*(&PeekC::_nestedMachines); }
};
size_t docPos(const DOMElement* e);
std::string printed(const void* p);
struct PeekP : public ChartToPromela {
	// iteration order of the machine map (whatever its key order is in the tree at hand): key address, owner
	// document, position in it, prefix, the DOMDocument of the machine's own generator object (what its md5 is taken from)
	static bool dumpAll(ChartToPromela* p, std::ostringstream& o) {
		auto all = p->*(&PeekP::_machinesAll);
		if (!all) return false;
		o << " PMAP=";
		const char* sep = "";
		for (auto& kv : *all) {
			o << sep << printed(kv.first) << "/" << printed(kv.first->getOwnerDocument()) << "/" << docPos(kv.first)
			  << "/" << PeekC::prefixOf(kv.second) << "/" << printed(PeekC::docOf(kv.second));
			sep = ",";
		}
		return true;
	}
};
struct PeekV : public ChartToVHDL {
	static Trie& trieOf(ChartToVHDL* m) { return m->*(&PeekV::_eventTrie); }
	static std::list<TrieNode*>& namesOf(ChartToVHDL* m) { return m->*(&PeekV::_eventNames); }
};

std::string printed(const void* p) {
	std::stringstream ss;
	ss << p;
	return ss.str();
}

// position of an element among the elements of its document, in document order (0 = root)
size_t docPos(const DOMElement* e) {
	const DOMDocument* d = e->getOwnerDocument();
	size_t n = 0;
	std::list<const DOMNode*> stack;
	stack.push_back(d->getDocumentElement());
	while (!stack.empty()) {
		const DOMNode* c = stack.back();
		stack.pop_back();
		if (c->getNodeType() != DOMNode::ELEMENT_NODE) continue;
		if (c == e) return n;
		n++;
		std::list<const DOMNode*> kids;
		for (const DOMNode* k = c->getLastChild(); k; k = k->getPreviousSibling()) stack.push_back(k);
	}
	return (size_t)-1;
}

// every node of the event trie: token path (hex, '.' separated), address, word index (or -)
void trieDump(TrieNode* n, const std::string& path, std::ostringstream& o, const char*& sep) {
	o << sep << (path.size() ? path : "-") << "/" << printed(n) << "/";
	if (n->hasWord) o << n->index; else o << "-";
	sep = ",";
	for (auto& kv : n->childs) trieDump(kv.second, path + (path.size() ? "." : "") + hex(kv.first), o, sep);
}

void treeOf(ChartToC* m, std::ostringstream& o, const std::string& path) {
	o << " M[" << path << "]=" << printed(PeekC::docOf(m)) << ":" << PeekC::md5Of(m) << ":" << PeekC::prefixOf(m);
	size_t k = 0;
	for (auto n : PeekC::nestedOf(m)) {
		std::ostringstream p; p << path << (path.size() ? "." : "") << k++;
		treeOf(n, o, p.str());
	}
}

std::string cmd_dettr(const std::vector<std::string>& a) {
	// ChartToC numbers the machines of a process through this environment variable (an explicit input a build
	// script may set); every transformation here starts from the value a fresh process has
	unsetenv("USCXML_CURRENT_MACHINE_INDEX");
	if (a.size() < 5) return "ERR usage";
	std::string be = a[1], url = unhex(a[2]), xml = unhex(a[3]), outfile = unhex(a[4]);
	std::ostringstream o;
	std::stringstream text;
	try {
		Interpreter interp = Interpreter::fromXML(xml, url);
		Transformer t;
		if (be == "c") t = ChartToC::transform(interp);
		else if (be == "pml") t = ChartToPromela::transform(interp);
		else if (be == "vhdl") t = ChartToVHDL::transform(interp);
		else return "ERR backend";
		t.writeTo(text);
		ChartToC* c = dynamic_cast<ChartToC*>(t.getImpl().get());
		o << "OK len=" << text.str().size() << " md5=" << md5(text.str());
		if (c) {
			treeOf(c, o, "");
			o << " ALL=";
			const char* sep = "";
			for (auto m : PeekC::allOf(c)) { o << sep << PeekC::prefixOf(m); sep = ","; }
		}
		ChartToPromela* p = dynamic_cast<ChartToPromela*>(t.getImpl().get());
		if (p) PeekP::dumpAll(p, o);
		ChartToVHDL* vh = dynamic_cast<ChartToVHDL*>(t.getImpl().get());
		if (vh) {
			o << " TRIE=";
			const char* sep = "";
			trieDump(PeekV::trieOf(vh).root, "", o, sep);
			o << " EVNAMES=";
			sep = "";
			for (auto n : PeekV::namesOf(vh)) { o << sep << hex(n->value); sep = ","; }
			if (PeekV::namesOf(vh).empty()) o << "-";
		}
	} catch (Event& e) {
		o << "EXC event " << e.name;
	} catch (std::exception& e) {
		o << "EXC " << e.what();
	} catch (...) {
		o << "EXC unknown";
	}
	if (outfile.size()) {
		std::ofstream f(outfile.c_str(), std::ios::binary);
		f << text.str();
	}
	std::string s = o.str();
	for (auto& ch : s) if (ch == '\n' || ch == '\r') ch = ' ';
	return s;
}

// ------------------------------------------------------------------ interpretation with cache files

struct Rec {
	std::ostringstream out;
	void tok(const std::string& t) { out << t << " "; }
};
std::string nm(const DOMElement* e) {
	if (HAS_ATTR(e, X("vid"))) return ATTR(e, X("vid"));
	if (HAS_ATTR(e, X("id"))) return ATTR(e, X("id"));
	return DOMUtils::xPathForNode(e);
}
class DetMonitor : public InterpreterMonitor {
public:
	Rec* r;
	DetMonitor(Rec* rec) : r(rec) {}
	void beforeProcessingEvent(const std::string&, const Event& event) { r->tok("EV:" + event.name); }
	void beforeMicroStep(const std::string&) { r->tok("MS{"); }
	void afterMicroStep(const std::string&) { r->tok("}MS"); }
	void beforeExitingState(const std::string&, const std::string&, const DOMElement* s) { r->tok("X{:" + nm(s)); }
	void afterExitingState(const std::string&, const std::string&, const DOMElement* s) { r->tok("}X:" + nm(s)); }
	void beforeEnteringState(const std::string&, const std::string&, const DOMElement* s) { r->tok("E{:" + nm(s)); }
	void afterEnteringState(const std::string&, const std::string&, const DOMElement* s) { r->tok("}E:" + nm(s)); }
	void beforeTakingTransition(const std::string&, const DOMElement* t) { r->tok("T{:" + nm(t)); }
	void afterTakingTransition(const std::string&, const DOMElement* t) { r->tok("}T:" + nm(t)); }
	void beforeExecutingContent(const std::string&, const DOMElement* e) { r->tok("C{:" + nm(e)); }
	void afterExecutingContent(const std::string&, const DOMElement* e) { r->tok("}C:" + nm(e)); }
	void onStableConfiguration(const std::string&) { r->tok("STABLE"); }
};
class DetLogger : public LoggerImpl {
public:
	Rec* r;
	DetLogger(Rec* rec) : r(rec) {}
	std::shared_ptr<LoggerImpl> create() { return std::shared_ptr<LoggerImpl>(new DetLogger(r)); }
	void log(LogSeverity, const Event&) {}
	void log(LogSeverity, const Data&) {}
	void log(LogSeverity severity, const std::string& message) {
		if (severity != USCXML_LOG) return;
		std::string m = message;
		for (auto& ch : m) if (ch == '\n' || ch == '\r' || ch == ' ') ch = '_';
		r->tok("LOG:" + m);
	}
};
const char* rcName(InterpreterState s) {
	switch (s) {
	case USCXML_FINISHED: return "FINISHED";
	case USCXML_INITIALIZED: return "INITIALIZED";
	case USCXML_MICROSTEPPED: return "MICROSTEPPED";
	case USCXML_MACROSTEPPED: return "MACROSTEPPED";
	case USCXML_IDLE: return "IDLE";
	case USCXML_CANCELLED: return "CANCELLED";
	case USCXML_INSTANTIATED: return "INSTANTIATED";
	default: return "UNDEF";
	}
}

std::string cacheFileName(const std::string& tmpdir, const std::string& url) {
	// as InterpreterImpl does: md5(_baseURL) of the *normalised* URL
	std::string saved = getenv("TMPDIR") ? getenv("TMPDIR") : "";
	setenv("TMPDIR", tmpdir.c_str(), 1);
	Interpreter probe = Interpreter::fromXML("<scxml xmlns=\"http://www.w3.org/2005/07/scxml\"><state id=\"a\"/></scxml>", url);
	std::string base = std::string(probe.getImpl()->getBaseURL());
	std::string f = URL::getTempDir(true) + "/" + md5(base) + ".uscxml.cache";
	if (saved.size()) setenv("TMPDIR", saved.c_str(), 1); else unsetenv("TMPDIR");
	return f;
}

std::string slurp(const std::string& path) {
	std::ifstream f(path.c_str(), std::ios::binary);
	if (!f) return "";
	return std::string((std::istreambuf_iterator<char>(f)), std::istreambuf_iterator<char>());
}

std::string cmd_detrun(const std::vector<std::string>& a) {
	if (a.size() < 7) return "ERR usage";
	bool cache = a[2] == "1";
	std::string tmpdir = unhex(a[3]), url = unhex(a[4]), xml = unhex(a[5]);
	int fuel = atoi(a[6].c_str());
	setenv("TMPDIR", tmpdir.c_str(), 1);
	setenv("USCXML_NOCACHE_FILES", cache ? "false" : "true", 1);
	Rec rec;
	std::string out;
	std::string cfile;
	{
		Interpreter* inp = NULL;
		try {
			inp = new Interpreter(Interpreter::fromXML(xml, url));
			Interpreter& in = *inp;
			cfile = URL::getTempDir(true) + "/" + md5(std::string(in.getImpl()->getBaseURL())) + ".uscxml.cache";
			ActionLanguage al;
			al.logger = Logger(std::shared_ptr<LoggerImpl>(new DetLogger(&rec)));
			al.microStepper = MicroStep(Factory::getInstance()->createMicroStepper(a[1], (MicroStepCallbacks*)in.getImpl().get()));
			in.setActionLanguage(al);
			DetMonitor mon(&rec);
			in.addMonitor(&mon);
			size_t next = 7;
			bool seenInit = false;
			while (fuel > 0) {
				InterpreterState s = in.step(0);
				if (s == USCXML_INITIALIZED && !seenInit) { seenInit = true; continue; }
				fuel--;
				rec.tok(std::string("RET:") + rcName(s));
				std::string cfg = "CFG:";
				const char* sep = "";
				for (auto e : in.getConfiguration()) { cfg += sep + nm(e); sep = ","; }
				rec.tok(cfg);
				if (s == USCXML_FINISHED) break;
				if (s == USCXML_IDLE) {
					if (next >= a.size()) break;
					Event e(unhex(a[next++]));
					e.eventType = Event::EXTERNAL;
					in.receive(e);
				}
			}
			in.removeMonitor(&mon);
		} catch (Event& e) {
			rec.tok("EXC:event:" + e.name);
		} catch (std::exception& e) {
			rec.tok(std::string("EXC:") + e.what());
		} catch (...) {
			rec.tok("EXC:unknown");
		}
		out = rec.out.str();
		// destroy now (the destructor writes the cache file); it can block for ever (C10), so under a watchdog
		if (inp) {
			std::packaged_task<void()> task([inp] { delete inp; });
			std::future<void> fut = task.get_future();
			std::thread th(std::move(task));
			if (fut.wait_for(std::chrono::milliseconds(3000)) == std::future_status::ready) {
				th.join();
			} else {
				th.detach();
				out += "DESTRUCTOR-STUCK ";
			}
		}
	}
	setenv("USCXML_NOCACHE_FILES", "true", 1);
	for (auto& ch : out) if (ch == '\n' || ch == '\r') ch = ' ';
	out += "CACHE:" + hex(slurp(cfile));
	return out;
}

std::string cmd_detcachefile(const std::vector<std::string>& a) {
	if (a.size() < 3) return "ERR usage";
	return cacheFileName(unhex(a[1]), unhex(a[2]));
}

std::string cmd_dethash(const std::vector<std::string>& a) {
	if (a.size() < 2) return "ERR usage";
	return hex(escapeMacro(unhex(a[1])));
}

}

VD_REGISTER(dettr, cmd_dettr)
VD_REGISTER(detrun, cmd_detrun)
VD_REGISTER(detcachefile, cmd_detcachefile)
VD_REGISTER(dethash, cmd_dethash)
