// vd_pml.cpp -- C17: implementation-side commands for the Promela datamodel.
//
//   pml-ast  <hex text>            AST of the compiled parser (promela.tab.cpp) as an S-expression
//   pml-eval <item> <item> ...     one fresh PromelaDataModel, items executed in order:
//        d:<hex>                   evaluateDecl(text)        (protected entry, as the class itself calls it)
//        s:<hex>                   evaluateStmnt(text)
//        x:<hex>                   evaluateExpr(text)        (PROMELA_EXPR enforced)
//        e:<hex>                   evalAsData(text)          (public; what <assign expr> / <data expr> use)
//        b:<hex>                   evalAsBool(text)          (public; what cond= uses)
//        i:<hextype>:<hexloc>:<hexexpr>   init(loc, Data(expr, INTERPRETED), {type})   (public; <data>)
//        a:<hexloc>:<hexexpr>      assign(loc, Data(expr, INTERPRETED))                (public; <assign>)
//     answer: one token per item: ok | ERR | EXC | V<data> | B0 | B1, and CRASH:<signal> / TIMEOUT for an
//     item during which the process died (see cmd_pml_eval for what happens to the items after it).
//
// Every command is executed in a persistent worker child (address-space and CPU limits set), so that
// SIGFPE / SIGSEGV / runaway allocation of the implementation is an outcome of the case and not the end of
// the run; the worker is respawned after a death.
#define protected public
#include "uscxml/plugins/datamodel/promela/PromelaDataModel.h"
#include "uscxml/plugins/datamodel/promela/PromelaParser.h"
#undef protected
#include "uscxml/interpreter/Logging.h"
#include "uscxml/messages/Event.h"

#include <unistd.h>
#include <fcntl.h>
#include <signal.h>
#include <poll.h>
#include <sys/wait.h>
#include <sys/resource.h>
#include <string.h>
#include <sstream>
#include <iostream>

#include "vd_common.h"

using namespace uscxml;

namespace {

struct PmlCallbacks : public DataModelCallbacks {
	std::string name, sid;
	std::map<std::string, IOProcessor> iop;
	std::map<std::string, Invoker> inv;
	PmlCallbacks() : name("vd"), sid("sess") {}
	const std::string& getName() { return name; }
	const std::string& getSessionId() { return sid; }
	const std::map<std::string, IOProcessor>& getIOProcessors() { return iop; }
	bool isInState(const std::string&) { return false; }
	XERCESC_NS::DOMDocument* getDocument() const { return NULL; }
	const std::map<std::string, Invoker>& getInvokers() { return inv; }
	Logger getLogger() { return Logger::getDefault(); }
};

static bool plain(const std::string& s) {
	for (unsigned char c : s)
		if (!(isalnum(c) || c == '_' || c == '-')) return false;
	return true;
}
static std::string atomstr(const std::string& s) { return plain(s) ? s : "%" + hex(s); }

static void render(std::ostream& os, const Data& d) {
	os << (d.type == Data::VERBATIM ? "v:" : "i:") << atomstr(d.atom);
	if (!d.array.empty()) {
		os << "[";
		const char* sep = "";
		for (auto& x : d.array) { os << sep; render(os, x); sep = ","; }
		os << "]";
	}
	if (!d.compound.empty()) {
		os << "{";
		const char* sep = "";
		for (auto& kv : d.compound) { os << sep << atomstr(kv.first) << "="; render(os, kv.second); sep = ","; }
		os << "}";
	}
}

static void sexp(std::ostream& os, PromelaParserNode* n) {
	os << "(" << PromelaParserNode::typeToDesc(n->type);
	if (!n->value.empty()) os << " " << atomstr(n->value);
	for (auto* c : n->operands) { os << " "; sexp(os, c); }
	os << ")";
}

static std::vector<std::string> splitc(const std::string& s) {
	std::vector<std::string> r;
	size_t p = 0;
	while (true) {
		size_t q = s.find(':', p);
		if (q == std::string::npos) { r.push_back(s.substr(p)); break; }
		r.push_back(s.substr(p, q - p));
		p = q + 1;
	}
	return r;
}

// ---- executed inside the worker ----
static void worker_handle(const std::vector<std::string>& a, int fd) {
	auto emit = [&](const std::string& s) { (void)!write(fd, s.data(), s.size()); };
	if (a[0] == "pml-ast") {
		std::ostringstream os;
		try {
			PromelaParser p(unhex(a.size() > 1 ? a[1] : "-"));
			os << (p.type == PromelaParser::PROMELA_EXPR ? "E" : p.type == PromelaParser::PROMELA_DECL ? "D" : "S");
			if (p.ast) sexp(os, p.ast); else os << "()";
		} catch (Event& e) {
			os.str(""); os << "ERR";
		} catch (std::exception& e) {
			os.str(""); os << "EXC";
		}
		emit(os.str());
		return;
	}
	// pml-eval
	PmlCallbacks cb;
	PromelaDataModel proto;
	std::shared_ptr<DataModelImpl> dmi = proto.create(&cb);
	PromelaDataModel* dm = static_cast<PromelaDataModel*>(dmi.get());
	for (size_t k = 1; k < a.size(); k++) {
		std::vector<std::string> f = splitc(a[k]);
		std::ostringstream os;
		if (k > 1) os << " ";
		try {
			const std::string& t = f[0];
			if (t == "d" && f.size() == 2) { dm->evaluateDecl(unhex(f[1])); os << "ok"; }
			else if (t == "s" && f.size() == 2) { dm->evaluateStmnt(unhex(f[1])); os << "ok"; }
			else if (t == "x" && f.size() == 2) { Data d = dm->evaluateExpr(unhex(f[1])); os << "V"; render(os, d); }
			else if (t == "e" && f.size() == 2) { Data d = dm->evalAsData(unhex(f[1])); os << "V"; render(os, d); }
			else if (t == "b" && f.size() == 2) { os << (dm->evalAsBool(unhex(f[1])) ? "B1" : "B0"); }
			else if (t == "i" && f.size() == 4) {
				std::map<std::string, std::string> attr;
				if (f[1] != "-") attr["type"] = unhex(f[1]);
				std::string ex = unhex(f[3]);
				dm->init(unhex(f[2]), ex.empty() ? Data() : Data(ex, Data::INTERPRETED), attr);
				os << "ok";
			}
			else if (t == "a" && f.size() == 3) { dm->assign(unhex(f[1]), Data(unhex(f[2]), Data::INTERPRETED)); os << "ok"; }
			else os << "USAGE";
		} catch (Event& e) {
			os.str(""); if (k > 1) os << " "; os << "ERR";
			if (getenv("VD_PML_VERBOSE"))      // debugging aid only: the cause text is not part of the protocol
				os << "(" << hex(e.data.compound["cause"].atom) << ")";
		} catch (std::exception& e) {
			// std::bad_alloc after runaway allocation (the store keeps what was appended): counted as a death
			// of the worker, the driver kills it and goes on as after a signal
			os.str(""); if (k > 1) os << " "; os << "EXC";
			emit(os.str());
			return;
		}
		emit(os.str());
	}
}

static pid_t wpid = -1;
static int wto = -1, wfrom = -1;

static void worker_main(int in, int out) {
	struct rlimit rl;
	// runaway allocation -> std::bad_alloc / death of the worker, not of the host: current size + 160 MB
	long pages = 0;
	if (FILE* sm = fopen("/proc/self/statm", "r")) { if (fscanf(sm, "%ld", &pages) != 1) pages = 0; fclose(sm); }
	rl.rlim_cur = rl.rlim_max = (rlim_t)pages * (rlim_t)sysconf(_SC_PAGESIZE) + ((rlim_t)24 << 20);
	if (pages > 0) setrlimit(RLIMIT_AS, &rl);
	rl.rlim_cur = rl.rlim_max = 0;
	setrlimit(RLIMIT_CORE, &rl);
	int dn = open("/dev/null", O_WRONLY);
	if (dn >= 0) { dup2(dn, 2); dup2(dn, 1); }
	FILE* fi = fdopen(in, "r");
	char* line = NULL; size_t cap = 0;
	while (getline(&line, &cap, fi) > 0) {
		std::vector<std::string> a;
		std::istringstream iss(line);
		std::string t;
		while (iss >> t) a.push_back(t);
		if (a.empty()) { (void)!write(out, "\n", 1); continue; }
		alarm(20);
		try { worker_handle(a, out); }
		catch (...) { (void)!write(out, " EXC", 4); }
		alarm(0);
		(void)!write(out, "\n", 1);
	}
	_exit(0);
}

static void spawn() {
	int a[2], b[2];
	if (pipe(a) != 0 || pipe(b) != 0) return;
	std::cout.flush();
	pid_t p = fork();
	if (p == 0) {
		close(a[1]); close(b[0]);
		signal(SIGPIPE, SIG_DFL);
		worker_main(a[0], b[1]);
	}
	close(a[0]); close(b[1]);
	wpid = p; wto = a[1]; wfrom = b[0];
}

static std::string via_worker(const std::vector<std::string>& a) {
	signal(SIGPIPE, SIG_IGN);
	if (wpid < 0) spawn();
	std::string line;
	for (size_t i = 0; i < a.size(); i++) { if (i) line += " "; line += a[i]; }
	line += "\n";
	if (write(wto, line.data(), line.size()) != (ssize_t)line.size()) { /* worker gone: handled below */ }
	std::string out;
	char buf[4096];
	bool timeout = false;
	while (true) {
		struct pollfd pf; pf.fd = wfrom; pf.events = POLLIN;
		int r = poll(&pf, 1, 30000);
		if (r == 0) { timeout = true; kill(wpid, SIGKILL); }
		ssize_t n = read(wfrom, buf, sizeof buf);
		if (n <= 0) break;
		out.append(buf, n);
		if (!out.empty() && out[out.size() - 1] == '\n') { out.resize(out.size() - 1); return out; }
	}
	// the worker died while executing this command
	int st = 0;
	waitpid(wpid, &st, 0);
	close(wto); close(wfrom);
	wpid = -1;
	std::ostringstream os;
	os << out << (out.empty() ? "" : " ");
	if (timeout || (WIFSIGNALED(st) && WTERMSIG(st) == SIGALRM)) os << "TIMEOUT";
	else if (WIFSIGNALED(st)) os << "CRASH:" << WTERMSIG(st);
	else os << "CRASH:exit" << WEXITSTATUS(st);
	return os.str();
}

static void kill_worker() {
	if (wpid < 0) return;
	kill(wpid, SIGKILL);
	int st = 0;
	waitpid(wpid, &st, 0);
	close(wto); close(wfrom);
	wpid = -1;
}

static std::string cmd_pml_ast(const std::vector<std::string>& a) { return via_worker(a); }

static std::vector<std::string> toks(const std::string& s) {
	std::vector<std::string> r;
	std::istringstream iss(s);
	std::string t;
	while (iss >> t) r.push_back(t);
	return r;
}
static bool died(const std::string& t) { return t.compare(0, 6, "CRASH:") == 0 || t == "TIMEOUT"; }

// pml-eval with many items: when the worker dies during a read-only item (x: e: b:), the items after it are
// run in a fresh worker after replaying the state-building items (d: s: i: a:) that preceded them, so a batch
// of expressions over one prelude yields an answer for every expression.  A death during a state-building
// item ends the case ("-" for the rest).
static std::string cmd_pml_eval(const std::vector<std::string>& a) {
	size_t n = a.size() - 1;
	std::vector<std::string> res(n, "-");
	size_t start = 0;
	while (start < n) {
		std::vector<std::string> line;
		line.push_back("pml-eval");
		size_t npre = 0;
		for (size_t i = 0; i < start; i++) {
			char k = a[1 + i][0];
			if (k == 'd' || k == 's' || k == 'i' || k == 'a') { line.push_back(a[1 + i]); npre++; }
		}
		for (size_t i = start; i < n; i++) line.push_back(a[1 + i]);
		std::vector<std::string> t = toks(via_worker(line));
		size_t got = t.size() > npre ? t.size() - npre : 0;
		bool dead = !t.empty() && (died(t.back()) || t.back() == "EXC");
		if (!t.empty() && t.back() == "EXC") kill_worker();
		for (size_t i = 0; i < got && start + i < n; i++) res[start + i] = t[npre + i];
		if (!dead || got == 0) break;
		size_t j = start + got - 1;            // the item that killed the worker
		char k = a[1 + j][0];
		if (k == 'd' || k == 's' || k == 'i' || k == 'a') break;
		start = j + 1;
	}
	std::string out;
	for (size_t i = 0; i < n; i++) { if (i) out += " "; out += res[i]; }
	return out;
}

}

static VdReg vd_reg_pml_ast("pml-ast", cmd_pml_ast);
static VdReg vd_reg_pml_eval("pml-eval", cmd_pml_eval);
