// vd_run.cpp -- `run <engine> <hex scxml> <fuel> <hex event>*`: interpret a document with a
// recording monitor and logger, print the canonical trace (same format as extract/chart/driver.ml).
#include "uscxml/config.h"
#include "uscxml/Common.h"
#include "uscxml/Interpreter.h"
#include "uscxml/interpreter/InterpreterImpl.h"
#include "uscxml/interpreter/InterpreterMonitor.h"
#include "uscxml/interpreter/LoggingImpl.h"
#include "uscxml/interpreter/MicroStep.h"
#include "uscxml/plugins/Factory.h"
#include "uscxml/util/DOM.h"

#include <iostream>
#include <sstream>
#include <thread>
#include <chrono>
#include "vd_common.h"

using namespace uscxml;
using namespace XERCESC_NS;

struct Recorder {
	std::ostringstream out;
	void tok(const std::string& t) { out << t << " "; }
};

static std::string sidOf(const DOMElement* state) {
	if (HAS_ATTR(state, X("id"))) {
		std::string id = ATTR(state, X("id"));
		if (id.size() > 1 && id[0] == 's') return id.substr(1);
		return id;
	}
	return "0";
}
static std::string vidOf(const DOMElement* e) {
	if (HAS_ATTR(e, X("vid"))) return ATTR(e, X("vid"));
	return "?";
}

class RecMonitor : public InterpreterMonitor {
public:
	Recorder* r;
	RecMonitor(Recorder* rec) : r(rec) {}
	void beforeProcessingEvent(const std::string&, const Event& event) { r->tok("EV:" + hex(event.name)); }
	void beforeMicroStep(const std::string&) { r->tok("MS{"); }
	void afterMicroStep(const std::string&) { r->tok("}MS"); }
	void beforeExitingState(const std::string&, const std::string&, const DOMElement* s) { r->tok("X{:" + sidOf(s)); }
	void afterExitingState(const std::string&, const std::string&, const DOMElement* s) { r->tok("}X:" + sidOf(s)); }
	void beforeEnteringState(const std::string&, const std::string&, const DOMElement* s) { r->tok("E{:" + sidOf(s)); }
	void afterEnteringState(const std::string&, const std::string&, const DOMElement* s) { r->tok("}E:" + sidOf(s)); }
	void beforeTakingTransition(const std::string&, const DOMElement* t) { r->tok("T{:" + vidOf(t)); }
	void afterTakingTransition(const std::string&, const DOMElement* t) { r->tok("}T:" + vidOf(t)); }
	void beforeExecutingContent(const std::string&, const DOMElement* e) { r->tok("C{:" + vidOf(e)); }
	void afterExecutingContent(const std::string&, const DOMElement* e) { r->tok("}C:" + vidOf(e)); }
	void beforeInvoking(const std::string&, const DOMElement* e, const std::string&) { r->tok("INV{:" + vidOf(e)); }
	void afterInvoking(const std::string&, const DOMElement* e, const std::string&) { r->tok("}INV:" + vidOf(e)); }
	void beforeUninvoking(const std::string&, const DOMElement* e, const std::string&) { r->tok("UNINV{:" + vidOf(e)); }
	void afterUninvoking(const std::string&, const DOMElement* e, const std::string&) { r->tok("}UNINV:" + vidOf(e)); }
	void onStableConfiguration(const std::string&) { r->tok("STABLE"); }
	void beforeCompletion(const std::string&) { r->tok("COMPL{"); }
	void afterCompletion(const std::string&) { r->tok("}COMPL"); }
};

class RecLogger : public LoggerImpl {
public:
	Recorder* r;
	RecLogger(Recorder* rec) : r(rec) {}
	std::shared_ptr<LoggerImpl> create() { return std::shared_ptr<LoggerImpl>(new RecLogger(r)); }
	void log(LogSeverity severity, const Event& event) {}
	void log(LogSeverity severity, const Data& data) {}
	void log(LogSeverity severity, const std::string& message) {
		if (severity != USCXML_LOG) return;
		std::string m = message;
		while (m.size() && (m.back() == '\n' || m.back() == ' ' || m.back() == '"')) m.pop_back();
		size_t p = m.rfind(' ');
		if (p != std::string::npos) m = m.substr(p + 1);
		if (m.size() && m[0] == '"') m = m.substr(1);
		// "3.0" -> "3"
		size_t dot = m.find('.');
		if (dot != std::string::npos && m.find_first_not_of('0', dot + 1) == std::string::npos) m = m.substr(0, dot);
		r->tok("LOG:" + m);
	}
};

static const char* rcName(InterpreterState s) {
	switch (s) {
	case USCXML_FINISHED: return "FINISHED";
	case USCXML_INITIALIZED: return "INITIALIZED";
	case USCXML_MICROSTEPPED: return "MICROSTEPPED";
	case USCXML_MACROSTEPPED: return "MACROSTEPPED";
	case USCXML_IDLE: return "IDLE";
	case USCXML_CANCELLED: return "CANCELLED";
	case USCXML_INSTANTIATED: return "INSTANTIATED";
	default: return "UNDEF";
	}
}

static std::string cfgTok(Interpreter& in) {
	std::string s = "CFG:";
	bool first = true;
	for (auto e : in.getConfiguration()) {
		if (!first) s += ",";
		s += sidOf(e);
		first = false;
	}
	return s;
}

// run <engine> <hex scxml> <fuel> <vars comma separated or -> <hex event>*
static std::string run_impl(const std::vector<std::string>& a, int waitRounds) {
	if (a.size() < 5) return "ERR usage";
	Recorder rec;
	std::string xml = unhex(a[2]);
	int fuel = atoi(a[3].c_str());
	Interpreter* inp = new Interpreter(Interpreter::fromXML(xml, ""));
	Interpreter& in = *inp;
	ActionLanguage al;
	al.logger = Logger(std::shared_ptr<LoggerImpl>(new RecLogger(&rec)));
	al.microStepper = MicroStep(Factory::getInstance()->createMicroStepper(a[1], (MicroStepCallbacks*)in.getImpl().get()));
	in.setActionLanguage(al);
	RecMonitor mon(&rec);
	in.addMonitor(&mon);
	size_t next = 5;
	bool seenInit = false;
	while (fuel > 0) {
		InterpreterState s = in.step(0);
		if (s == USCXML_INITIALIZED && !seenInit) { seenInit = true; continue; } // InterpreterImpl::init
		fuel--;
		rec.tok(std::string("RET:") + rcName(s));
		rec.tok(cfgTok(in));
		if (s == USCXML_FINISHED) break;
		if (s == USCXML_IDLE) {
			if (next >= a.size()) {
				// no more external events: optionally wait for delayed events the chart sent to itself
				if (waitRounds-- > 0) { std::this_thread::sleep_for(std::chrono::milliseconds(120)); continue; }
				break;
			}
			Event e(unhex(a[next++]));
			e.eventType = Event::EXTERNAL;
			in.receive(e);
		}
	}
	std::string out = rec.out.str();
	out += "|";
	if (a[4] != "-") {
		std::istringstream vs(a[4]);
		std::string v;
		while (std::getline(vs, v, ',')) {
			try {
				Data d = in.getImpl()->evalAsData("Var" + v);
				std::string m = d.atom;
				size_t dot = m.find('.');
				if (dot != std::string::npos && m.find_first_not_of('0', dot + 1) == std::string::npos) m = m.substr(0, dot);
				out += " " + v + "=" + m;
			} catch (...) {
				out += " " + v + "=ERR";
			}
		}
	}
	vd_reap(inp);
	return out;
}

// runfile <engine> <path> <fuel>: interpret a document from a file; the trace uses ids/xpaths of the document
class FileMonitor : public InterpreterMonitor {
public:
	Recorder* r;
	FileMonitor(Recorder* rec) : r(rec) {}
	static std::string nm(const DOMElement* e) { return HAS_ATTR(e, X("id")) ? ATTR(e, X("id")) : DOMUtils::xPathForNode(e); }
	void beforeProcessingEvent(const std::string&, const Event& event) { r->tok("EV:" + event.name); }
	void beforeMicroStep(const std::string&) { r->tok("MS{"); }
	void afterMicroStep(const std::string&) { r->tok("}MS"); }
	void beforeExitingState(const std::string&, const std::string&, const DOMElement* s) { r->tok("X{:" + nm(s)); }
	void afterExitingState(const std::string&, const std::string&, const DOMElement* s) { r->tok("}X:" + nm(s)); }
	void beforeEnteringState(const std::string&, const std::string&, const DOMElement* s) { r->tok("E{:" + nm(s)); }
	void afterEnteringState(const std::string&, const std::string&, const DOMElement* s) { r->tok("}E:" + nm(s)); }
	void beforeTakingTransition(const std::string&, const DOMElement* t) { r->tok("T{:" + DOMUtils::xPathForNode(t)); }
	void afterTakingTransition(const std::string&, const DOMElement* t) { r->tok("}T"); }
	void beforeExecutingContent(const std::string&, const DOMElement* e) { r->tok("C{:" + DOMUtils::xPathForNode(e)); }
	void afterExecutingContent(const std::string&, const DOMElement* e) { r->tok("}C"); }
	void onStableConfiguration(const std::string&) { r->tok("STABLE"); }
	void beforeCompletion(const std::string&) { r->tok("COMPL{"); }
	void afterCompletion(const std::string&) { r->tok("}COMPL"); }
};

static std::string cmd_runfile(const std::vector<std::string>& a) {
	if (a.size() < 4) return "ERR usage";
	Recorder rec;
	int fuel = atoi(a[3].c_str());
	Interpreter* inp = new Interpreter(Interpreter::fromURL(a[2]));
	Interpreter& in = *inp;
	ActionLanguage al;
	al.logger = Logger(std::shared_ptr<LoggerImpl>(new RecLogger(&rec)));
	al.microStepper = MicroStep(Factory::getInstance()->createMicroStepper(a[1], (MicroStepCallbacks*)in.getImpl().get()));
	in.setActionLanguage(al);
	FileMonitor mon(&rec);
	in.addMonitor(&mon);
	int idle = 0;
	while (fuel-- > 0) {
		InterpreterState s = in.step(20);
		if (s == USCXML_FINISHED) { rec.tok("RET:FINISHED"); break; }
		if (s == USCXML_IDLE) { if (++idle > 60) break; continue; }
		rec.tok(std::string("RET:") + rcName(s));
	}
	rec.tok(in.isInState("pass") ? "PASS" : "NOPASS");
	std::string out = rec.out.str();
	for (auto& ch : out) if (ch == '\n' || ch == '\r') ch = ' ';
	vd_reap(inp);
	return out;
}

static std::string cmd_run(const std::vector<std::string>& a) { return run_impl(a, 0); }
// runw: like run, but after the last event wait (up to 6 x 120 ms) for delayed events of the chart itself
static std::string cmd_runw(const std::vector<std::string>& a) { return run_impl(a, 6); }

// runv: like run, but validate first; a document with a fatal issue is not interpreted
static std::string cmd_runv(const std::vector<std::string>& a) {
	if (a.size() < 5) return "ERR usage";
	{
		Interpreter* vp = new Interpreter(Interpreter::fromXML(unhex(a[2]), ""));
		int fatal = 0, warn = 0;
		for (auto& is : vp->validate()) {
			if (is.severity == InterpreterIssue::USCXML_ISSUE_FATAL) fatal++;
			else if (is.severity == InterpreterIssue::USCXML_ISSUE_WARNING) warn++;
		}
		vd_reap(vp);
		if (fatal > 0) {
			std::ostringstream o; o << "REJECTED fatal=" << fatal << " warn=" << warn; return o.str();
		}
	}
	return cmd_run(a);
}

// validate <hex scxml>: Interpreter::validate(); severity:message@xpath list
static std::string cmd_validate(const std::vector<std::string>& a) {
	if (a.size() < 2) return "ERR usage";
	Interpreter* vp = new Interpreter(Interpreter::fromXML(unhex(a[1]), ""));
	int fatal = 0, warn = 0, info = 0;
	std::ostringstream o;
	for (auto& is : vp->validate()) {
		if (is.severity == InterpreterIssue::USCXML_ISSUE_FATAL) fatal++;
		else if (is.severity == InterpreterIssue::USCXML_ISSUE_WARNING) warn++;
		else info++;
		std::string m = is.message;
		for (auto& ch : m) if (ch == '\n' || ch == '\r' || ch == '|') ch = ' ';
		o << " | " << (int)is.severity << ":" << m << " @" << is.xPath;
	}
	vd_reap(vp);
	std::ostringstream h; h << "V fatal=" << fatal << " warn=" << warn << " info=" << info;
	return h.str() + o.str();
}

VD_REGISTER(run, cmd_run)
VD_REGISTER(runv, cmd_runv)
VD_REGISTER(runw, cmd_runw)
VD_REGISTER(validate, cmd_validate)
VD_REGISTER(runfile, cmd_runfile)
