// vd_vhdl.cpp -- C18: the VHDL the transpiler emits, in process.
//   vhdltext <hex scxml>
// runs ChartToVHDL::transform(...).writeTo on the document and prints the text of
// `architecture behavioral of micro_stepper` (from that line to its `end behavioral;`) as one line:
// newlines are replaced by the byte 0x1f, nothing else is touched.  All parsing is done by
// harness/vhdl_eq.py; the same text is obtained from bin/uscxml-transform -tvhdl (compared on a sample).
#include "uscxml/config.h"
#include "uscxml/Common.h"
#include "uscxml/Interpreter.h"
#include "uscxml/transform/ChartToVHDL.h"

#include <sstream>
#include "vd_common.h"

using namespace uscxml;

namespace {

std::string cmd_vhdltext(const std::vector<std::string>& a) {
	if (a.size() != 2) return "ERR usage";
	Interpreter* inp = new Interpreter(Interpreter::fromXML(unhex(a[1]), ""));
	std::string result;
	try {
		Transformer tr = ChartToVHDL::transform(*inp);
		std::stringstream ss;
		tr.writeTo(ss);
		std::string text = ss.str();
		size_t b = text.find("architecture behavioral of micro_stepper");
		if (b == std::string::npos) {
			result = "ERR no micro_stepper architecture";
		} else {
			size_t e = text.find("end behavioral;", b);
			if (e == std::string::npos) e = text.size();
			else e += 15;
			result = "OK " + text.substr(b, e - b);
		}
	} catch (Event& e) {
		result = "EVENT " + e.name;
	} catch (std::exception& e) {
		result = std::string("EXC ") + e.what();
	}
	vd_reap(inp);
	for (auto& ch : result) {
		if (ch == '\n') ch = '\x1f';
		else if (ch == '\r') ch = ' ';
	}
	return result;
}

}

VD_REGISTER(vhdltext, cmd_vhdltext)
