// vd_sched.h -- schedule controller for the USCXML_VERIF_POINT hooks (DESIGN.md 5.3, Appendix A).
//
// A schedule is a list of items "point" or "role:point".  A thread arriving at a hook point whose
// name (or role:name, if the thread declared a role with vd_sched_role) occurs somewhere in the
// remaining schedule blocks until that item is at the head, then pops it and proceeds.  Points that
// do not occur in the remaining schedule pass freely.  Every arrival is appended to the log.
// A blocked thread gives up after `timeout_ms` (outcome "stuck": the forced interleaving is not
// realisable or the system dead-locked); after that the controller lets everything pass.
#ifndef VD_SCHED_H
#define VD_SCHED_H
#include <string>
#include <vector>
#include <deque>
#include <mutex>
#include <condition_variable>
#include <chrono>
#include <algorithm>
#include "uscxml/util/VerifHooks.h"

struct VdSched {
	std::mutex m;
	std::condition_variable cv;
	std::deque<std::string> schedule;
	std::vector<std::string> log;     // arrivals in order of passing
	bool stuck = false;
	bool active = false;
	int timeout_ms = 2000;
};

inline VdSched& vd_sched() { static VdSched s; return s; }
inline std::string& vd_sched_thread_role() { static thread_local std::string r; return r; }
inline void vd_sched_role(const std::string& r) { vd_sched_thread_role() = r; }

extern "C" inline void vd_sched_point(const char* name) {
	VdSched& s = vd_sched();
	std::unique_lock<std::mutex> lk(s.m);
	if (!s.active) return;
	std::string plain(name);
	std::string full = vd_sched_thread_role().empty() ? plain : vd_sched_thread_role() + ":" + plain;
	auto mentioned = [&]() {
		for (auto& it : s.schedule) if (it == plain || it == full) return true;
		return false;
	};
	if (!s.stuck && mentioned()) {
		auto deadline = std::chrono::steady_clock::now() + std::chrono::milliseconds(s.timeout_ms);
		while (!s.stuck && mentioned() && !(s.schedule.front() == plain || s.schedule.front() == full)) {
			if (s.cv.wait_until(lk, deadline) == std::cv_status::timeout) {
				s.stuck = true;
				s.log.push_back("STUCK@" + full);
				s.cv.notify_all();
				break;
			}
		}
		if (!s.stuck && !s.schedule.empty() && (s.schedule.front() == plain || s.schedule.front() == full)) {
			s.schedule.pop_front();
			s.cv.notify_all();
		}
	}
	s.log.push_back(full);
}

// install a schedule (space separated items) and activate the controller
inline void vd_sched_install(const std::vector<std::string>& items, int timeout_ms = 2000) {
	VdSched& s = vd_sched();
	std::unique_lock<std::mutex> lk(s.m);
	s.schedule.assign(items.begin(), items.end());
	s.log.clear();
	s.stuck = false;
	s.timeout_ms = timeout_ms;
	s.active = true;
	uscxml_verif_point = vd_sched_point;
}

// deactivate; returns the arrival log
inline std::vector<std::string> vd_sched_finish(bool* stuck = 0, size_t* remaining = 0) {
	VdSched& s = vd_sched();
	std::unique_lock<std::mutex> lk(s.m);
	s.active = false;
	uscxml_verif_point = 0;
	if (stuck) *stuck = s.stuck;
	if (remaining) *remaining = s.schedule.size();
	s.cv.notify_all();
	return s.log;
}
#endif
