// vd_trie.cpp -- C12: the event-name trie with which the Promela and VHDL back-ends resolve descriptor matches
// statically.   trie-impl <hex words, comma separated, in insertion order | -> <hex descriptor attribute>
// inserts the words with Trie::addWord and resolves the attribute as ChartToPromela::writeFSMSelectTransitions does:
// every descriptor is stripped of a trailing ".*" / ".", "*" anywhere in the list matches everything, the words
// below the descriptor's token path are collected.  Answer: "[<hex word>,...]" (sorted, unique) or "all".
#include "vd_common.h"
#include "uscxml/config.h"
#include "uscxml/Common.h"
#include "uscxml/transform/Trie.h"
#include <boost/algorithm/string.hpp>
#include <set>
#include <sstream>

using namespace uscxml;

namespace {
std::string cmd_trie_impl(const std::vector<std::string>& a) {
	if (a.size() < 3) return "ERR usage";
	Trie t(".");   // as PromelaCodeAnalyzer and ChartToVHDL construct it
	if (a[1] != "-") {
		std::stringstream ss(a[1]);
		std::string w;
		while (std::getline(ss, w, ',')) t.addWord(unhex(w));
	}
	std::string attr = unhex(a[2]);
	std::list<std::string> descs;
	{
		std::istringstream is(attr);
		std::string d;
		while (is >> d) descs.push_back(d);
	}
	for (auto& d : descs) if (d == "*") return "all";
	std::set<std::string> res;
	for (auto d : descs) {
		if (boost::ends_with(d, ".*")) d = d.substr(0, d.size() - 2);
		if (boost::ends_with(d, ".")) d = d.substr(0, d.size() - 1);
		std::list<TrieNode*> ws = t.getWordsWithPrefix(d);
		for (auto n : ws) res.insert(n->value);
	}
	std::string out = "[";
	bool first = true;
	for (auto& w : res) { out += (first ? "" : ",") + hex(w); first = false; }
	return out + "]";
}
}
VD_REGISTER(trie_impl, cmd_trie_impl)
static VdReg vd_reg_trie_impl_dash("trie-impl", cmd_trie_impl);
