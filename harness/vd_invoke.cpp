// vd_invoke.cpp -- C11: implementation-side driver for invoked sessions.
//
//   invoke <engine> <parent.scxml> <watchdog_ms> <point_timeout_ms> <script> [<schedule item>...]
//       runs the parent chart (which invokes its children through USCXMLInvoker) in a forked child
//       process.  The main thread is the parent session ("parent"); every invoked session runs in the
//       thread USCXMLInvoker::start creates ("c.<invokeid>").  A recording InterpreterMonitor is copied to
//       the invokers (copyToInvokers(true)); every monitor callback, every enqueue at one of the sessions'
//       queues and every USCXML_VERIF_POINT is an arrival at the schedule controller of vd_sched.h, so the
//       controller's arrival log is the observed trace and any of these arrivals can be forced into an order.
//       <script> (comma separated, executed by the parent thread):
//           s        step(0) until IDLE or FINISHED         b        one blocking step (point_timeout_ms)
//           e:<name> receive(Event(name))                  p:<name> arrival at point drv.<name>
//           c        cancel()                              w:<ms>   sleep
//           x        destroy the interpreter
//       answer:  ok ret=<last step result> stuck=<0|1> rem=<unconsumed schedule items> log=<a,b,c,...>
//                watchdog log=<...>      (the run did not return within watchdog_ms: dead-lock / live-lock)
//                crash sig=<n> | exit rc=<n>
//
//   route <target-hex> <has_parent 0|1> [<invokeid-hex>...]
//       SCXMLIOProcessor::isValidTarget / eventFromSCXML on a stub session: which queue gets the event.
//       The token @SID@ inside the target is replaced by the session id of a live second session.
#include "uscxml/config.h"
#include "uscxml/Common.h"
#include "uscxml/Interpreter.h"
#include "uscxml/interpreter/InterpreterImpl.h"
#include "uscxml/interpreter/InterpreterMonitor.h"
#include "uscxml/interpreter/BasicEventQueue.h"
#include "uscxml/interpreter/LargeMicroStep.h"
#include "uscxml/interpreter/FastMicroStep.h"
#include "uscxml/plugins/Factory.h"
#include "uscxml/plugins/IOProcessorImpl.h"
#include "uscxml/util/DOM.h"

#include <sstream>
#include <thread>
#include <set>
#include <unistd.h>
#include <signal.h>
#include <sys/wait.h>
#include <sys/types.h>
#include <poll.h>

#include "vd_common.h"
#include "vd_sched.h"

using namespace uscxml;

namespace vd_c11 {

static std::string g_parentSession;

static void point(const std::string& s) {
	vd_sched_point(s.c_str());
}

// the thread's role: "parent" for the driver thread, "c.<invokeid>" for the thread of an invoked session
static void ensureRole(const std::string& sessionId) {
	if (!vd_sched_thread_role().empty()) return;
	if (sessionId == g_parentSession) { vd_sched_role("parent"); return; }
	std::map<std::string, std::weak_ptr<InterpreterImpl> > inst = InterpreterImpl::getInstances();
	auto it = inst.find(sessionId);
	if (it != inst.end()) {
		std::shared_ptr<InterpreterImpl> p = it->second.lock();
		if (p) { vd_sched_role("c." + p->getInvokeId()); return; }
	}
	vd_sched_role("c.?");
}

static std::string sess(const std::string& sessionId) {
	// which session a callback is about (the parent thread also runs callbacks of its own session only)
	if (sessionId == g_parentSession) return "P";
	std::map<std::string, std::weak_ptr<InterpreterImpl> > inst = InterpreterImpl::getInstances();
	auto it = inst.find(sessionId);
	if (it != inst.end()) {
		std::shared_ptr<InterpreterImpl> p = it->second.lock();
		if (p) return "C." + p->getInvokeId();
	}
	return "C.?";
}

class RecMonitor : public InterpreterMonitor {
public:
	RecMonitor() { copyToInvokers(true); }
	virtual void beforeProcessingEvent(const std::string& sid, const Event& e) { ensureRole(sid); point("mon.ev/" + e.name); }
	virtual void afterEnteringState(const std::string& sid, const std::string& name, const XERCESC_NS::DOMElement*) { ensureRole(sid); point("mon.enter/" + name); }
	virtual void afterExitingState(const std::string& sid, const std::string& name, const XERCESC_NS::DOMElement*) { ensureRole(sid); point("mon.exit/" + name); }
	virtual void beforeExecutingContent(const std::string& sid, const XERCESC_NS::DOMElement* el) {
		ensureRole(sid);
		std::string tag = X(el->getLocalName() ? el->getLocalName() : el->getNodeName()).str();
		if (tag == "log" && el->hasAttribute(X("label"))) point("mon.exec/log/" + X(el->getAttribute(X("label"))).str());
	}
	virtual void beforeTakingTransition(const std::string& sid, const XERCESC_NS::DOMElement* t) {
		ensureRole(sid);
		std::string ev = t->hasAttribute(X("event")) ? X(t->getAttribute(X("event"))).str() : std::string("-");
		for (auto& ch : ev) if (ch == ' ') ch = '+';
		point("mon.trans/" + ev);
	}
	virtual void beforeInvoking(const std::string& sid, const XERCESC_NS::DOMElement*, const std::string& id) { ensureRole(sid); point("mon.binv/" + id); }
	virtual void afterInvoking(const std::string& sid, const XERCESC_NS::DOMElement*, const std::string& id) { ensureRole(sid); point("mon.ainv/" + id); }
	virtual void beforeUninvoking(const std::string& sid, const XERCESC_NS::DOMElement*, const std::string& id) { ensureRole(sid); point("mon.buninv/" + id); }
	virtual void afterUninvoking(const std::string& sid, const XERCESC_NS::DOMElement*, const std::string& id) { ensureRole(sid); point("mon.auninv/" + id); }
	virtual void afterMicroStep(const std::string& sid) { ensureRole(sid); point("mon.ms"); }
	virtual void onStableConfiguration(const std::string& sid) { ensureRole(sid); point("mon.stable"); }
	virtual void beforeCompletion(const std::string& sid) { ensureRole(sid); point("mon.bcompl"); }
	virtual void afterCompletion(const std::string& sid) { ensureRole(sid); point("mon.acompl"); }
};

// a BasicEventQueue that reports every enqueue; queues created from it (for invoked sessions, by
// USCXMLInvoker::invoke) carry the nesting depth: X0/I0 parent's external/internal, X1/I1 the children's, ...
class RecQueue : public BasicEventQueue {
public:
	RecQueue(const std::string& kind, int depth) : _kind(kind), _depth(depth) {}
	virtual std::shared_ptr<EventQueueImpl> create() {
		return std::shared_ptr<EventQueueImpl>(new RecQueue(_kind, _depth + 1));
	}
	virtual void enqueue(const Event& event) {
		std::string n = event.name.empty() ? std::string("-") : event.name;
		std::string tag = _kind + std::to_string(_depth) + "/" + n;
		point("q.enq/" + tag);
		BasicEventQueue::enqueue(event);
		point("q.enqd/" + tag);
	}
	std::string _kind;
	int _depth;
};

static std::string join(const std::vector<std::string>& v) {
	std::string out;
	for (size_t i = 0; i < v.size(); i++) { if (i) out += ","; out += v[i]; }
	return out.empty() ? "-" : out;
}

static std::vector<std::string> splitc(const std::string& s, char c) {
	std::vector<std::string> out;
	std::string cur;
	for (char ch : s) { if (ch == c) { out.push_back(cur); cur.clear(); } else cur.push_back(ch); }
	out.push_back(cur);
	return out;
}

static int g_outfd = 1;
static void emit(const std::string& s) {
	std::string t = s + "\n";
	ssize_t r = write(g_outfd, t.data(), t.size());
	(void)r;
}

static void watchdogThread(int ms) {
	std::this_thread::sleep_for(std::chrono::milliseconds(ms));
	// still here: report what was observed and leave
	std::vector<std::string> log;
	{
		VdSched& s = vd_sched();
		std::unique_lock<std::mutex> lk(s.m);
		log = s.log;
	}
	emit("watchdog log=" + join(log));
	_exit(3);
}

static void runCase(const std::vector<std::string>& a) {
	std::string engine = a[1], file = a[2];
	int wd = atoi(a[3].c_str()), pto = atoi(a[4].c_str());
	std::vector<std::string> script = splitc(a[5], ',');
	std::vector<std::string> items(a.begin() + 6, a.end());

	std::thread(watchdogThread, wd).detach();
	vd_sched_role("parent");
	vd_sched_install(items, pto);

	int last = 0;
	{
		RecMonitor mon;
		// (Interpreter::fromURL goes through the URL fetcher thread and costs about a second)
		std::string xml;
		{
			FILE* f = fopen(file.c_str(), "rb");
			if (!f) { emit("ERR cannot read " + file); _exit(4); }
			char buf[65536];
			size_t n;
			while ((n = fread(buf, 1, sizeof(buf), f)) > 0) xml.append(buf, n);
			fclose(f);
		}
		Interpreter interp = Interpreter::fromXML(xml, "file://" + file);
		g_parentSession = interp.getImpl()->getSessionId();
		ActionLanguage al;
		if (engine == "fast") al.microStepper = MicroStep(std::shared_ptr<MicroStepImpl>(new FastMicroStep(interp.getImpl().get())));
		else al.microStepper = MicroStep(std::shared_ptr<MicroStepImpl>(new LargeMicroStep(interp.getImpl().get())));
		al.externalQueue = EventQueue(std::shared_ptr<EventQueueImpl>(new RecQueue("X", 0)));
		al.internalQueue = EventQueue(std::shared_ptr<EventQueueImpl>(new RecQueue("I", 0)));
		interp.setActionLanguage(al);
		interp.addMonitor(&mon);
		try {
			for (auto& act : script) {
				if (act == "s") {
					for (int i = 0; i < 2000; i++) {
						last = interp.step(0);
						if (last == USCXML_IDLE || last == USCXML_FINISHED) break;
					}
					point("drv.ret/" + std::to_string(last));
				} else if (act == "b") {
					last = interp.step(pto);
					point("drv.ret/" + std::to_string(last));
				} else if (act.compare(0, 2, "e:") == 0) {
					Event e(act.substr(2), Event::EXTERNAL);
					interp.receive(e);
				} else if (act.compare(0, 2, "p:") == 0) {
					point("drv." + act.substr(2));
				} else if (act == "c") {
					interp.cancel();
				} else if (act.compare(0, 2, "w:") == 0) {
					std::this_thread::sleep_for(std::chrono::milliseconds(atoi(act.substr(2).c_str())));
				} else if (act == "x") {
					point("drv.destroy");
					interp = Interpreter();
					point("drv.destroyed");
				}
			}
		} catch (Event& e) {
			point("drv.exc/" + e.name);
		} catch (std::exception& e) {
			std::string w = e.what();
			for (auto& ch : w) if (ch == ' ' || ch == ',') ch = '_';
			point("drv.exc/std/" + w);
		} catch (...) {
			point("drv.exc/unknown");
		}
		point("drv.destroy");
		interp = Interpreter();
		point("drv.destroyed");
	}
	bool stuck = false;
	size_t rem = 0;
	std::vector<std::string> log = vd_sched_finish(&stuck, &rem);
	emit("ok ret=" + std::to_string(last) + " stuck=" + (stuck ? "1" : "0") + " rem=" + std::to_string(rem) + " log=" + join(log));
}

static std::string cmd_invoke(const std::vector<std::string>& a) {
	if (a.size() < 6) return "ERR usage";
	int fds[2];
	if (pipe(fds) != 0) return "ERR pipe";
	fflush(stdout);
	pid_t pid = fork();
	if (pid < 0) return "ERR fork";
	if (pid == 0) {
		close(fds[0]);
		g_outfd = fds[1];
		runCase(a);
		_exit(0);
	}
	close(fds[1]);
	std::string out;
	int wd = atoi(a[3].c_str());
	auto deadline = std::chrono::steady_clock::now() + std::chrono::milliseconds(wd + 3000);
	char buf[4096];
	bool killed = false;
	while (true) {
		struct pollfd pfd = { fds[0], POLLIN, 0 };
		int left = (int)std::chrono::duration_cast<std::chrono::milliseconds>(deadline - std::chrono::steady_clock::now()).count();
		if (left <= 0) { kill(pid, SIGKILL); killed = true; break; }
		int r = poll(&pfd, 1, left);
		if (r < 0) continue;
		if (r == 0) { kill(pid, SIGKILL); killed = true; break; }
		ssize_t n = read(fds[0], buf, sizeof(buf));
		if (n <= 0) break;
		out.append(buf, n);
	}
	close(fds[0]);
	int status = 0;
	waitpid(pid, &status, 0);
	{
		// the library logs to stdout without a final newline: keep the answer marker at a line start
		ssize_t r = write(1, "\n", 1);
		(void)r;
	}
	while (!out.empty() && (out.back() == '\n' || out.back() == '\r')) out.pop_back();
	for (auto& ch : out) if (ch == '\n') ch = '|';
	if (killed) return "hang " + out;
	if (WIFSIGNALED(status)) return "crash sig=" + std::to_string(WTERMSIG(status)) + " " + out;
	if (out.empty()) return "exit rc=" + std::to_string(WEXITSTATUS(status));
	return out;
}

// ---------------------------------------------------------------------------------- routing probe

class StubCallbacks : public IOProcessorCallbacks {
public:
	std::string name, sid, out;
	bool hasParent;
	std::set<std::string> invokers;
	virtual const std::string& getName() { return name; }
	virtual const std::string& getSessionId() { return sid; }
	virtual void enqueueInternal(const Event&) { out = "int"; }
	virtual void enqueueExternal(const Event&) { out = "ext"; }
	virtual void enqueueAtInvoker(const std::string& id, const Event&) {
		// InterpreterImpl::enqueueAtInvoker: error.communication if there is no such invoker
		if (invokers.count(id)) out = "inv:" + hex(id);
		else out = "errcomm:noinv:" + hex(id);
	}
	virtual void enqueueAtParent(const Event&) {
		// InterpreterImpl::enqueueAtParent: error.communication without a parent queue
		out = hasParent ? "parent" : "errcomm:noparent";
	}
	virtual Logger getLogger() { return Logger::getDefault(); }
};

static Interpreter g_other;
static std::shared_ptr<RecQueue> g_otherQ;
struct CountQueue : public RecQueue {
	CountQueue() : RecQueue("O", 0), n(0) {}
	virtual void enqueue(const Event& e) { n++; BasicEventQueue::enqueue(e); }
	int n;
};
static std::shared_ptr<CountQueue> g_cq;

static std::string cmd_route(const std::vector<std::string>& a) {
	if (a.size() < 3) return "ERR usage";
	if (!g_other) {
		g_other = Interpreter::fromXML("<scxml xmlns=\"http://www.w3.org/2005/07/scxml\"><state id=\"a\"/></scxml>", "");
		ActionLanguage al;
		g_cq = std::shared_ptr<CountQueue>(new CountQueue());
		al.externalQueue = EventQueue(g_cq);
		g_other.setActionLanguage(al);
		g_other.step(0);
	}
	std::string target = unhex(a[1]);
	std::string sid = g_other.getImpl()->getSessionId();
	size_t pos;
	bool usedSid = false;
	while ((pos = target.find("@SID@")) != std::string::npos) { target.replace(pos, 5, sid); usedSid = true; }
	StubCallbacks cb;
	cb.name = "stub";
	cb.sid = "self";
	cb.hasParent = a[2] == "1";
	for (size_t i = 3; i < a.size(); i++) cb.invokers.insert(unhex(a[i]));
	std::shared_ptr<IOProcessorImpl> io = Factory::getInstance()->createIOProcessor("scxml", &cb);
	if (!io) return "ERR no scxml ioprocessor";
	std::string valid = "1";
	try { io->isValidTarget(target); } catch (Event& e) { valid = "0:" + e.name; }
	int before = g_cq->n;
	std::string res;
	try {
		Event ev("probe", Event::EXTERNAL);
		io->eventFromSCXML(target, ev);
		res = cb.out;
		if (res.empty()) res = (g_cq->n == before + 1) ? "session" : "nowhere";
	} catch (Event& e) {
		res = "exc:" + e.name;
	}
	(void)usedSid;
	return "valid=" + valid + " dest=" + res;
}

VD_REGISTER(invoke, cmd_invoke)
VD_REGISTER(route, cmd_route)

}
