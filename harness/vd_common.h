// vd_common.h -- shared helpers of the vdriver translation units
#ifndef VD_COMMON_H
#define VD_COMMON_H
#include <string>
#include <vector>
#include <map>
#include <functional>
#include <cstdio>

typedef std::function<std::string(const std::vector<std::string>&)> vd_cmd_t;
std::map<std::string, vd_cmd_t>& vd_commands();

struct VdReg {
	VdReg(const char* name, vd_cmd_t f) { vd_commands()[name] = f; }
};
#define VD_REGISTER(name, fn) static VdReg vd_reg_##name(#name, fn);

static inline std::string unhex(const std::string& h) {
	std::string out;
	if (h == "-") return out;
	for (size_t i = 0; i + 1 < h.size(); i += 2) {
		out.push_back((char)strtol(h.substr(i, 2).c_str(), NULL, 16));
	}
	return out;
}
static inline std::string hex(const std::string& s) {
	if (s.empty()) return "-";
	static const char* d = "0123456789abcdef";
	std::string out;
	for (unsigned char c : s) { out.push_back(d[c >> 4]); out.push_back(d[c & 15]); }
	return out;
}

// Interpreters are destroyed on a separate thread: destruction can block for ever (lost wake-up in
// BasicDelayedEventQueue::stop/run, see C10); the driver must survive that.
namespace uscxml { class Interpreter; }
void vd_reap(uscxml::Interpreter* in);   // takes ownership of a heap-allocated copy
#endif
