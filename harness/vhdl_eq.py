"""vhdl_eq.py -- C18: the concurrent signal assignments of the emitted `micro_stepper` architecture as
boolean equation terms, and their evaluation.

parse_architecture(text) -> (eqs, order, info)
    eqs   : dict  signal name -> term     (every concurrent `name <= expr;` outside a process)
    order : the names in textual order
    info  : {'processes': [...], 'registers': set of names assigned inside processes, 'skipped': [...]}
term  ::= ('sig', name) | ('const', 0|1) | ('not', term) | ('and', [term]) | ('or', [term])

The expression grammar is the one ChartToVHDL's VNode printers produce plus the few hand-written lines
(`not a and not b`, `not en or completed_sig`): factor ::= not factor | ( expr ) | '0' | '1' | name ;
expr ::= factor {and factor} | factor {or factor}   (VHDL does not allow mixing without parentheses;
a mix is a parse error here too).

norm(term) : flattening of nested and/or, removal of the neutral constants ('1' in and, '0' in or; an empty
and/or is its neutral constant, a one-element and/or is the element -- the text `( '0' or x )` and `x` cannot be
told apart after parsing parentheses), sorting -- the normal form in which the parsed equations are compared
with the model's gen_eqs.  No other simplification: duplicates and absorbing constants stay.

Evaluation is ternary (Kleene) and bit-parallel: a value is a pair of Python integers (is1, is0), one
bit per input situation; unknown = neither bit set.  The emitted net is NOT acyclic (an eventful
transition reads spontaneous_active, which reads every spontaneous transition, which may read an earlier
conflicting eventful one), so the least fixed point is computed; a signal that stays unknown in some
situation is reported (the combinational loop is live there)."""
import re


class ParseError(Exception):
    pass


_tok = re.compile(r"\s*(<=|=>|'[01]'|[A-Za-z_][A-Za-z0-9_]*|[();:,])")


def strip_comments(text):
    return '\n'.join(l.split('--', 1)[0] for l in text.split('\n'))


def tokens(s):
    out = []
    pos = 0
    s = s.strip()
    while pos < len(s):
        m = _tok.match(s, pos)
        if not m:
            raise ParseError('cannot tokenise at: %r' % s[pos:pos + 40])
        out.append(m.group(1))
        pos = m.end()
    return out


def parse_expr(toks):
    pos = [0]

    def peek():
        return toks[pos[0]] if pos[0] < len(toks) else None

    def take():
        t = peek()
        pos[0] += 1
        return t

    def factor():
        t = take()
        if t is None:
            raise ParseError('unexpected end of expression')
        if t.lower() == 'not':
            return ('not', factor())
        if t == '(':
            e = expr()
            if take() != ')':
                raise ParseError('missing )')
            return e
        if t == "'0'":
            return ('const', 0)
        if t == "'1'":
            return ('const', 1)
        if re.match(r'[A-Za-z_]', t) and t.lower() not in ('and', 'or'):
            return ('sig', t)
        raise ParseError('unexpected token %r' % t)

    def expr():
        first = factor()
        op = None
        items = [first]
        while peek() is not None and peek().lower() in ('and', 'or'):
            o = take().lower()
            if op is None:
                op = o
            elif op != o:
                raise ParseError('and/or mixed without parentheses')
            items.append(factor())
        if op is None:
            return first
        return (op, items)

    e = expr()
    if pos[0] != len(toks):
        raise ParseError('trailing tokens %r' % toks[pos[0]:pos[0] + 5])
    return e


def parse_architecture(text):
    text = strip_comments(text)
    m = re.search(r'architecture\s+behavioral\s+of\s+micro_stepper\s+is(.*?)\bbegin\b(.*?)end\s+behavioral\s*;', text, flags=re.S)
    if not m:
        raise ParseError('no micro_stepper architecture')
    decl, body = m.group(1), m.group(2)
    declared = re.findall(r'\bsignal\s+(\w+)\s*:', decl)
    info = {'processes': [], 'registers': set(), 'skipped': [], 'declared': declared}
    # cut out processes (sequential assignments = registers) and the component instantiation

    def cut_process(mm):
        info['processes'].append(mm.group(1))
        for r in re.findall(r'(\w+)\s*<=', mm.group(0)):
            info['registers'].add(r)
        return ' '
    body = re.sub(r'(\w+)\s*:\s*process\b.*?end\s+process\s*;', cut_process, body, flags=re.S)
    body = re.sub(r'\w+\s*:\s*component\b.*?\)\s*;', ' ', body, flags=re.S)
    eqs, order = {}, []
    for stmt in body.split(';'):
        if not stmt.strip():
            continue
        if '<=' not in stmt:
            info['skipped'].append(stmt.strip()[:60])
            continue
        lhs, rhs = stmt.split('<=', 1)
        lhs = lhs.strip()
        if not re.fullmatch(r'\w+', lhs):
            raise ParseError('left-hand side %r' % lhs)
        try:
            e = parse_expr(tokens(rhs))
        except ParseError as ex:
            # vector-valued plumbing of the event FIFO is no boolean equation
            info['skipped'].append('%s <= %s (%s)' % (lhs, rhs.strip()[:40], ex))
            continue
        if lhs in eqs:
            raise ParseError('two drivers for %s' % lhs)
        eqs[lhs] = e
        order.append(lhs)
    return eqs, order, info


# ------------------------------------------------------------------ normal form

def norm(t):
    k = t[0]
    if k in ('sig', 'const'):
        return t
    if k == 'not':
        return ('not', norm(t[1]))
    neutral = 1 if k == 'and' else 0
    items = []
    for x in t[1]:
        x = norm(x)
        if x[0] == k:
            items.extend(x[1])
        elif x == ('const', neutral):
            continue
        else:
            items.append(x)
    if not items:
        return ('const', neutral)
    if len(items) == 1:
        return items[0]
    items.sort(key=show)
    return (k, items)


def show(t):
    k = t[0]
    if k == 'sig':
        return t[1]
    if k == 'const':
        return "'%d'" % t[1]
    if k == 'not':
        return '!' + show(t[1])
    return ('&' if k == 'and' else '|') + '(' + ' '.join(show(x) for x in t[1]) + ')'


def parse_show(s):
    """inverse of show (the model driver prints gen_eqs in this syntax)"""
    pos = [0]

    def term():
        c = s[pos[0]]
        if c == '!':
            pos[0] += 1
            return ('not', term())
        if c in '&|':
            pos[0] += 2
            items = []
            while s[pos[0]] != ')':
                if s[pos[0]] == ' ':
                    pos[0] += 1
                    continue
                items.append(term())
            pos[0] += 1
            return ('and' if c == '&' else 'or', items)
        if c == "'":
            v = int(s[pos[0] + 1])
            pos[0] += 3
            return ('const', v)
        m = re.match(r'\w+', s[pos[0]:])
        if not m:
            raise ParseError('model term at %r' % s[pos[0]:pos[0] + 20])
        pos[0] += m.end()
        return ('sig', m.group(0))
    t = term()
    if pos[0] != len(s):
        raise ParseError('trailing model text %r' % s[pos[0]:pos[0] + 20])
    return t


def signals_of(t, acc=None):
    acc = set() if acc is None else acc
    if t[0] == 'sig':
        acc.add(t[1])
    elif t[0] == 'not':
        signals_of(t[1], acc)
    elif t[0] in ('and', 'or'):
        for x in t[1]:
            signals_of(x, acc)
    return acc


def dependency_cycle(eqs):
    """a cycle of the syntactic dependency graph of the equations, or None"""
    state = {}
    stack = []

    def visit(s):
        state[s] = 1
        stack.append(s)
        for d in sorted(signals_of(eqs[s])):
            if d not in eqs:
                continue
            if state.get(d) == 1:
                return stack[stack.index(d):] + [d]
            if d not in state:
                r = visit(d)
                if r:
                    return r
        stack.pop()
        state[s] = 2
        return None
    for s in eqs:
        if s not in state:
            r = visit(s)
            if r:
                return r
    return None


# ------------------------------------------------------------------ ternary bit-parallel evaluation

def tev(t, env, full):
    k = t[0]
    if k == 'sig':
        return env.get(t[1], (0, 0))
    if k == 'const':
        return (full, 0) if t[1] else (0, full)
    if k == 'not':
        a1, a0 = tev(t[1], env, full)
        return (a0, a1)
    if k == 'and':
        r1, r0 = full, 0
        for x in t[1]:
            a1, a0 = tev(x, env, full)
            r1 &= a1
            r0 |= a0
        return (r1, r0)
    r1, r0 = 0, full
    for x in t[1]:
        a1, a0 = tev(x, env, full)
        r1 |= a1
        r0 &= a0
    return (r1, r0)


def solve(eqs, order, inputs, nbits):
    """least fixed point of the ternary semantics.  inputs: name -> int (bit i = value in situation i).
    Returns env: name -> (is1, is0)."""
    full = (1 << nbits) - 1
    env = {n: (v & full, ~v & full) for n, v in inputs.items()}
    for n in order:
        if n in inputs:
            raise ParseError('input %s is driven by an equation' % n)
    changed = True
    rounds = 0
    while changed:
        changed = False
        rounds += 1
        for n in order:
            v = tev(eqs[n], env, full)
            if env.get(n, (0, 0)) != v:
                env[n] = v
                changed = True
        if rounds > len(order) + 2:
            raise ParseError('ternary iteration does not converge (not monotone?)')
    return env
