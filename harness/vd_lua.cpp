// vd_lua.cpp -- vdriver commands of property C16 (values survive the trip through the Lua datamodel).
//
// Data tree format (shared with vd_json.cpp, whitespace-free, prefix):
//   node := ('V'|'I') hex(atom) '[' node* ']' '{' (hex(key) '=' node)* '}'      hex("") = ""
// Commands (byte strings in hex, "-" = empty):
//   lua-rt <wayin> <tree|-> <lithex|->
//        wayin in payload|param|namelist|assign|data|assigndata.  Builds a small SCXML chart (lua
//        datamodel), brings the value into the global `w` by the named way in (literal = Lua source
//        text of the value; tree = the Data presented as event payload / handed to assign) and
//        reads it back by every way out:
//        -> "expr=<r> send=<r> evdata=<r> dsend=<r> devdata=<r> errs=<n>"   r := tree | ERR:<event name> | MISSING
//   lua-drt <tree>          fresh datamodel: assign("w", tree); evalAsData("w")         -> "<r>"
//   lua-pay <tree>          fresh datamodel: setEvent(payload tree); evalAsData("_event.data") -> "<r>"
//   lua-lrt <lithex>        fresh datamodel: d1 = evalAsData(lit); assign("w", d1); evalAsData("w")
//                           -> "first=<r> second=<r>"
//   lua-ev <tree> <params> <namelist>   setEvent with data, params (array of one-key compounds, in
//                           insertion order) and namelist (compound); -> evalAsData("_event.data")
//   lua-protect <mode> <lochex>   mode in api-assign|api-init|chart-assign|chart-data: try to assign the
//                           string "pwned" to the location by DataModel::assign / ::init or by
//                           <assign location=.. expr=..> / <data id=.. expr=..> in a chart
//                           -> "error=<0|1> changed=<comma list of system variables whose value differs|->"
//   lua-num <hex>           -> "dbl=<hex of toStr(strTo<double>(s))> lng=<strTo<long>(s)> isnum=<0|1> isint=<0|1>"
#include "uscxml/config.h"
#include "uscxml/Common.h"
#include "uscxml/Interpreter.h"
#include "uscxml/interpreter/InterpreterImpl.h"
#include "uscxml/interpreter/InterpreterMonitor.h"
#include "uscxml/interpreter/Logging.h"
#include "uscxml/plugins/DataModel.h"
#include "uscxml/plugins/Factory.h"
#include "uscxml/messages/Data.h"
#include "uscxml/messages/Event.h"
#include "uscxml/util/Convenience.h"

#include <iostream>
#include <sstream>
#include <string>
#include <vector>
#include <map>
#include <list>

#include "vd_common.h"

using namespace uscxml;

namespace {

static std::string hexraw(const std::string& s) {
	static const char* d = "0123456789abcdef";
	std::string out;
	for (unsigned char c : s) { out.push_back(d[c >> 4]); out.push_back(d[c & 15]); }
	return out;
}

static void dump(const Data& d, std::string& out) {
	// members are read through the public accessors only
	Data& m = const_cast<Data&>(d);
	out.push_back(m.getType() == Data::VERBATIM ? 'V' : 'I');
	out += hexraw(d.getAtom());
	out.push_back('[');
	for (auto const& e : m.getArray()) dump(e, out);
	out.push_back(']');
	out.push_back('{');
	for (auto const& kv : m.getCompound()) {
		out += hexraw(kv.first);
		out.push_back('=');
		dump(kv.second, out);
	}
	out.push_back('}');
}
static std::string dumps(const Data& d) { std::string o; dump(d, o); return o; }

static bool ishex(char c) { return (c >= '0' && c <= '9') || (c >= 'a' && c <= 'f'); }
static std::string parsehex(const std::string& s, size_t& i) {
	std::string out;
	while (i + 1 < s.size() && ishex(s[i]) && ishex(s[i + 1])) {
		out.push_back((char)strtol(s.substr(i, 2).c_str(), NULL, 16));
		i += 2;
	}
	return out;
}
static Data parse(const std::string& s, size_t& i) {
	if (i >= s.size() || (s[i] != 'V' && s[i] != 'I')) throw std::runtime_error("tree: V/I expected");
	Data d;
	d.setType(s[i] == 'V' ? Data::VERBATIM : Data::INTERPRETED);
	i++;
	d.setAtom(parsehex(s, i));
	if (i >= s.size() || s[i] != '[') throw std::runtime_error("tree: [ expected");
	i++;
	std::list<Data> arr;
	while (i < s.size() && s[i] != ']') arr.push_back(parse(s, i));
	i++;
	d.setArray(arr);
	if (i >= s.size() || s[i] != '{') throw std::runtime_error("tree: { expected");
	i++;
	std::map<std::string, Data> comp;
	while (i < s.size() && s[i] != '}') {
		std::string k = parsehex(s, i);
		if (i >= s.size() || s[i] != '=') throw std::runtime_error("tree: = expected");
		i++;
		comp[k] = parse(s, i);
	}
	i++;
	d.setCompound(comp);
	return d;
}
static Data parses(const std::string& s) {
	size_t i = 0;
	Data d = parse(s, i);
	if (i != s.size()) throw std::runtime_error("tree: trailing input");
	return d;
}

static std::string xmlesc(const std::string& s) {
	std::string o;
	for (char c : s) {
		switch (c) {
		case '&': o += "&amp;"; break;
		case '<': o += "&lt;"; break;
		case '>': o += "&gt;"; break;
		case '"': o += "&quot;"; break;
		case '\'': o += "&apos;"; break;
		default: o.push_back(c);
		}
	}
	return o;
}

// the library logs to std::cout; keep the command output clean
struct CoutSilencer {
	std::streambuf* old;
	std::stringstream sink;
	CoutSilencer() { old = std::cout.rdbuf(sink.rdbuf()); }
	~CoutSilencer() { std::cout.rdbuf(old); }
};

class DMCallbacks : public DataModelCallbacks {
public:
	std::string name = "vdname";
	std::string sessionId = "vdsession";
	std::map<std::string, IOProcessor> ioProcs;
	std::map<std::string, Invoker> invokers;
	virtual ~DMCallbacks() {}
	const std::string& getName() { return name; }
	const std::string& getSessionId() { return sessionId; }
	const std::map<std::string, IOProcessor>& getIOProcessors() { return ioProcs; }
	virtual bool isInState(const std::string& stateId) { return false; }
	virtual XERCESC_NS::DOMDocument* getDocument() const { return nullptr; }
	virtual const std::map<std::string, Invoker>& getInvokers() { return invokers; }
	virtual Logger getLogger() { return Logger::getDefault(); }
};

template <typename F> static std::string guarded(F f) {
	try {
		return f();
	} catch (ErrorEvent& e) {
		return "ERR:" + e.name;
	} catch (Event& e) {
		return "ERR:" + e.name;
	} catch (std::bad_alloc& e) {
		// e.g. getLuaAsData padding an array up to a huge integer key; the process runs under ulimit -v
		return "ERR:bad_alloc";
	}
}

static const char* SYSVARS[] = {"_event", "_sessionid", "_name", "_ioprocessors", "_invokers"};

// ------------------------------------------------------------------------------------ direct commands

static std::string cmd_drt(const std::vector<std::string>& a) {
	if (a.size() != 2) return "ERR usage";
	CoutSilencer q;
	Data d = parses(a[1]);
	DMCallbacks cb;
	DataModel lua = Factory::getInstance()->createDataModel("lua", &cb);
	return guarded([&]() {
		lua.assign("w", d);
		return dumps(lua.evalAsData("w"));
	});
}

static std::string cmd_pay(const std::vector<std::string>& a) {
	if (a.size() != 2) return "ERR usage";
	CoutSilencer q;
	Data d = parses(a[1]);
	DMCallbacks cb;
	DataModel lua = Factory::getInstance()->createDataModel("lua", &cb);
	return guarded([&]() {
		Event e("in", Event::EXTERNAL);
		e.data = d;
		lua.setEvent(e);
		return dumps(lua.evalAsData("_event.data"));
	});
}

static std::string cmd_lrt(const std::vector<std::string>& a) {
	if (a.size() != 2) return "ERR usage";
	CoutSilencer q;
	std::string lit = unhex(a[1]);
	DMCallbacks cb;
	DataModel lua = Factory::getInstance()->createDataModel("lua", &cb);
	Data d1;
	std::string r1 = guarded([&]() { d1 = lua.evalAsData(lit); return dumps(d1); });
	if (r1.compare(0, 4, "ERR:") == 0) return "first=" + r1 + " second=-";
	std::string r2 = guarded([&]() { lua.assign("w", d1); return dumps(lua.evalAsData("w")); });
	return "first=" + r1 + " second=" + r2;
}

static std::string cmd_ev(const std::vector<std::string>& a) {
	if (a.size() != 4) return "ERR usage";
	CoutSilencer q;
	Data d = parses(a[1]);
	Data ps = parses(a[2]);
	Data nl = parses(a[3]);
	DMCallbacks cb;
	DataModel lua = Factory::getInstance()->createDataModel("lua", &cb);
	return guarded([&]() {
		Event e("in", Event::EXTERNAL);
		e.data = d;
		for (auto const& p : ps.getArray()) {
			Data& pm = const_cast<Data&>(p);
			for (auto const& kv : pm.getCompound()) e.params.insert(std::make_pair(kv.first, kv.second));
		}
		for (auto const& kv : nl.getCompound()) e.namelist[kv.first] = kv.second;
		lua.setEvent(e);
		return dumps(lua.evalAsData("_event.data"));
	});
}

static std::string cmd_num(const std::vector<std::string>& a) {
	if (a.size() != 2) return "ERR usage";
	std::string s = unhex(a[1]);
	std::ostringstream o;
	o << "dbl=" << hex(toStr(strTo<double>(s))) << " lng=" << strTo<long>(s)
	  << " isnum=" << (isNumeric(s.c_str(), 10) ? 1 : 0) << " isint=" << (isInteger(s.c_str(), 10) ? 1 : 0);
	return o.str();
}

// ------------------------------------------------------------------------------------ chart runs

// Destroying an interpreter within about a millisecond of its creation can hang in
// BasicDelayedEventQueue::stop() (event_base_loopbreak before the timer thread has entered
// event_base_loop: the wake-up is lost and join() never returns) -- a life-cycle defect that belongs
// to C10, not to this property.  Finished interpreters are therefore parked and destroyed 24 runs
// later, when their timer thread has long been blocked inside its loop; the last ones are leaked
// at process exit on purpose.
static void park(const Interpreter& interp) {
	static std::list<Interpreter>* parked = new std::list<Interpreter>();
	parked->push_back(interp);
	if (parked->size() > 24) parked->pop_front();
}

struct RtMonitor : public InterpreterMonitor {
	std::shared_ptr<InterpreterImpl> impl;
	std::string curr;
	std::map<std::string, std::string> res;
	int errs = 0;
	std::string lastErr;

	void beforeProcessingEvent(const std::string& sessionId, const Event& e) override {
		curr = e.name;
		if (e.name == "out" || e.name == "done.state.c") {
			std::string key = (e.name == "out" ? "send" : "dsend");
			Data found;
			bool has = Event::getParam(e.params, "q", found);
			res[key] = has ? dumps(found) : "MISSING";
		}
		if (e.name.compare(0, 6, "error.") == 0) {
			errs++;
			lastErr = e.name;
		}
	}
	void beforeTakingTransition(const std::string& sessionId, const XERCESC_NS::DOMElement* transition) override {
		if (curr == "out" && res.find("evdata") == res.end()) {
			res["expr"] = guarded([&]() { return dumps(impl->evalAsData("w")); });
			res["evdata"] = guarded([&]() { return dumps(impl->evalAsData("_event.data.q")); });
		}
		if (curr == "done.state.c" && res.find("devdata") == res.end()) {
			res["devdata"] = guarded([&]() { return dumps(impl->evalAsData("_event.data.q")); });
		}
	}
};

static std::string rt_chart(const std::string& way, const std::string& lit) {
	std::string L = xmlesc(lit);
	std::ostringstream x;
	x << "<scxml xmlns=\"http://www.w3.org/2005/07/scxml\" version=\"1.0\" datamodel=\"lua\" initial=\"m\">\n";
	x << " <datamodel>\n";
	if (way == "data") x << "  <data id=\"w\" expr=\"" << L << "\"/>\n";
	if (way == "namelist") x << "  <data id=\"nl\" expr=\"" << L << "\"/>\n";
	x << " </datamodel>\n";
	x << " <state id=\"m\" initial=\"a\">\n  <state id=\"a\">\n   <onentry>\n";
	if (way == "assign") x << "    <assign location=\"w\" expr=\"" << L << "\"/>\n";
	if (way == "param") x << "    <send event=\"in\"><param name=\"p\" expr=\"" << L << "\"/></send>\n";
	if (way == "namelist") x << "    <send event=\"in\" namelist=\"nl\"/>\n";
	if (way == "assign" || way == "data") x << "    <raise event=\"in\"/>\n";
	x << "   </onentry>\n   <transition event=\"in\" target=\"b\">\n";
	if (way == "payload") x << "    <assign location=\"w\" expr=\"_event.data\"/>\n";
	if (way == "param") x << "    <assign location=\"w\" expr=\"_event.data.p\"/>\n";
	if (way == "namelist") x << "    <assign location=\"w\" expr=\"_event.data.nl\"/>\n";
	x << "   </transition>\n  </state>\n";
	x << "  <state id=\"b\">\n   <onentry><send event=\"out\"><param name=\"q\" expr=\"w\"/></send></onentry>\n";
	x << "   <transition event=\"out\" target=\"c\"/>\n  </state>\n";
	x << "  <state id=\"c\" initial=\"c1\">\n   <state id=\"c1\"><transition target=\"cf\"/></state>\n";
	x << "   <final id=\"cf\"><donedata><param name=\"q\" expr=\"w\"/></donedata></final>\n";
	x << "   <transition event=\"done.state.c\" target=\"end\"/>\n  </state>\n";
	x << " </state>\n <final id=\"end\"/>\n</scxml>\n";
	return x.str();
}

static std::string cmd_rt(const std::vector<std::string>& a) {
	if (a.size() != 4) return "ERR usage";
	std::string way = a[1];
	bool hasTree = a[2] != "-";
	Data d;
	if (hasTree) d = parses(a[2]);
	std::string lit = unhex(a[3]);
	if (way == "print") return hex(rt_chart("param", lit));
	CoutSilencer q;
	RtMonitor mon;
	std::string exc;
	InterpreterState st = USCXML_UNDEF;
	try {
		Interpreter interp = Interpreter::fromXML(rt_chart(way, lit), "");
		mon.impl = interp.getImpl();
		interp.addMonitor(&mon);
		bool injected = !(way == "payload" || way == "assigndata");
		for (int n = 0; n < 200; n++) {
			st = interp.step(0);
			if (st == USCXML_FINISHED) break;
			if (st == USCXML_IDLE) {
				if (injected) break;
				injected = true;
				if (way == "assigndata") {
					std::string r = guarded([&]() { interp.getImpl()->assign("w", d, std::map<std::string, std::string>()); return std::string("ok"); });
					if (r != "ok") { mon.errs++; mon.lastErr = r; }
				}
				Event e("in", Event::EXTERNAL);
				if (way == "payload") e.data = d;
				interp.receive(e);
			}
		}
		mon.impl.reset();
		interp.removeMonitor(&mon);
		park(interp);
	} catch (Event& e) {
		exc = "ERR:" + e.name;
	} catch (std::bad_alloc& e) {
		exc = "ERR:bad_alloc";
	}
	std::ostringstream o;
	const char* keys[] = {"expr", "send", "evdata", "dsend", "devdata"};
	for (const char* k : keys) {
		auto it = mon.res.find(k);
		o << k << "=" << (it == mon.res.end() ? (exc.empty() ? std::string("MISSING") : exc) : it->second) << " ";
	}
	o << "errs=" << mon.errs << " st=" << (int)st << (exc.empty() ? "" : " exc=" + exc);
	return o.str();
}

// system variables as seen by the datamodel, for the before/after comparison
template <typename EV> static std::map<std::string, std::string> snapshot(EV ev) {
	std::map<std::string, std::string> s;
	for (const char* v : SYSVARS) {
		std::string name = v;
		s[name] = guarded([&]() { return dumps(ev(name)); });
	}
	return s;
}
static std::string diff(const std::map<std::string, std::string>& a, const std::map<std::string, std::string>& b) {
	std::string out;
	for (const char* v : SYSVARS) {
		if (a.at(v) != b.at(v)) { if (!out.empty()) out += ","; out += v; }
	}
	return out.empty() ? "-" : out;
}

struct ProtMonitor : public InterpreterMonitor {
	int errs = 0;
	void beforeProcessingEvent(const std::string& sessionId, const Event& e) override {
		if (e.name == "error.execution") errs++;
	}
};

static std::string cmd_protect(const std::vector<std::string>& a) {
	if (a.size() != 3) return "ERR usage";
	std::string mode = a[1];
	std::string loc = unhex(a[2]);
	CoutSilencer q;
	std::ostringstream o;
	if (mode == "api-assign" || mode == "api-init") {
		DMCallbacks cb;
		DataModel lua = Factory::getInstance()->createDataModel("lua", &cb);
		Event e("probe", Event::EXTERNAL);
		e.data = Data("payload", Data::VERBATIM);
		lua.setEvent(e);
		auto before = snapshot([&](const std::string& n) { return lua.evalAsData(n); });
		std::string r = guarded([&]() {
			if (mode == "api-assign") lua.assign(loc, Data("pwned", Data::VERBATIM));
			else lua.init(loc, Data("pwned", Data::VERBATIM));
			return std::string("ok");
		});
		auto after = snapshot([&](const std::string& n) { return lua.evalAsData(n); });
		o << "error=" << (r == "ok" ? 0 : 1) << " changed=" << diff(before, after);
		return o.str();
	}
	// chart level: in state s0 the persistent system variables are read; the event "probe" (payload
	// "payload") enters s1, where the location is attacked by <assign> in an <onentry> block of its
	// own, or by a late-bound <data>; a second <onentry> block copies _event to vd_seen before the
	// error event (if any) is processed (name, type and data of _event, as one string).
	std::ostringstream x;
	x << "<scxml xmlns=\"http://www.w3.org/2005/07/scxml\" version=\"1.0\" datamodel=\"lua\" name=\"vdchart\" binding=\"late\" initial=\"s0\">\n";
	x << " <state id=\"s0\"><transition event=\"probe\" target=\"s1\"/></state>\n <state id=\"s1\">";
	if (mode == "chart-data") x << "<datamodel><data id=\"" << xmlesc(loc) << "\" expr=\"'pwned'\"/></datamodel>";
	if (mode == "chart-assign") x << "<onentry><assign location=\"" << xmlesc(loc) << "\" expr=\"'pwned'\"/></onentry>";
	x << "<onentry><assign location=\"vd_seen\" expr=\"type(_event) == 'table' and (tostring(_event.name)..'|'..tostring(_event.type)..'|'..tostring(_event.data))\"/></onentry>";
	x << "</state>\n</scxml>\n";
	try {
		Interpreter interp = Interpreter::fromXML(x.str(), "");
		ProtMonitor mon;
		interp.addMonitor(&mon);
		auto impl = interp.getImpl();
		auto run = [&]() { for (int n = 0; n < 50; n++) { InterpreterState st = interp.step(0); if (st == USCXML_IDLE || st == USCXML_FINISHED) break; } };
		run();
		Event p("probe", Event::EXTERNAL);
		p.data = Data("payload", Data::VERBATIM);
		std::string payloadTree = dumps(p.data);
		auto ev = [&](const std::string& n) { return n == "_event" ? Data("probe|external|payload", Data::VERBATIM) : impl->evalAsData(n); };
		auto before = snapshot(ev);
		interp.receive(p);
		run();
		auto ev2 = [&](const std::string& n) { return impl->evalAsData(n == "_event" ? std::string("vd_seen") : n); };
		auto after = snapshot(ev2);
		o << "error=" << (mon.errs > 0 ? 1 : 0) << " changed=" << diff(before, after);
		impl.reset();
		interp.removeMonitor(&mon);
		park(interp);
		return o.str();
	} catch (Event& e) {
		return "EXC:" + e.name;
	}
}

} // namespace

static VdReg vd_reg_lua_rt("lua-rt", cmd_rt);
static VdReg vd_reg_lua_drt("lua-drt", cmd_drt);
static VdReg vd_reg_lua_pay("lua-pay", cmd_pay);
static VdReg vd_reg_lua_lrt("lua-lrt", cmd_lrt);
static VdReg vd_reg_lua_ev("lua-ev", cmd_ev);
static VdReg vd_reg_lua_num("lua-num", cmd_num);
static VdReg vd_reg_lua_protect("lua-protect", cmd_protect);
