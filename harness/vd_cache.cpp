// vd_cache.cpp -- the lazily filled conflict caches of LargeMicroStep after a run (tie of LargeCache.v).
//   cache <hex scxml> <fuel> <hex event>*
// answers "K compat=<i>:<j>,<j>;...  confl=<i>:<j>;..." with the per-transition sets in post-fix order.
// The engine is a subclass of LargeMicroStep that only adds a reader of the protected members.
#include "vd_common.h"
#include "uscxml/uscxml.h"
#include "uscxml/interpreter/InterpreterImpl.h"
#include "uscxml/interpreter/LargeMicroStep.h"
#include <sstream>

using namespace uscxml;

namespace {

class PeekLarge : public LargeMicroStep {
public:
	PeekLarge(MicroStepCallbacks* cb) : LargeMicroStep(cb) {}
	std::string dump() {
		std::ostringstream c, f;
		for (auto t : _transitions) {
			if (!t->compatible.empty()) {
				c << t->postFixOrder << ":";
				bool first = true;
				for (auto j : t->compatible) { c << (first ? "" : ",") << j; first = false; }
				c << ";";
			}
			if (!t->conflicting.empty()) {
				f << t->postFixOrder << ":";
				bool first = true;
				for (auto j : t->conflicting) { f << (first ? "" : ",") << j; first = false; }
				f << ";";
			}
		}
		return "K compat=" + c.str() + " confl=" + f.str();
	}
};

std::string cmd_cache(const std::vector<std::string>& a) {
	if (a.size() < 3) return "ERR usage";
	std::string xml = unhex(a[1]);
	int fuel = atoi(a[2].c_str());
	Interpreter* inp = new Interpreter(Interpreter::fromXML(xml, ""));
	Interpreter& in = *inp;
	ActionLanguage al;
	std::shared_ptr<PeekLarge> eng(new PeekLarge((MicroStepCallbacks*)in.getImpl().get()));
	al.microStepper = MicroStep(eng);
	in.setActionLanguage(al);
	size_t next = 3;
	bool seenInit = false;
	while (fuel > 0) {
		InterpreterState s = in.step(0);
		if (s == USCXML_INITIALIZED && !seenInit) { seenInit = true; continue; }
		fuel--;
		if (s == USCXML_FINISHED) break;
		if (s == USCXML_IDLE) {
			if (next >= a.size()) break;
			Event e(unhex(a[next++]));
			e.eventType = Event::EXTERNAL;
			in.receive(e);
		}
	}
	std::string out = eng->dump();
	vd_reap(inp);
	return out;
}

}
VD_REGISTER(cache, cmd_cache)
