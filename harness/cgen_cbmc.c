/* cgen_cbmc.c -- C04, supporting evidence for the bounds claim only: one call of the emitted uscxml_step() under cbmc
 *   cbmc -DCGEN_MACHINE_FILE='"machine.c"' -I<dir> cgen_cbmc.c --bounds-check --pointer-check --unwind <states+transitions+2> --no-unwinding-assertions
 * with nondeterministic callbacks and arbitrary contents of the ctx arrays and flags (the local arrays of uscxml_step are
 * uninitialised, i.e. nondeterministic for cbmc, as well).  The DEQUEUE_EVENT loop is cut by the unwinding bound. */
#include CGEN_MACHINE_FILE
int nondet_int(void);
unsigned char nondet_uchar(void);
static int ev_dummy;
static void* cb_deq(const uscxml_ctx* ctx) { return nondet_int() ? &ev_dummy : NULL; }
static int cb_matched(const uscxml_ctx* ctx, const uscxml_transition* t, const void* e) { return nondet_int(); }
static int cb_true(const uscxml_ctx* ctx, const char* expr) { return nondet_int(); }
static int cb_done(const uscxml_ctx* ctx, const uscxml_state* state, const uscxml_elem_donedata* d) { return 0; }
static int cb_raise(const uscxml_ctx* ctx, const char* event) { return 0; }
static int cb_send(const uscxml_ctx* ctx, const uscxml_elem_send* send) { return 0; }
int main(void) {
	uscxml_ctx ctx;
	unsigned i;
	for (i = 0; i < sizeof(ctx.config); i++) { ctx.config[i] = nondet_uchar(); ctx.history[i] = nondet_uchar(); ctx.invocations[i] = nondet_uchar(); ctx.initialized_data[i] = nondet_uchar(); }
	ctx.flags = nondet_uchar();
	ctx.machine = &USCXML_MACHINE;
	ctx.event = NULL;
	ctx.dequeue_internal = cb_deq; ctx.dequeue_external = cb_deq; ctx.is_matched = cb_matched; ctx.is_true = cb_true;
	ctx.raise_done_event = cb_done; ctx.exec_content_raise = cb_raise; ctx.exec_content_send = cb_send;
	ctx.exec_content_log = 0; ctx.exec_content_foreach_init = 0; ctx.exec_content_foreach_next = 0; ctx.exec_content_foreach_done = 0;
	ctx.exec_content_assign = 0; ctx.exec_content_init = 0; ctx.exec_content_cancel = 0; ctx.exec_content_script = 0; ctx.invoke = 0;
	uscxml_step(&ctx);
	return 0;
}
