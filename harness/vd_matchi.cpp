// vd_matchi.cpp -- C12: the matching relation as the interpreter applies it (InterpreterImpl::isMatched through a
// micro-stepper), not the exported uscxml::nameMatch.   matchi <engine> <hex descriptor attribute> <hex event name>
// interprets <state id="s1"><transition event="ATTR" target="s2"/></state><state id="s2"/>, hands in the event and
// answers 1 if s2 is reached, 0 if not, ERR:<text> if the document is rejected.  The attribute must not contain
// characters that need escaping in XML (the check only sends [A-Za-z0-9.* _-] and blanks).
#include "vd_common.h"
#include "uscxml/config.h"
#include "uscxml/Common.h"
#include "uscxml/Interpreter.h"
#include "uscxml/interpreter/InterpreterImpl.h"
#include "uscxml/interpreter/MicroStep.h"
#include "uscxml/plugins/Factory.h"
#include "uscxml/util/DOM.h"

using namespace uscxml;
using namespace XERCESC_NS;

namespace {
std::string cmd_matchi(const std::vector<std::string>& a) {
	if (a.size() < 4) return "ERR usage";
	std::string attr = unhex(a[2]), name = unhex(a[3]);
	for (unsigned char c : attr) if (c == '<' || c == '&' || c == '"' || c < 32) return "ERR:unsafe";
	std::string xml = "<scxml xmlns=\"http://www.w3.org/2005/07/scxml\" version=\"1.0\" datamodel=\"null\"><state id=\"s1\"><transition event=\"" +
	                  attr + "\" target=\"s2\"/></state><state id=\"s2\"/></scxml>";
	std::string res;
	Interpreter* inp = NULL;
	try {
		inp = new Interpreter(Interpreter::fromXML(xml, ""));
		ActionLanguage al;
		al.microStepper = MicroStep(Factory::getInstance()->createMicroStepper(a[1], (MicroStepCallbacks*)inp->getImpl().get()));
		inp->setActionLanguage(al);
		bool sent = false;
		for (int fuel = 0; fuel < 30; fuel++) {
			InterpreterState s = inp->step(0);
			if (s == USCXML_FINISHED) break;
			if (s == USCXML_IDLE) {
				if (sent) break;
				Event e(name);
				e.eventType = Event::EXTERNAL;
				inp->receive(e);
				sent = true;
			}
		}
		res = "0";
		for (auto el : inp->getConfiguration()) {
			if (HAS_ATTR(el, X("id")) && ATTR(el, X("id")) == "s2") res = "1";
		}
	} catch (Event e) {
		res = "ERR:" + e.name;
	} catch (std::exception& e) {
		res = std::string("ERR:") + e.what();
	} catch (...) {
		res = "ERR:unknown";
	}
	if (inp) vd_reap(inp);
	return res;
}
}
VD_REGISTER(matchi, cmd_matchi)
