// vdriver.cpp -- implementation-side driver of the correspondence harness.
// Linked against the hook-enabled libuscxml / libuscxml_transform built from /repo's working tree.
// One command per input line, canonical text on stdout.  Byte strings are hex ("-" = empty).
#include "uscxml/config.h"
#include "uscxml/Common.h"
#include "uscxml/util/String.h"
#include "uscxml/util/Convenience.h"

#include <iostream>
#include <sstream>
#include <string>
#include <vector>
#include <map>
#include <functional>
#include <cstdlib>

#include "vd_common.h"
#include "uscxml/Interpreter.h"
#include <thread>
#include <mutex>
#include <condition_variable>
#include <deque>
#include <unistd.h>
#include <chrono>

using namespace uscxml;

// the matcher copy shipped with the generated-C scaffolding (test/src/test-gen-c.cpp), extracted
// textually by tools/translate/gen_c_namematch.py on every run
namespace gen_c_copy {
using namespace uscxml;
#include "gen_c_namematch.inc"
}

static std::mutex reap_m;
static std::condition_variable reap_cv;
static std::deque<uscxml::Interpreter*> reap_q;
static bool reap_started = false;
static void reap_loop() {
	for (;;) {
		uscxml::Interpreter* in;
		{
			std::unique_lock<std::mutex> lk(reap_m);
			while (reap_q.empty()) reap_cv.wait(lk);
			in = reap_q.front();
		}
		delete in; // may block for ever
		{
			std::unique_lock<std::mutex> lk(reap_m);
			reap_q.pop_front();
			reap_cv.notify_all();
		}
	}
}
void vd_reap(uscxml::Interpreter* in) {
	std::unique_lock<std::mutex> lk(reap_m);
	if (!reap_started) { reap_started = true; std::thread(reap_loop).detach(); }
	reap_q.push_back(in);
	reap_cv.notify_all();
}
static void reap_drain(int ms) {
	std::unique_lock<std::mutex> lk(reap_m);
	reap_cv.wait_for(lk, std::chrono::milliseconds(ms), [] { return reap_q.empty(); });
}

std::map<std::string, vd_cmd_t>& vd_commands() {
	static std::map<std::string, vd_cmd_t> cmds;
	return cmds;
}

static std::string cmd_match(const std::vector<std::string>& a) {
	if (a.size() != 3) return "ERR usage";
	return nameMatch(unhex(a[1]), unhex(a[2])) ? "1" : "0";
}
static std::string cmd_matchc(const std::vector<std::string>& a) {
	if (a.size() != 3) return "ERR usage";
	return gen_c_copy::nameMatch(unhex(a[1]), unhex(a[2])) ? "1" : "0";
}

VD_REGISTER(match, cmd_match)
VD_REGISTER(matchc, cmd_matchc)

int main(int argc, char** argv) {
	std::ios::sync_with_stdio(false);
	setenv("USCXML_NOCACHE_FILES", "true", 1);
	std::string line;
	while (std::getline(std::cin, line)) {
		std::vector<std::string> a;
		std::istringstream iss(line);
		std::string t;
		while (iss >> t) a.push_back(t);
		if (a.empty()) { std::cout << "@@\n"; continue; }
		auto it = vd_commands().find(a[0]);
		std::string out;
		if (it == vd_commands().end()) out = "ERR unknown command";
		else {
			try { out = it->second(a); }
			catch (std::exception& e) { out = std::string("EXC ") + e.what(); }
			catch (...) { out = "EXC unknown"; }
		}
		std::cout << "@@" << out << "\n";
		std::cout.flush();
	}
	std::cout.flush();
	reap_drain(300);
	_exit(0);
}
